import SpVerif.Model.Dask
import SpVerif.Lemmas.BoxFacts
import SpVerif.Lemmas.RTree
/-! Bridges between the `Box` tests of the kernels and the `NBox` tests of the index / pruning layers (d = 2),
and the partition-bounds facts used by C06 / C12 / C04. Core Lean only. -/
namespace SpVerif.Dask
open SpVerif.Geom SpVerif.Frames SpVerif.RTree

def nbox (b : Box) : NBox := [b.x0, b.y0, b.x1, b.y1]

theorem range2 : List.range 2 = [0, 1] := by decide

theorem outside_nbox (b bb : Box) : outside 2 (nbox b) (nbox bb) = bboxOutside bb b := by
  simp only [outside, range2, nbox, lo, hi, List.any_cons, List.any_nil, bboxOutside, List.getD_cons_zero, List.getD_cons_succ]
  simp only [show (2 : Nat) + 0 = 2 by rfl, show (2 : Nat) + 1 = 3 by rfl, List.getD_cons_succ, List.getD_cons_zero, Bool.or_false]
  by_cases h1 : b.x1 < bb.x0 <;> by_cases h2 : b.x0 > bb.x1 <;> by_cases h3 : b.y1 < bb.y0 <;> by_cases h4 : b.y0 > bb.y1 <;>
    simp [h1, h2, h3, h4]

theorem inside_nbox (b bb : Box) : inside 2 (nbox b) (nbox bb) = true ↔ BoxSub bb b := by
  rw [inside_iff]
  simp only [nbox, lo, hi, BoxSub]
  constructor
  · intro h
    have h0 := h 0 (by omega); have h1 := h 1 (by omega)
    simp only [List.getD_cons_zero, List.getD_cons_succ, show (2 : Nat) + 0 = 2 by rfl, show (2 : Nat) + 1 = 3 by rfl] at h0 h1
    omega
  · intro h k hk
    have : k = 0 ∨ k = 1 := by omega
    rcases this with rfl | rfl <;>
      simp only [List.getD_cons_zero, List.getD_cons_succ, show (2 : Nat) + 0 = 2 by rfl, show (2 : Nat) + 1 = 3 by rfl] <;> omega

theorem sub_nbox (a c : Box) : RTree.Sub 2 (nbox a) (nbox c) ↔ BoxSub a c := by
  simp only [RTree.Sub, nbox, lo, hi, BoxSub]
  constructor
  · intro h
    have h0 := h 0 (by omega); have h1 := h 1 (by omega)
    simp only [List.getD_cons_zero, List.getD_cons_succ, show (2 : Nat) + 0 = 2 by rfl, show (2 : Nat) + 1 = 3 by rfl] at h0 h1
    omega
  · intro h k hk
    have : k = 0 ∨ k = 1 := by omega
    rcases this with rfl | rfl <;>
      simp only [List.getD_cons_zero, List.getD_cons_succ, show (2 : Nat) + 0 = 2 by rfl, show (2 : Nat) + 1 = 3 by rfl] <;> omega

theorem elemBounds_eq (e : Elem) (bb : Box) (h : bboxOf (elemVerts e) = some bb) : elemBounds (some e) = some (nbox bb) := by
  simp [elemBounds, h, nbox]

/-- the recorded bounds of a partition contain the bounds of every row in it -/
theorem totalBounds_upper (els : List (Option Elem)) (acc : Option NBox) :
    match els.foldl (fun acc e => unionOpt 2 acc (elemBounds e)) acc with
    | none => acc = none ∧ ∀ e ∈ els, elemBounds e = none
    | some B => (∀ a, acc = some a → RTree.Sub 2 a B) ∧ ∀ e ∈ els, ∀ b, elemBounds e = some b → RTree.Sub 2 b B := by
  induction els generalizing acc with
  | nil =>
    cases acc with
    | none => simp
    | some a => simp only [List.foldl_nil]; exact ⟨fun a' h => by cases h; exact sub_refl 2 a, by simp⟩
  | cons e es ih =>
    simp only [List.foldl_cons]
    have := ih (unionOpt 2 acc (elemBounds e))
    cases hres : es.foldl (fun acc e => unionOpt 2 acc (elemBounds e)) (unionOpt 2 acc (elemBounds e)) with
    | none =>
      rw [hres] at this
      obtain ⟨h1, h2⟩ := this
      cases acc with
      | none =>
        cases he : elemBounds e with
        | none => exact ⟨rfl, fun x hx => by simp only [List.mem_cons] at hx; rcases hx with rfl | hx; exact he; exact h2 x hx⟩
        | some b => rw [he] at h1; simp [unionOpt] at h1
      | some a => cases he : elemBounds e <;> rw [he] at h1 <;> simp [unionOpt] at h1
    | some B =>
      rw [hres] at this
      simp only at this ⊢
      obtain ⟨h1, h2⟩ := this
      refine ⟨?_, ?_⟩
      · intro a ha
        subst ha
        cases he : elemBounds e with
        | none => rw [he] at h1; exact h1 a (by simp [unionOpt])
        | some b => rw [he] at h1; exact sub_trans (sub_union_left 2 a b) (h1 _ (by simp [unionOpt]))
      · intro x hx b hb
        simp only [List.mem_cons] at hx
        rcases hx with rfl | hx
        · rw [hb] at h1
          cases acc with
          | none => exact h1 b (by simp [unionOpt])
          | some a => exact sub_trans (sub_union_right 2 a b) (h1 _ (by simp [unionOpt]))
        · exact h2 x hx b hb

theorem totalBounds_contains (els : List (Option Elem)) (e : Option Elem) (he : e ∈ els) (b : NBox) (hb : elemBounds e = some b) :
    ∃ B, totalBounds els = some B ∧ RTree.Sub 2 b B := by
  have := totalBounds_upper els none
  unfold totalBounds
  cases h : els.foldl (fun acc e => unionOpt 2 acc (elemBounds e)) none with
  | none => rw [h] at this; have := this.2 e he; rw [hb] at this; cases this
  | some B => rw [h] at this; exact ⟨B, rfl, this.2 e he b hb⟩

/-- **partition pruning loses no row**: a partition holding a row that intersects the (oriented) box is kept -/
theorem cxPartitions_keeps (b : Box) (hb : orientBox b = b) (parts : List Part) (i : Nat) (hi : i < parts.length)
    (e : Elem) (he : some e ∈ parts.getD i []) (hit : elemIB b (some e) = true) : i ∈ cxPartitions b parts := by
  obtain ⟨bb, hbb, ho⟩ := elemIB_overlaps b e hit
  rw [hb] at ho
  obtain ⟨B, hB, hsub⟩ := totalBounds_contains (parts.getD i []) (some e) he (nbox bb) (elemBounds_eq e bb hbb)
  unfold cxPartitions
  simp only [List.mem_filterMap, Prod.exists]
  refine ⟨i, some B, ?_, ?_⟩
  · apply List.mem_iff_getElem.mpr
    refine ⟨i, by simp [partitionBounds, hi], ?_⟩
    simp only [List.getElem_zip, List.getElem_range, partitionBounds, List.getElem_map, Prod.mk.injEq, true_and]
    rw [← hB]
    congr 1
    simp [List.getD_eq_getElem?_getD, List.getElem?_eq_getElem hi]
  · have : boxOverlaps (nbox b) (some B) = true := by
      simp only [boxOverlaps, Bool.not_eq_true']
      rw [Bool.eq_false_iff]
      intro hout
      have := outside_mono hsub hout
      rw [outside_nbox] at this
      rw [ho] at this; cases this
    simp only [nbox] at this
    simp [this]

end SpVerif.Dask
