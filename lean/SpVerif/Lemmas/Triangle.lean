import SpVerif.Lemmas.Winding
import Mathlib.Tactic.Linarith
import Mathlib.Tactic.Ring
/-! C02: for a non-degenerate triangle the coded winding number about a strictly interior point is the orientation (±1). -/
namespace SpVerif.Geom

theorem bary_y (a b c p : Pt) :
    orientI a b p * (c.2 - p.2) + orientI b c p * (a.2 - p.2) + orientI c a p * (b.2 - p.2) = 0 := by
  unfold orientI; ring

/-- a point strictly to the left of all three edges has a vertex strictly below it and a vertex at or above it -/
theorem triangle_levels (a b c p : Pt) (h1 : 0 < orientI a b p) (h2 : 0 < orientI b c p) (h3 : 0 < orientI c a p) :
    ¬ (p.2 ≤ a.2 ∧ p.2 ≤ b.2 ∧ p.2 ≤ c.2) ∧ ¬ (a.2 < p.2 ∧ b.2 < p.2 ∧ c.2 < p.2) := by
  have hb := bary_y a b c p
  constructor
  · rintro ⟨ga, gb, gc⟩
    have t1 := Int.mul_nonneg (by omega : 0 ≤ orientI a b p) (by omega : 0 ≤ c.2 - p.2)
    have t2 := Int.mul_nonneg (by omega : 0 ≤ orientI b c p) (by omega : 0 ≤ a.2 - p.2)
    have t3 := Int.mul_nonneg (by omega : 0 ≤ orientI c a p) (by omega : 0 ≤ b.2 - p.2)
    have z1 : orientI a b p * (c.2 - p.2) = 0 := by omega
    have z2 : orientI b c p * (a.2 - p.2) = 0 := by omega
    have z3 : orientI c a p * (b.2 - p.2) = 0 := by omega
    have ec : c.2 - p.2 = 0 := by
      rcases Int.mul_eq_zero.mp z1 with h | h
      · omega
      · exact h
    have ea : a.2 - p.2 = 0 := by
      rcases Int.mul_eq_zero.mp z2 with h | h
      · omega
      · exact h
    have eb : b.2 - p.2 = 0 := by
      rcases Int.mul_eq_zero.mp z3 with h | h
      · omega
      · exact h
    have : orientI a b p = 0 := by
      unfold orientI
      have e1 : p.2 - a.2 = 0 := by omega
      have e2 : b.2 - a.2 = 0 := by omega
      rw [e1, e2]; simp
    omega
  · rintro ⟨ga, gb, gc⟩
    have t1 := Int.mul_lt_mul_of_pos_left (by omega : c.2 - p.2 < 0) h1
    have t2 := Int.mul_lt_mul_of_pos_left (by omega : a.2 - p.2 < 0) h2
    have t3 := Int.mul_lt_mul_of_pos_left (by omega : b.2 - p.2 < 0) h3
    simp only [Int.mul_zero] at t1 t2 t3
    omega

/-- counter-clockwise triangle, `p` strictly to the left of all three edges: winding number `+1` -/
theorem triangle_ccw_inside (a b c p : Pt) (h1 : 0 < orientI a b p) (h2 : 0 < orientI b c p) (h3 : 0 < orientI c a p) :
    windSum p [a, b, c, a] = 1 := by
  obtain ⟨l1, l2⟩ := triangle_levels a b c p h1 h2 h3
  simp only [windSum, edgeContrib_eq]
  have n1 : ¬ orientI a b p ≤ 0 := by omega
  have n2 : ¬ orientI b c p ≤ 0 := by omega
  have n3 : ¬ orientI c a p ≤ 0 := by omega
  have p1 : 0 ≤ orientI a b p := by omega
  have p2 : 0 ≤ orientI b c p := by omega
  have p3 : 0 ≤ orientI c a p := by omega
  simp only [n1, n2, n3, p1, p2, p3, and_false, and_true, if_false]
  split <;> split <;> split <;> omega

/-- clockwise triangle, `p` strictly to the right of all three edges: winding number `-1` -/
theorem triangle_cw_inside (a b c p : Pt) (h1 : orientI a b p < 0) (h2 : orientI b c p < 0) (h3 : orientI c a p < 0) :
    windSum p [a, b, c, a] = -1 := by
  have hr := windSum_reverse p [a, c, b, a]
  have e : [a, c, b, a].reverse = [a, b, c, a] := rfl
  rw [e] at hr
  rw [hr, triangle_ccw_inside a c b p (by rw [orientI_swap]; omega) (by rw [orientI_swap]; omega) (by rw [orientI_swap]; omega)]

theorem orient_sum (a b c p : Pt) : orientI a b p + orientI b c p + orientI c a p = orientI a b c := by
  unfold orientI; ring

set_option maxHeartbeats 1600000 in
/-- counter-clockwise triangle: the winding number is non-zero only inside the closed triangle (27 sign patterns of the three
orientations x 8 height patterns of the vertices; the impossible ones are excluded by the barycentric identity `bary_y`) -/
theorem triangle_ccw_nonzero_imp (a b c p : Pt) (hA : 0 < orientI a b c) (hW : windSum p [a, b, c, a] ≠ 0) :
    0 ≤ orientI a b p ∧ 0 ≤ orientI b c p ∧ 0 ≤ orientI c a p := by
  have hb := bary_y a b c p
  have hs := orient_sum a b c p
  simp only [windSum, edgeContrib_eq] at hW
  rcases Int.lt_trichotomy (orientI a b p) 0 with o1 | o1 | o1 <;>
  rcases Int.lt_trichotomy (orientI b c p) 0 with o2 | o2 | o2 <;>
  rcases Int.lt_trichotomy (orientI c a p) 0 with o3 | o3 | o3 <;>
  by_cases ga : p.2 ≤ a.2 <;> by_cases gb : p.2 ≤ b.2 <;> by_cases gc : p.2 ≤ c.2 <;>
    first
      | exact ⟨by omega, by omega, by omega⟩
      | (exfalso
         have la : (a.2 < p.2) ↔ ¬ p.2 ≤ a.2 := by omega
         have lb : (b.2 < p.2) ↔ ¬ p.2 ≤ b.2 := by omega
         have lc : (c.2 < p.2) ↔ ¬ p.2 ≤ c.2 := by omega
         first
           | (simp only [la, lb, lc, ga, gb, gc, o1, o2, o3, Int.le_refl, Int.lt_irrefl, not_true_eq_false, not_false_eq_true,
                true_and, false_and, and_true, and_false, if_true, if_false] at hW; omega)
           | nlinarith [hb, hs, hA])

/-- counter-clockwise triangle, `p` strictly on the wrong side of some edge: winding number `0` -/
theorem triangle_ccw_outside (a b c p : Pt) (hA : 0 < orientI a b c)
    (hout : orientI a b p < 0 ∨ orientI b c p < 0 ∨ orientI c a p < 0) : windSum p [a, b, c, a] = 0 := by
  by_cases h : windSum p [a, b, c, a] = 0
  · exact h
  · obtain ⟨h1, h2, h3⟩ := triangle_ccw_nonzero_imp a b c p hA h
    omega

/-- clockwise triangle, `p` strictly on the wrong side of some edge: winding number `0` -/
theorem triangle_cw_outside (a b c p : Pt) (hA : orientI a b c < 0)
    (hout : 0 < orientI a b p ∨ 0 < orientI b c p ∨ 0 < orientI c a p) : windSum p [a, b, c, a] = 0 := by
  have hr := windSum_reverse p [a, c, b, a]
  have e : [a, c, b, a].reverse = [a, b, c, a] := rfl
  rw [e] at hr
  have hA' : 0 < orientI a c b := by
    have e1 : orientI a c b = - orientI a b c := by unfold orientI; ring
    omega
  have := triangle_ccw_outside a c b p hA' (by
    rw [orientI_swap c a p, orientI_swap b c p, orientI_swap a b p]
    omega)
  rw [hr, this]; rfl

set_option maxHeartbeats 1600000 in
/-- degenerate (collinear) triangle: a non-zero winding number would force `p` onto the common line (same 27 x 8 split) -/
theorem triangle_degenerate_nonzero_imp (a b c p : Pt) (hA : orientI a b c = 0) (hW : windSum p [a, b, c, a] ≠ 0) :
    orientI a b p = 0 ∧ orientI b c p = 0 ∧ orientI c a p = 0 := by
  have hb := bary_y a b c p
  have hs := orient_sum a b c p
  simp only [windSum, edgeContrib_eq] at hW
  rcases Int.lt_trichotomy (orientI a b p) 0 with o1 | o1 | o1 <;>
  rcases Int.lt_trichotomy (orientI b c p) 0 with o2 | o2 | o2 <;>
  rcases Int.lt_trichotomy (orientI c a p) 0 with o3 | o3 | o3 <;>
  by_cases ga : p.2 ≤ a.2 <;> by_cases gb : p.2 ≤ b.2 <;> by_cases gc : p.2 ≤ c.2 <;>
    first
      | exact ⟨by omega, by omega, by omega⟩
      | (exfalso
         have la : (a.2 < p.2) ↔ ¬ p.2 ≤ a.2 := by omega
         have lb : (b.2 < p.2) ↔ ¬ p.2 ≤ b.2 := by omega
         have lc : (c.2 < p.2) ↔ ¬ p.2 ≤ c.2 := by omega
         first
           | (simp only [la, lb, lc, ga, gb, gc, o1, o2, o3, Int.le_refl, Int.lt_irrefl, not_true_eq_false, not_false_eq_true,
                true_and, false_and, and_true, and_false, if_true, if_false] at hW; omega)
           | nlinarith [hb, hs, hA])

/-- **a degenerate triangle has winding number 0 about every point** (on its line the three contributions telescope) -/
theorem triangle_degenerate (a b c p : Pt) (hA : orientI a b c = 0) : windSum p [a, b, c, a] = 0 := by
  by_cases h : windSum p [a, b, c, a] = 0
  · exact h
  · obtain ⟨h1, h2, h3⟩ := triangle_degenerate_nonzero_imp a b c p hA h
    simp only [windSum, edgeContrib_eq, h1, h2, h3, Int.le_refl, and_true]
    by_cases ga : p.2 ≤ a.2 <;> by_cases gb : p.2 ≤ b.2 <;> by_cases gc : p.2 ≤ c.2 <;>
      (have la : (a.2 < p.2) ↔ ¬ p.2 ≤ a.2 := by omega
       have lb : (b.2 < p.2) ↔ ¬ p.2 ≤ b.2 := by omega
       have lc : (c.2 < p.2) ↔ ¬ p.2 ≤ c.2 := by omega
       simp [la, lb, lc, ga, gb, gc])

end SpVerif.Geom
