import SpVerif.Lemmas.Winding
/-! C02: for a non-degenerate triangle the coded winding number about a strictly interior point is the orientation (±1). -/
namespace SpVerif.Geom

theorem bary_y (a b c p : Pt) :
    orientI a b p * (c.2 - p.2) + orientI b c p * (a.2 - p.2) + orientI c a p * (b.2 - p.2) = 0 := by
  unfold orientI; ring

/-- a point strictly to the left of all three edges has a vertex strictly below it and a vertex at or above it -/
theorem triangle_levels (a b c p : Pt) (h1 : 0 < orientI a b p) (h2 : 0 < orientI b c p) (h3 : 0 < orientI c a p) :
    ¬ (p.2 ≤ a.2 ∧ p.2 ≤ b.2 ∧ p.2 ≤ c.2) ∧ ¬ (a.2 < p.2 ∧ b.2 < p.2 ∧ c.2 < p.2) := by
  have hb := bary_y a b c p
  constructor
  · rintro ⟨ga, gb, gc⟩
    have t1 := Int.mul_nonneg (by omega : 0 ≤ orientI a b p) (by omega : 0 ≤ c.2 - p.2)
    have t2 := Int.mul_nonneg (by omega : 0 ≤ orientI b c p) (by omega : 0 ≤ a.2 - p.2)
    have t3 := Int.mul_nonneg (by omega : 0 ≤ orientI c a p) (by omega : 0 ≤ b.2 - p.2)
    have z1 : orientI a b p * (c.2 - p.2) = 0 := by omega
    have z2 : orientI b c p * (a.2 - p.2) = 0 := by omega
    have z3 : orientI c a p * (b.2 - p.2) = 0 := by omega
    have ec : c.2 - p.2 = 0 := by
      rcases Int.mul_eq_zero.mp z1 with h | h
      · omega
      · exact h
    have ea : a.2 - p.2 = 0 := by
      rcases Int.mul_eq_zero.mp z2 with h | h
      · omega
      · exact h
    have eb : b.2 - p.2 = 0 := by
      rcases Int.mul_eq_zero.mp z3 with h | h
      · omega
      · exact h
    have : orientI a b p = 0 := by
      unfold orientI
      have e1 : p.2 - a.2 = 0 := by omega
      have e2 : b.2 - a.2 = 0 := by omega
      rw [e1, e2]; simp
    omega
  · rintro ⟨ga, gb, gc⟩
    have t1 := Int.mul_lt_mul_of_pos_left (by omega : c.2 - p.2 < 0) h1
    have t2 := Int.mul_lt_mul_of_pos_left (by omega : a.2 - p.2 < 0) h2
    have t3 := Int.mul_lt_mul_of_pos_left (by omega : b.2 - p.2 < 0) h3
    simp only [Int.mul_zero] at t1 t2 t3
    omega

/-- counter-clockwise triangle, `p` strictly to the left of all three edges: winding number `+1` -/
theorem triangle_ccw_inside (a b c p : Pt) (h1 : 0 < orientI a b p) (h2 : 0 < orientI b c p) (h3 : 0 < orientI c a p) :
    windSum p [a, b, c, a] = 1 := by
  obtain ⟨l1, l2⟩ := triangle_levels a b c p h1 h2 h3
  simp only [windSum, edgeContrib_eq]
  have n1 : ¬ orientI a b p ≤ 0 := by omega
  have n2 : ¬ orientI b c p ≤ 0 := by omega
  have n3 : ¬ orientI c a p ≤ 0 := by omega
  have p1 : 0 ≤ orientI a b p := by omega
  have p2 : 0 ≤ orientI b c p := by omega
  have p3 : 0 ≤ orientI c a p := by omega
  simp only [n1, n2, n3, p1, p2, p3, and_false, and_true, if_false]
  split <;> split <;> split <;> omega

/-- clockwise triangle, `p` strictly to the right of all three edges: winding number `-1` -/
theorem triangle_cw_inside (a b c p : Pt) (h1 : orientI a b p < 0) (h2 : orientI b c p < 0) (h3 : orientI c a p < 0) :
    windSum p [a, b, c, a] = -1 := by
  have hr := windSum_reverse p [a, c, b, a]
  have e : [a, c, b, a].reverse = [a, b, c, a] := rfl
  rw [e] at hr
  rw [hr, triangle_ccw_inside a c b p (by rw [orientI_swap]; omega) (by rw [orientI_swap]; omega) (by rw [orientI_swap]; omega)]

end SpVerif.Geom
