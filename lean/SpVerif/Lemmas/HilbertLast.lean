import SpVerif.Lemmas.HilbertOrigin
/-!
# C07: the curve ends at `(2^p − 1, 0, …, 0)`, in every dimension and for every order `p ≥ 1`
-/
namespace SpVerif.Hilbert

/-- the state after the Gray decode of the all-ones transpose: only the top bit of word 0 -/
def topState (p n : Nat) : List Nat := 2 ^ (p - 1) :: List.replicate (n - 1) 0

theorem ones_testBit (p e : Nat) : (2 ^ p - 1).testBit e = decide (e < p) := Nat.testBit_two_pow_sub_one p e

theorem transposeWord_ones (p n i : Nat) (hi : i < n) : transposeWord p n i (2 ^ (n * p) - 1) = 2 ^ p - 1 := by
  apply Nat.eq_of_testBit_eq
  intro e
  unfold transposeWord
  rw [testBit_bitsum, ones_testBit, ones_testBit]
  by_cases he : e < p
  · have h1 : n * e + (n - 1 - i) < n * p := by
      have : n * e + n ≤ n * p := by
        have := Nat.mul_le_mul_left n (Nat.succ_le_of_lt he)
        rw [Nat.mul_succ] at this; exact this
      omega
    simp [he, h1]
  · simp [he]

theorem toTranspose_ones (p n : Nat) : toTranspose p n (2 ^ (n * p) - 1) = List.replicate n (2 ^ p - 1) := by
  unfold toTranspose
  apply List.ext_getElem
  · simp
  · intro k h1 h2
    simp only [List.getElem_map, List.getElem_range, List.getElem_replicate]
    exact transposeWord_ones p n k (by simpa using h1)

theorem ones_xor_shift (p : Nat) (hp : 1 ≤ p) : (2 ^ p - 1) ^^^ ((2 ^ p - 1) >>> 1) = 2 ^ (p - 1) := by
  apply Nat.eq_of_testBit_eq
  intro e
  rw [Nat.testBit_xor, Nat.testBit_shiftRight, ones_testBit, ones_testBit, Nat.testBit_two_pow]
  by_cases h1 : e < p <;> by_cases h2 : 1 + e < p <;> by_cases h3 : p - 1 = e <;> simp [h1, h2, h3] <;> omega

theorem getD_replicate (n i v : Nat) : (List.replicate n v).getD i 0 = if i < n then v else 0 := by
  simp [List.getD_eq_getElem?_getD, List.getElem?_replicate]
  split <;> rfl

theorem grayDecodeN_ones (p n : Nat) (hp : 1 ≤ p) (hn : 1 ≤ n) : grayDecodeN (List.replicate n (2 ^ p - 1)) = topState p n := by
  unfold grayDecodeN topState
  apply List.ext_getElem
  · simp; omega
  · intro k h1 h2
    simp only [List.length_replicate, List.getElem_map, List.getElem_range, getD_replicate]
    have hk : k < n := by simpa using h1
    by_cases hk0 : k = 0
    · subst hk0
      have h1' : n - 1 < n := by omega
      simp only [if_true, if_pos hk, if_pos h1', List.getElem_cons_zero]
      exact ones_xor_shift p hp
    · obtain ⟨m, rfl⟩ : ∃ m, k = m + 1 := ⟨k - 1, by omega⟩
      have h3 : m < n := by omega
      have h4 : m + 1 - 1 = m := rfl
      simp only [hk0, if_false, if_pos hk, h4, if_pos h3, Nat.xor_self, List.getElem_cons_succ, List.getElem_replicate]

theorem topState_getD (p n i : Nat) : (topState p n).getD i 0 = if i = 0 then 2 ^ (p - 1) else 0 := by
  unfold topState
  cases i with
  | zero => simp
  | succ j =>
    simp only [List.getD_cons_succ, getD_replicate]
    split <;> simp

theorem topState_set_self (p n : Nat) : (topState p n).set 0 (2 ^ (p - 1)) = topState p n := by
  unfold topState; rfl

theorem topState_set_zero (p n i : Nat) (hi : 1 ≤ i) : (topState p n).set i 0 = topState p n := by
  unfold topState
  obtain ⟨j, rfl⟩ : ∃ j, i = j + 1 := ⟨i - 1, by omega⟩
  simp only [List.set_cons_succ]
  congr 1
  apply List.ext_getElem
  · simp
  · intro k h1 h2
    simp [List.getElem_set]

theorem top_and_low (p q : Nat) (hq : q ≤ p - 1) : 2 ^ (p - 1) &&& (2 ^ q - 1) = 0 := by
  apply Nat.eq_of_testBit_eq
  intro e
  rw [Nat.testBit_and, Nat.testBit_two_pow, ones_testBit, Nat.zero_testBit]
  by_cases h1 : p - 1 = e <;> by_cases h2 : e < q <;> simp [h1, h2] <;> omega

/-- a step below the top bit, or at the top bit for a word other than word 0, leaves the state alone -/
theorem step_top_id (p n q i : Nat) (hq : q ≤ p - 1) (h : q < p - 1 ∨ 1 ≤ i) : step q i (topState p n) = topState p n := by
  have h0 : (topState p n).getD 0 0 = 2 ^ (p - 1) := by rw [topState_getD]; simp
  by_cases hi : i = 0
  · subst hi
    have hq' : q < p - 1 := by omega
    have hb : (2 ^ (p - 1)).testBit q = false := by rw [Nat.testBit_two_pow]; simp; omega
    simp only [step, h0, hb, Bool.false_eq_true, if_false, Nat.xor_self, Nat.zero_and, Nat.xor_zero, topState_set_self]
  · have hi' : (topState p n).getD i 0 = 0 := by rw [topState_getD]; simp [hi]
    simp only [step, h0, hi', Nat.zero_testBit, Bool.false_eq_true, if_false, Nat.xor_zero, top_and_low p q hq, topState_set_self,
      Nat.xor_self]
    exact topState_set_zero p n i (by omega)

theorem foldl_step_top_id (p n q : Nat) (hq : q ≤ p - 1) (is : List Nat) (h : q < p - 1 ∨ ∀ i ∈ is, 1 ≤ i) :
    is.foldl (fun Z i => step q i Z) (topState p n) = topState p n := by
  induction is with
  | nil => rfl
  | cons i is ih =>
    simp only [List.foldl_cons]
    rw [step_top_id p n q i hq (h.elim Or.inl (fun h' => Or.inr (h' i (by simp))))]
    exact ih (h.elim Or.inl (fun h' => Or.inr (fun j hj => h' j (List.mem_cons_of_mem _ hj))))

theorem undoLoopN_top_id (p n : Nat) : ∀ k, k ≤ p - 1 → undoLoopN n k (topState p n) = topState p n
  | 0, _ => rfl
  | 1, _ => rfl
  | k + 2, hk => by
    simp only [undoLoopN]
    rw [undoLoopN_top_id p n (k + 1) (by omega)]
    exact foldl_step_top_id p n (k + 1) (by omega) _ (Or.inl (by omega))

theorem top_xor_low (m : Nat) : 2 ^ m ^^^ (2 ^ m - 1) = 2 ^ (m + 1) - 1 := by
  apply Nat.eq_of_testBit_eq
  intro e
  rw [Nat.testBit_xor, Nat.testBit_two_pow, ones_testBit, ones_testBit]
  by_cases h1 : m = e <;> by_cases h2 : e < m <;> by_cases h3 : e < m + 1 <;> simp [h1, h2, h3] <;> omega

theorem range_reverse_split (n : Nat) (hn : 1 ≤ n) : (List.range n).reverse = ((List.range (n - 1)).map (· + 1)).reverse ++ [0] := by
  obtain ⟨m, rfl⟩ : ∃ m, n = m + 1 := ⟨n - 1, by omega⟩
  rw [List.range_succ_eq_map, List.reverse_cons]
  simp [Nat.succ_eq_add_one, Function.comp_def]

/-- **the last distance is the cell `(2^p − 1, 0, …, 0)`** -/
theorem coordN_last (p n : Nat) (hp : 1 ≤ p) (hn : 1 ≤ n) :
    coordN p n (2 ^ (n * p) - 1) = (2 ^ p - 1) :: List.replicate (n - 1) 0 := by
  unfold coordN
  rw [toTranspose_ones, grayDecodeN_ones p n hp hn]
  obtain ⟨m, rfl⟩ : ∃ m, p = m + 1 := ⟨p - 1, by omega⟩
  cases m with
  | zero => simp [undoLoopN, topState]
  | succ m =>
    simp only [undoLoopN]
    rw [undoLoopN_top_id (m + 2) n (m + 1) (by omega), range_reverse_split n hn, List.foldl_append]
    rw [foldl_step_top_id (m + 2) n (m + 1) (by omega) _ (Or.inr (by
      intro i hi
      simp only [List.mem_reverse, List.mem_map] at hi
      obtain ⟨j, _, rfl⟩ := hi
      omega))]
    simp only [List.foldl_cons, List.foldl_nil]
    unfold step
    simp only [topState_getD, if_true]
    have hb : (2 ^ (m + 2 - 1)).testBit (m + 1) = true := by
      rw [Nat.testBit_two_pow]; simp
    rw [hb]
    simp only [if_true]
    have e : m + 2 - 1 = m + 1 := by omega
    rw [e, top_xor_low (m + 1)]
    unfold topState
    simp [e]

end SpVerif.Hilbert
