import SpVerif.Lemmas.LineBox
import SpVerif.Lemmas.Area
/-! C02: point on segment, the edge rule of the winding loop and its symmetries. -/
namespace SpVerif.Geom

theorem param_range (a b p : Int) (hne : a ≠ b) (h1 : min a b ≤ p) (h2 : p ≤ max a b) :
    0 ≤ ((p : ℚ) - a) / (b - a) ∧ ((p : ℚ) - a) / (b - a) ≤ 1 := by
  rcases lt_or_gt_of_ne hne with hlt | hgt
  · have hp1 : a ≤ p := by omega
    have hp2 : p ≤ b := by omega
    have q1 : (a : ℚ) ≤ p := by exact_mod_cast hp1
    have q2 : (p : ℚ) ≤ b := by exact_mod_cast hp2
    have q3 : (a : ℚ) < b := by exact_mod_cast hlt
    have hd : (0 : ℚ) < b - a := by linarith
    exact ⟨div_nonneg (by linarith) hd.le, by rw [div_le_one hd]; linarith⟩
  · have hp1 : b ≤ p := by omega
    have hp2 : p ≤ a := by omega
    have q1 : (b : ℚ) ≤ p := by exact_mod_cast hp1
    have q2 : (p : ℚ) ≤ a := by exact_mod_cast hp2
    have q3 : (b : ℚ) < a := by exact_mod_cast hgt
    have hd : (b : ℚ) - a < 0 := by linarith
    exact ⟨div_nonneg_of_nonpos (by linarith) hd.le, by rw [div_le_one_of_neg hd]; linarith⟩

/-- **`segment_intersects_point` is exact** (zero-length segments included) -/
theorem segPoint_iff (p : Pt) (s : Pt × Pt) : segPoint p s = true ↔ OnSeg s.1 s.2 ((p.1 : ℚ), (p.2 : ℚ)) := by
  obtain ⟨⟨ax, ay⟩, ⟨bx, by_⟩⟩ := s
  obtain ⟨px, py⟩ := p
  simp only [segPoint, OnSeg]
  constructor
  · intro h
    split at h
    · cases h
    · next hx =>
      split at h
      · cases h
      · next hy =>
        simp only [Bool.or_eq_true, decide_eq_true_eq, not_or, not_lt] at hx hy
        simp only [beq_iff_eq] at h
        have hcross : ((bx : ℚ) - ax) * (py - ay) - (by_ - ay) * (px - ax) = 0 := by exact_mod_cast h
        by_cases hdx : ax = bx
        · by_cases hdy : ay = by_
          · -- a = b: p = a
            subst hdx; subst hdy
            have e1 : px = ax := by have := hx.1; have := hx.2; omega
            have e2 : py = ay := by have := hy.1; have := hy.2; omega
            exact ⟨0, le_refl _, by norm_num, by simp [e1], by simp [e2]⟩
          · -- vertical segment: parametrise by y
            subst hdx
            have hpx : px = ax := by have := hx.1; have := hx.2; omega
            subst hpx
            obtain ⟨r0, r1⟩ := param_range ay by_ py hdy hy.1 hy.2
            have hden : ((by_ : ℚ) - ay) ≠ 0 := by
              intro hc; apply hdy; have : (by_ : ℚ) = ay := by linarith
              exact_mod_cast this.symm
            refine ⟨((py : ℚ) - ay) / (by_ - ay), r0, r1, by simp, ?_⟩
            show (py : ℚ) = ay + ((py : ℚ) - ay) / (by_ - ay) * (by_ - ay)
            rw [div_mul_cancel₀ _ hden]; ring
        · -- parametrise by x
          obtain ⟨r0, r1⟩ := param_range ax bx px hdx hx.1 hx.2
          have hden : ((bx : ℚ) - ax) ≠ 0 := by
            intro hc; apply hdx; have : (bx : ℚ) = ax := by linarith
            exact_mod_cast this.symm
          refine ⟨((px : ℚ) - ax) / (bx - ax), r0, r1, ?_, ?_⟩
          · show (px : ℚ) = ax + ((px : ℚ) - ax) / (bx - ax) * (bx - ax)
            rw [div_mul_cancel₀ _ hden]; ring
          · show (py : ℚ) = ay + ((px : ℚ) - ax) / (bx - ax) * (by_ - ay)
            field_simp
            linarith
  · rintro ⟨t, t0, t1, e1, e2⟩
    have hx1 : min ax bx ≤ px ∧ px ≤ max ax bx := by
      have h1 : (min (ax : ℚ) bx) ≤ px ∧ (px : ℚ) ≤ max (ax : ℚ) bx := by
        rw [e1]
        rcases le_total (ax : ℚ) bx with h | h
        · rw [min_eq_left h, max_eq_right h]; constructor <;> nlinarith
        · rw [min_eq_right h, max_eq_left h]; constructor <;> nlinarith
      constructor
      · have := h1.1; exact_mod_cast this
      · have := h1.2; exact_mod_cast this
    have hy1 : min ay by_ ≤ py ∧ py ≤ max ay by_ := by
      have h1 : (min (ay : ℚ) by_) ≤ py ∧ (py : ℚ) ≤ max (ay : ℚ) by_ := by
        rw [e2]
        rcases le_total (ay : ℚ) by_ with h | h
        · rw [min_eq_left h, max_eq_right h]; constructor <;> nlinarith
        · rw [min_eq_right h, max_eq_left h]; constructor <;> nlinarith
      constructor
      · have := h1.1; exact_mod_cast this
      · have := h1.2; exact_mod_cast this
    have c1 : ¬ (px < min ax bx ∨ px > max ax bx) := by omega
    have c2 : ¬ (py < min ay by_ ∨ py > max ay by_) := by omega
    simp only [Bool.or_eq_true, decide_eq_true_eq, c1, c2, if_false, beq_iff_eq]
    have : (((bx - ax) * (py - ay) - (by_ - ay) * (px - ax) : Int) : ℚ) = 0 := by
      push_cast; rw [e1, e2]; ring
    exact_mod_cast this

end SpVerif.Geom

namespace SpVerif.Geom

/-- twice the signed area of the triangle `a b p`: positive when `p` lies to the left of the directed line `a → b` -/
def orientI (a b p : Pt) : Int := (b.1 - a.1) * (p.2 - a.2) - (b.2 - a.2) * (p.1 - a.1)

theorem orientI_swap (a b p : Pt) : orientI b a p = - orientI a b p := by
  unfold orientI; ring

/-- **the edge rule**: the coded contribution of the directed edge `a → b` at `p` in closed form.  Half-open in `y`
(`lower.y < p.y ≤ upper.y`), closed on the edge's line (`orient ≥ 0` counts): this pins every comparison of the kernel -/
theorem edgeContrib_eq (p a b : Pt) :
    edgeContrib p a b =
      if a.2 < p.2 ∧ p.2 ≤ b.2 ∧ 0 ≤ orientI a b p then 1
      else if b.2 < p.2 ∧ p.2 ≤ a.2 ∧ orientI a b p ≤ 0 then -1 else 0 := by
  obtain ⟨ax, ay⟩ := a; obtain ⟨bx, by_⟩ := b; obtain ⟨px, py⟩ := p
  simp only [edgeContrib, orientI]
  have hA : (ax - px) * (by_ - py) - (ay - py) * (bx - px) = (bx - ax) * (py - ay) - (by_ - ay) * (px - ax) := by ring
  have hD : (bx - px) * (ay - py) - (by_ - py) * (ax - px) = -((bx - ax) * (py - ay) - (by_ - ay) * (px - ax)) := by ring
  have sA1 : ay < py → py ≤ by_ → ax < px → bx < px → (ax - px) * (by_ - py) - (ay - py) * (bx - px) < 0 := by
    intro h1 h2 h3 h4; nlinarith
  have sA2 : ay < py → py ≤ by_ → ax ≥ px → bx ≥ px → 0 ≤ (ax - px) * (by_ - py) - (ay - py) * (bx - px) := by
    intro h1 h2 h3 h4; nlinarith
  have sD1 : by_ < py → py ≤ ay → bx < px → ax < px → (bx - px) * (ay - py) - (by_ - py) * (ax - px) < 0 := by
    intro h1 h2 h3 h4; nlinarith
  have sD2 : by_ < py → py ≤ ay → bx ≥ px → ax ≥ px → 0 ≤ (bx - px) * (ay - py) - (by_ - py) * (ax - px) := by
    intro h1 h2 h3 h4; nlinarith
  set X := (ax - px) * (by_ - py) - (ay - py) * (bx - px) with hX
  set Y := (bx - px) * (ay - py) - (by_ - py) * (ax - px) with hY
  simp only [← hA] at hD ⊢
  clear_value X Y
  clear hA
  by_cases e1 : by_ = ay
  · subst e1
    have n1 : ¬ (by_ < py ∧ py ≤ by_ ∧ 0 ≤ X) := by omega
    have n2 : ¬ (by_ < py ∧ py ≤ by_ ∧ X ≤ 0) := by omega
    simp [n1, n2]
  · have hb : (by_ == ay) = false := by simpa using e1
    simp only [hb, Bool.false_eq_true, if_false]
    by_cases hdesc : by_ < ay
    · -- descending: lower end is b, upper end is a
      simp only [hdesc, if_true]
      simp only [← hY]
      have na : ¬ (ay < py ∧ py ≤ by_ ∧ 0 ≤ X) := by omega
      simp only [na, if_false]
      by_cases hband : by_ < py ∧ py ≤ ay
      · obtain ⟨hb1, hb2⟩ := hband
        by_cases l1 : bx < px <;> by_cases l2 : ax < px
        · have := sD1 hb1 hb2 l1 l2
          have nd : ¬ (by_ < py ∧ py ≤ ay ∧ X ≤ 0) := by omega
          have g1 : ¬ by_ ≥ py := by omega
          have g2 : ¬ ay < py := by omega
          simp [g1, g2, l1, l2, nd]
        · have g1 : ¬ by_ ≥ py := by omega
          have g2 : ¬ ay < py := by omega
          have r2 : ax ≥ px := by omega
          have r1 : ¬ bx ≥ px := by omega
          by_cases hs : X ≤ 0
          · have d1 : Y > 0 ∨ Y = 0 := by omega
            have yes : by_ < py ∧ py ≤ ay ∧ X ≤ 0 := ⟨hb1, hb2, hs⟩
            rcases d1 with d | d <;> simp [g1, g2, l1, l2, r1, r2, d, yes]
          · have d1 : ¬ Y > 0 := by omega
            have d2 : ¬ Y = 0 := by omega
            have no : ¬ (by_ < py ∧ py ≤ ay ∧ X ≤ 0) := fun h => hs h.2.2
            simp [g1, g2, l1, l2, r1, r2, d1, d2, no]
        · have g1 : ¬ by_ ≥ py := by omega
          have g2 : ¬ ay < py := by omega
          have r1 : bx ≥ px := by omega
          have r2 : ¬ ax ≥ px := by omega
          by_cases hs : X ≤ 0
          · have d1 : Y > 0 ∨ Y = 0 := by omega
            have yes : by_ < py ∧ py ≤ ay ∧ X ≤ 0 := ⟨hb1, hb2, hs⟩
            rcases d1 with d | d <;> simp [g1, g2, l1, l2, r1, r2, d, yes]
          · have d1 : ¬ Y > 0 := by omega
            have d2 : ¬ Y = 0 := by omega
            have no : ¬ (by_ < py ∧ py ≤ ay ∧ X ≤ 0) := fun h => hs h.2.2
            simp [g1, g2, l1, l2, r1, r2, d1, d2, no]
        · have r1 : bx ≥ px := by omega
          have r2 : ax ≥ px := by omega
          have := sD2 hb1 hb2 r1 r2
          have yes : by_ < py ∧ py ≤ ay ∧ X ≤ 0 := ⟨hb1, hb2, by omega⟩
          have g1 : ¬ by_ ≥ py := by omega
          have g2 : ¬ ay < py := by omega
          simp [g1, g2, l1, l2, r1, r2, yes]
      · have c : by_ ≥ py ∨ ay < py := by omega
        have no : ¬ (by_ < py ∧ py ≤ ay ∧ X ≤ 0) := fun h => hband ⟨h.1, h.2.1⟩
        rcases c with c | c <;> simp [c, no]
    · -- ascending: lower end is a, upper end is b
      have hasc : ay < by_ := by omega
      simp only [hdesc, if_false]
      try simp only [← hX]
      have nd : ¬ (by_ < py ∧ py ≤ ay ∧ X ≤ 0) := by omega
      by_cases hband : ay < py ∧ py ≤ by_
      · obtain ⟨hb1, hb2⟩ := hband
        have g1 : ¬ ay ≥ py := by omega
        have g2 : ¬ by_ < py := by omega
        by_cases l1 : ax < px <;> by_cases l2 : bx < px
        · have := sA1 hb1 hb2 l1 l2
          have no : ¬ (ay < py ∧ py ≤ by_ ∧ 0 ≤ X) := by omega
          simp [g1, g2, l1, l2, no, nd]
        · have r2 : bx ≥ px := by omega
          have r1 : ¬ ax ≥ px := by omega
          by_cases hs : 0 ≤ X
          · have d1 : X > 0 ∨ X = 0 := by omega
            have yes : ay < py ∧ py ≤ by_ ∧ 0 ≤ X := ⟨hb1, hb2, hs⟩
            rcases d1 with d | d <;> simp [g1, g2, l1, l2, r1, r2, d, yes]
          · have d1 : ¬ X > 0 := by omega
            have d2 : ¬ X = 0 := by omega
            have no : ¬ (ay < py ∧ py ≤ by_ ∧ 0 ≤ X) := fun h => hs h.2.2
            simp [g1, g2, l1, l2, r1, r2, d1, d2, no, nd]
        · have r1 : ax ≥ px := by omega
          have r2 : ¬ bx ≥ px := by omega
          by_cases hs : 0 ≤ X
          · have d1 : X > 0 ∨ X = 0 := by omega
            have yes : ay < py ∧ py ≤ by_ ∧ 0 ≤ X := ⟨hb1, hb2, hs⟩
            rcases d1 with d | d <;> simp [g1, g2, l1, l2, r1, r2, d, yes]
          · have d1 : ¬ X > 0 := by omega
            have d2 : ¬ X = 0 := by omega
            have no : ¬ (ay < py ∧ py ≤ by_ ∧ 0 ≤ X) := fun h => hs h.2.2
            simp [g1, g2, l1, l2, r1, r2, d1, d2, no, nd]
        · have r1 : ax ≥ px := by omega
          have r2 : bx ≥ px := by omega
          have := sA2 hb1 hb2 r1 r2
          have yes : ay < py ∧ py ≤ by_ ∧ 0 ≤ X := ⟨hb1, hb2, this⟩
          simp [g1, g2, l1, l2, r1, r2, yes]
      · have c : ay ≥ py ∨ by_ < py := by omega
        have no : ¬ (ay < py ∧ py ≤ by_ ∧ 0 ≤ X) := fun h => hband ⟨h.1, h.2.1⟩
        rcases c with c | c <;> simp [c, no, nd] <;> intros <;> omega

end SpVerif.Geom

namespace SpVerif.Geom

/-- reversing an edge negates its contribution -/
theorem edgeContrib_swap (p a b : Pt) : edgeContrib p b a = - edgeContrib p a b := by
  rw [edgeContrib_eq p b a, edgeContrib_eq p a b, orientI_swap a b p]
  by_cases h1 : a.2 < p.2 ∧ p.2 ≤ b.2 ∧ 0 ≤ orientI a b p
  · have n : ¬ (b.2 < p.2 ∧ p.2 ≤ a.2 ∧ 0 ≤ -orientI a b p) := by omega
    have y : a.2 < p.2 ∧ p.2 ≤ b.2 ∧ -orientI a b p ≤ 0 := ⟨h1.1, h1.2.1, by omega⟩
    simp [h1, n, y]
  · by_cases h2 : b.2 < p.2 ∧ p.2 ≤ a.2 ∧ orientI a b p ≤ 0
    · have y : b.2 < p.2 ∧ p.2 ≤ a.2 ∧ 0 ≤ -orientI a b p := ⟨h2.1, h2.2.1, by omega⟩
      simp [h1, h2, y]
    · have n1 : ¬ (b.2 < p.2 ∧ p.2 ≤ a.2 ∧ 0 ≤ -orientI a b p) := by
        intro h; exact h2 ⟨h.1, h.2.1, by omega⟩
      have n2 : ¬ (a.2 < p.2 ∧ p.2 ≤ b.2 ∧ -orientI a b p ≤ 0) := by
        intro h; exact h1 ⟨h.1, h.2.1, by omega⟩
      simp [h1, h2, n1, n2]

/-- sum of the edge contributions, written recursively -/
def windSum (p : Pt) : List Pt → Int
  | a :: b :: rest => edgeContrib p a b + windSum p (b :: rest)
  | _ => 0

theorem foldl_add_shift (p : Pt) (l : List (Pt × Pt)) (acc : Int) :
    l.foldl (fun acc s => acc + edgeContrib p s.1 s.2) acc = acc + l.foldl (fun acc s => acc + edgeContrib p s.1 s.2) 0 := by
  induction l generalizing acc with
  | nil => simp
  | cons s ss ih => simp only [List.foldl_cons]; rw [ih, ih (0 + _)]; omega

theorem ringWinding_eq (p : Pt) (r : List Pt) : ringWinding p r = windSum p r := by
  unfold ringWinding
  match r with
  | [] => rfl
  | [a] => rfl
  | a :: b :: rest =>
    have ih := ringWinding_eq p (b :: rest)
    unfold ringWinding at ih
    simp only [segs, List.foldl_cons, windSum]
    rw [foldl_add_shift, ih]; omega

theorem windSum_append_single (p : Pt) (l : List Pt) (z : Pt) (h : 1 ≤ l.length) :
    windSum p (l ++ [z]) = windSum p l + edgeContrib p (lastPt l) z := by
  match l with
  | [a] => simp [windSum, lastPt]
  | a :: b :: rest =>
    have ih := windSum_append_single p (b :: rest) z (by simp)
    simp only [List.cons_append, windSum, lastPt] at ih ⊢
    rw [ih]; omega

/-- walking a ring backwards negates its winding number about every point -/
theorem windSum_reverse (p : Pt) (r : List Pt) : windSum p r.reverse = - windSum p r := by
  match r with
  | [] => rfl
  | [a] => rfl
  | a :: b :: rest =>
    have ih := windSum_reverse p (b :: rest)
    rw [List.reverse_cons, windSum_append_single p _ a (by simp), ih]
    have hl : lastPt (b :: rest).reverse = b := by
      rw [List.reverse_cons]; exact lastPt_append_single _ b
    rw [hl, edgeContrib_swap p a b]
    simp only [windSum]; omega

theorem ringWinding_reverse (p : Pt) (r : List Pt) : ringWinding p r.reverse = - ringWinding p r := by
  rw [ringWinding_eq, ringWinding_eq, windSum_reverse]


/-! ### point versus line -/

theorem ptQ_inj {a b : Pt} (h : (((a.1 : ℚ)), ((a.2 : ℚ))) = ((b.1 : ℚ), (b.2 : ℚ))) : a = b := by
  have h1 : (a.1 : ℚ) = b.1 := (Prod.mk.injEq _ _ _ _ ▸ h).1
  have h2 : (a.2 : ℚ) = b.2 := (Prod.mk.injEq _ _ _ _ ▸ h).2
  exact Prod.ext (by exact_mod_cast h1) (by exact_mod_cast h2)

/-- **`_perform_intersects_line` is exact**: True exactly when the point is a vertex of the line or lies on one of its segments -/
theorem pointLine_iff (p : Pt) (l : List Pt) : pointLine p l = true ↔ LinePoint l ((p.1 : ℚ), (p.2 : ℚ)) := by
  unfold pointLine
  cases hbb : bboxOf l with
  | none =>
    have : l = [] := (bboxOf_none_iff l).mp hbb
    subst this
    simp [LinePoint, segs]
  | some bb =>
    simp only
    constructor
    · intro h
      split at h
      · cases h
      · simp only [Bool.or_eq_true, List.any_eq_true, beq_iff_eq] at h
        rcases h with ⟨v, hv, rfl⟩ | ⟨s, hs, hsp⟩
        · exact Or.inl ⟨v, hv, rfl⟩
        · exact Or.inr ⟨s, hs, (segPoint_iff p s).mp hsp⟩
    · intro h
      have hin := has_of_inBoxQ (linePoint_in_bbox hbb h)
      obtain ⟨b1, b2, b3, b4⟩ := hin
      have hno : (decide (p.1 < bb.x0) || decide (p.2 < bb.y0) || decide (p.1 > bb.x1) || decide (p.2 > bb.y1)) = false := by
        simp only [Bool.or_eq_false_iff, decide_eq_false_iff_not]
        omega
      rw [hno]
      simp only [Bool.false_eq_true, if_false, Bool.or_eq_true, List.any_eq_true, beq_iff_eq]
      rcases h with ⟨v, hv, he⟩ | ⟨s, hs, hsp⟩
      · exact Or.inl ⟨v, hv, (ptQ_inj he).symm⟩
      · exact Or.inr ⟨s, hs, (segPoint_iff p s).mpr hsp⟩

/-! ### far from the ring the winding number is zero -/

theorem windSum_zero_of_edges (p : Pt) (r : List Pt) (h : ∀ s ∈ segs r, edgeContrib p s.1 s.2 = 0) : windSum p r = 0 := by
  match r with
  | [] => rfl
  | [a] => rfl
  | a :: b :: rest =>
    simp only [windSum]
    have h1 := h (a, b) (by simp [segs])
    have h2 := windSum_zero_of_edges p (b :: rest) (fun s hs => h s (by simp [segs, hs]))
    simp only at h1
    omega

/-- `g_h(v) = [v.y ≥ h]` -/
def gInd (h : Int) (v : Pt) : Int := if h ≤ v.2 then 1 else 0

theorem windSum_left (p : Pt) (r : List Pt) (h : ∀ v ∈ r, p.1 < v.1) :
    windSum p r = match r with
      | [] => 0
      | a :: _ => gInd p.2 (lastPt r) - gInd p.2 a := by
  match r with
  | [] => rfl
  | [a] => simp [windSum, lastPt]
  | a :: b :: rest =>
    have ih := windSum_left p (b :: rest) (fun v hv => h v (by simp at hv ⊢; exact Or.inr hv))
    simp only [windSum, lastPt] at ih ⊢
    rw [ih, edgeContrib_eq]
    have ha := h a (by simp)
    have hb := h b (by simp)
    have ho1 : a.2 < p.2 → p.2 ≤ b.2 → 0 ≤ orientI a b p := by
      intro h1 h2
      unfold orientI
      have e : (b.1 - a.1) * (p.2 - a.2) - (b.2 - a.2) * (p.1 - a.1) = (b.1 - p.1) * (p.2 - a.2) + (a.1 - p.1) * (b.2 - p.2) := by ring
      rw [e]
      have := mul_nonneg (by omega : (0:Int) ≤ b.1 - p.1) (by omega : (0:Int) ≤ p.2 - a.2)
      have := mul_nonneg (by omega : (0:Int) ≤ a.1 - p.1) (by omega : (0:Int) ≤ b.2 - p.2)
      omega
    have ho2 : b.2 < p.2 → p.2 ≤ a.2 → orientI a b p ≤ 0 := by
      intro h1 h2
      unfold orientI
      have e : (b.1 - a.1) * (p.2 - a.2) - (b.2 - a.2) * (p.1 - a.1) = -((b.1 - p.1) * (a.2 - p.2) + (a.1 - p.1) * (p.2 - b.2)) := by ring
      rw [e]
      have := mul_nonneg (by omega : (0:Int) ≤ b.1 - p.1) (by omega : (0:Int) ≤ a.2 - p.2)
      have := mul_nonneg (by omega : (0:Int) ≤ a.1 - p.1) (by omega : (0:Int) ≤ p.2 - b.2)
      omega
    unfold gInd
    by_cases c1 : a.2 < p.2 ∧ p.2 ≤ b.2
    · have := ho1 c1.1 c1.2
      have hc : a.2 < p.2 ∧ p.2 ≤ b.2 ∧ 0 ≤ orientI a b p := ⟨c1.1, c1.2, this⟩
      simp only [hc, and_self, if_true]
      have : ¬ p.2 ≤ a.2 := by omega
      simp only [this, c1.2, if_true, if_false]; omega
    · by_cases c2 : b.2 < p.2 ∧ p.2 ≤ a.2
      · have := ho2 c2.1 c2.2
        have hc : b.2 < p.2 ∧ p.2 ≤ a.2 ∧ orientI a b p ≤ 0 := ⟨c2.1, c2.2, this⟩
        have hn : ¬ (a.2 < p.2 ∧ p.2 ≤ b.2 ∧ 0 ≤ orientI a b p) := fun x => c1 ⟨x.1, x.2.1⟩
        simp only [hn, hc, and_self, if_true, if_false]
        have : ¬ p.2 ≤ b.2 := by omega
        simp only [this, c2.2, if_true, if_false]; omega
      · have hn1 : ¬ (a.2 < p.2 ∧ p.2 ≤ b.2 ∧ 0 ≤ orientI a b p) := fun x => c1 ⟨x.1, x.2.1⟩
        have hn2 : ¬ (b.2 < p.2 ∧ p.2 ≤ a.2 ∧ orientI a b p ≤ 0) := fun x => c2 ⟨x.1, x.2.1⟩
        simp only [hn1, hn2, if_false]
        by_cases ea : p.2 ≤ a.2 <;> by_cases eb : p.2 ≤ b.2 <;> simp only [ea, eb, if_true, if_false] <;> omega


theorem edge_zero_right (p a b : Pt) (ha : a.1 < p.1) (hb : b.1 < p.1) : edgeContrib p a b = 0 := by
  rw [edgeContrib_eq]
  have e1 : orientI a b p = (b.1 - p.1) * (p.2 - a.2) + (a.1 - p.1) * (b.2 - p.2) := by unfold orientI; ring
  have e2 : orientI a b p = -((b.1 - p.1) * (a.2 - p.2) + (a.1 - p.1) * (p.2 - b.2)) := by unfold orientI; ring
  have n1 : ¬ (a.2 < p.2 ∧ p.2 ≤ b.2 ∧ 0 ≤ orientI a b p) := by
    rintro ⟨h1, h2, h3⟩
    have := mul_pos (by omega : (0:Int) < p.1 - b.1) (by omega : (0:Int) < p.2 - a.2)
    have := mul_nonneg (by omega : (0:Int) ≤ p.1 - a.1) (by omega : (0:Int) ≤ b.2 - p.2)
    have e3 : orientI a b p = -((p.1 - b.1) * (p.2 - a.2) + (p.1 - a.1) * (b.2 - p.2)) := by unfold orientI; ring
    omega
  have n2 : ¬ (b.2 < p.2 ∧ p.2 ≤ a.2 ∧ orientI a b p ≤ 0) := by
    rintro ⟨h1, h2, h3⟩
    have := mul_nonneg (by omega : (0:Int) ≤ p.1 - b.1) (by omega : (0:Int) ≤ a.2 - p.2)
    have := mul_pos (by omega : (0:Int) < p.1 - a.1) (by omega : (0:Int) < p.2 - b.2)
    have e3 : orientI a b p = (p.1 - b.1) * (a.2 - p.2) + (p.1 - a.1) * (p.2 - b.2) := by unfold orientI; ring
    omega
  simp only [n1, n2, if_false]

theorem edge_zero_below (p a b : Pt) (ha : p.2 ≤ a.2) (hb : p.2 ≤ b.2) : edgeContrib p a b = 0 := by
  rw [edgeContrib_eq]
  have n1 : ¬ (a.2 < p.2 ∧ p.2 ≤ b.2 ∧ 0 ≤ orientI a b p) := by omega
  have n2 : ¬ (b.2 < p.2 ∧ p.2 ≤ a.2 ∧ orientI a b p ≤ 0) := by omega
  simp only [n1, n2, if_false]

theorem edge_zero_above (p a b : Pt) (ha : a.2 < p.2) (hb : b.2 < p.2) : edgeContrib p a b = 0 := by
  rw [edgeContrib_eq]
  have n1 : ¬ (a.2 < p.2 ∧ p.2 ≤ b.2 ∧ 0 ≤ orientI a b p) := by omega
  have n2 : ¬ (b.2 < p.2 ∧ p.2 ≤ a.2 ∧ orientI a b p ≤ 0) := by omega
  simp only [n1, n2, if_false]

/-- **far away**: about a point outside the bounding box of a closed ring the coded winding number is zero -/
theorem ringWinding_far (p : Pt) (r : List Pt) (hc : Closed r) (bb : Box) (hbb : bboxOf r = some bb) (hout : ¬ BoxHas bb p) :
    ringWinding p r = 0 := by
  rw [ringWinding_eq]
  have hall := bboxOf_has r bb hbb
  by_cases hy0 : p.2 < bb.y0
  · apply windSum_zero_of_edges
    intro s hs
    obtain ⟨m1, m2⟩ := mem_segs hs
    exact edge_zero_below p _ _ (by have := (hall _ m1).2.2.1; omega) (by have := (hall _ m2).2.2.1; omega)
  by_cases hy1 : bb.y1 < p.2
  · apply windSum_zero_of_edges
    intro s hs
    obtain ⟨m1, m2⟩ := mem_segs hs
    exact edge_zero_above p _ _ (by have := (hall _ m1).2.2.2; omega) (by have := (hall _ m2).2.2.2; omega)
  by_cases hx1 : bb.x1 < p.1
  · apply windSum_zero_of_edges
    intro s hs
    obtain ⟨m1, m2⟩ := mem_segs hs
    exact edge_zero_right p _ _ (by have := (hall _ m1).2.1; omega) (by have := (hall _ m2).2.1; omega)
  have hx0 : p.1 < bb.x0 := by
    by_contra hc2
    exact hout ⟨by omega, by omega, by omega, by omega⟩
  rw [windSum_left p r (fun v hv => by have := (hall v hv).1; omega)]
  obtain ⟨hlen, hlast⟩ := hc
  match r, hlen, hlast with
  | a :: rest, _, hlast =>
    simp only [List.getD_cons_zero] at hlast
    simp only [hlast]; omega


/-! ### geometric reading of the edge rule -/

theorem orientI_cast (a b p : Pt) : ((orientI a b p : Int) : ℚ) = ((b.1 : ℚ) - a.1) * (p.2 - a.2) - ((b.2 : ℚ) - a.2) * (p.1 - a.1) := by
  unfold orientI; push_cast; ring

/-- an edge contributes to the winding number at `p` exactly when it spans the height of `p` (half-open at its lower end)
and its point at that height lies at or to the right of `p`: the rightward ray from `p` meets the edge -/
theorem edgeContrib_ne_zero_iff (p a b : Pt) :
    edgeContrib p a b ≠ 0 ↔ (min a.2 b.2 < p.2 ∧ p.2 ≤ max a.2 b.2) ∧ ∃ x : ℚ, (p.1 : ℚ) ≤ x ∧ OnSeg a b (x, (p.2 : ℚ)) := by
  rw [edgeContrib_eq]
  have hoc := orientI_cast a b p
  constructor
  · intro h
    have hcase : (a.2 < p.2 ∧ p.2 ≤ b.2 ∧ 0 ≤ orientI a b p) ∨ (b.2 < p.2 ∧ p.2 ≤ a.2 ∧ orientI a b p ≤ 0) := by
      by_contra hc
      rw [not_or] at hc
      simp only [hc.1, hc.2, if_false] at h
      exact h rfl
    have hne : a.2 ≠ b.2 := by rcases hcase with c | c <;> omega
    have hD : ((b.2 : ℚ) - a.2) ≠ 0 := by
      intro hc; apply hne; have : (b.2 : ℚ) = a.2 := by linarith
      exact_mod_cast this.symm
    have hrange : min a.2 b.2 ≤ p.2 ∧ p.2 ≤ max a.2 b.2 := by rcases hcase with c | c <;> omega
    obtain ⟨t0, t1⟩ := param_range a.2 b.2 p.2 hne hrange.1 hrange.2
    refine ⟨by rcases hcase with c | c <;> omega, (a.1 : ℚ) + ((p.2 : ℚ) - a.2) / (b.2 - a.2) * (b.1 - a.1), ?_, ?_⟩
    · -- x* - p.x = orient / D
      have key : ((a.1 : ℚ) + ((p.2 : ℚ) - a.2) / (b.2 - a.2) * (b.1 - a.1) - p.1) * ((b.2 : ℚ) - a.2) = (orientI a b p : ℚ) := by
        rw [hoc]; field_simp; ring
      rcases hcase with ⟨c1, c2, c3⟩ | ⟨c1, c2, c3⟩
      · have hDpos : (0 : ℚ) < (b.2 : ℚ) - a.2 := by
          have : (a.2 : ℚ) < b.2 := by exact_mod_cast (by omega : a.2 < b.2)
          linarith
        have h3 : (0 : ℚ) ≤ (orientI a b p : ℚ) := by exact_mod_cast c3
        rw [← key] at h3
        have := nonneg_of_mul_nonneg_left h3 hDpos
        linarith
      · have hDneg : ((b.2 : ℚ) - a.2) < 0 := by
          have : (b.2 : ℚ) < a.2 := by exact_mod_cast (by omega : b.2 < a.2)
          linarith
        have h3 : (orientI a b p : ℚ) ≤ 0 := by exact_mod_cast c3
        rw [← key] at h3
        by_contra hlt
        rw [not_le] at hlt
        have : 0 < ((a.1 : ℚ) + ((p.2 : ℚ) - a.2) / (b.2 - a.2) * (b.1 - a.1) - p.1) * ((b.2 : ℚ) - a.2) :=
          mul_pos_of_neg_of_neg (by linarith) hDneg
        linarith
    · refine ⟨((p.2 : ℚ) - a.2) / (b.2 - a.2), t0, t1, rfl, ?_⟩
      show (p.2 : ℚ) = a.2 + ((p.2 : ℚ) - a.2) / (b.2 - a.2) * (b.2 - a.2)
      rw [div_mul_cancel₀ _ hD]; ring
  · rintro ⟨⟨r1, r2⟩, x, hx, t, ht0, ht1, ex, ey⟩
    simp only at ex ey
    -- orient = D (x - p.x)
    have key : (orientI a b p : ℚ) = ((b.2 : ℚ) - a.2) * (x - p.1) := by
      rw [hoc, ex]
      have : (p.2 : ℚ) - a.2 = t * (b.2 - a.2) := by linarith
      rw [this]; ring
    by_cases hup : a.2 < b.2
    · have c1 : a.2 < p.2 := by omega
      have c2 : p.2 ≤ b.2 := by omega
      have hDpos : (0 : ℚ) < (b.2 : ℚ) - a.2 := by
        have : (a.2 : ℚ) < b.2 := by exact_mod_cast hup
        linarith
      have c3q : (0 : ℚ) ≤ (orientI a b p : ℚ) := by rw [key]; exact mul_nonneg hDpos.le (by linarith)
      have c3 : 0 ≤ orientI a b p := by exact_mod_cast c3q
      simp [c1, c2, c3]
    · have hlt : b.2 < a.2 := by omega
      have c1 : b.2 < p.2 := by omega
      have c2 : p.2 ≤ a.2 := by omega
      have hDneg : ((b.2 : ℚ) - a.2) < 0 := by
        have : (b.2 : ℚ) < a.2 := by exact_mod_cast hlt
        linarith
      have c3q : (orientI a b p : ℚ) ≤ 0 := by rw [key]; exact mul_nonpos_of_nonpos_of_nonneg hDneg.le (by linarith)
      have c3 : orientI a b p ≤ 0 := by exact_mod_cast c3q
      have n1 : ¬ (a.2 < p.2 ∧ p.2 ≤ b.2 ∧ 0 ≤ orientI a b p) := by omega
      simp [n1, c1, c2, c3]

end SpVerif.Geom
