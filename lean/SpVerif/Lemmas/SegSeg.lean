import Mathlib.Tactic.Linarith
import Mathlib.Tactic.FieldSimp
import Mathlib.Tactic.Ring
import Mathlib.Tactic.Positivity
import Mathlib.Tactic.LinearCombination
import Mathlib.Algebra.Order.Field.Basic
import Mathlib.Data.Rat.Cast.Order
import SpVerif.Model.Geom
/-! C01: `segments_intersect` is exact for non-degenerate integer segments (ported from the design-round spike).
The scalar-argument copy `SP.segmentsIntersect` is proved equal to `Geom.segmentsIntersect` at the end. -/
namespace SP

def triOrient (ax ay bx by_ cx cy : Int) : Int :=
  let v := (bx - ax) * (cy - ay) - (by_ - ay) * (cx - ax)
  if v > 0 then 1 else if v < 0 then -1 else 0

def seg1d (a0 a1 b0 b1 : Int) : Bool :=
  decide (max (min a0 a1) (min b0 b1) ≤ min (max a0 a1) (max b0 b1))

def segmentsIntersect (ax0 ay0 ax1 ay1 bx0 by0 bx1 by1 : Int) : Bool :=
  if !seg1d ax0 ax1 bx0 bx1 then false
  else if !seg1d ay0 ay1 by0 by1 then false
  else
    let aZero := ax0 == ax1 && ay0 == ay1
    let bZero := bx0 == bx1 && by0 == by1
    if aZero && !bZero && ((ax0 == bx0 && ay0 == by0) || (ax0 == bx1 && ay0 == by1)) then true
    else if bZero && !aZero && ((bx0 == ax0 && by0 == ay0) || (bx0 == ax1 && by0 == ay1)) then true
    else if aZero || bZero then false
    else
      let b0o := triOrient ax0 ay0 ax1 ay1 bx0 by0
      let b1o := triOrient ax0 ay0 ax1 ay1 bx1 by1
      if b0o == 0 && b1o == 0 then true
      else if b0o == b1o then false
      else
        let a0o := triOrient bx0 by0 bx1 by1 ax0 ay0
        let a1o := triOrient bx0 by0 bx1 by1 ax1 ay1
        if a0o == 0 && a1o == 0 then true
        else if a0o == a1o then false
        else true

end SP


namespace SP

/-- the code's sign function, over ℚ -/
def sgn (v : ℚ) : Int := if v > 0 then 1 else if v < 0 then -1 else 0

theorem sgn_pos {v : ℚ} (h : 0 < v) : sgn v = 1 := by simp [sgn, h]
theorem sgn_neg {v : ℚ} (h : v < 0) : sgn v = -1 := by simp [sgn, h, not_lt.mpr h.le]
theorem sgn_zero' {v : ℚ} (h : v = 0) : sgn v = 0 := by simp [sgn, h]

/-- final stage of `segments_intersect` on the four orientation values -/
def stage (p p1 q q1 : ℚ) : Bool :=
  if sgn p == 0 && sgn p1 == 0 then true
  else if sgn p == sgn p1 then false
  else if sgn q == 0 && sgn q1 == 0 then true
  else if sgn q == sgn q1 then false
  else true

/-- same strict side -/
def sameSide (a b : ℚ) : Prop := (0 < a ∧ 0 < b) ∨ (a < 0 ∧ b < 0)

theorem stage_true_iff (p p1 q q1 : ℚ) :
    stage p p1 q q1 = true ↔
      (p = 0 ∧ p1 = 0) ∨ (¬ sameSide p p1 ∧ ((q = 0 ∧ q1 = 0) ∨ ¬ sameSide q q1)) := by
  unfold stage sameSide
  rcases lt_trichotomy p 0 with hp | hp | hp <;>
  rcases lt_trichotomy p1 0 with hp1 | hp1 | hp1 <;>
  rcases lt_trichotomy q 0 with hq | hq | hq <;>
  rcases lt_trichotomy q1 0 with hq1 | hq1 | hq1 <;>
  simp [sgn_pos, sgn_neg, sgn_zero', *, not_lt.mpr, le_of_lt, ne_of_lt, ne_of_gt] <;>
  first | linarith | (constructor <;> linarith) | skip

end SP

namespace SP

section geo
variable (ax0 ay0 ax1 ay1 bx0 by0 bx1 by1 : ℚ)

/-- orientation value of c w.r.t. directed line a→b (triangle_orientation's cross product) -/
def orientV (ax ay bx by_ cx cy : ℚ) : ℚ := (bx - ax) * (cy - ay) - (by_ - ay) * (cx - ax)

def Meet : Prop := ∃ s t : ℚ, 0 ≤ s ∧ s ≤ 1 ∧ 0 ≤ t ∧ t ≤ 1 ∧
  ax0 + s * (ax1 - ax0) = bx0 + t * (bx1 - bx0) ∧ ay0 + s * (ay1 - ay0) = by0 + t * (by1 - by0)

def ov1 (a0 a1 b0 b1 : ℚ) : Prop := max (min a0 a1) (min b0 b1) ≤ min (max a0 a1) (max b0 b1)

theorem lerp_between (a0 a1 s : ℚ) (h0 : 0 ≤ s) (h1 : s ≤ 1) :
    min a0 a1 ≤ a0 + s * (a1 - a0) ∧ a0 + s * (a1 - a0) ≤ max a0 a1 := by
  rcases le_total a0 a1 with h | h
  · rw [min_eq_left h, max_eq_right h]; constructor <;> nlinarith
  · rw [min_eq_right h, max_eq_left h]; constructor <;> nlinarith

theorem meet_ov1 (a0 a1 b0 b1 s t : ℚ) (hs0 : 0 ≤ s) (hs1 : s ≤ 1) (ht0 : 0 ≤ t) (ht1 : t ≤ 1)
    (h : a0 + s * (a1 - a0) = b0 + t * (b1 - b0)) : ov1 a0 a1 b0 b1 := by
  unfold ov1
  obtain ⟨ha1, ha2⟩ := lerp_between a0 a1 s hs0 hs1
  obtain ⟨hb1, hb2⟩ := lerp_between b0 b1 t ht0 ht1
  rw [← h] at hb1 hb2
  exact le_trans (max_le ha1 hb1) (le_min ha2 hb2)

/-- division-based witness in the transversal case -/
theorem transversal_witness
    (D p q : ℚ)
    (hD : D = (ax1 - ax0) * (by1 - by0) - (ay1 - ay0) * (bx1 - bx0))
    (hp : p = (ax1 - ax0) * (by0 - ay0) - (ay1 - ay0) * (bx0 - ax0))
    (hq : q = (bx1 - bx0) * (ay0 - by0) - (by1 - by0) * (ax0 - bx0))
    (hD0 : D ≠ 0)
    (hs : 0 ≤ q / D ∧ q / D ≤ 1) (ht : 0 ≤ -p / D ∧ -p / D ≤ 1) :
    Meet ax0 ay0 ax1 ay1 bx0 by0 bx1 by1 := by
  refine ⟨q / D, -p / D, hs.1, hs.2, ht.1, ht.2, ?_, ?_⟩
  · field_simp
    rw [hq, hp, hD]; ring
  · field_simp
    rw [hq, hp, hD]; ring

theorem frac_range_of_not_sameSide (q D : ℚ) (hD0 : D ≠ 0)
    (h : ¬ sameSide q (q - D)) : 0 ≤ q / D ∧ q / D ≤ 1 := by
  unfold sameSide at h
  push Not at h
  obtain ⟨h1, h2⟩ := h
  rcases lt_or_gt_of_ne hD0 with hD | hD
  · -- D < 0 : need D ≤ q ≤ 0
    have hq0 : q ≤ 0 := by
      by_contra hc; push Not at hc
      have := h1 hc; linarith
    have hqD : D ≤ q := by
      by_contra hc; push Not at hc
      have := h2 (by linarith) ; linarith
    constructor
    · exact div_nonneg_of_nonpos hq0 hD.le
    · rw [div_le_one_of_neg hD]; exact hqD
  · have hq0 : 0 ≤ q := by
      by_contra hc; push Not at hc
      have := h2 hc; linarith
    have hqD : q ≤ D := by
      by_contra hc; push Not at hc
      have := h1 (by linarith); linarith
    constructor
    · positivity
    · rw [div_le_one hD]; exact hqD

end geo
end SP

namespace SP
section geo2
variable (ax0 ay0 ax1 ay1 bx0 by0 bx1 by1 : ℚ)

/-- collinear case, segment a not vertical: x-overlap gives a common point -/
theorem collinear_witness_x
    (hD : (ax1 - ax0) * (by1 - by0) - (ay1 - ay0) * (bx1 - bx0) = 0)
    (hp : (ax1 - ax0) * (by0 - ay0) - (ay1 - ay0) * (bx0 - ax0) = 0)
    (hux : ax1 - ax0 ≠ 0) (hv : bx1 - bx0 ≠ 0 ∨ by1 - by0 ≠ 0)
    (hox : ov1 ax0 ax1 bx0 bx1) :
    Meet ax0 ay0 ax1 ay1 bx0 by0 bx1 by1 := by
  have hvx : bx1 - bx0 ≠ 0 := by
    intro h0
    rcases hv with h | h
    · exact h h0
    · apply h
      have : (ax1 - ax0) * (by1 - by0) = 0 := by rw [h0] at hD; linarith
      rcases mul_eq_zero.mp this with h' | h'
      · exact absurd h' hux
      · exact h'
  set xs := max (min ax0 ax1) (min bx0 bx1) with hxs
  have hxa1 : min ax0 ax1 ≤ xs := le_max_left _ _
  have hxb1 : min bx0 bx1 ≤ xs := le_max_right _ _
  have hxa2 : xs ≤ max ax0 ax1 := le_trans hox (min_le_left _ _)
  have hxb2 : xs ≤ max bx0 bx1 := le_trans hox (min_le_right _ _)
  have range : ∀ (c0 c1 : ℚ), c1 - c0 ≠ 0 → min c0 c1 ≤ xs → xs ≤ max c0 c1 →
      0 ≤ (xs - c0) / (c1 - c0) ∧ (xs - c0) / (c1 - c0) ≤ 1 := by
    intro c0 c1 hne h1 h2
    rcases lt_or_gt_of_ne hne with hneg | hpos
    · have hle : c1 ≤ c0 := by linarith
      rw [min_eq_right hle] at h1; rw [max_eq_left hle] at h2
      constructor
      · exact div_nonneg_of_nonpos (by linarith) hneg.le
      · rw [div_le_one_of_neg hneg]; linarith
    · have hle : c0 ≤ c1 := by linarith
      rw [min_eq_left hle] at h1; rw [max_eq_right hle] at h2
      constructor
      · exact div_nonneg (by linarith) hpos.le
      · rw [div_le_one hpos]; linarith
  obtain ⟨hs0, hs1⟩ := range ax0 ax1 hux hxa1 hxa2
  obtain ⟨ht0, ht1⟩ := range bx0 bx1 hvx hxb1 hxb2
  set s := (xs - ax0) / (ax1 - ax0) with hs
  set t := (xs - bx0) / (bx1 - bx0) with ht
  have hsm : s * (ax1 - ax0) = xs - ax0 := by rw [hs]; field_simp
  have htm : t * (bx1 - bx0) = xs - bx0 := by rw [ht]; field_simp
  refine ⟨s, t, hs0, hs1, ht0, ht1, ?_, ?_⟩
  · rw [hsm, htm]; ring
  · have key : (ay0 + s * (ay1 - ay0) - (by0 + t * (by1 - by0))) * ((ax1 - ax0) * (bx1 - bx0)) = 0 := by
      linear_combination ((ay1 - ay0) * (bx1 - bx0)) * hsm - ((by1 - by0) * (ax1 - ax0)) * htm
        - (bx1 - bx0) * hp + (bx0 - xs) * hD
    have hne : (ax1 - ax0) * (bx1 - bx0) ≠ 0 := mul_ne_zero hux hvx
    have := (mul_eq_zero.mp key).resolve_right hne
    linarith

/-- swapping x and y preserves `Meet` -/
theorem meet_swap : Meet ay0 ax0 ay1 ax1 by0 bx0 by1 bx1 → Meet ax0 ay0 ax1 ay1 bx0 by0 bx1 by1 := by
  rintro ⟨s, t, a, b, c, d, e, f⟩; exact ⟨s, t, a, b, c, d, f, e⟩

theorem collinear_witness
    (hD : (ax1 - ax0) * (by1 - by0) - (ay1 - ay0) * (bx1 - bx0) = 0)
    (hp : (ax1 - ax0) * (by0 - ay0) - (ay1 - ay0) * (bx0 - ax0) = 0)
    (hu : ax1 - ax0 ≠ 0 ∨ ay1 - ay0 ≠ 0) (hv : bx1 - bx0 ≠ 0 ∨ by1 - by0 ≠ 0)
    (hox : ov1 ax0 ax1 bx0 bx1) (hoy : ov1 ay0 ay1 by0 by1) :
    Meet ax0 ay0 ax1 ay1 bx0 by0 bx1 by1 := by
  by_cases hux : ax1 - ax0 = 0
  · have huy : ay1 - ay0 ≠ 0 := by
      rcases hu with h | h
      · exact absurd hux h
      · exact h
    apply meet_swap
    apply collinear_witness_x ay0 ax0 ay1 ax1 by0 bx0 by1 bx1 _ _ huy hv.symm hoy
    · linarith
    · linarith
  · exact collinear_witness_x ax0 ay0 ax1 ay1 bx0 by0 bx1 by1 hD hp hux hv hox

end geo2
end SP

namespace SP
section main
variable (ax0 ay0 ax1 ay1 bx0 by0 bx1 by1 : ℚ)

theorem not_sameSide_of_param (D t : ℚ) (h0 : 0 ≤ t) (h1 : t ≤ 1) :
    ¬ sameSide (-t * D) ((1 - t) * D) := by
  unfold sameSide
  rintro (⟨h, h'⟩ | ⟨h, h'⟩)
  · rcases lt_trichotomy D 0 with hD | hD | hD
    · nlinarith
    · simp [hD] at h
    · nlinarith
  · rcases lt_trichotomy D 0 with hD | hD | hD
    · nlinarith
    · simp [hD] at h
    · nlinarith

theorem stage_iff_meet
    (hu : ax1 - ax0 ≠ 0 ∨ ay1 - ay0 ≠ 0) (hv : bx1 - bx0 ≠ 0 ∨ by1 - by0 ≠ 0)
    (hox : ov1 ax0 ax1 bx0 bx1) (hoy : ov1 ay0 ay1 by0 by1) :
    stage (orientV ax0 ay0 ax1 ay1 bx0 by0) (orientV ax0 ay0 ax1 ay1 bx1 by1)
          (orientV bx0 by0 bx1 by1 ax0 ay0) (orientV bx0 by0 bx1 by1 ax1 ay1) = true
      ↔ Meet ax0 ay0 ax1 ay1 bx0 by0 bx1 by1 := by
  rw [stage_true_iff]
  set D := (ax1 - ax0) * (by1 - by0) - (ay1 - ay0) * (bx1 - bx0) with hD
  set p := orientV ax0 ay0 ax1 ay1 bx0 by0 with hp
  set p1 := orientV ax0 ay0 ax1 ay1 bx1 by1 with hp1
  set q := orientV bx0 by0 bx1 by1 ax0 ay0 with hq
  set q1 := orientV bx0 by0 bx1 by1 ax1 ay1 with hq1
  have e1 : p1 = p + D := by simp only [hp1, hp, hD, orientV]; ring
  have e2 : q1 = q - D := by simp only [hq1, hq, hD, orientV]; ring
  constructor
  · rintro (⟨h0, h1⟩ | ⟨hns, hrest⟩)
    · -- collinear
      have hD0 : D = 0 := by linarith
      apply collinear_witness ax0 ay0 ax1 ay1 bx0 by0 bx1 by1 _ _ hu hv hox hoy
      · rw [← hD]; exact hD0
      · have : p = 0 := h0
        simpa [hp, orientV] using this
    · by_cases hz : p = 0 ∧ p1 = 0
      · have hD0 : D = 0 := by linarith [hz.1, hz.2]
        apply collinear_witness ax0 ay0 ax1 ay1 bx0 by0 bx1 by1 _ _ hu hv hox hoy
        · rw [← hD]; exact hD0
        · have : p = 0 := hz.1
          simpa [hp, orientV] using this
      · have hD0 : D ≠ 0 := by
          intro hD0
          apply hns
          have hpp : p1 = p := by rw [e1, hD0]; ring
          rcases lt_trichotomy p 0 with h | h | h
          · exact Or.inr ⟨h, by rw [hpp]; exact h⟩
          · exact absurd ⟨h, by rw [hpp]; exact h⟩ hz
          · exact Or.inl ⟨h, by rw [hpp]; exact h⟩
        have hq' : ¬ sameSide q (q - D) := by
          rcases hrest with ⟨hq0, hq10⟩ | h
          · exfalso; apply hD0; linarith
          · rw [← e2]; exact h
        have hp' : ¬ sameSide (-p) (-p - D) := by
          unfold sameSide at hns ⊢
          rw [e1] at hns
          rintro (⟨a, b⟩ | ⟨a, b⟩)
          · exact hns (Or.inr ⟨by linarith, by linarith⟩)
          · exact hns (Or.inl ⟨by linarith, by linarith⟩)
        have rs := frac_range_of_not_sameSide q D hD0 hq'
        have rt := frac_range_of_not_sameSide (-p) D hD0 hp'
        exact transversal_witness ax0 ay0 ax1 ay1 bx0 by0 bx1 by1 D p q hD
          (by simp only [hp, orientV]) (by simp only [hq, orientV]) hD0 rs rt
  · rintro ⟨s, t, hs0, hs1, ht0, ht1, hx, hy⟩
    have hpt : p = -t * D := by
      simp only [hp, hD, orientV]
      linear_combination (ay1 - ay0) * hx - (ax1 - ax0) * hy
    have hqs : q = s * D := by
      simp only [hq, hD, orientV]
      linear_combination (bx1 - bx0) * hy - (by1 - by0) * hx
    by_cases hD0 : D = 0
    · left; constructor
      · rw [hpt, hD0]; ring
      · rw [e1, hpt, hD0]; ring
    · right
      constructor
      · rw [e1, hpt]
        have := not_sameSide_of_param D t ht0 ht1
        convert this using 2; ring
      · right
        rw [e2, hqs]
        have := not_sameSide_of_param D (1 - s) (by linarith) (by linarith)
        have h1 : -(1 - s) * D = s * D - D := by ring
        have h2 : (1 - (1 - s)) * D = s * D := by ring
        rw [h1, h2] at this
        unfold sameSide at this ⊢
        rintro (⟨a, b⟩ | ⟨a, b⟩)
        · exact this (Or.inl ⟨b, a⟩)
        · exact this (Or.inr ⟨b, a⟩)

end main
end SP

namespace SP
section bridge

theorem triOrient_eq_sgn (ax ay bx by_ cx cy : Int) :
    triOrient ax ay bx by_ cx cy = sgn (orientV ax ay bx by_ cx cy) := by
  unfold triOrient sgn orientV
  have hc : (((bx - ax) * (cy - ay) - (by_ - ay) * (cx - ax) : Int) : ℚ)
      = ((bx : ℚ) - ax) * (cy - ay) - (by_ - ay) * (cx - ax) := by push_cast; ring
  simp only [← hc, gt_iff_lt, Int.cast_pos, Int.cast_lt_zero]

theorem seg1d_iff (a0 a1 b0 b1 : Int) : seg1d a0 a1 b0 b1 = true ↔ ov1 a0 a1 b0 b1 := by
  unfold seg1d ov1
  rw [decide_eq_true_iff]
  have h : ((max (min a0 a1) (min b0 b1) : Int) : ℚ) = max (min (a0 : ℚ) a1) (min (b0 : ℚ) b1) := by
    push_cast; rfl
  have h' : ((min (max a0 a1) (max b0 b1) : Int) : ℚ) = min (max (a0 : ℚ) a1) (max (b0 : ℚ) b1) := by
    push_cast; rfl
  rw [← h, ← h', Int.cast_le]

/-- the property-level statement for the general-position branch of the kernel:
for two non-degenerate integer segments the coded test is exact. -/
theorem segmentsIntersect_iff (ax0 ay0 ax1 ay1 bx0 by0 bx1 by1 : Int)
    (ha : ¬ (ax0 = ax1 ∧ ay0 = ay1)) (hb : ¬ (bx0 = bx1 ∧ by0 = by1)) :
    segmentsIntersect ax0 ay0 ax1 ay1 bx0 by0 bx1 by1 = true ↔
      Meet ax0 ay0 ax1 ay1 bx0 by0 bx1 by1 := by
  have hu : (ax1 : ℚ) - ax0 ≠ 0 ∨ (ay1 : ℚ) - ay0 ≠ 0 := by
    by_contra h; push Not at h
    apply ha; constructor
    · have := h.1; exact_mod_cast (sub_eq_zero.mp this).symm
    · have := h.2; exact_mod_cast (sub_eq_zero.mp this).symm
  have hv : (bx1 : ℚ) - bx0 ≠ 0 ∨ (by1 : ℚ) - by0 ≠ 0 := by
    by_contra h; push Not at h
    apply hb; constructor
    · have := h.1; exact_mod_cast (sub_eq_zero.mp this).symm
    · have := h.2; exact_mod_cast (sub_eq_zero.mp this).symm
  have haz : (ax0 == ax1 && ay0 == ay1) = false := by
    simp only [Bool.and_eq_false_iff, beq_eq_false_iff_ne, ne_eq]; tauto
  have hbz : (bx0 == bx1 && by0 == by1) = false := by
    simp only [Bool.and_eq_false_iff, beq_eq_false_iff_ne, ne_eq]; tauto
  unfold segmentsIntersect
  by_cases hx : seg1d ax0 ax1 bx0 bx1 = true
  · by_cases hy : seg1d ay0 ay1 by0 by1 = true
    · have hox := (seg1d_iff _ _ _ _).mp hx
      have hoy := (seg1d_iff _ _ _ _).mp hy
      rw [← stage_iff_meet _ _ _ _ _ _ _ _ hu hv hox hoy]
      simp only [hx, hy, haz, hbz, Bool.not_true, Bool.false_eq_true, ↓reduceIte, Bool.false_and,
        Bool.or_self, triOrient_eq_sgn, stage]
    · simp only [hx, hy, Bool.not_true, Bool.false_eq_true, ↓reduceIte, Bool.not_false]
      constructor
      · intro h; exact absurd h (by simp)
      · rintro ⟨s, t, hs0, hs1, ht0, ht1, _, hyy⟩
        exact absurd ((seg1d_iff _ _ _ _).mpr (meet_ov1 _ _ _ _ s t hs0 hs1 ht0 ht1 hyy)) hy
  · simp only [hx, Bool.false_eq_true, ↓reduceIte, Bool.not_false]
    constructor
    · intro h; exact absurd h (by simp)
    · rintro ⟨s, t, hs0, hs1, ht0, ht1, hxx, _⟩
      exact absurd ((seg1d_iff _ _ _ _).mpr (meet_ov1 _ _ _ _ s t hs0 hs1 ht0 ht1 hxx)) hx

end bridge
end SP


namespace SpVerif.Geom

theorem triOrient_eq (a b c : Pt) : triOrient a b c = SP.triOrient a.1 a.2 b.1 b.2 c.1 c.2 := rfl

theorem seg1d_eq (a0 a1 b0 b1 : Int) : seg1d a0 a1 b0 b1 = SP.seg1d a0 a1 b0 b1 := rfl

theorem pt_beq (a b : Pt) : (a == b) = (a.1 == b.1 && a.2 == b.2) := by
  obtain ⟨a1, a2⟩ := a; obtain ⟨b1, b2⟩ := b
  rfl

theorem segmentsIntersect_eq (a0 a1 b0 b1 : Pt) :
    segmentsIntersect a0 a1 b0 b1 = SP.segmentsIntersect a0.1 a0.2 a1.1 a1.2 b0.1 b0.2 b1.1 b1.2 := by
  obtain ⟨ax0, ay0⟩ := a0; obtain ⟨ax1, ay1⟩ := a1; obtain ⟨bx0, by0⟩ := b0; obtain ⟨bx1, by1⟩ := b1
  rfl

/-- the two closed segments share a point (parameters in ℚ) -/
def SegMeet (a0 a1 b0 b1 : Pt) : Prop := SP.Meet a0.1 a0.2 a1.1 a1.2 b0.1 b0.2 b1.1 b1.2

/-- **`segments_intersect` is exact** for two non-degenerate integer segments -/
theorem segmentsIntersect_iff (a0 a1 b0 b1 : Pt) (ha : a0 ≠ a1) (hb : b0 ≠ b1) :
    segmentsIntersect a0 a1 b0 b1 = true ↔ SegMeet a0 a1 b0 b1 := by
  rw [segmentsIntersect_eq]
  apply SP.segmentsIntersect_iff
  · intro h; apply ha; exact Prod.ext h.1 h.2
  · intro h; apply hb; exact Prod.ext h.1 h.2

end SpVerif.Geom
