import SpVerif.Lemmas.DaskFacts
import SpVerif.Props.C03
import Mathlib.Data.List.Nodup
import Mathlib.Data.List.Range
import Mathlib.Data.List.Perm.Basic
/-! C04: the indexed path of `.cx` selects exactly the rows the mask path selects. -/
namespace SpVerif.Frames
open SpVerif.Geom SpVerif.RTree SpVerif.Dask

theorem mem_zip_range' {α : Type} (l : List α) (i : Nat) (x : α) :
    (i, x) ∈ (List.range l.length).zip l ↔ l[i]? = some x := by
  constructor
  · intro h
    obtain ⟨k, hk, he⟩ := List.mem_iff_getElem.mp h
    simp only [List.getElem_zip, List.getElem_range, Prod.mk.injEq] at he
    obtain ⟨rfl, rfl⟩ := he
    simp only [List.length_zip, List.length_range, Nat.min_self] at hk
    simp [List.getElem?_eq_getElem hk]
  · intro h
    have hi : i < l.length := by
      rcases Nat.lt_or_ge i l.length with hlt | hge
      · exact hlt
      · rw [List.getElem?_eq_none hge] at h; cases h
    apply List.mem_iff_getElem.mpr
    refine ⟨i, by simpa using hi, ?_⟩
    simp only [List.getElem_zip, List.getElem_range, Prod.mk.injEq, true_and]
    rw [List.getElem?_eq_getElem hi] at h
    exact Option.some.inj h

theorem mem_validRows (els : List (Option Elem)) (i : Nat) (bx : NBox) :
    (i, bx) ∈ validRows els ↔ ∃ e, els[i]? = some e ∧ elemBounds e = some bx := by
  unfold validRows
  simp only [List.mem_filterMap, Prod.exists, Option.map_eq_some_iff, Prod.mk.injEq]
  constructor
  · rintro ⟨j, e, hm, bb, hb, rfl, rfl⟩
    exact ⟨e, (mem_zip_range' els j e).mp hm, hb⟩
  · rintro ⟨e, he, hb⟩
    exact ⟨i, e, (mem_zip_range' els i e).mpr he, bx, hb, rfl, rfl⟩

theorem validRows_keys_nodup (els : List (Option Elem)) : ((validRows els).map (·.1)).Nodup := by
  unfold validRows
  have hsub : (((List.range els.length).zip els).filterMap (fun (p : Nat × Option Elem) => (elemBounds p.2).map (fun bb => (p.1, bb)))).map (·.1)
      = (((List.range els.length).zip els).filter (fun p => (elemBounds p.2).isSome)).map (·.1) := by
    induction ((List.range els.length).zip els) with
    | nil => rfl
    | cons p ps ih =>
      cases h : elemBounds p.2 with
      | none => simp [List.filterMap_cons, h, ih]
      | some b => simp [List.filterMap_cons, h, ih]
  rw [show (fun (x : Nat × Option Elem) => match x with | (i, e) => Option.map (fun bb => (i, bb)) (elemBounds e))
      = (fun (p : Nat × Option Elem) => (elemBounds p.2).map (fun bb => (p.1, bb))) from rfl, hsub]
  have h1 : (((List.range els.length).zip els).map (·.1)).Nodup := by
    rw [List.map_fst_zip (by simp)]; exact List.nodup_range
  exact (List.Nodup.sublist (List.Sublist.map _ List.filter_sublist) h1)

theorem validRows_wf (els : List (Option Elem)) : ∀ r ∈ validRows els, WF 2 r.2 := by
  rintro ⟨i, bx⟩ hr
  obtain ⟨e, _, hb⟩ := (mem_validRows els i bx).mp hr
  cases e with
  | none => simp [elemBounds] at hb
  | some e =>
    simp only [elemBounds, Option.map_eq_some_iff] at hb
    obtain ⟨bb, hbb, rfl⟩ := hb
    have := bboxOf_wf _ bb hbb
    intro k hk
    have : k = 0 ∨ k = 1 := by omega
    rcases this with rfl | rfl <;>
      simp only [lo, hi, List.getD_cons_zero, List.getD_cons_succ, show (2 : Nat) + 0 = 2 by rfl, show (2 : Nat) + 1 = 3 by rfl] <;> omega

theorem key_unique {rows : List Row} (hn : (rows.map (·.1)).Nodup) {i : Nat} {a b : NBox} (ha : (i, a) ∈ rows) (hb : (i, b) ∈ rows) : a = b := by
  induction rows with
  | nil => cases ha
  | cons r rs ih =>
    simp only [List.map_cons, List.nodup_cons, List.mem_map, not_exists, not_and] at hn
    simp only [List.mem_cons] at ha hb
    rcases ha with rfl | ha
    · rcases hb with hb | hb
      · exact (Prod.mk.inj hb).2.symm ▸ rfl
      · exact absurd rfl (hn.1 (i, b) hb)
    · rcases hb with rfl | hb
      · exact absurd rfl (hn.1 (i, a) ha)
      · exact ih hn.2 ha hb

theorem insertSorted_perm (y : Nat) (l : List Nat) : (insertSorted y l).Perm (y :: l) := by
  induction l with
  | nil => exact List.Perm.refl _
  | cons z zs ihz =>
    simp only [insertSorted]
    split
    · exact List.Perm.refl _
    · exact (List.Perm.cons z ihz).trans (List.Perm.swap y z zs)

theorem sortNat_perm (l : List Nat) : (sortNat l).Perm l := by
  induction l with
  | nil => exact List.Perm.refl _
  | cons x xs ih =>
    simp only [sortNat, List.foldr_cons]
    have ins : ∀ (y : Nat) (l : List Nat), (insertSorted y l).Perm (y :: l) := by
      intro y l
      induction l with
      | nil => exact List.Perm.refl _
      | cons z zs ihz =>
        simp only [insertSorted]
        split
        · exact List.Perm.refl _
        · exact (List.Perm.cons z ihz).trans (List.Perm.swap y z zs)
    exact (ins x _).trans (List.Perm.cons x ih)

theorem insertSorted_sorted (y : Nat) (l : List Nat) (h : l.Pairwise (· ≤ ·)) : (insertSorted y l).Pairwise (· ≤ ·) := by
  induction l with
  | nil => simp [insertSorted]
  | cons z zs ih =>
    simp only [insertSorted]
    obtain ⟨h1, h2⟩ := List.pairwise_cons.mp h
    split
    · next hle =>
      apply List.pairwise_cons.mpr
      refine ⟨?_, h⟩
      intro a ha
      simp only [List.mem_cons] at ha
      rcases ha with rfl | ha
      · exact hle
      · have := h1 a ha; omega
    · next hgt =>
      apply List.pairwise_cons.mpr
      refine ⟨?_, ih h2⟩
      intro a ha
      have hp := insertSorted_perm y zs
      have := hp.subset ha
      simp only [List.mem_cons] at this
      rcases this with rfl | hm
      · omega
      · exact h1 a hm

theorem sortNat_sorted (l : List Nat) : (sortNat l).Pairwise (· ≤ ·) := by
  induction l with
  | nil => simp [sortNat]
  | cons x xs ih => simp only [sortNat, List.foldr_cons]; exact insertSorted_sorted x _ ih

theorem cxMask_eq_filter (b : Box) (els : List (Option Elem)) :
    cxMask b els = (List.range els.length).filter (fun i => elemIB b (els.getD i none)) := by
  unfold cxMask
  induction els using List.reverseRecOn with
  | nil => rfl
  | append_singleton xs x ih =>
    rw [List.length_append, List.length_singleton, List.range_succ, List.zip_append (by simp)]
    simp only [List.zip_cons_cons, List.zip_nil_right, List.filterMap_append, List.filterMap_cons, List.filterMap_nil, List.filter_append]
    congr 1
    · rw [ih]
      apply List.filter_congr
      intro i hi
      have hlt : i < xs.length := by simpa using hi
      simp [List.getD_eq_getElem?_getD, List.getElem?_append_left hlt]
    · by_cases hx : elemIB b x = true
      · simp [hx, List.getD_eq_getElem?_getD]
      · simp [hx, List.getD_eq_getElem?_getD]

end SpVerif.Frames
