import SpVerif.Model.DaskJoin
import SpVerif.Lemmas.HitBox
import SpVerif.Lemmas.DaskFacts
import Mathlib.Data.List.Perm.Basic
/-!
# C06: `sjoin` of a Dask frame = `sjoin` of the concatenated pandas frame

`joinK_eq`: restricting the right frame to a candidate set that contains every matching row changes nothing.
`join_left_append` / `pairs_append_perm`: the join of a concatenation is the concatenation of the joins (for `how='left'` in the
same order, for `how='inner'` up to order: pandas orders the inner result by right row, Dask by partition).
-/
namespace SpVerif.DaskJoin
open SpVerif.Geom SpVerif.Frames SpVerif.Join

theorem flatMap_filter_of_nil {α β : Type} (k : α → Bool) (f : α → List β) :
    ∀ js : List α, (∀ j ∈ js, k j = false → f j = []) → (js.filter k).flatMap f = js.flatMap f := by
  intro js
  induction js with
  | nil => intro _; rfl
  | cons j js ih =>
    intro h
    have ih' := ih (fun x hx => h x (List.mem_cons_of_mem _ hx))
    cases hk : k j with
    | true => simp only [List.filter_cons, hk, if_true, List.flatMap_cons, ih']
    | false =>
      have := h j (List.mem_cons_self) hk
      simp only [List.filter_cons, hk, List.flatMap_cons, this, List.nil_append]
      exact ih'

/-- candidates that contain every match: the restricted pair table is the full one -/
theorem pairsK_eq (left : List (Option Pt)) (right : List (Option Elem)) (k : Nat → Bool)
    (hs : ∀ i j, i < left.length → hit (left.getD i none) (right.getD j none) = true → k j = true) :
    pairsK left right k = pairs left right := by
  unfold pairsK pairs
  apply flatMap_filter_of_nil
  intro j _ hk
  have : (List.range left.length).filter (fun i => hit (left.getD i none) (right.getD j none)) = [] := by
    rw [List.filter_eq_nil_iff]
    intro i hi hh
    have hi' : i < left.length := by simpa using hi
    have := hs i j hi' hh
    rw [hk] at this
    exact Bool.false_ne_true this
  rw [this]; rfl

theorem joinK_eq (how : How) (hhow : how ≠ .right) (left : List (Option Pt)) (right : List (Option Elem)) (k : Nat → Bool)
    (hs : ∀ i j, i < left.length → hit (left.getD i none) (right.getD j none) = true → k j = true) :
    joinK how left right k = join how left right := by
  unfold joinK join
  rw [pairsK_eq left right k hs]
  cases how with
  | inner => rfl
  | left => rfl
  | right => exact absurd rfl hhow

/-- the right rows matching left row `i` -/
def matchesOf (left : List (Option Pt)) (right : List (Option Elem)) (i : Nat) : List Nat :=
  (List.range right.length).filter (fun j => hit (left.getD i none) (right.getD j none))

theorem range_filter_eq (n i : Nat) (h : Nat → Bool) :
    (List.range n).filter (fun x => x == i && h x) = if i < n ∧ h i = true then [i] else [] := by
  induction n with
  | zero => simp
  | succ n ih =>
    rw [List.range_succ, List.filter_append, ih]
    by_cases hin : i < n
    · have hne : ¬ (n == i) = true := by simp; omega
      by_cases hh : h i = true
      · simp [hin, hh, hne]; omega
      · simp [hin, hh, hne]
    · by_cases hni : n = i
      · subst hni
        by_cases hh : h n = true
        · simp [hh]
        · simp [hh]
      · have hne : ¬ (n == i) = true := by simp; exact hni
        have : ¬ i < n + 1 := by omega
        simp [hin, hne, this]

theorem flatMap_ite_singleton {α β : Type} (c : α → Bool) (g : α → β) (l : List α) :
    l.flatMap (fun a => if c a = true then [g a] else []) = (l.filter c).map g := by
  induction l with
  | nil => rfl
  | cons a l ih =>
    simp only [List.flatMap_cons, ih, List.filter_cons]
    cases c a <;> simp

theorem pairs_filter_fst (left : List (Option Pt)) (right : List (Option Elem)) (i : Nat) (hi : i < left.length) :
    (pairs left right).filter (fun p => p.1 == i) = (matchesOf left right i).map (fun j => (i, j)) := by
  unfold pairs matchesOf
  rw [List.filter_flatMap]
  have : ∀ j, (((List.range left.length).filter (fun i => hit (left.getD i none) (right.getD j none))).map (fun i => (i, j))).filter
      (fun p => p.1 == i) = if hit (left.getD i none) (right.getD j none) = true then [(i, j)] else [] := by
    intro j
    rw [List.filter_map, List.filter_filter]
    have e : (fun a => ((fun p : Nat × Nat => p.1 == i) ∘ fun i => (i, j)) a && hit (left.getD a none) (right.getD j none)) =
        (fun x => x == i && hit (left.getD x none) (right.getD j none)) := by funext a; rfl
    rw [e, range_filter_eq]
    by_cases hh : hit (left.getD i none) (right.getD j none) = true
    · rw [if_pos ⟨hi, hh⟩, if_pos hh]; rfl
    · rw [if_neg (fun h => hh h.2), if_neg hh]; rfl
  simp only [this]
  exact flatMap_ite_singleton _ _ _

/-- `how='left'` written row by row -/
def leftRows (left : List (Option Pt)) (right : List (Option Elem)) (i : Nat) : List (Option Nat × Option Nat) :=
  let m := matchesOf left right i
  if m.isEmpty then [(some i, none)] else m.map (fun j => (some i, some j))

theorem join_left_rows (left : List (Option Pt)) (right : List (Option Elem)) :
    join .left left right = (List.range left.length).flatMap (leftRows left right) := by
  unfold join
  simp only
  apply List.flatMap_congr
  intro i hi
  have hi' : i < left.length := by simpa using hi
  rw [pairs_filter_fst left right i hi']
  unfold leftRows
  simp only [List.isEmpty_map, List.map_map]
  rfl

theorem getD_append_left' (A B : List (Option Pt)) (i : Nat) (h : i < A.length) : (A ++ B).getD i none = A.getD i none := by
  simp [List.getD_eq_getElem?_getD, List.getElem?_append_left h]

theorem getD_append_right' (A B : List (Option Pt)) (i : Nat) : (A ++ B).getD (A.length + i) none = B.getD i none := by
  simp [List.getD_eq_getElem?_getD, List.getElem?_append_right]

theorem leftRows_append_left (A B : List (Option Pt)) (right : List (Option Elem)) (i : Nat) (h : i < A.length) :
    leftRows (A ++ B) right i = leftRows A right i := by
  unfold leftRows matchesOf
  rw [getD_append_left' A B i h]

theorem leftRows_append_right (A B : List (Option Pt)) (right : List (Option Elem)) (i : Nat) :
    leftRows (A ++ B) right (A.length + i) = (leftRows B right i).map (shift A.length) := by
  unfold leftRows matchesOf
  rw [getD_append_right' A B i]
  simp only
  split
  · simp [shift, Nat.add_comm]
  · simp [shift, List.map_map, Function.comp_def, Nat.add_comm]

/-- **left join of a concatenation** = the left joins, concatenated, the second moved by the rows before it -/
theorem join_left_append (A B : List (Option Pt)) (right : List (Option Elem)) :
    join .left (A ++ B) right = join .left A right ++ (join .left B right).map (shift A.length) := by
  rw [join_left_rows, join_left_rows, join_left_rows, List.length_append, List.range_add, List.flatMap_append]
  congr 1
  · apply List.flatMap_congr
    intro i hi
    exact leftRows_append_left A B right i (by simpa using hi)
  · rw [List.flatMap_map, List.map_flatMap]
    apply List.flatMap_congr
    intro i _
    exact leftRows_append_right A B right i

theorem shift_zero (l : List (Option Nat × Option Nat)) : l.map (shift 0) = l := by
  have : shift 0 = id := by
    funext r
    obtain ⟨a, b⟩ := r
    cases a <;> simp [shift]
  rw [this, List.map_id]

theorem shift_shift (a b : Nat) (l : List (Option Nat × Option Nat)) : (l.map (shift a)).map (shift b) = l.map (shift (a + b)) := by
  rw [List.map_map]
  apply List.map_congr_left
  intro r _
  obtain ⟨x, y⟩ := r
  cases x <;> simp [shift, Nat.add_assoc]

/-- **Dask left join** = pandas left join of the concatenation, row for row -/
theorem daskJoin_left (right : List (Option Elem)) (keep : List (Option Pt) → Nat → Bool) :
    ∀ (parts : List (List (Option Pt))) (off : Nat),
      (∀ P ∈ parts, ∀ i j, i < P.length → hit (P.getD i none) (right.getD j none) = true → keep P j = true) →
      daskJoin .left right keep off parts = (join .left parts.flatten right).map (shift off) := by
  intro parts
  induction parts with
  | nil => intro off _; simp [daskJoin, join]
  | cons P rest ih =>
    intro off hs
    simp only [daskJoin, List.flatten_cons]
    rw [joinK_eq .left (by decide) P right (keep P) (hs P (List.mem_cons_self)),
        ih (off + P.length) (fun Q hQ => hs Q (List.mem_cons_of_mem _ hQ)), join_left_append, List.map_append, shift_shift]
    congr 3
    omega

/-- the pair table of a concatenation, up to order -/
theorem pairs_append_perm (A B : List (Option Pt)) (right : List (Option Elem)) :
    (pairs (A ++ B) right).Perm (pairs A right ++ (pairs B right).map (fun p => (p.1 + A.length, p.2))) := by
  unfold pairs
  have hj : ∀ j, ((List.range (A ++ B).length).filter (fun i => hit ((A ++ B).getD i none) (right.getD j none))).map (fun i => (i, j)) =
      ((List.range A.length).filter (fun i => hit (A.getD i none) (right.getD j none))).map (fun i => (i, j)) ++
      (((List.range B.length).filter (fun i => hit (B.getD i none) (right.getD j none))).map (fun i => (i, j))).map
        (fun p => (p.1 + A.length, p.2)) := by
    intro j
    rw [List.length_append, List.range_add, List.filter_append, List.map_append]
    congr 1
    · congr 1
      apply List.filter_congr
      intro i hi
      rw [getD_append_left' A B i (by simpa using hi)]
    · rw [List.filter_map, List.map_map, List.map_map]
      have e : ((fun i => hit ((A ++ B).getD i none) (right.getD j none)) ∘ fun x => A.length + x) =
          (fun i => hit (B.getD i none) (right.getD j none)) := by
        funext i
        simp only [Function.comp]
        rw [getD_append_right' A B i]
      rw [e]
      apply List.map_congr_left
      intro i _
      simp [Nat.add_comm]
  simp only [hj]
  refine (List.flatMap_append_perm _ _ _).symm.trans ?_
  rw [List.map_flatMap]

/-- **Dask inner join** = pandas inner join of the concatenation, as a multiset of rows -/
theorem daskJoin_inner (right : List (Option Elem)) (keep : List (Option Pt) → Nat → Bool) :
    ∀ (parts : List (List (Option Pt))) (off : Nat),
      (∀ P ∈ parts, ∀ i j, i < P.length → hit (P.getD i none) (right.getD j none) = true → keep P j = true) →
      (daskJoin .inner right keep off parts).Perm ((join .inner parts.flatten right).map (shift off)) := by
  intro parts
  induction parts with
  | nil => intro off _; simp [daskJoin, join, pairs]
  | cons P rest ih =>
    intro off hs
    simp only [daskJoin, List.flatten_cons]
    rw [joinK_eq .inner (by decide) P right (keep P) (hs P (List.mem_cons_self))]
    have h2 := ih (off + P.length) (fun Q hQ => hs Q (List.mem_cons_of_mem _ hQ))
    have h3 : ((join .inner (P ++ rest.flatten) right).map (shift off)).Perm
        ((join .inner P right).map (shift off) ++ (join .inner rest.flatten right).map (shift (off + P.length))) := by
      unfold join
      simp only
      have hp := pairs_append_perm P rest.flatten right
      refine ((hp.map _).map _).trans ?_
      rw [List.map_append, List.map_append, List.map_map, List.map_map, List.map_map, List.map_map]
      apply List.Perm.of_eq
      congr 1
      apply List.map_congr_left
      intro p _
      simp [shift, Nat.add_comm, Nat.add_left_comm]
    exact (List.Perm.append_left _ h2).trans h3.symm

/-! ### the candidate filters lose no pair -/

open SpVerif.RTree SpVerif.Dask in
theorem outside_symm (d : Nat) (q b : NBox) : outside d q b = outside d b q := by
  rw [Bool.eq_iff_iff, outside_iff, outside_iff]
  constructor <;> (rintro ⟨k, hk, h⟩; exact ⟨k, hk, by omega⟩)

open SpVerif.RTree SpVerif.Dask in
theorem ptBox_not_outside (p : Pt) (bb : Box) (h : BoxHas bb p) : outside 2 (nbox bb) [p.1, p.2, p.1, p.2] = false := by
  have e : [p.1, p.2, p.1, p.2] = nbox ⟨p.1, p.2, p.1, p.2⟩ := rfl
  rw [e, outside_nbox]
  exact not_outside_of_has (p := p) (by unfold BoxHas; simp) h

/-- a hit: both rows are present, the right one has bounds, and the left point's box overlaps them -/
theorem hit_cand (right : List (Option Elem)) (hw : ∀ e, some e ∈ right → WFElem e) (lp : Option Pt) (j : Nat)
    (h : hit lp (right.getD j none) = true) :
    ∃ p bb, lp = some p ∧ elemBounds (right.getD j none) = some (Dask.nbox bb) ∧ BoxHas bb p := by
  cases lp with
  | none => simp [hit] at h
  | some p =>
    cases he : right.getD j none with
    | none => rw [he] at h; simp [hit] at h
    | some e =>
      rw [he] at h
      have hmem : some e ∈ right := by
        have hj : j < right.length := by
          by_cases hj : j < right.length
          · exact hj
          · rw [List.getD_eq_getElem?_getD, List.getElem?_eq_none (by omega)] at he; simp at he
        rw [List.getD_eq_getElem?_getD, List.getElem?_eq_getElem hj] at he
        simp only [Option.getD_some] at he
        rw [← he]; exact List.getElem_mem hj
      obtain ⟨bb, hbb, hin⟩ := hit_in_bbox p e (hw e hmem) h
      exact ⟨p, bb, rfl, Dask.elemBounds_eq e bb hbb, hin⟩

/-- **the index prefilter of `sjoin` loses no pair**: the pair table computed from the candidates is the table of all hits -/
theorem pairsIdx_eq (left : List (Option Pt)) (right : List (Option Elem)) (hw : ∀ e, some e ∈ right → WFElem e) :
    pairsIdx left right = pairs left right := by
  unfold pairsIdx pairs
  apply List.flatMap_congr
  intro j _
  cases hb : elemBounds (right.getD j none) with
  | none =>
    have : (List.range left.length).filter (fun i => hit (left.getD i none) (right.getD j none)) = [] := by
      rw [List.filter_eq_nil_iff]
      intro i _ hh
      obtain ⟨_, _, _, h2, _⟩ := hit_cand right hw _ j hh
      rw [hb] at h2; cases h2
    rw [this]; rfl
  | some bj =>
    simp only
    congr 1
    unfold cand
    rw [List.filter_filter]
    apply List.filter_congr
    intro i _
    cases hh : hit (left.getD i none) (right.getD j none) with
    | false => simp
    | true =>
      obtain ⟨p, bb, hp, h2, hin⟩ := hit_cand right hw _ j hh
      rw [hb] at h2
      have hbj : bj = Dask.nbox bb := by injection h2
      rw [hp, hbj]
      simp only [ptBox, ptBox_not_outside p bb hin, Bool.not_false, Bool.and_self]

theorem ptBox_eq (o : Option Pt) : ptBox o = elemBounds (o.map Elem.point) := by
  cases o with
  | none => rfl
  | some p => simp [ptBox, elemBounds, elemVerts, bboxOf]

theorem partBounds_eq (P : List (Option Pt)) : partBounds P = Dask.totalBounds (P.map (Option.map Elem.point)) := by
  unfold partBounds Dask.totalBounds
  rw [List.foldl_map]
  congr 1
  funext acc p
  rw [ptBox_eq]

/-- **the partition pruning of the Dask `sjoin` keeps every right row that matches a row of the partition** -/
theorem keepOverlap_sound (right : List (Option Elem)) (hw : ∀ e, some e ∈ right → WFElem e) (P : List (Option Pt)) (i j : Nat)
    (hi : i < P.length) (h : hit (P.getD i none) (right.getD j none) = true) : keepOverlap right P j = true := by
  obtain ⟨p, bb, hp, h2, hin⟩ := hit_cand right hw _ j h
  have hmem : (some p : Option Pt) ∈ P := by
    rw [List.getD_eq_getElem?_getD, List.getElem?_eq_getElem hi] at hp
    simp only [Option.getD_some] at hp
    rw [← hp]; exact List.getElem_mem hi
  have hmem' : (some (Elem.point p)) ∈ P.map (Option.map Elem.point) := List.mem_map.mpr ⟨some p, hmem, rfl⟩
  have hpb : elemBounds (some (Elem.point p)) = some [p.1, p.2, p.1, p.2] := by
    have := ptBox_eq (some p); simpa [ptBox] using this.symm
  obtain ⟨B, hB, hsub⟩ := Dask.totalBounds_contains _ _ hmem' _ hpb
  unfold keepOverlap
  rw [partBounds_eq, hB, h2]
  simp only
  cases ho : RTree.outside 2 B (Dask.nbox bb) with
  | false => rfl
  | true =>
    rw [outside_symm] at ho
    have := RTree.outside_mono hsub ho
    rw [ptBox_not_outside p bb hin] at this
    cases this

end SpVerif.DaskJoin
