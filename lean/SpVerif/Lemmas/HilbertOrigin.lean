import SpVerif.Lemmas.HilbertN
/-!
# C07: the curve starts at the origin, in every dimension and for every order
-/
namespace SpVerif.Hilbert

theorem bitsum_false (k : Nat) : bitsum k (fun _ => false) = 0 := by
  unfold bitsum
  induction k with
  | zero => rfl
  | succ k ih => rw [List.range_succ, List.foldl_append, ih]; rfl

theorem toTranspose_zero (p n : Nat) : toTranspose p n 0 = List.replicate n 0 := by
  unfold toTranspose transposeWord
  simp only [Nat.zero_testBit, bitsum_false]
  induction n with
  | zero => rfl
  | succ n ih => rw [List.range_succ, List.map_append, ih]; simp [List.replicate_succ']

theorem getD_replicate_zero (n i : Nat) : (List.replicate n 0).getD i 0 = 0 := by
  simp [List.getD_eq_getElem?_getD, List.getElem?_replicate]
  split <;> rfl

theorem grayDecodeN_zero (n : Nat) : grayDecodeN (List.replicate n 0) = List.replicate n 0 := by
  unfold grayDecodeN
  simp only [List.length_replicate, getD_replicate_zero, Nat.zero_shiftRight, Nat.xor_self, ite_self]
  induction n with
  | zero => rfl
  | succ n ih => rw [List.range_succ, List.map_append, ih]; simp [List.replicate_succ']

theorem set_replicate_zero (n i : Nat) : (List.replicate n 0).set i 0 = List.replicate n 0 := by
  apply List.ext_getElem
  · simp
  · intro k h1 h2
    simp [List.getElem_set]

theorem step_zeros (q i n : Nat) : step q i (List.replicate n 0) = List.replicate n 0 := by
  unfold step
  simp only [getD_replicate_zero, Nat.zero_testBit, Bool.false_eq_true, if_false, Nat.xor_self, Nat.zero_and, Nat.xor_zero,
    set_replicate_zero]

theorem foldl_step_zeross (q n : Nat) (is : List Nat) : is.foldl (fun Z i => step q i Z) (List.replicate n 0) = List.replicate n 0 := by
  induction is with
  | nil => rfl
  | cons i is ih => simp only [List.foldl_cons, step_zeros, ih]

theorem undoLoopN_zero (n m : Nat) : ∀ p, undoLoopN m p (List.replicate n 0) = List.replicate n 0
  | 0 => rfl
  | 1 => rfl
  | p + 2 => by
    simp only [undoLoopN]
    rw [undoLoopN_zero n m (p + 1), foldl_step_zeross]

/-- **distance 0 is the origin** -/
theorem coordN_zero (p n : Nat) : coordN p n 0 = List.replicate n 0 := by
  unfold coordN
  rw [toTranspose_zero, grayDecodeN_zero, undoLoopN_zero]

end SpVerif.Hilbert
