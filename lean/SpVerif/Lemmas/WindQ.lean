import SpVerif.Lemmas.Winding
/-!
# The winding number about rational points, and its constancy off the ring (DESIGN Appendix B)

`edgeQ` / `windQ` are the closed form of the coded edge rule (`edgeContrib_eq`) read at a point with rational coordinates; at
integer points they are the coded functions (`edgeQ_cast`, `windQ_cast`).  Main results:

* `windQ_vmove`, `windQ_hmove`: moving the point along a vertical / horizontal segment that meets no edge of a closed ring does
  not change the winding number;
* `windQ_far`: it is zero outside the bounding box of a closed ring.
-/
namespace SpVerif.Geom

abbrev QPt := ℚ × ℚ

def orientQ (a b : Pt) (p : QPt) : ℚ := ((b.1 : ℚ) - a.1) * (p.2 - a.2) - ((b.2 : ℚ) - a.2) * (p.1 - a.1)

/-- the edge rule at a rational point -/
def edgeQ (p : QPt) (a b : Pt) : Int :=
  if (a.2 : ℚ) < p.2 ∧ p.2 ≤ b.2 ∧ 0 ≤ orientQ a b p then 1
  else if (b.2 : ℚ) < p.2 ∧ p.2 ≤ a.2 ∧ orientQ a b p ≤ 0 then -1 else 0

def windQ (p : QPt) : List Pt → Int
  | a :: b :: rest => edgeQ p a b + windQ p (b :: rest)
  | _ => 0

theorem edgeQ_cast (p a b : Pt) : edgeQ ((p.1 : ℚ), (p.2 : ℚ)) a b = edgeContrib p a b := by
  rw [edgeContrib_eq]
  have ho : orientQ a b ((p.1 : ℚ), (p.2 : ℚ)) = ((orientI a b p : Int) : ℚ) := (orientI_cast a b p).symm
  unfold edgeQ
  rw [ho]
  simp only [Int.cast_lt, Int.cast_le, Int.cast_nonneg_iff, Int.cast_nonpos]

theorem windQ_cast (p : Pt) (r : List Pt) : windQ ((p.1 : ℚ), (p.2 : ℚ)) r = windSum p r := by
  match r with
  | [] => rfl
  | [a] => rfl
  | a :: b :: rest =>
    simp only [windQ, windSum]
    rw [edgeQ_cast, windQ_cast p (b :: rest)]

/-- `g_t(v) = [v.y ≥ t]` -/
def gQ (t : ℚ) (v : Pt) : Int := if t ≤ (v.2 : ℚ) then 1 else 0

/-! ### the point of a non-horizontal edge at a given height -/

/-- x-coordinate of the line through `a b` at height `t` -/
noncomputable def xAt (a b : Pt) (t : ℚ) : ℚ := (a.1 : ℚ) + (t - a.2) / ((b.2 : ℚ) - a.2) * ((b.1 : ℚ) - a.1)

theorem xAt_onSeg (a b : Pt) (t : ℚ) (hne : (a.2 : ℚ) ≠ b.2) (hlo : min (a.2 : ℚ) b.2 ≤ t) (hhi : t ≤ max (a.2 : ℚ) b.2) :
    OnSeg a b (xAt a b t, t) := by
  have hD : ((b.2 : ℚ) - a.2) ≠ 0 := fun h => hne (by linarith)
  refine ⟨(t - a.2) / ((b.2 : ℚ) - a.2), ?_, ?_, rfl, ?_⟩
  · rcases lt_or_gt_of_ne hne with hlt | hgt
    · have : (a.2 : ℚ) ≤ t := by rw [min_eq_left hlt.le] at hlo; exact hlo
      exact div_nonneg (by linarith) (by linarith)
    · have : t ≤ (a.2 : ℚ) := by rw [max_eq_left hgt.le] at hhi; exact hhi
      exact div_nonneg_of_nonpos (by linarith) (by linarith)
  · rcases lt_or_gt_of_ne hne with hlt | hgt
    · have : t ≤ (b.2 : ℚ) := by rw [max_eq_right hlt.le] at hhi; exact hhi
      rw [div_le_one (by linarith)]; linarith
    · have : (b.2 : ℚ) ≤ t := by rw [min_eq_right hgt.le] at hlo; exact hlo
      rw [div_le_one_of_neg (by linarith)]; linarith
  · show t = (a.2 : ℚ) + (t - a.2) / ((b.2 : ℚ) - a.2) * ((b.2 : ℚ) - a.2)
    rw [div_mul_cancel₀ _ hD]; ring

theorem orientQ_xAt (a b : Pt) (x t : ℚ) (hne : (a.2 : ℚ) ≠ b.2) :
    orientQ a b (x, t) = ((b.2 : ℚ) - a.2) * (xAt a b t - x) := by
  have hD : ((b.2 : ℚ) - a.2) ≠ 0 := fun h => hne (by linarith)
  unfold orientQ xAt
  field_simp
  ring

/-! ### an edge that misses a vertical segment lies on one side of it inside the slab -/

/-- no point of the closed edge `a b` lies on the vertical segment `{x} × [h, h']` -/
def SlabClear (a b : Pt) (x h h' : ℚ) : Prop := ∀ q : QPt, OnSeg a b q → q.1 = x → ¬ (h ≤ q.2 ∧ q.2 ≤ h')

theorem no_straddle (a b : Pt) (x h h' : ℚ) (hc : SlabClear a b x h h') (q1 q2 : QPt) (o1 : OnSeg a b q1) (o2 : OnSeg a b q2)
    (s1 : h ≤ q1.2 ∧ q1.2 ≤ h') (s2 : h ≤ q2.2 ∧ q2.2 ≤ h') (hr : x < q1.1) (hl : q2.1 < x) : False := by
  obtain ⟨t1, t10, t11, e1x, e1y⟩ := o1
  obtain ⟨t2, t20, t21, e2x, e2y⟩ := o2
  have hD : 0 < q1.1 - q2.1 := by linarith
  set lam : ℚ := (q1.1 - x) / (q1.1 - q2.1) with hlam
  have l0 : 0 ≤ lam := div_nonneg (by linarith) hD.le
  have l1 : lam ≤ 1 := by rw [hlam, div_le_one hD]; linarith
  have hl' : lam * (q1.1 - q2.1) = q1.1 - x := by rw [hlam, div_mul_cancel₀ _ (ne_of_gt hD)]
  apply hc ((a.1 : ℚ) + (t1 + lam * (t2 - t1)) * (b.1 - a.1), (a.2 : ℚ) + (t1 + lam * (t2 - t1)) * (b.2 - a.2))
  · refine ⟨t1 + lam * (t2 - t1), ?_, ?_, rfl, rfl⟩
    · nlinarith
    · nlinarith
  · show (a.1 : ℚ) + (t1 + lam * (t2 - t1)) * (b.1 - a.1) = x
    have : (a.1 : ℚ) + (t1 + lam * (t2 - t1)) * (b.1 - a.1) = q1.1 - lam * (q1.1 - q2.1) := by rw [e1x, e2x]; ring
    rw [this, hl']; ring
  · have : (a.2 : ℚ) + (t1 + lam * (t2 - t1)) * (b.2 - a.2) = q1.2 + lam * (q2.2 - q1.2) := by rw [e1y, e2y]; ring
    show h ≤ (a.2 : ℚ) + (t1 + lam * (t2 - t1)) * (b.2 - a.2) ∧ (a.2 : ℚ) + (t1 + lam * (t2 - t1)) * (b.2 - a.2) ≤ h'
    rw [this]
    constructor <;> nlinarith [s1.1, s1.2, s2.1, s2.2]

/-- all points of the edge inside the slab are on the same side of the vertical line -/
theorem same_side (a b : Pt) (x h h' : ℚ) (hc : SlabClear a b x h h') (q1 q2 : QPt) (o1 : OnSeg a b q1) (o2 : OnSeg a b q2)
    (s1 : h ≤ q1.2 ∧ q1.2 ≤ h') (s2 : h ≤ q2.2 ∧ q2.2 ≤ h') : x < q1.1 ↔ x < q2.1 := by
  have n1 : q1.1 ≠ x := fun e => hc q1 o1 e s1
  have n2 : q2.1 ≠ x := fun e => hc q2 o2 e s2
  constructor
  · intro hr
    by_contra hn
    have : q2.1 < x := lt_of_le_of_ne (not_lt.mp hn) n2
    exact no_straddle a b x h h' hc q1 q2 o1 o2 s1 s2 hr this
  · intro hr
    by_contra hn
    have : q1.1 < x := lt_of_le_of_ne (not_lt.mp hn) n1
    exact no_straddle a b x h h' hc q2 q1 o2 o1 s2 s1 hr this


open Classical in
/-- 1 when the part of the edge inside the slab lies to the right of the vertical line, else 0 -/
noncomputable def sideR (a b : Pt) (x h h' : ℚ) : Int :=
  if ∃ q : QPt, OnSeg a b q ∧ (h ≤ q.2 ∧ q.2 ≤ h') ∧ x < q.1 then 1 else 0

theorem sideR_of_point (a b : Pt) (x h h' : ℚ) (hc : SlabClear a b x h h') (q : QPt) (o : OnSeg a b q) (s : h ≤ q.2 ∧ q.2 ≤ h') :
    sideR a b x h h' = if x < q.1 then 1 else 0 := by
  unfold sideR
  by_cases hq : x < q.1
  · have : ∃ q : QPt, OnSeg a b q ∧ (h ≤ q.2 ∧ q.2 ≤ h') ∧ x < q.1 := ⟨q, o, s, hq⟩
    simp only [this, hq, if_true]
  · have : ¬ ∃ q : QPt, OnSeg a b q ∧ (h ≤ q.2 ∧ q.2 ≤ h') ∧ x < q.1 := by
      rintro ⟨q0, o0, s0, hq0⟩
      exact hq ((same_side a b x h h' hc q0 q o0 o s0 s).mp hq0)
    simp only [this, hq, if_false]

theorem onSeg_left (a b : Pt) : OnSeg a b ((a.1 : ℚ), (a.2 : ℚ)) := ⟨0, le_refl _, by norm_num, by simp, by simp⟩
theorem onSeg_right (a b : Pt) : OnSeg a b ((b.1 : ℚ), (b.2 : ℚ)) := ⟨1, by norm_num, le_refl _, by simp, by simp⟩

/-- inside the slab the edge rule only depends on which side of the vertical segment the edge is -/
theorem edgeQ_slab (a b : Pt) (x h h' t : ℚ) (hc : SlabClear a b x h h') (ht : h ≤ t ∧ t ≤ h') :
    edgeQ (x, t) a b = (gQ t b - gQ t a) * sideR a b x h h' := by
  unfold edgeQ gQ
  simp only
  by_cases hup : (a.2 : ℚ) < t ∧ t ≤ b.2
  · have hne : (a.2 : ℚ) ≠ b.2 := by intro e; rw [e] at hup; linarith [hup.1, hup.2]
    have hlt : (a.2 : ℚ) < b.2 := lt_of_lt_of_le hup.1 hup.2
    have on := xAt_onSeg a b t hne (by rw [min_eq_left hlt.le]; exact hup.1.le) (by rw [max_eq_right hlt.le]; exact hup.2)
    have hs := sideR_of_point a b x h h' hc _ on ht
    have hnx : xAt a b t ≠ x := fun e => hc _ on e ht
    rw [orientQ_xAt a b x t hne, hs]
    have g1 : t ≤ (b.2 : ℚ) := hup.2
    have g2 : ¬ t ≤ (a.2 : ℚ) := not_le.mpr hup.1
    simp only [g1, g2, if_true, if_false]
    by_cases hx : x < xAt a b t
    · have : 0 ≤ ((b.2 : ℚ) - a.2) * (xAt a b t - x) := mul_nonneg (by linarith) (by linarith)
      simp only [hup, this, and_self, if_true, hx]; norm_num
    · have hx' : xAt a b t < x := lt_of_le_of_ne (not_lt.mp hx) hnx
      have : ¬ 0 ≤ ((b.2 : ℚ) - a.2) * (xAt a b t - x) := by
        rw [not_le]; exact mul_neg_of_pos_of_neg (by linarith) (by linarith)
      have nd : ¬ ((b.2 : ℚ) < t ∧ t ≤ a.2 ∧ ((b.2 : ℚ) - a.2) * (xAt a b t - x) ≤ 0) := by
        rintro ⟨d1, _, _⟩; linarith
      simp only [this, and_false, if_false, nd, hx]; norm_num
  · by_cases hdn : (b.2 : ℚ) < t ∧ t ≤ a.2
    · have hne : (a.2 : ℚ) ≠ b.2 := by intro e; rw [e] at hdn; linarith [hdn.1, hdn.2]
      have hgt : (b.2 : ℚ) < a.2 := lt_of_lt_of_le hdn.1 hdn.2
      have on := xAt_onSeg a b t hne (by rw [min_eq_right hgt.le]; exact hdn.1.le) (by rw [max_eq_left hgt.le]; exact hdn.2)
      have hs := sideR_of_point a b x h h' hc _ on ht
      have hnx : xAt a b t ≠ x := fun e => hc _ on e ht
      rw [orientQ_xAt a b x t hne, hs]
      have g1 : ¬ t ≤ (b.2 : ℚ) := not_le.mpr hdn.1
      have g2 : t ≤ (a.2 : ℚ) := hdn.2
      have nu : ¬ ((a.2 : ℚ) < t ∧ t ≤ b.2 ∧ 0 ≤ ((b.2 : ℚ) - a.2) * (xAt a b t - x)) := fun c => hup ⟨c.1, c.2.1⟩
      simp only [g1, g2, if_true, if_false, nu]
      by_cases hx : x < xAt a b t
      · have : ((b.2 : ℚ) - a.2) * (xAt a b t - x) ≤ 0 := mul_nonpos_of_nonpos_of_nonneg (by linarith) (by linarith)
        simp only [hdn, this, and_self, if_true, hx]; norm_num
      · have hx' : xAt a b t < x := lt_of_le_of_ne (not_lt.mp hx) hnx
        have : ¬ ((b.2 : ℚ) - a.2) * (xAt a b t - x) ≤ 0 := by
          rw [not_le]; exact mul_pos_of_neg_of_neg (by linarith) (by linarith)
        simp only [this, and_false, if_false, hx]; norm_num
    · have nu : ¬ ((a.2 : ℚ) < t ∧ t ≤ b.2 ∧ 0 ≤ orientQ a b (x, t)) := fun c => hup ⟨c.1, c.2.1⟩
      have nd : ¬ ((b.2 : ℚ) < t ∧ t ≤ a.2 ∧ orientQ a b (x, t) ≤ 0) := fun c => hdn ⟨c.1, c.2.1⟩
      simp only [nu, nd, if_false]
      have : (if t ≤ (b.2 : ℚ) then (1 : Int) else 0) = (if t ≤ (a.2 : ℚ) then 1 else 0) := by
        by_cases e1 : t ≤ (b.2 : ℚ) <;> by_cases e2 : t ≤ (a.2 : ℚ)
        · simp [e1, e2]
        · exact absurd ⟨not_le.mp e2, e1⟩ hup
        · exact absurd ⟨not_le.mp e1, e2⟩ hdn
        · simp [e1, e2]
      rw [this]; simp

/-- the potential whose difference along an edge is the change of the edge's contribution -/
noncomputable def phiV (x h h' : ℚ) (v : Pt) : Int := (gQ h' v - gQ h v) * (if x < (v.1 : ℚ) then 1 else 0)

theorem phiV_eq_side (a b : Pt) (x h h' : ℚ) (hhh : h ≤ h') (hc : SlabClear a b x h h') (v : Pt) (ov : OnSeg a b ((v.1 : ℚ), (v.2 : ℚ))) :
    phiV x h h' v = (gQ h' v - gQ h v) * sideR a b x h h' := by
  unfold phiV
  by_cases hband : h ≤ (v.2 : ℚ) ∧ (v.2 : ℚ) ≤ h'
  · rw [sideR_of_point a b x h h' hc _ ov hband]
  · have : gQ h' v - gQ h v = 0 := by
      unfold gQ
      by_cases e1 : h' ≤ (v.2 : ℚ) <;> by_cases e2 : h ≤ (v.2 : ℚ)
      · simp [e1, e2]
      · exact absurd (le_trans hhh e1) e2
      · exact absurd ⟨e2, (not_le.mp e1).le⟩ hband
      · simp [e1, e2]
    rw [this]; simp

/-- **one edge, vertical move**: for an edge that misses the vertical segment from `(x,h)` to `(x,h')` the change of its
contribution is the difference of the potential at its end points -/
theorem edge_vmove (a b : Pt) (x h h' : ℚ) (hhh : h ≤ h') (hc : SlabClear a b x h h') :
    edgeQ (x, h') a b - edgeQ (x, h) a b = phiV x h h' b - phiV x h h' a := by
  rw [edgeQ_slab a b x h h' h' hc ⟨hhh, le_refl _⟩, edgeQ_slab a b x h h' h hc ⟨le_refl _, hhh⟩,
    phiV_eq_side a b x h h' hhh hc b (onSeg_right a b), phiV_eq_side a b x h h' hhh hc a (onSeg_left a b)]
  ring


/-! ### closed rings -/

theorem windQ_vmove_open (r : List Pt) (x h h' : ℚ) (hhh : h ≤ h') (hne : r ≠ [])
    (hc : ∀ s ∈ segs r, SlabClear s.1 s.2 x h h') :
    windQ (x, h') r - windQ (x, h) r = phiV x h h' (lastPt r) - phiV x h h' (r.getD 0 (0, 0)) := by
  match r, hne with
  | [a], _ => simp [windQ, lastPt]
  | a :: b :: rest, _ =>
    have ih := windQ_vmove_open (b :: rest) x h h' hhh (by simp) (fun s hs => hc s (by simp [segs, hs]))
    have he := edge_vmove a b x h h' hhh (hc (a, b) (by simp [segs]))
    simp only [windQ, lastPt, List.getD_cons_zero] at ih ⊢
    omega

/-- **vertical move**: if no edge of a closed ring meets the vertical segment from `(x,h)` to `(x,h')`, the winding number is
the same at both ends -/
theorem windQ_vmove (r : List Pt) (hcl : Closed r) (x h h' : ℚ) (hhh : h ≤ h')
    (hc : ∀ s ∈ segs r, SlabClear s.1 s.2 x h h') : windQ (x, h') r = windQ (x, h) r := by
  have hne : r ≠ [] := by intro e; rw [e] at hcl; exact absurd hcl.1 (by simp)
  have := windQ_vmove_open r x h h' hhh hne hc
  rw [hcl.2] at this
  omega

theorem neg_mul_nonpos_iff {D u : ℚ} (hD : D < 0) : D * u ≤ 0 ↔ 0 ≤ u := by
  constructor
  · intro h1
    by_contra hc
    have := mul_pos_of_neg_of_neg hD (not_le.mp hc)
    linarith
  · intro h1
    exact mul_nonpos_of_nonpos_of_nonneg hD.le h1

/-- no point of the closed edge `a b` lies on the horizontal segment `[x, x'] × {h}` -/
def RowClear (a b : Pt) (x x' h : ℚ) : Prop := ∀ q : QPt, OnSeg a b q → q.2 = h → ¬ (x ≤ q.1 ∧ q.1 ≤ x')

theorem edge_hmove (a b : Pt) (x x' h : ℚ) (hxx : x ≤ x') (hc : RowClear a b x x' h) : edgeQ (x', h) a b = edgeQ (x, h) a b := by
  unfold edgeQ
  simp only
  by_cases hup : (a.2 : ℚ) < h ∧ h ≤ b.2
  · have hne : (a.2 : ℚ) ≠ b.2 := by intro e; rw [e] at hup; linarith [hup.1, hup.2]
    have hlt : (a.2 : ℚ) < b.2 := lt_of_lt_of_le hup.1 hup.2
    have on := xAt_onSeg a b h hne (by rw [min_eq_left hlt.le]; exact hup.1.le) (by rw [max_eq_right hlt.le]; exact hup.2)
    have hout := hc _ on rfl
    rw [orientQ_xAt a b x h hne, orientQ_xAt a b x' h hne]
    have hD : (0 : ℚ) < (b.2 : ℚ) - a.2 := by linarith
    have key : (0 ≤ ((b.2 : ℚ) - a.2) * (xAt a b h - x')) ↔ (0 ≤ ((b.2 : ℚ) - a.2) * (xAt a b h - x)) := by
      rw [mul_nonneg_iff_of_pos_left hD, mul_nonneg_iff_of_pos_left hD]
      constructor
      · intro h1; linarith
      · intro h1
        by_contra h2
        exact hout ⟨by linarith, by linarith⟩
    have nd1 : ¬ ((b.2 : ℚ) < h ∧ h ≤ a.2 ∧ ((b.2 : ℚ) - a.2) * (xAt a b h - x') ≤ 0) := by rintro ⟨d1, d2, _⟩; linarith
    have nd2 : ¬ ((b.2 : ℚ) < h ∧ h ≤ a.2 ∧ ((b.2 : ℚ) - a.2) * (xAt a b h - x) ≤ 0) := by rintro ⟨d1, d2, _⟩; linarith
    simp only [hup, true_and, nd1, nd2, if_false, key]
  · by_cases hdn : (b.2 : ℚ) < h ∧ h ≤ a.2
    · have hne : (a.2 : ℚ) ≠ b.2 := by intro e; rw [e] at hdn; linarith [hdn.1, hdn.2]
      have hgt : (b.2 : ℚ) < a.2 := lt_of_lt_of_le hdn.1 hdn.2
      have on := xAt_onSeg a b h hne (by rw [min_eq_right hgt.le]; exact hdn.1.le) (by rw [max_eq_left hgt.le]; exact hdn.2)
      have hout := hc _ on rfl
      rw [orientQ_xAt a b x h hne, orientQ_xAt a b x' h hne]
      have hD : ((b.2 : ℚ) - a.2) < 0 := by linarith
      have key : (((b.2 : ℚ) - a.2) * (xAt a b h - x') ≤ 0) ↔ (((b.2 : ℚ) - a.2) * (xAt a b h - x) ≤ 0) := by
        rw [neg_mul_nonpos_iff hD, neg_mul_nonpos_iff hD]
        constructor
        · intro h1; linarith
        · intro h1
          by_contra h2
          exact hout ⟨by linarith, by linarith⟩
      have nu1 : ¬ ((a.2 : ℚ) < h ∧ h ≤ b.2 ∧ 0 ≤ ((b.2 : ℚ) - a.2) * (xAt a b h - x')) := fun c => hup ⟨c.1, c.2.1⟩
      have nu2 : ¬ ((a.2 : ℚ) < h ∧ h ≤ b.2 ∧ 0 ≤ ((b.2 : ℚ) - a.2) * (xAt a b h - x)) := fun c => hup ⟨c.1, c.2.1⟩
      simp only [nu1, nu2, if_false, hdn, true_and, key]
    · have nu1 : ¬ ((a.2 : ℚ) < h ∧ h ≤ b.2 ∧ 0 ≤ orientQ a b (x', h)) := fun c => hup ⟨c.1, c.2.1⟩
      have nu2 : ¬ ((a.2 : ℚ) < h ∧ h ≤ b.2 ∧ 0 ≤ orientQ a b (x, h)) := fun c => hup ⟨c.1, c.2.1⟩
      have nd1 : ¬ ((b.2 : ℚ) < h ∧ h ≤ a.2 ∧ orientQ a b (x', h) ≤ 0) := fun c => hdn ⟨c.1, c.2.1⟩
      have nd2 : ¬ ((b.2 : ℚ) < h ∧ h ≤ a.2 ∧ orientQ a b (x, h) ≤ 0) := fun c => hdn ⟨c.1, c.2.1⟩
      simp only [nu1, nu2, nd1, nd2, if_false]

/-- **horizontal move**: if no edge meets the horizontal segment from `(x,h)` to `(x',h)`, no edge's contribution changes -/
theorem windQ_hmove (r : List Pt) (x x' h : ℚ) (hxx : x ≤ x') (hc : ∀ s ∈ segs r, RowClear s.1 s.2 x x' h) :
    windQ (x', h) r = windQ (x, h) r := by
  match r with
  | [] => rfl
  | [a] => rfl
  | a :: b :: rest =>
    have ih := windQ_hmove (b :: rest) x x' h hxx (fun s hs => hc s (by simp [segs, hs]))
    have he := edge_hmove a b x x' h hxx (hc (a, b) (by simp [segs]))
    simp only [windQ]
    rw [ih, he]


/-! ### constancy on a box that misses the ring -/

/-- no point of any edge of the ring lies in the closed box -/
def BoxClear (b : Box) (r : List Pt) : Prop := ∀ s ∈ segs r, ∀ q : QPt, OnSeg s.1 s.2 q → ¬ InBoxQ b q

theorem windQ_vmove' (r : List Pt) (hcl : Closed r) (x h h' : ℚ)
    (hc : ∀ s ∈ segs r, SlabClear s.1 s.2 x (min h h') (max h h')) : windQ (x, h') r = windQ (x, h) r := by
  rcases le_total h h' with hle | hle
  · rw [min_eq_left hle, max_eq_right hle] at hc
    exact windQ_vmove r hcl x h h' hle hc
  · rw [min_eq_right hle, max_eq_left hle] at hc
    exact (windQ_vmove r hcl x h' h hle hc).symm

theorem windQ_hmove' (r : List Pt) (x x' h : ℚ)
    (hc : ∀ s ∈ segs r, RowClear s.1 s.2 (min x x') (max x x') h) : windQ (x', h) r = windQ (x, h) r := by
  rcases le_total x x' with hle | hle
  · rw [min_eq_left hle, max_eq_right hle] at hc
    exact windQ_hmove r x x' h hle hc
  · rw [min_eq_right hle, max_eq_left hle] at hc
    exact (windQ_hmove r x' x h hle hc).symm

/-- **the winding number is constant on every box that contains no point of the ring** -/
theorem windQ_const_box (r : List Pt) (hcl : Closed r) (b : Box) (hclear : BoxClear b r) (q1 q2 : QPt)
    (h1 : InBoxQ b q1) (h2 : InBoxQ b q2) : windQ q1 r = windQ q2 r := by
  obtain ⟨a1, a2, a3, a4⟩ := h1
  obtain ⟨c1, c2, c3, c4⟩ := h2
  have v : windQ (q1.1, q2.2) r = windQ (q1.1, q1.2) r := by
    apply windQ_vmove' r hcl
    intro s hs q on ex hy
    apply hclear s hs q on
    refine ⟨by rw [ex]; exact a1, by rw [ex]; exact a2, ?_, ?_⟩
    · exact le_trans (le_min a3 c3) hy.1
    · exact le_trans hy.2 (max_le a4 c4)
  have hm : windQ (q2.1, q2.2) r = windQ (q1.1, q2.2) r := by
    apply windQ_hmove' r
    intro s hs q on ey hx
    apply hclear s hs q on
    refine ⟨?_, ?_, by rw [ey]; exact c3, by rw [ey]; exact c4⟩
    · exact le_trans (le_min a1 c1) hx.1
    · exact le_trans hx.2 (max_le a2 c2)
  calc windQ q1 r = windQ (q1.1, q1.2) r := rfl
    _ = windQ (q1.1, q2.2) r := v.symm
    _ = windQ (q2.1, q2.2) r := hm.symm
    _ = windQ q2 r := rfl

/-! ### far away -/

theorem windQ_zero_of_edges (p : QPt) (r : List Pt) (h : ∀ s ∈ segs r, edgeQ p s.1 s.2 = 0) : windQ p r = 0 := by
  match r with
  | [] => rfl
  | [a] => rfl
  | a :: b :: rest =>
    simp only [windQ]
    have h1 := h (a, b) (by simp [segs])
    have h2 := windQ_zero_of_edges p (b :: rest) (fun s hs => h s (by simp [segs, hs]))
    simp only at h1
    omega

theorem edgeQ_left (p : QPt) (a b : Pt) (ha : p.1 < (a.1 : ℚ)) (hb : p.1 < (b.1 : ℚ)) : edgeQ p a b = gQ p.2 b - gQ p.2 a := by
  unfold edgeQ gQ
  by_cases c1 : (a.2 : ℚ) < p.2 ∧ p.2 ≤ b.2
  · have ho : 0 ≤ orientQ a b p := by
      unfold orientQ
      have e : ((b.1 : ℚ) - a.1) * (p.2 - a.2) - ((b.2 : ℚ) - a.2) * (p.1 - a.1) = ((b.1 : ℚ) - p.1) * (p.2 - a.2) + ((a.1 : ℚ) - p.1) * (b.2 - p.2) := by ring
      rw [e]
      have := mul_nonneg (by linarith : (0 : ℚ) ≤ (b.1 : ℚ) - p.1) (by linarith [c1.1] : (0 : ℚ) ≤ p.2 - a.2)
      have := mul_nonneg (by linarith : (0 : ℚ) ≤ (a.1 : ℚ) - p.1) (by linarith [c1.2] : (0 : ℚ) ≤ (b.2 : ℚ) - p.2)
      linarith
    have g2 : ¬ p.2 ≤ (a.2 : ℚ) := not_le.mpr c1.1
    simp only [c1, ho, and_self, if_true, g2, if_false]; norm_num
  · by_cases c2 : (b.2 : ℚ) < p.2 ∧ p.2 ≤ a.2
    · have ho : orientQ a b p ≤ 0 := by
        unfold orientQ
        have e : ((b.1 : ℚ) - a.1) * (p.2 - a.2) - ((b.2 : ℚ) - a.2) * (p.1 - a.1) = -(((b.1 : ℚ) - p.1) * (a.2 - p.2) + ((a.1 : ℚ) - p.1) * (p.2 - b.2)) := by ring
        rw [e]
        have := mul_nonneg (by linarith : (0 : ℚ) ≤ (b.1 : ℚ) - p.1) (by linarith [c2.2] : (0 : ℚ) ≤ (a.2 : ℚ) - p.2)
        have := mul_nonneg (by linarith : (0 : ℚ) ≤ (a.1 : ℚ) - p.1) (by linarith [c2.1] : (0 : ℚ) ≤ p.2 - b.2)
        linarith
      have nu : ¬ ((a.2 : ℚ) < p.2 ∧ p.2 ≤ b.2 ∧ 0 ≤ orientQ a b p) := fun c => c1 ⟨c.1, c.2.1⟩
      have g1 : ¬ p.2 ≤ (b.2 : ℚ) := not_le.mpr c2.1
      simp only [nu, if_false, c2, ho, and_self, if_true, g1]; norm_num
    · have nu : ¬ ((a.2 : ℚ) < p.2 ∧ p.2 ≤ b.2 ∧ 0 ≤ orientQ a b p) := fun c => c1 ⟨c.1, c.2.1⟩
      have nd : ¬ ((b.2 : ℚ) < p.2 ∧ p.2 ≤ a.2 ∧ orientQ a b p ≤ 0) := fun c => c2 ⟨c.1, c.2.1⟩
      simp only [nu, nd, if_false]
      by_cases e1 : p.2 ≤ (b.2 : ℚ) <;> by_cases e2 : p.2 ≤ (a.2 : ℚ)
      · simp [e1, e2]
      · exact absurd ⟨not_le.mp e2, e1⟩ c1
      · exact absurd ⟨not_le.mp e1, e2⟩ c2
      · simp [e1, e2]

theorem windQ_left (p : QPt) (r : List Pt) (hne : r ≠ []) (h : ∀ v ∈ r, p.1 < (v.1 : ℚ)) :
    windQ p r = gQ p.2 (lastPt r) - gQ p.2 (r.getD 0 (0, 0)) := by
  match r, hne with
  | [a], _ => simp [windQ, lastPt]
  | a :: b :: rest, _ =>
    have ih := windQ_left p (b :: rest) (by simp) (fun v hv => h v (List.mem_cons_of_mem _ hv))
    have he := edgeQ_left p a b (h a (by simp)) (h b (by simp))
    simp only [windQ, lastPt, List.getD_cons_zero] at ih ⊢
    omega

theorem edgeQ_zero_right (p : QPt) (a b : Pt) (ha : (a.1 : ℚ) < p.1) (hb : (b.1 : ℚ) < p.1) : edgeQ p a b = 0 := by
  unfold edgeQ
  have n1 : ¬ ((a.2 : ℚ) < p.2 ∧ p.2 ≤ b.2 ∧ 0 ≤ orientQ a b p) := by
    rintro ⟨h1, h2, h3⟩
    unfold orientQ at h3
    have e : ((b.1 : ℚ) - a.1) * (p.2 - a.2) - ((b.2 : ℚ) - a.2) * (p.1 - a.1) = -((p.1 - (b.1 : ℚ)) * (p.2 - a.2) + (p.1 - (a.1 : ℚ)) * (b.2 - p.2)) := by ring
    rw [e] at h3
    have := mul_pos (by linarith : (0 : ℚ) < p.1 - (b.1 : ℚ)) (by linarith : (0 : ℚ) < p.2 - a.2)
    have := mul_nonneg (by linarith : (0 : ℚ) ≤ p.1 - (a.1 : ℚ)) (by linarith : (0 : ℚ) ≤ (b.2 : ℚ) - p.2)
    linarith
  have n2 : ¬ ((b.2 : ℚ) < p.2 ∧ p.2 ≤ a.2 ∧ orientQ a b p ≤ 0) := by
    rintro ⟨h1, h2, h3⟩
    unfold orientQ at h3
    have e : ((b.1 : ℚ) - a.1) * (p.2 - a.2) - ((b.2 : ℚ) - a.2) * (p.1 - a.1) = (p.1 - (b.1 : ℚ)) * (a.2 - p.2) + (p.1 - (a.1 : ℚ)) * (p.2 - b.2) := by ring
    rw [e] at h3
    have := mul_nonneg (by linarith : (0 : ℚ) ≤ p.1 - (b.1 : ℚ)) (by linarith : (0 : ℚ) ≤ (a.2 : ℚ) - p.2)
    have := mul_pos (by linarith : (0 : ℚ) < p.1 - (a.1 : ℚ)) (by linarith : (0 : ℚ) < p.2 - b.2)
    linarith
  simp only [n1, n2, if_false]

/-- **far away**: the winding number of a closed ring about a rational point outside its bounding box is zero -/
theorem windQ_far (p : QPt) (r : List Pt) (hcl : Closed r) (bb : Box) (hbb : bboxOf r = some bb) (hout : ¬ InBoxQ bb p) :
    windQ p r = 0 := by
  have hall := bboxOf_has r bb hbb
  have cast4 : ∀ v ∈ r, (bb.x0 : ℚ) ≤ v.1 ∧ (v.1 : ℚ) ≤ bb.x1 ∧ (bb.y0 : ℚ) ≤ v.2 ∧ (v.2 : ℚ) ≤ bb.y1 := by
    intro v hv
    obtain ⟨h1, h2, h3, h4⟩ := hall v hv
    exact ⟨by exact_mod_cast h1, by exact_mod_cast h2, by exact_mod_cast h3, by exact_mod_cast h4⟩
  by_cases hy0 : p.2 < (bb.y0 : ℚ)
  · apply windQ_zero_of_edges
    intro s hs
    obtain ⟨m1, m2⟩ := mem_segs hs
    have := (cast4 _ m1).2.2.1; have := (cast4 _ m2).2.2.1
    unfold edgeQ
    have n1 : ¬ ((s.1.2 : ℚ) < p.2 ∧ p.2 ≤ s.2.2 ∧ 0 ≤ orientQ s.1 s.2 p) := by rintro ⟨c, _, _⟩; linarith
    have n2 : ¬ ((s.2.2 : ℚ) < p.2 ∧ p.2 ≤ s.1.2 ∧ orientQ s.1 s.2 p ≤ 0) := by rintro ⟨c, _, _⟩; linarith
    simp only [n1, n2, if_false]
  by_cases hy1 : (bb.y1 : ℚ) < p.2
  · apply windQ_zero_of_edges
    intro s hs
    obtain ⟨m1, m2⟩ := mem_segs hs
    have := (cast4 _ m1).2.2.2; have := (cast4 _ m2).2.2.2
    unfold edgeQ
    have n1 : ¬ ((s.1.2 : ℚ) < p.2 ∧ p.2 ≤ s.2.2 ∧ 0 ≤ orientQ s.1 s.2 p) := by rintro ⟨_, c, _⟩; linarith
    have n2 : ¬ ((s.2.2 : ℚ) < p.2 ∧ p.2 ≤ s.1.2 ∧ orientQ s.1 s.2 p ≤ 0) := by rintro ⟨_, c, _⟩; linarith
    simp only [n1, n2, if_false]
  by_cases hx1 : (bb.x1 : ℚ) < p.1
  · apply windQ_zero_of_edges
    intro s hs
    obtain ⟨m1, m2⟩ := mem_segs hs
    exact edgeQ_zero_right p _ _ (by have := (cast4 _ m1).2.1; linarith) (by have := (cast4 _ m2).2.1; linarith)
  have hx0 : p.1 < (bb.x0 : ℚ) := by
    by_contra hc2
    exact hout ⟨not_lt.mp hc2, not_lt.mp hx1, not_lt.mp hy0, not_lt.mp hy1⟩
  have hne : r ≠ [] := by intro e; rw [e] at hcl; exact absurd hcl.1 (by simp)
  rw [windQ_left p r hne (fun v hv => by have := (cast4 v hv).1; linarith), hcl.2]
  omega


/-! ### crossing one edge changes the winding number by the edge's direction -/

/-- an edge that crosses the height `h` strictly inside itself, at a point strictly between `x` and `x'`, counts at `(x,h)` (to
its left) and not at `(x',h)` (to its right) -/
theorem edge_jump (a b : Pt) (x x' h : ℚ) (hspan : ((a.2 : ℚ) < h ∧ h < b.2) ∨ ((b.2 : ℚ) < h ∧ h < a.2))
    (hl : x < xAt a b h) (hr : xAt a b h < x') : edgeQ (x, h) a b - edgeQ (x', h) a b = gQ h b - gQ h a := by
  have hne : (a.2 : ℚ) ≠ b.2 := by rcases hspan with c | c <;> intro e <;> rw [e] at c <;> linarith [c.1, c.2]
  unfold edgeQ gQ
  simp only
  rw [orientQ_xAt a b x h hne, orientQ_xAt a b x' h hne]
  rcases hspan with ⟨c1, c2⟩ | ⟨c1, c2⟩
  · have hD : (0 : ℚ) < (b.2 : ℚ) - a.2 := by linarith
    have p1 : 0 ≤ ((b.2 : ℚ) - a.2) * (xAt a b h - x) := mul_nonneg hD.le (by linarith)
    have p2 : ¬ 0 ≤ ((b.2 : ℚ) - a.2) * (xAt a b h - x') := by
      rw [not_le]; exact mul_neg_of_pos_of_neg hD (by linarith)
    have nd : ¬ ((b.2 : ℚ) < h) := by linarith
    have g1 : h ≤ (b.2 : ℚ) := c2.le
    have g2 : ¬ h ≤ (a.2 : ℚ) := not_le.mpr c1
    simp only [c1, g1, p1, p2, and_self, and_false, if_true, if_false, nd, false_and, g2] <;> norm_num
  · have hD : ((b.2 : ℚ) - a.2) < 0 := by linarith
    have p1 : ((b.2 : ℚ) - a.2) * (xAt a b h - x) ≤ 0 := mul_nonpos_of_nonpos_of_nonneg hD.le (by linarith)
    have p2 : ¬ ((b.2 : ℚ) - a.2) * (xAt a b h - x') ≤ 0 := by
      rw [not_le]; exact mul_pos_of_neg_of_neg hD (by linarith)
    have nu : ¬ ((a.2 : ℚ) < h) := by linarith
    have g1 : ¬ h ≤ (b.2 : ℚ) := not_le.mpr c1
    have g2 : h ≤ (a.2 : ℚ) := c2.le
    simp only [nu, false_and, if_false, c1, g2, p1, p2, and_self, and_false, if_true, g1] <;> norm_num

theorem windQ_append (p : QPt) (l1 : List Pt) (a : Pt) (l2 : List Pt) :
    windQ p (l1 ++ a :: l2) = windQ p (l1 ++ [a]) + windQ p (a :: l2) := by
  match l1 with
  | [] => simp [windQ]
  | [c] => simp [windQ]
  | c :: d :: rest =>
    have ih := windQ_append p (d :: rest) a l2
    simp only [List.cons_append, windQ] at ih ⊢
    omega

/-- **jump**: if exactly one edge `a → b` of the ring is crossed - transversally, at an interior point - by the horizontal
segment from `(x,h)` to `(x',h)` and no other edge meets that segment, the winding number drops from left to right by the
direction of the edge (`+1` for an edge going up, `-1` for one going down) -/
theorem windQ_jump (l1 l2 : List Pt) (a b : Pt) (x x' h : ℚ) (hxx : x ≤ x')
    (hspan : ((a.2 : ℚ) < h ∧ h < b.2) ∨ ((b.2 : ℚ) < h ∧ h < a.2)) (hl : x < xAt a b h) (hr : xAt a b h < x')
    (hc1 : ∀ s ∈ segs (l1 ++ [a]), RowClear s.1 s.2 x x' h) (hc2 : ∀ s ∈ segs (b :: l2), RowClear s.1 s.2 x x' h) :
    windQ (x, h) (l1 ++ a :: b :: l2) - windQ (x', h) (l1 ++ a :: b :: l2) = gQ h b - gQ h a := by
  rw [windQ_append (x, h), windQ_append (x', h)]
  have e1 := windQ_hmove (l1 ++ [a]) x x' h hxx hc1
  have e2 := windQ_hmove (b :: l2) x x' h hxx hc2
  have ej := edge_jump a b x x' h hspan hl hr
  simp only [windQ] at e1 e2 ⊢
  omega

end SpVerif.Geom
