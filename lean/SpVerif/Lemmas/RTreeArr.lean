import SpVerif.Lemmas.RTree
import SpVerif.Lemmas.RTreeIndex
import SpVerif.Model.RTreeArr
/-!
# C03: the stack traversal over the array-encoded tree is the recursive query over the page tree

`loop` is `_NumbaRtree._maybe_intersects_ranges` as coded: a stack of node indices into `bounds_tree`, `_start_index` /
`_stop_index` for the row range of a node, the leaf test `stop − start ≤ page_size`, children pushed right then left, a NaN row
(absent page) treated as "inside" with a range beyond the data.  `Arr.Holds` says that row `2^t − 1 + j` of `bounds_tree` holds the
box of the sub-tree at depth `t`, position `j` — what the bottom-up pass of `_build_hilbert_rtree` stores.
-/
namespace SpVerif.RTreeArr
open RTree RTreeIndex

/-- `bounds_tree` holds the boxes of the sub-trees -/
def Arr.Holds (d : Nat) (a : Arr) : Prop := ∀ t j, t ≤ a.D → j < 2 ^ t → a.bt (2 ^ t - 1 + j) = (sub a t j).box d

theorem build_take (ps k : Nat) (rs : List Row) (m : Nat) (h : 2 ^ k * ps ≤ m) : build ps k (rs.take m) = build ps k rs := by
  induction k generalizing rs m with
  | zero =>
    simp only [build]
    rw [List.take_take]
    congr 2
    simp only [Nat.pow_zero, Nat.one_mul] at h
    omega
  | succ k ih =>
    simp only [build]
    have h2 : 2 ^ (k + 1) * ps = 2 ^ k * ps + 2 ^ k * ps := by rw [Nat.pow_succ]; rw [Nat.mul_assoc, Nat.mul_comm 2 ps, ← Nat.mul_assoc]; omega
    congr 1
    · rw [List.take_take]
      congr 2
      omega
    · rw [List.drop_take]
      exact ih _ _ (by omega)

theorem sub_node (a : Arr) (t j : Nat) (ht : t < a.D) :
    sub a t j = PTree.node (sub a (t + 1) (2 * j)) (sub a (t + 1) (2 * j + 1)) := by
  unfold sub
  obtain ⟨k, hk⟩ : ∃ k, a.D - t = k + 1 := ⟨a.D - t - 1, by omega⟩
  have hk' : a.D - (t + 1) = k := by omega
  rw [hk, hk']
  simp only [build]
  have e1 : j * 2 ^ (k + 1) * a.ps = 2 * j * 2 ^ k * a.ps := by
    rw [Nat.pow_succ, Nat.mul_comm (2 ^ k) 2, ← Nat.mul_assoc, Nat.mul_comm j 2]
  congr 1
  · rw [build_take _ _ _ _ (Nat.le_refl _), e1]
  · rw [List.drop_drop]
    congr 2
    rw [e1, Nat.add_mul, Nat.add_mul, Nat.one_mul]

theorem sub_leaf (a : Arr) (j : Nat) : sub a a.D j = PTree.leaf ((a.rows.drop (j * a.ps)).take a.ps) := by
  unfold sub
  simp [build]

theorem sub_rows (a : Arr) (t j : Nat) :
    (sub a t j).rows = a.slice (j * 2 ^ (a.D - t) * a.ps) ((j + 1) * 2 ^ (a.D - t) * a.ps) := by
  unfold sub Arr.slice
  rw [build_rows]
  congr 1
  rw [Nat.add_mul, Nat.add_mul, Nat.one_mul]; omega

theorem rows_nil_of_box_none (d : Nat) (t : PTree) (h : t.box d = none) : t.rows = [] := by
  have := box_spec d t
  rw [h] at this
  exact this

/-- number of nodes of a complete binary tree of height `k` -/
def size (k : Nat) : Nat := 2 * 2 ^ k - 1

theorem size_succ (k : Nat) : size (k + 1) = 1 + size k + size k := by
  unfold size
  have := Nat.two_pow_pos k
  rw [Nat.pow_succ]; omega

theorem size_pos (k : Nat) : 1 ≤ size k := by
  unfold size; have := Nat.two_pow_pos k; omega

theorem append_pair (x y z : List Row × List Row) :
    ((x.1 ++ y.1) ++ z.1, (x.2 ++ y.2) ++ z.2) = (x.1 ++ (y.1 ++ z.1), x.2 ++ (y.2 ++ z.2)) := by
  simp [List.append_assoc]

/-- **popping a node is running the recursive query on its sub-tree** -/
theorem loop_node (d : Nat) (q : NBox) (a : Arr) (hps : 1 ≤ a.ps) (hold : a.Holds d) (k : Nat) :
    ∀ (t j : Nat) (rest : List Nat) (acc : List Row × List Row) (fuel : Nat), t + k = a.D → j < 2 ^ t → size k ≤ fuel →
      ∃ used, 1 ≤ used ∧ used ≤ size k ∧
        loop d q a fuel ((2 ^ t - 1 + j) :: rest) acc =
          loop d q a (fuel - used) rest (acc.1 ++ (query d q (sub a t j)).1, acc.2 ++ (query d q (sub a t j)).2) := by
  induction k with
  | zero =>
    intro t j rest acc fuel htk hj hfuel
    have ht : t = a.D := by omega
    obtain ⟨f, rfl⟩ : ∃ f, fuel = f + 1 := ⟨fuel - 1, by have := size_pos 0; omega⟩
    refine ⟨1, Nat.le_refl _, size_pos 0, ?_⟩
    obtain ⟨_, _, hs, he, hleaf⟩ := index_arithmetic a.D a.ps t j hps (by omega) hj
    have hbt := hold t j (by omega) hj
    have hrows := sub_rows a t j
    have hl : sub a t j = PTree.leaf ((a.rows.drop (j * a.ps)).take a.ps) := by rw [ht]; exact sub_leaf a j
    simp only [loop, Arr.len, hs, he, hbt, Nat.add_sub_cancel]
    rw [← hrows]
    cases hb : (sub a t j).box d with
    | none =>
      have hnil := rows_nil_of_box_none d _ hb
      rw [hl] at hb hnil ⊢
      simp only [query, hb, hnil, List.append_nil]
    | some b =>
      rw [hl] at hb ⊢
      simp only [query, hb]
      have hle : (j + 1) * 2 ^ (a.D - t) * a.ps - j * 2 ^ (a.D - t) * a.ps ≤ a.ps := by
        have := hleaf.mpr ht
        rw [hs, he] at this; exact this
      by_cases ho : outside d q b = true
      · simp [ho]
      · by_cases hi : inside d q b = true
        · simp [ho, hi, PTree.rows]
        · simp [ho, hi, hle, PTree.rows]
  | succ k ih =>
    intro t j rest acc fuel htk hj hfuel
    have ht : t < a.D := by omega
    obtain ⟨f, rfl⟩ : ∃ f, fuel = f + 1 := ⟨fuel - 1, by have := size_pos (k + 1); omega⟩
    obtain ⟨hlc, hrc, hs, he, hleaf⟩ := index_arithmetic a.D a.ps t j hps (by omega) hj
    have hbt := hold t j (by omega) hj
    have hrows := sub_rows a t j
    have hn := sub_node a t j ht
    have hnotleaf : ¬ ((j + 1) * 2 ^ (a.D - t) * a.ps - j * 2 ^ (a.D - t) * a.ps ≤ a.ps) := fun h => by
      rw [hs, he] at hleaf
      have := hleaf.mp h; omega
    have hsz := size_succ k
    simp only [loop, Arr.len, hs, he, hbt]
    rw [← hrows]
    cases hb : (sub a t j).box d with
    | none =>
      have hnil := rows_nil_of_box_none d _ hb
      refine ⟨1, Nat.le_refl _, size_pos _, ?_⟩
      simp only [Nat.add_sub_cancel]
      rw [hn] at hb hnil ⊢
      simp only [query, hb, hnil, List.append_nil]
    | some b =>
      by_cases ho : outside d q b = true
      · refine ⟨1, Nat.le_refl _, size_pos _, ?_⟩
        simp only [Nat.add_sub_cancel, ho, if_true]
        rw [hn] at hb ⊢
        simp only [query, hb, ho, if_true, List.append_nil]
      · by_cases hi : inside d q b = true
        · refine ⟨1, Nat.le_refl _, size_pos _, ?_⟩
          simp only [Nat.add_sub_cancel, ho, hi, if_true, if_false, Bool.false_eq_true]
          rw [hn] at hb ⊢
          simp only [query, hb, ho, hi, if_true, if_false, Bool.false_eq_true, List.append_nil]
        · simp only [ho, hi, hnotleaf, if_false, Bool.false_eq_true]
          rw [hlc, hrc]
          have hj2 : 2 * j < 2 ^ (t + 1) := by rw [Nat.pow_succ]; omega
          have hj3 : 2 * j + 1 < 2 ^ (t + 1) := by rw [Nat.pow_succ]; omega
          obtain ⟨u1, u1a, u1b, e1⟩ := ih (t + 1) (2 * j) ((2 ^ (t + 1) - 1 + (2 * j + 1)) :: rest) acc f (by omega) hj2 (by omega)
          rw [e1]
          obtain ⟨u2, u2a, u2b, e2⟩ := ih (t + 1) (2 * j + 1) rest
            (acc.1 ++ (query d q (sub a (t + 1) (2 * j))).1, acc.2 ++ (query d q (sub a (t + 1) (2 * j))).2) (f - u1) (by omega) hj3 (by omega)
          rw [e2]
          refine ⟨1 + u1 + u2, by omega, by omega, ?_⟩
          have hf : f + 1 - (1 + u1 + u2) = f - u1 - u2 := by omega
          rw [hf]
          rw [hn] at hb ⊢
          simp only [query, hb, ho, hi, if_false, Bool.false_eq_true, List.append_assoc]

/-- **the stack traversal over the array is the recursive query over the page tree** (enough fuel: one pop per node) -/
theorem loop_eq_query (d : Nat) (q : NBox) (a : Arr) (hps : 1 ≤ a.ps) (hold : a.Holds d) :
    loop d q a a.len [0] ([], []) = query d q (build a.ps a.D a.rows) := by
  obtain ⟨used, _, _, e⟩ := loop_node d q a hps hold a.D 0 0 [] ([], []) a.len (by omega) (Nat.two_pow_pos 0) (Nat.le_refl _)
  have h0 : 2 ^ 0 - 1 + 0 = 0 := rfl
  rw [h0] at e
  rw [e]
  have hsub : sub a 0 0 = build a.ps a.D a.rows := by simp [sub]
  rw [hsub]
  cases hf : a.len - used with
  | zero => simp [loop]
  | succ n => simp [loop]

end SpVerif.RTreeArr
