import SpVerif.Lemmas.PolyBox
import SpVerif.Model.Join
/-!
# C05 / C06: a point that intersects a shape lies in the shape's bounding box

So the candidate filter of `sjoin` (left rows whose box overlaps the right shape's bounds, from the spatial index) and the
partition pruning of the Dask `sjoin` (right rows whose box overlaps the partition's bounds) never lose a matching pair.
Polygon rings are closed (`WFElem`); for an unclosed ring the coded winding number can be non-zero outside the bounding box.
-/
namespace SpVerif.Join
open SpVerif.Geom SpVerif.Frames

/-- polygon rings are closed -/
def WFElem : Elem → Prop
  | .polygon rs => ∀ r ∈ rs, Closed r
  | .multipolygon ps => ∀ r ∈ ps.flatten, Closed r
  | _ => True

theorem mem_bbox (l : List Pt) (p : Pt) (hp : p ∈ l) : ∃ bb, bboxOf l = some bb ∧ BoxHas bb p := by
  obtain ⟨bb, hbb⟩ := bboxOf_some_of_mem l p hp
  exact ⟨bb, hbb, bboxOf_has l bb hbb p hp⟩

theorem boxHas_of_sub {bb BB : Box} {p : Pt} (hs : BoxSub bb BB) (h : BoxHas bb p) : BoxHas BB p := by
  unfold BoxSub at hs; unfold BoxHas at *; omega

theorem pointLine_bbox (p : Pt) (l : List Pt) (h : pointLine p l = true) : ∃ bb, bboxOf l = some bb ∧ BoxHas bb p := by
  unfold pointLine at h
  cases hb : bboxOf l with
  | none => rw [hb] at h; simp at h
  | some bb =>
    rw [hb] at h
    simp only at h
    refine ⟨bb, rfl, ?_⟩
    by_cases hc : (decide (p.1 < bb.x0) || decide (p.2 < bb.y0) || decide (p.1 > bb.x1) || decide (p.2 > bb.y1)) = true
    · rw [if_pos hc] at h; exact absurd h (by simp)
    · simp only [Bool.or_eq_true, decide_eq_true_eq, not_or, Int.not_lt, gt_iff_lt] at hc
      unfold BoxHas; omega

theorem sum_ne_zero_exists (l : List Int) (h : l.sum ≠ 0) : ∃ x ∈ l, x ≠ 0 := by
  induction l with
  | nil => simp at h
  | cons x xs ih =>
    by_cases hx : x = 0
    · have : xs.sum ≠ 0 := by simpa [hx] using h
      obtain ⟨y, hy, hy0⟩ := ih this
      exact ⟨y, List.mem_cons_of_mem _ hy, hy0⟩
    · exact ⟨x, List.mem_cons_self, hx⟩

theorem pointInRings_bbox (p : Pt) (rings : List (List Pt)) (hw : ∀ r ∈ rings, Closed r) (h : pointInRings p rings = true) :
    ∃ bb, bboxOf rings.flatten = some bb ∧ BoxHas bb p := by
  unfold pointInRings at h
  have hne : winding p rings ≠ 0 := by simpa using h
  rw [winding_eq_sumI] at hne
  obtain ⟨w, hwm, hw0⟩ := sum_ne_zero_exists _ hne
  obtain ⟨r, hr, rfl⟩ := List.mem_map.mp hwm
  have hcl := hw r hr
  have hne' : r ≠ [] := by
    intro e; rw [e] at hcl; unfold Closed at hcl; simp at hcl
  obtain ⟨v, hv⟩ := List.exists_mem_of_ne_nil r hne'
  obtain ⟨bb, hbb⟩ := bboxOf_some_of_mem r v hv
  have hin : BoxHas bb p := by
    by_cases hb : BoxHas bb p
    · exact hb
    · exact absurd (ringWinding_far p r hcl bb hbb hb) hw0
  have hvf : v ∈ rings.flatten := List.mem_flatten.mpr ⟨r, hr, hv⟩
  obtain ⟨BB, hBB⟩ := bboxOf_some_of_mem rings.flatten v hvf
  refine ⟨BB, hBB, boxHas_of_sub (bboxOf_mono r rings.flatten bb BB hbb hBB (fun q hq => List.mem_flatten.mpr ⟨r, hr, hq⟩)) hin⟩

/-- **a hit lies in the bounding box of the shape** -/
theorem hit_in_bbox (p : Pt) (e : Elem) (hw : WFElem e) (h : hit (some p) (some e) = true) :
    ∃ bb, bboxOf (elemVerts e) = some bb ∧ BoxHas bb p := by
  cases e with
  | point q =>
    have : p = q := by simpa [hit, pointPoint] using h
    subst this
    exact mem_bbox [p] p (by simp)
  | multipoint qs =>
    have : p ∈ qs := by
      simp only [hit, pointMultiPoint, List.any_eq_true, beq_iff_eq] at h
      obtain ⟨q, hq, rfl⟩ := h
      exact hq
    exact mem_bbox qs p this
  | line l => exact pointLine_bbox p l (by simpa [hit] using h)
  | multiline ls =>
    simp only [hit, pointMultiLine, List.any_eq_true] at h
    obtain ⟨l, hl, hpl⟩ := h
    obtain ⟨bb, hbb, hin⟩ := pointLine_bbox p l hpl
    have hne : l ≠ [] := by intro e; rw [e] at hbb; simp [bboxOf] at hbb
    obtain ⟨v, hv⟩ := List.exists_mem_of_ne_nil l hne
    have hvf : v ∈ ls.flatten := List.mem_flatten.mpr ⟨l, hl, hv⟩
    obtain ⟨BB, hBB⟩ := bboxOf_some_of_mem ls.flatten v hvf
    exact ⟨BB, hBB, boxHas_of_sub (bboxOf_mono l ls.flatten bb BB hbb hBB (fun q hq => List.mem_flatten.mpr ⟨l, hl, hq⟩)) hin⟩
  | polygon rs => exact pointInRings_bbox p rs hw (by simpa [hit, pointPolygon] using h)
  | multipolygon ps => exact pointInRings_bbox p ps.flatten hw (by simpa [hit, pointMultiPolygon] using h)

end SpVerif.Join
