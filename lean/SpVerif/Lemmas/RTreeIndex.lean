import SpVerif.Model.RTreeIndex
/-! C03: closed forms of the array-tree index arithmetic (DESIGN Appendix C). Core Lean only. -/
namespace SpVerif.RTreeIndex

theorem two_pow_succ (t : Nat) : 2 ^ (t + 1) = 2 * 2 ^ t := by rw [Nat.pow_succ]; omega

theorem leafStart_eq (D : Nat) : leafStart (2 * 2 ^ D - 1) = 2 ^ D - 1 := by
  unfold leafStart
  have := Nat.two_pow_pos D
  omega

/-- the node at depth `t`, position `j` (from the left) is stored at `2^t − 1 + j`; its left-most leaf is page `j·2^(D−t)` -/
theorem startIndex_eq (D ps : Nat) (d : Nat) : ∀ (t j fuel : Nat), t + d = D → j < 2 ^ t → d ≤ fuel →
    startIndex (2 * 2 ^ D - 1) ps fuel (2 ^ t - 1 + j) = j * 2 ^ d * ps := by
  induction d with
  | zero =>
    intro t j fuel htd hj _
    have ht : t = D := by omega
    subst ht
    have hp := Nat.two_pow_pos t
    have hleaf : leftChild (2 ^ t - 1 + j) ≥ 2 * 2 ^ t - 1 := by unfold leftChild; omega
    have hval : (2 ^ t - 1 + j - leafStart (2 * 2 ^ t - 1)) * ps = j * 2 ^ 0 * ps := by
      rw [leafStart_eq]; simp
    cases fuel with
    | zero => simpa [startIndex] using hval
    | succ f => simp only [startIndex, hleaf, if_true]; exact hval
  | succ d ih =>
    intro t j fuel htd hj hfuel
    obtain ⟨f, rfl⟩ : ∃ f, fuel = f + 1 := ⟨fuel - 1, by omega⟩
    have hp := Nat.two_pow_pos t
    have hD : 2 ^ D = 2 ^ (t + 1) * 2 ^ d := by rw [← Nat.pow_add]; congr 1; omega
    have hd := Nat.two_pow_pos d
    have hnot : ¬ leftChild (2 ^ t - 1 + j) ≥ 2 * 2 ^ D - 1 := by
      unfold leftChild
      rw [hD, two_pow_succ t]
      have : 2 * 2 ^ t * 2 ^ d ≥ 2 * 2 ^ t := Nat.le_mul_of_pos_right _ hd
      omega
    simp only [startIndex, hnot, if_false]
    have hchild : leftChild (2 ^ t - 1 + j) = 2 ^ (t + 1) - 1 + 2 * j := by
      unfold leftChild; rw [two_pow_succ]; omega
    rw [hchild, ih (t + 1) (2 * j) f (by omega) (by rw [two_pow_succ]; omega) (by omega), two_pow_succ d]
    rw [Nat.mul_assoc 2 j, Nat.mul_assoc, Nat.mul_assoc, Nat.mul_assoc, Nat.mul_left_comm 2 j]
    rw [Nat.mul_assoc 2 (2 ^ d) ps]

theorem stopIndex_eq (D ps : Nat) (d : Nat) : ∀ (t j fuel : Nat), t + d = D → j < 2 ^ t → d ≤ fuel →
    stopIndex (2 * 2 ^ D - 1) ps fuel (2 ^ t - 1 + j) = (j + 1) * 2 ^ d * ps := by
  induction d with
  | zero =>
    intro t j fuel htd hj _
    have ht : t = D := by omega
    subst ht
    have hp := Nat.two_pow_pos t
    have hleaf : rightChild (2 ^ t - 1 + j) ≥ 2 * 2 ^ t - 1 := by unfold rightChild; omega
    have hval : (2 ^ t - 1 + j - leafStart (2 * 2 ^ t - 1) + 1) * ps = (j + 1) * 2 ^ 0 * ps := by
      rw [leafStart_eq]; simp
    cases fuel with
    | zero => simpa [stopIndex] using hval
    | succ f => simp only [stopIndex, hleaf, if_true]; exact hval
  | succ d ih =>
    intro t j fuel htd hj hfuel
    obtain ⟨f, rfl⟩ : ∃ f, fuel = f + 1 := ⟨fuel - 1, by omega⟩
    have hp := Nat.two_pow_pos t
    have hD : 2 ^ D = 2 ^ (t + 1) * 2 ^ d := by rw [← Nat.pow_add]; congr 1; omega
    have hd := Nat.two_pow_pos d
    have hnot : ¬ rightChild (2 ^ t - 1 + j) ≥ 2 * 2 ^ D - 1 := by
      unfold rightChild
      rw [hD, two_pow_succ t]
      have : 2 * 2 ^ t * 2 ^ d ≥ 2 * 2 ^ t := Nat.le_mul_of_pos_right _ hd
      omega
    simp only [stopIndex, hnot, if_false]
    have hchild : rightChild (2 ^ t - 1 + j) = 2 ^ (t + 1) - 1 + (2 * j + 1) := by
      unfold rightChild; rw [two_pow_succ]; omega
    rw [hchild, ih (t + 1) (2 * j + 1) f (by omega) (by rw [two_pow_succ]; omega) (by omega), two_pow_succ d]
    have : 2 * j + 1 + 1 = 2 * (j + 1) := by omega
    rw [this, Nat.mul_assoc 2 (j + 1), Nat.mul_assoc, Nat.mul_assoc, Nat.mul_assoc, Nat.mul_left_comm 2 (j + 1)]
    rw [Nat.mul_assoc 2 (2 ^ d) ps]

/-- **index arithmetic of the array-encoded tree**: in a `bounds_tree` of `2·2^D − 1` rows the node at depth `t`, position `j` is row
`2^t − 1 + j`; its children are the nodes at depth `t+1`, positions `2j` and `2j+1`; `_start_index` / `_stop_index` give exactly the
row positions of the pages below it, `[j·2^(D−t)·ps, (j+1)·2^(D−t)·ps)`; and the leaf test `stop − start ≤ page_size` holds exactly
for the nodes of the last level (`page_size ≥ 1`) -/
theorem index_arithmetic (D ps t j : Nat) (hps : 1 ≤ ps) (ht : t ≤ D) (hj : j < 2 ^ t) :
    let len := 2 * 2 ^ D - 1
    let node := 2 ^ t - 1 + j
    leftChild node = 2 ^ (t + 1) - 1 + 2 * j ∧ rightChild node = 2 ^ (t + 1) - 1 + (2 * j + 1) ∧
    startIndex len ps len node = j * 2 ^ (D - t) * ps ∧
    stopIndex len ps len node = (j + 1) * 2 ^ (D - t) * ps ∧
    (stopIndex len ps len node - startIndex len ps len node ≤ ps ↔ t = D) := by
  intro len node
  have hp := Nat.two_pow_pos t
  have hfuel : D - t ≤ len := by
    have : D < 2 ^ D := Nat.lt_two_pow_self
    show D - t ≤ 2 * 2 ^ D - 1
    omega
  have hs := startIndex_eq D ps (D - t) t j len (by omega) hj hfuel
  have he := stopIndex_eq D ps (D - t) t j len (by omega) hj hfuel
  refine ⟨?_, ?_, hs, he, ?_⟩
  · show 2 * (2 ^ t - 1 + j) + 1 = _
    rw [two_pow_succ]; omega
  · show 2 * (2 ^ t - 1 + j) + 2 = _
    rw [two_pow_succ]; omega
  · rw [hs, he]
    have hd := Nat.two_pow_pos (D - t)
    have hdiff : (j + 1) * 2 ^ (D - t) * ps - j * 2 ^ (D - t) * ps = 2 ^ (D - t) * ps := by
      rw [Nat.add_mul, Nat.add_mul, Nat.one_mul]; omega
    rw [hdiff]
    constructor
    · intro hle
      by_cases hne : t = D
      · exact hne
      · exfalso
        have h2 : 2 ≤ 2 ^ (D - t) := by
          have h1 : 1 ≤ D - t := by omega
          calc 2 = 2 ^ 1 := rfl
            _ ≤ 2 ^ (D - t) := Nat.pow_le_pow_right (by omega) h1
        have h3 : 2 * ps ≤ 2 ^ (D - t) * ps := Nat.mul_le_mul_right ps h2
        omega
    · intro h
      subst h
      simp


end SpVerif.RTreeIndex
