import SpVerif.Model.RTreeIndex
/-! C03: closed forms of the array-tree index arithmetic (DESIGN Appendix C). Core Lean only. -/
namespace SpVerif.RTreeIndex

theorem two_pow_succ (t : Nat) : 2 ^ (t + 1) = 2 * 2 ^ t := by rw [Nat.pow_succ]; omega

theorem leafStart_eq (D : Nat) : leafStart (2 * 2 ^ D - 1) = 2 ^ D - 1 := by
  unfold leafStart
  have := Nat.two_pow_pos D
  omega

/-- the node at depth `t`, position `j` (from the left) is stored at `2^t − 1 + j`; its left-most leaf is page `j·2^(D−t)` -/
theorem startIndex_eq (D ps : Nat) (d : Nat) : ∀ (t j fuel : Nat), t + d = D → j < 2 ^ t → d ≤ fuel →
    startIndex (2 * 2 ^ D - 1) ps fuel (2 ^ t - 1 + j) = j * 2 ^ d * ps := by
  induction d with
  | zero =>
    intro t j fuel htd hj _
    have ht : t = D := by omega
    subst ht
    have hp := Nat.two_pow_pos t
    have hleaf : leftChild (2 ^ t - 1 + j) ≥ 2 * 2 ^ t - 1 := by unfold leftChild; omega
    have hval : (2 ^ t - 1 + j - leafStart (2 * 2 ^ t - 1)) * ps = j * 2 ^ 0 * ps := by
      rw [leafStart_eq]; simp
    cases fuel with
    | zero => simpa [startIndex] using hval
    | succ f => simp only [startIndex, hleaf, if_true]; exact hval
  | succ d ih =>
    intro t j fuel htd hj hfuel
    obtain ⟨f, rfl⟩ : ∃ f, fuel = f + 1 := ⟨fuel - 1, by omega⟩
    have hp := Nat.two_pow_pos t
    have hD : 2 ^ D = 2 ^ (t + 1) * 2 ^ d := by rw [← Nat.pow_add]; congr 1; omega
    have hd := Nat.two_pow_pos d
    have hnot : ¬ leftChild (2 ^ t - 1 + j) ≥ 2 * 2 ^ D - 1 := by
      unfold leftChild
      rw [hD, two_pow_succ t]
      have : 2 * 2 ^ t * 2 ^ d ≥ 2 * 2 ^ t := Nat.le_mul_of_pos_right _ hd
      omega
    simp only [startIndex, hnot, if_false]
    have hchild : leftChild (2 ^ t - 1 + j) = 2 ^ (t + 1) - 1 + 2 * j := by
      unfold leftChild; rw [two_pow_succ]; omega
    rw [hchild, ih (t + 1) (2 * j) f (by omega) (by rw [two_pow_succ]; omega) (by omega), two_pow_succ d]
    rw [Nat.mul_assoc 2 j, Nat.mul_assoc, Nat.mul_assoc, Nat.mul_assoc, Nat.mul_left_comm 2 j]
    rw [Nat.mul_assoc 2 (2 ^ d) ps]

theorem stopIndex_eq (D ps : Nat) (d : Nat) : ∀ (t j fuel : Nat), t + d = D → j < 2 ^ t → d ≤ fuel →
    stopIndex (2 * 2 ^ D - 1) ps fuel (2 ^ t - 1 + j) = (j + 1) * 2 ^ d * ps := by
  induction d with
  | zero =>
    intro t j fuel htd hj _
    have ht : t = D := by omega
    subst ht
    have hp := Nat.two_pow_pos t
    have hleaf : rightChild (2 ^ t - 1 + j) ≥ 2 * 2 ^ t - 1 := by unfold rightChild; omega
    have hval : (2 ^ t - 1 + j - leafStart (2 * 2 ^ t - 1) + 1) * ps = (j + 1) * 2 ^ 0 * ps := by
      rw [leafStart_eq]; simp
    cases fuel with
    | zero => simpa [stopIndex] using hval
    | succ f => simp only [stopIndex, hleaf, if_true]; exact hval
  | succ d ih =>
    intro t j fuel htd hj hfuel
    obtain ⟨f, rfl⟩ : ∃ f, fuel = f + 1 := ⟨fuel - 1, by omega⟩
    have hp := Nat.two_pow_pos t
    have hD : 2 ^ D = 2 ^ (t + 1) * 2 ^ d := by rw [← Nat.pow_add]; congr 1; omega
    have hd := Nat.two_pow_pos d
    have hnot : ¬ rightChild (2 ^ t - 1 + j) ≥ 2 * 2 ^ D - 1 := by
      unfold rightChild
      rw [hD, two_pow_succ t]
      have : 2 * 2 ^ t * 2 ^ d ≥ 2 * 2 ^ t := Nat.le_mul_of_pos_right _ hd
      omega
    simp only [stopIndex, hnot, if_false]
    have hchild : rightChild (2 ^ t - 1 + j) = 2 ^ (t + 1) - 1 + (2 * j + 1) := by
      unfold rightChild; rw [two_pow_succ]; omega
    rw [hchild, ih (t + 1) (2 * j + 1) f (by omega) (by rw [two_pow_succ]; omega) (by omega), two_pow_succ d]
    have : 2 * j + 1 + 1 = 2 * (j + 1) := by omega
    rw [this, Nat.mul_assoc 2 (j + 1), Nat.mul_assoc, Nat.mul_assoc, Nat.mul_assoc, Nat.mul_left_comm 2 (j + 1)]
    rw [Nat.mul_assoc 2 (2 ^ d) ps]

end SpVerif.RTreeIndex
