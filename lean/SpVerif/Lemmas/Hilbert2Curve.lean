import SpVerif.Lemmas.Hilbert2Rec
/-! C07, n = 2: consequences of the quadrant recursion (end points, adjacency, refinement). Core Lean only. -/
namespace SpVerif.Hilbert

/-- grid neighbours: differ by one in exactly one coordinate -/
def Nbr (a b : W2) : Prop :=
  (a.1 = b.1 ∧ (a.2 + 1 = b.2 ∨ b.2 + 1 = a.2)) ∨ (a.2 = b.2 ∧ (a.1 + 1 = b.1 ∨ b.1 + 1 = a.1))

def half (c : W2) : W2 := (c.1 / 2, c.2 / 2)

theorem four_pow_pos (p : Nat) : 0 < 4 ^ p := Nat.pow_pos (by omega)

theorem coord2_zero_order (h : Nat) : coord2 0 h = (0, 0) := by
  simp [coord2, undoLoop2, transpose2, grayDecode2]

theorem div_mod_decomp (p h : Nat) : h = (h / 4 ^ p) * 4 ^ p + h % 4 ^ p := by
  rw [Nat.mul_comm]; exact (Nat.div_add_mod h (4 ^ p)).symm

theorem div_lt_four {p h : Nat} (hh : h < 4 ^ (p+1)) : h / 4 ^ p < 4 := by
  rw [Nat.div_lt_iff_lt_mul (four_pow_pos p)]
  rw [four_pow] at hh; omega

theorem coord2_eq_rec (p h : Nat) (hh : h < 4 ^ p) : coord2 p h = hilbertRec p h := by
  induction p generalizing h with
  | zero => simp [coord2_zero_order, hilbertRec]
  | succ p ih =>
    have hm : h % 4 ^ p < 4 ^ p := Nat.mod_lt _ (four_pow_pos p)
    conv => lhs; rw [div_mod_decomp p h]
    rw [coord2_succ p _ _ (div_lt_four hh) hm, ih _ hm, hilbertRec]

theorem quad_nbr {p d : Nat} {a b : W2} (ha : Bdd p a) (hb : Bdd p b) (h : Nbr a b) :
    Nbr (quad p d a) (quad p d b) := by
  obtain ⟨a1, a2⟩ := a
  obtain ⟨b1, b2⟩ := b
  obtain ⟨ha1, ha2⟩ := ha
  obtain ⟨hb1, hb2⟩ := hb
  simp only at ha1 ha2 hb1 hb2
  unfold Nbr at *
  simp only at h
  match d with
  | 0 => simp only [quad]; omega
  | 1 => simp only [quad]; omega
  | 2 => simp only [quad]; omega
  | (n+3) => simp only [quad]; omega

theorem coord2_first (p : Nat) : coord2 p 0 = (0, 0) := by
  induction p with
  | zero => exact coord2_zero_order 0
  | succ p ih =>
    have := coord2_succ p 0 0 (by omega) (four_pow_pos p)
    simp only [Nat.zero_mul, Nat.add_zero] at this
    rw [this, ih]; rfl

theorem coord2_last (p : Nat) : coord2 p (4 ^ p - 1) = (2 ^ p - 1, 0) := by
  induction p with
  | zero => exact coord2_zero_order _
  | succ p ih =>
    have h4 := four_pow_pos p
    have h2 := Nat.two_pow_pos p
    have e : 4 ^ (p+1) - 1 = 3 * 4 ^ p + (4 ^ p - 1) := by rw [four_pow]; omega
    rw [e, coord2_succ p 3 _ (by omega) (by omega), ih]
    simp only [quad, Nat.pow_succ]
    congr 1 <;> omega

theorem coord2_adjacent (p h : Nat) (hh : h + 1 < 4 ^ p) : Nbr (coord2 p h) (coord2 p (h+1)) := by
  induction p generalizing h with
  | zero => simp at hh
  | succ p ih =>
    have h4 := four_pow_pos p
    have h2 := Nat.two_pow_pos p
    have hm : h % 4 ^ p < 4 ^ p := Nat.mod_lt _ h4
    have hd : h / 4 ^ p < 4 := div_lt_four (by omega)
    by_cases hc : h % 4 ^ p + 1 < 4 ^ p
    · -- same quadrant
      have e1 : h = (h / 4 ^ p) * 4 ^ p + h % 4 ^ p := div_mod_decomp p h
      have e2 : h + 1 = (h / 4 ^ p) * 4 ^ p + (h % 4 ^ p + 1) := by omega
      conv => lhs; rw [e1]
      conv => rhs; rw [e2]
      rw [coord2_succ p _ _ hd hm, coord2_succ p _ _ hd hc]
      exact quad_nbr (coord2_bdd _ _) (coord2_bdd _ _) (ih _ hc)
    · -- last cell of quadrant d, first cell of quadrant d+1
      have hr : h % 4 ^ p = 4 ^ p - 1 := by omega
      have e1 : h = (h / 4 ^ p) * 4 ^ p + (4 ^ p - 1) := by rw [← hr]; exact div_mod_decomp p h
      have e2 : h + 1 = (h / 4 ^ p + 1) * 4 ^ p + 0 := by rw [Nat.add_mul]; omega
      have hd' : h / 4 ^ p + 1 < 4 := by
        have : h + 1 < 4 * 4 ^ p := by rw [← four_pow]; exact hh
        rw [e2, Nat.add_zero] at this
        exact Nat.lt_of_mul_lt_mul_right this
      conv => lhs; rw [e1]
      conv => rhs; rw [e2]
      rw [coord2_succ p _ _ hd (by omega : 4 ^ p - 1 < 4 ^ p), coord2_succ p _ _ hd' h4, coord2_last, coord2_first]
      generalize h / 4 ^ p = d at hd hd' ⊢
      have : d = 0 ∨ d = 1 ∨ d = 2 := by omega
      unfold Nbr
      rcases this with h0 | h0 | h0 <;> subst h0 <;> simp only [quad, true_and, Nat.add_zero] <;> omega

theorem quad_half {p d : Nat} {c : W2} (hc : Bdd (p+1) c) :
    half (quad (p+1) d c) = quad p d (half c) := by
  obtain ⟨c1, c2⟩ := c
  obtain ⟨h1, h2⟩ := hc
  simp only [Nat.pow_succ] at h1 h2
  have := Nat.two_pow_pos p
  match d with
  | 0 => simp only [quad, half]
  | 1 => simp only [quad, half, Nat.pow_succ]; congr 1; omega
  | 2 => simp only [quad, half, Nat.pow_succ]; congr 1 <;> omega
  | (n+3) => simp only [quad, half, Nat.pow_succ]; congr 1 <;> omega

theorem coord2_refine (p h : Nat) (hh : h < 4 ^ (p+1)) :
    half (coord2 (p+1) h) = coord2 p (h / 4) := by
  induction p generalizing h with
  | zero =>
    have : h = 0 ∨ h = 1 ∨ h = 2 ∨ h = 3 := by simp at hh; omega
    rcases this with e | e | e | e <;> subst e <;> decide
  | succ p ih =>
    have h4 := four_pow_pos p
    have h4' := four_pow_pos (p+1)
    have hm : h % 4 ^ (p+1) < 4 ^ (p+1) := Nat.mod_lt _ h4'
    have hd : h / 4 ^ (p+1) < 4 := div_lt_four hh
    have e1 : h = (h / 4 ^ (p+1)) * 4 ^ (p+1) + h % 4 ^ (p+1) := div_mod_decomp (p+1) h
    have hr4 : h % 4 ^ (p+1) / 4 < 4 ^ p := by rw [four_pow] at hm; omega
    have e2 : h / 4 = (h / 4 ^ (p+1)) * 4 ^ p + h % 4 ^ (p+1) / 4 := by
      have hmul : (h / 4 ^ (p+1)) * 4 ^ (p+1) = 4 * ((h / 4 ^ (p+1)) * 4 ^ p) := by
        rw [four_pow, Nat.mul_left_comm]
      omega
    conv => lhs; rw [e1]
    rw [coord2_succ (p+1) _ _ hd hm, quad_half (coord2_bdd _ _), ih _ hm, e2,
      coord2_succ p _ _ hd hr4]

end SpVerif.Hilbert
