import SpVerif.Lemmas.WindQ
/-!
# C01, polygon kinds: `_perform_polygon_intersect_bounds` is exact

The closed region of a polygon is read as: the points of its rings, together with the points about which the winding number of
all rings together is non-zero (`PolyPoint`).  For a valid polygon (holes inside the shell, wound opposite to it) that is "shell
minus holes including all ring boundaries"; the identification of "non-zero winding" with "inside" for simple rings is the Jordan
curve theorem and is not proved here.
-/
namespace SpVerif.Geom

/-- winding number of all rings together about a rational point -/
def windAllQ (q : QPt) (rings : List (List Pt)) : Int := (rings.map (windQ q)).sum

theorem winding_eq_sumI (p : Pt) (rings : List (List Pt)) : winding p rings = (rings.map (ringWinding p)).sum := by
  unfold winding
  have : ∀ (acc : Int), rings.foldl (fun acc r => acc + ringWinding p r) acc = acc + (rings.map (ringWinding p)).sum := by
    induction rings with
    | nil => intro acc; simp
    | cons r rs ih => intro acc; simp only [List.foldl_cons, List.map_cons, List.sum_cons]; rw [ih]; omega
  rw [this]; omega

/-- at integer points the rational-point winding number is the coded one -/
theorem windAllQ_cast (p : Pt) (rings : List (List Pt)) : windAllQ ((p.1 : ℚ), (p.2 : ℚ)) rings = winding p rings := by
  rw [winding_eq_sumI]
  unfold windAllQ
  congr 1
  apply List.map_congr_left
  intro r _
  rw [windQ_cast, ringWinding_eq]

theorem pointInRings_iff (p : Pt) (rings : List (List Pt)) : pointInRings p rings = true ↔ windAllQ ((p.1 : ℚ), (p.2 : ℚ)) rings ≠ 0 := by
  unfold pointInRings
  rw [windAllQ_cast]
  simp

/-- the closed point set of a polygon given by its rings -/
def PolyPoint (rings : List (List Pt)) (q : QPt) : Prop := (∃ r ∈ rings, LinePoint r q) ∨ windAllQ q rings ≠ 0

/-- a segment reported to meet one of the four box edges has a point in the box -/
theorem segBoxEdges_point (b : Box) (hx : b.x0 < b.x1) (hy : b.y0 < b.y1) (s : Pt × Pt) (h : segBoxEdges b s = true) :
    ∃ q : QPt, OnSeg s.1 s.2 q ∧ InBoxQ b q := by
  rw [segBoxEdges_eq, List.any_eq_true] at h
  obtain ⟨e, he, hint⟩ := h
  have hene := edge_ne hx hy he
  have hebox : BoxHas b e.1 ∧ BoxHas b e.2 := by
    rcases edge_in_box (by omega) (by omega) he with h' | h'
    · exact ⟨h'.1, h'.2.1⟩
    · exact h'
  by_cases hdeg : s.1 = s.2
  · rw [hdeg] at hint
    rcases segmentsIntersect_zero_left s.2 e.1 e.2 hene hint with hc | hc
    · exact ⟨_, onSeg_right s.1 s.2, inBoxQ_of_has (hc ▸ hebox.1)⟩
    · exact ⟨_, onSeg_right s.1 s.2, inBoxQ_of_has (hc ▸ hebox.2)⟩
  · obtain ⟨sp, tp, s0, s1, t0, t1, ex, ey⟩ := (segmentsIntersect_iff s.1 s.2 e.1 e.2 hdeg hene).mp hint
    refine ⟨((s.1.1 : ℚ) + sp * (s.2.1 - s.1.1), (s.1.2 : ℚ) + sp * (s.2.2 - s.1.2)), ⟨sp, s0, s1, rfl, rfl⟩, ?_⟩
    have : OnSeg e.1 e.2 ((s.1.1 : ℚ) + sp * (s.2.1 - s.1.1), (s.1.2 : ℚ) + sp * (s.2.2 - s.1.2)) := ⟨tp, t0, t1, ex, ey⟩
    exact onSeg_in_box hebox.1 hebox.2 this

/-- a segment that starts outside the box and has a point in it is reported to meet a box edge -/
theorem segBoxEdges_of_point (b : Box) (hx : b.x0 < b.x1) (hy : b.y0 < b.y1) (s : Pt × Pt) (hout : ¬ BoxHas b s.1)
    (q : QPt) (on : OnSeg s.1 s.2 q) (hin : InBoxQ b q) : segBoxEdges b s = true := by
  obtain ⟨t, t0, t1, e1, e2⟩ := on
  have hp' : InBoxQ b ((s.1.1 : ℚ) + t * (s.2.1 - s.1.1), (s.1.2 : ℚ) + t * (s.2.2 - s.1.2)) := by
    obtain ⟨r1, r2, r3, r4⟩ := hin
    exact ⟨by rw [← e1]; exact r1, by rw [← e1]; exact r2, by rw [← e2]; exact r3, by rw [← e2]; exact r4⟩
  obtain ⟨e, he, hmeet⟩ := seg_meets_edge b hx hy s.1 s.2 hout t t0 t1 hp'
  have hdeg : s.1 ≠ s.2 := by
    intro hc
    apply hout
    apply has_of_inBoxQ
    have : ((s.1.1 : ℚ), (s.1.2 : ℚ)) = ((s.1.1 : ℚ) + t * (s.2.1 - s.1.1), (s.1.2 : ℚ) + t * (s.2.2 - s.1.2)) := by
      rw [← hc]; simp
    rw [this]; exact hp'
  rw [segBoxEdges_eq, List.any_eq_true]
  exact ⟨e, he, (segmentsIntersect_iff s.1 s.2 e.1 e.2 hdeg (edge_ne hx hy he)).mpr hmeet⟩

theorem inBoxQ_sub {bb BB : Box} (hs : BoxSub bb BB) {q : QPt} (h : InBoxQ bb q) : InBoxQ BB q := by
  obtain ⟨s1, s2, s3, s4⟩ := hs
  obtain ⟨h1, h2, h3, h4⟩ := h
  have c1 : (BB.x0 : ℚ) ≤ bb.x0 := by exact_mod_cast s1
  have c2 : (bb.x1 : ℚ) ≤ BB.x1 := by exact_mod_cast s2
  have c3 : (BB.y0 : ℚ) ≤ bb.y0 := by exact_mod_cast s3
  have c4 : (bb.y1 : ℚ) ≤ BB.y1 := by exact_mod_cast s4
  exact ⟨by linarith, by linarith, by linarith, by linarith⟩

theorem outside_disjoint {bb b : Box} (ho : bboxOutside bb b = true) {q : QPt} (h1 : InBoxQ bb q) (h2 : InBoxQ b q) : False := by
  simp only [bboxOutside, Bool.or_eq_true, decide_eq_true_eq] at ho
  obtain ⟨a1, a2, a3, a4⟩ := h1
  obtain ⟨c1, c2, c3, c4⟩ := h2
  rcases ho with ((ho | ho) | ho) | ho
  · have : (b.x1 : ℚ) < bb.x0 := by exact_mod_cast ho
    linarith
  · have : (b.y1 : ℚ) < bb.y0 := by exact_mod_cast ho
    linarith
  · have : (bb.x1 : ℚ) < b.x0 := by exact_mod_cast ho
    linarith
  · have : (bb.y1 : ℚ) < b.y0 := by exact_mod_cast ho
    linarith

theorem sum_map_eq_zero {α} (f : α → Int) (l : List α) (h : ∀ a ∈ l, f a = 0) : (l.map f).sum = 0 := by
  induction l with
  | nil => rfl
  | cons a as ih =>
    simp only [List.map_cons, List.sum_cons]
    rw [h a (by simp), ih (fun x hx => h x (List.mem_cons_of_mem _ hx))]; rfl

/-- **`_perform_polygon_intersect_bounds` is exact** for a box of positive width and height and a polygon whose rings are closed
and whose holes lie within the bounding box of its shell: the kernel answers True exactly when the closed point set of the
polygon (ring points and points of non-zero winding number) shares a point with the closed box -/
theorem polygonIBcore_iff (b : Box) (hx : b.x0 < b.x1) (hy : b.y0 < b.y1) (shell : List Pt) (holes : List (List Pt))
    (hcl : ∀ r ∈ shell :: holes, Closed r) (hsh : bboxOf (shell :: holes).flatten = bboxOf shell) :
    polygonIBcore b (shell :: holes) = true ↔ ∃ q : QPt, InBoxQ b q ∧ PolyPoint (shell :: holes) q := by
  have hxq : (b.x0 : ℚ) < b.x1 := by exact_mod_cast hx
  have hyq : (b.y0 : ℚ) < b.y1 := by exact_mod_cast hy
  constructor
  · intro h
    unfold polygonIBcore at h
    simp only at h
    cases hbb : bboxOf (shell :: holes).flatten with
    | none => rw [hbb] at h; cases h
    | some bb =>
      rw [hbb] at h
      simp only at h
      cases hout : bboxOutside bb b with
      | true => simp [hout] at h
      | false =>
        simp only [hout, Bool.false_eq_true, if_false] at h
        cases hproj : bboxProjInside bb b with
        | true =>
          -- the shell alone already decides: its bounding box is the polygon's
          have hl : lineIBcore b shell = true := by
            unfold lineIBcore
            rw [← hsh, hbb]
            simp [hout, hproj]
          obtain ⟨p, hp, hin⟩ := (lineIBcore_iff b hx hy shell).mp hl
          exact ⟨p, hin, Or.inl ⟨shell, by simp, hp⟩⟩
        | false =>
          simp only [hproj, Bool.false_eq_true, if_false] at h
          by_cases hv : (shell :: holes).flatten.any (inBox b) = true
          · simp only [List.any_eq_true] at hv
            obtain ⟨v, hvl, hvb⟩ := hv
            obtain ⟨r, hr, hvr⟩ := List.mem_flatten.mp hvl
            exact ⟨_, inBoxQ_of_has ((inBox_iff b v).mp hvb), Or.inl ⟨r, hr, Or.inl ⟨v, hvr, rfl⟩⟩⟩
          · have hv' : (shell :: holes).flatten.any (inBox b) = false := by simpa using hv
            simp only [hv', Bool.false_eq_true, if_false] at h
            by_cases hs : (shell :: holes).any (fun r => (segs r).any (segBoxEdges b)) = true
            · simp only [List.any_eq_true] at hs
              obtain ⟨r, hr, s, hs, he⟩ := hs
              obtain ⟨q, on, hin⟩ := segBoxEdges_point b hx hy s he
              exact ⟨q, hin, Or.inl ⟨r, hr, Or.inr ⟨s, hs, on⟩⟩⟩
            · have hs' : (shell :: holes).any (fun r => (segs r).any (segBoxEdges b)) = false := by simpa using hs
              simp only [hs', Bool.false_eq_true, if_false, Bool.or_eq_true] at h
              rcases h with ((h | h) | h) | h
              · exact ⟨((b.x0 : ℚ), (b.y0 : ℚ)), ⟨le_refl _, hxq.le, le_refl _, hyq.le⟩, Or.inr ((pointInRings_iff (b.x0, b.y0) _).mp h)⟩
              · exact ⟨((b.x1 : ℚ), (b.y0 : ℚ)), ⟨hxq.le, le_refl _, le_refl _, hyq.le⟩, Or.inr ((pointInRings_iff (b.x1, b.y0) _).mp h)⟩
              · exact ⟨((b.x1 : ℚ), (b.y1 : ℚ)), ⟨hxq.le, le_refl _, hyq.le, le_refl _⟩, Or.inr ((pointInRings_iff (b.x1, b.y1) _).mp h)⟩
              · exact ⟨((b.x0 : ℚ), (b.y1 : ℚ)), ⟨le_refl _, hxq.le, hyq.le, le_refl _⟩, Or.inr ((pointInRings_iff (b.x0, b.y1) _).mp h)⟩
  · rintro ⟨q, hin, hpp⟩
    -- every ring has a bounding box inside the polygon's
    have hne : shell ≠ [] := by intro e; have := hcl shell (by simp); rw [e] at this; exact absurd this.1 (by simp)
    cases hbb : bboxOf (shell :: holes).flatten with
    | none =>
      have := (bboxOf_none_iff _).mp hbb
      simp only [List.flatten_cons, List.append_eq_nil_iff] at this
      exact absurd this.1 hne
    | some bb =>
      have ring_bb : ∀ r ∈ shell :: holes, ∃ bbr, bboxOf r = some bbr ∧ BoxSub bbr bb := by
        intro r hr
        have hrne : r ≠ [] := by intro e; have := hcl r hr; rw [e] at this; exact absurd this.1 (by simp)
        cases hbr : bboxOf r with
        | none => exact absurd ((bboxOf_none_iff r).mp hbr) hrne
        | some bbr => exact ⟨bbr, rfl, bboxOf_mono r _ bbr bb hbr hbb (fun p hp => List.mem_flatten.mpr ⟨r, hr, hp⟩)⟩
      unfold polygonIBcore
      simp only [hbb]
      cases hout : bboxOutside bb b with
      | true =>
        -- the point would have to lie in two disjoint boxes, or the winding number is zero far away
        exfalso
        rcases hpp with ⟨r, hr, hlp⟩ | hw
        · obtain ⟨bbr, hbr, hsub⟩ := ring_bb r hr
          exact outside_disjoint hout (inBoxQ_sub hsub (linePoint_in_bbox hbr hlp)) hin
        · apply hw
          unfold windAllQ
          apply sum_map_eq_zero
          intro r hr
          obtain ⟨bbr, hbr, hsub⟩ := ring_bb r hr
          exact windQ_far q r (hcl r hr) bbr hbr (fun hc => outside_disjoint hout (inBoxQ_sub hsub hc) hin)
      | false =>
        simp only [Bool.false_eq_true, if_false]
        cases hproj : bboxProjInside bb b with
        | true => simp
        | false =>
          simp only [Bool.false_eq_true, if_false]
          cases hv : (shell :: holes).flatten.any (inBox b) with
          | true => simp
          | false =>
            simp only [Bool.false_eq_true, if_false]
            have hnov : ∀ r ∈ shell :: holes, ∀ v ∈ r, ¬ BoxHas b v := by
              intro r hr v hvr hb
              have : (shell :: holes).flatten.any (inBox b) = true :=
                List.any_eq_true.mpr ⟨v, List.mem_flatten.mpr ⟨r, hr, hvr⟩, (inBox_iff b v).mpr hb⟩
              rw [hv] at this; cases this
            cases hs : (shell :: holes).any (fun r => (segs r).any (segBoxEdges b)) with
            | true => simp
            | false =>
              simp only [Bool.false_eq_true, if_false]
              -- no ring has a point in the box
              have hclear : ∀ r ∈ shell :: holes, BoxClear b r := by
                intro r hr s hs' q' on hq'
                obtain ⟨m1, _⟩ := mem_segs hs'
                have := segBoxEdges_of_point b hx hy s (hnov r hr s.1 m1) q' on hq'
                have hall : (shell :: holes).any (fun r => (segs r).any (segBoxEdges b)) = true :=
                  List.any_eq_true.mpr ⟨r, hr, List.any_eq_true.mpr ⟨s, hs', this⟩⟩
                rw [hs] at hall; cases hall
              rcases hpp with ⟨r, hr, hlp⟩ | hw
              · exfalso
                rcases hlp with ⟨v, hvr, rfl⟩ | ⟨s, hs', on⟩
                · exact hnov r hr v hvr (has_of_inBoxQ hin)
                · exact hclear r hr s hs' q on hin
              · -- the winding number at the corner is the winding number at q
                have hcorner : InBoxQ b ((b.x0 : ℚ), (b.y0 : ℚ)) := ⟨le_refl _, hxq.le, le_refl _, hyq.le⟩
                have heq : windAllQ ((b.x0 : ℚ), (b.y0 : ℚ)) (shell :: holes) = windAllQ q (shell :: holes) := by
                  unfold windAllQ
                  congr 1
                  apply List.map_congr_left
                  intro r hr
                  exact windQ_const_box r (hcl r hr) b (hclear r hr) _ _ hcorner hin
                have : pointInRings (b.x0, b.y0) (shell :: holes) = true := by
                  rw [pointInRings_iff]; rw [heq]; exact hw
                simp [this]

end SpVerif.Geom
