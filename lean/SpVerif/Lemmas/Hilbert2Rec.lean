import SpVerif.Lemmas.Hilbert2
/-! C07, n = 2: the word-level algorithm satisfies the classical quadrant recursion. Core Lean only. -/
set_option linter.unusedSimpArgs false
namespace SpVerif.Hilbert

/-- `m` has no bits below `p` -/
def HighMask (p m : Nat) : Prop := ∀ i, i < p → m.testBit i = false

theorem highMask_zero (p : Nat) : HighMask p 0 := fun _ _ => Nat.zero_testBit _
theorem highMask_two_pow (p : Nat) : HighMask p (2 ^ p) := by
  intro i hi; rw [Nat.testBit_two_pow]; simp; omega
theorem highMask_mono {p q m : Nat} (h : HighMask p m) (hq : q ≤ p) : HighMask q m :=
  fun i hi => h i (by omega)
theorem highMask_xor {p m n : Nat} (h1 : HighMask p m) (h2 : HighMask p n) : HighMask p (m ^^^ n) := by
  intro i hi; rw [Nat.testBit_xor, h1 i hi, h2 i hi]; rfl

theorem and_mask_high {q m : Nat} (hm : HighMask q m) : m &&& (2 ^ q - 1) = 0 := by
  apply Nat.eq_of_testBit_eq; intro i
  rw [Nat.testBit_and, Nat.testBit_two_pow_sub_one, Nat.zero_testBit]
  by_cases hi : i < q
  · simp [hm i hi]
  · simp [hi]

theorem xor_and_mask_high {q m x : Nat} (hm : HighMask q m) :
    (x ^^^ m) &&& (2 ^ q - 1) = x &&& (2 ^ q - 1) := by
  apply Nat.eq_of_testBit_eq; intro i
  simp only [Nat.testBit_and, Nat.testBit_xor, Nat.testBit_two_pow_sub_one]
  by_cases hi : i < q
  · simp [hm i hi]
  · simp [hi]

theorem stepA_high1 {q m : Nat} (hm : HighMask q m) (a b : Nat) :
    stepA q (a ^^^ m, b) = ((stepA q (a, b)).1 ^^^ m, (stepA q (a, b)).2) := by
  unfold stepA
  have e : (a ^^^ m ^^^ b) &&& (2 ^ q - 1) = (a ^^^ b) &&& (2 ^ q - 1) := by
    rw [show a ^^^ m ^^^ b = (a ^^^ b) ^^^ m by ac_rfl, xor_and_mask_high hm]
  by_cases hb : b.testBit q
  · simp only [hb, if_true]
    congr 1; ac_rfl
  · simp only [hb, Bool.false_eq_true, if_false, e]
    congr 1; ac_rfl

theorem stepA_high2 {q m : Nat} (hm : HighMask (q+1) m) (a b : Nat) :
    stepA q (a, b ^^^ m) = ((stepA q (a, b)).1, (stepA q (a, b)).2 ^^^ m) := by
  unfold stepA
  have hq : m.testBit q = false := hm q (by omega)
  have e : (a ^^^ (b ^^^ m)) &&& (2 ^ q - 1) = (a ^^^ b) &&& (2 ^ q - 1) := by
    rw [show a ^^^ (b ^^^ m) = (a ^^^ b) ^^^ m by ac_rfl, xor_and_mask_high (highMask_mono hm (by omega))]
  have t : (b ^^^ m).testBit q = b.testBit q := by rw [Nat.testBit_xor, hq]; simp
  by_cases hb : b.testBit q
  · simp only [t, hb, if_true]
  · simp only [t, hb, Bool.false_eq_true, if_false, e]
    congr 1; ac_rfl

theorem stepB_high1 {q m : Nat} (hm : HighMask (q+1) m) (a b : Nat) :
    stepB q (a ^^^ m, b) = ((stepB q (a, b)).1 ^^^ m, (stepB q (a, b)).2) := by
  unfold stepB
  have hq : m.testBit q = false := hm q (by omega)
  have t : (a ^^^ m).testBit q = a.testBit q := by rw [Nat.testBit_xor, hq]; simp
  by_cases ha : a.testBit q
  · simp only [t, ha, if_true]; congr 1; ac_rfl
  · simp only [t, ha, Bool.false_eq_true, if_false]

theorem stepB_high2 (q m : Nat) (a b : Nat) :
    stepB q (a, b ^^^ m) = ((stepB q (a, b)).1, (stepB q (a, b)).2 ^^^ m) := by
  unfold stepB
  by_cases ha : a.testBit q <;> simp [ha]

/-- the decode loop of order `k` neither reads nor writes bits `≥ k` -/
theorem undoLoop2_high (k : Nat) {m1 m2 : Nat} (h1 : HighMask k m1) (h2 : HighMask k m2) (a b : Nat) :
    undoLoop2 k (a ^^^ m1, b ^^^ m2)
      = ((undoLoop2 k (a, b)).1 ^^^ m1, (undoLoop2 k (a, b)).2 ^^^ m2) := by
  induction k using Nat.strongRecOn generalizing a b with
  | _ k ih =>
    match k with
    | 0 => rfl
    | 1 => rfl
    | (k+2) =>
      simp only [undoLoop2]
      rw [ih (k+1) (by omega) (highMask_mono h1 (by omega)) (highMask_mono h2 (by omega))]
      generalize undoLoop2 (k+1) (a, b) = w
      obtain ⟨u, v⟩ := w
      simp only
      have e1 : stepA (k+1) (u ^^^ m1, v ^^^ m2)
          = ((stepA (k+1) (u, v)).1 ^^^ m1, (stepA (k+1) (u, v)).2 ^^^ m2) := by
        rw [stepA_high1 (highMask_mono h1 (by omega)), stepA_high2 h2]
      rw [e1]
      generalize stepA (k+1) (u, v) = w'
      obtain ⟨u', v'⟩ := w'
      simp only
      rw [stepB_high1 h1, stepB_high2]

theorem two_pow_xor_mask (q : Nat) : 2 ^ q ^^^ (2 ^ q - 1) = 2 ^ (q+1) - 1 := by
  apply Nat.eq_of_testBit_eq; intro i
  rw [Nat.testBit_xor, Nat.testBit_two_pow, Nat.testBit_two_pow_sub_one, Nat.testBit_two_pow_sub_one]
  by_cases h1 : q = i
  · subst h1; simp
  · by_cases h2 : i < q
    · have : i < q + 1 := by omega
      simp [h1, h2, this]
    · have : ¬ i < q + 1 := by omega
      simp [h1, h2, this]

/-- flipping the top bit of word 0 on entry complements word 0 on exit -/
theorem undoLoop2_flipTop (p : Nat) (a b : Nat) :
    undoLoop2 (p+1) (a ^^^ 2 ^ p, b)
      = ((undoLoop2 (p+1) (a, b)).1 ^^^ (2 ^ (p+1) - 1), (undoLoop2 (p+1) (a, b)).2) := by
  match p with
  | 0 => simp [undoLoop2]
  | (k+1) =>
    simp only [undoLoop2]
    have h := undoLoop2_high (k+1) (highMask_two_pow (k+1)) (highMask_zero (k+1)) a b
    simp only [Nat.xor_zero] at h
    rw [h]
    generalize undoLoop2 (k+1) (a, b) = w
    obtain ⟨u, v⟩ := w
    simp only
    rw [stepA_high1 (highMask_two_pow (k+1))]
    generalize stepA (k+1) (u, v) = w'
    obtain ⟨u', v'⟩ := w'
    simp only
    unfold stepB
    have t : (u' ^^^ 2 ^ (k+1)).testBit (k+1) = !u'.testBit (k+1) := by
      rw [Nat.testBit_xor, Nat.testBit_two_pow_self]; simp
    by_cases hu : u'.testBit (k+1)
    · simp only [t, hu, Bool.not_true, Bool.false_eq_true, if_false, if_true]
      congr 1
      rw [← two_pow_xor_mask (k+1)]
      apply Nat.eq_of_testBit_eq; intro i
      simp only [Nat.testBit_xor]
      cases u'.testBit i <;> cases (2 ^ (k+1)).testBit i <;> cases (2 ^ (k+1) - 1).testBit i <;> rfl
    · simp only [t, hu, Bool.not_false, if_true, Bool.false_eq_true, if_false]
      congr 1
      rw [← two_pow_xor_mask (k+1)]
      ac_rfl

/-! ### top digit of the transpose -/

theorem transpose2_top (p d r : Nat) (hd : d < 4) (hr : r < 4 ^ p) :
    transpose2 (p+1) (d * 4 ^ p + r)
      = (2 ^ p * (d / 2) + (transpose2 p r).1, 2 ^ p * (d % 2) + (transpose2 p r).2) := by
  induction p generalizing r with
  | zero =>
    have : r = 0 := by simpa using hr
    subst this
    simp only [transpose2]
    congr 1 <;> omega
  | succ p ih =>
    have hr4 : r / 4 < 4 ^ p := by rw [four_pow] at hr; omega
    have hm : d * 4 ^ (p+1) = 4 * (d * 4 ^ p) := by rw [four_pow, Nat.mul_left_comm]
    have e : (d * 4 ^ (p+1) + r) / 4 = d * 4 ^ p + r / 4 := by rw [hm]; omega
    have e2 : (d * 4 ^ (p+1) + r) / 2 % 2 = r / 2 % 2 := by rw [hm]; omega
    have e3 : (d * 4 ^ (p+1) + r) % 2 = r % 2 := by rw [hm]; omega
    have hp1 : 2 ^ (p+1) * (d / 2) = 2 * (2 ^ p * (d / 2)) := by
      rw [Nat.pow_succ, Nat.mul_comm (2 ^ p) 2, Nat.mul_assoc]
    have hp2 : 2 ^ (p+1) * (d % 2) = 2 * (2 ^ p * (d % 2)) := by
      rw [Nat.pow_succ, Nat.mul_comm (2 ^ p) 2, Nat.mul_assoc]
    show (2 * (transpose2 (p+1) ((d * 4 ^ (p+1) + r) / 4)).1 + (d * 4 ^ (p+1) + r) / 2 % 2,
          2 * (transpose2 (p+1) ((d * 4 ^ (p+1) + r) / 4)).2 + (d * 4 ^ (p+1) + r) % 2) = _
    rw [e, ih (r / 4) hr4, e2, e3, hp1, hp2]
    show _ = (2 * (2 ^ p * (d / 2)) + (2 * (transpose2 p (r / 4)).1 + r / 2 % 2),
              2 * (2 ^ p * (d % 2)) + (2 * (transpose2 p (r / 4)).2 + r % 2))
    congr 1 <;> omega

theorem add_eq_xor {p x : Nat} (hx : x < 2 ^ p) (c : Nat) : 2 ^ p * c + x = x ^^^ (2 ^ p * c) := by
  apply Nat.eq_of_testBit_eq; intro i
  rw [Nat.testBit_two_pow_mul_add _ hx, Nat.testBit_xor, Nat.testBit_two_pow_mul]
  by_cases hi : i < p
  · have : ¬ i ≥ p := by omega
    simp [hi, this]
  · have h2 : i ≥ p := by omega
    simp [hi, h2, testBit_ge_of_lt hx h2]

theorem highMask_mul (p c : Nat) : HighMask p (2 ^ p * c) := by
  intro i hi; rw [Nat.testBit_two_pow_mul]
  have : ¬ i ≥ p := by omega
  simp [this]

theorem shiftRight_two_pow_mul (p c : Nat) : (2 ^ (p+1) * c) >>> 1 = 2 ^ p * c := by
  rw [Nat.shiftRight_eq_div_pow, Nat.pow_succ]
  have : 2 ^ p * 2 * c = 2 * (2 ^ p * c) := by rw [Nat.mul_assoc, Nat.mul_left_comm]
  rw [this]; omega

end SpVerif.Hilbert

namespace SpVerif.Hilbert

theorem coord2_bdd (p h : Nat) : Bdd p (coord2 p h) :=
  undoLoop2_bdd p p (Nat.le_refl _) (grayDecode2_bdd (transpose2_bdd p h))

theorem and_mask_of_lt {q x : Nat} (h : x < 2 ^ q) : x &&& (2 ^ q - 1) = x := by
  rw [Nat.and_two_pow_sub_one_eq_mod, Nat.mod_eq_of_lt h]

theorem compl_eq_xor {q x : Nat} (h : x < 2 ^ q) : 2 ^ q - 1 - x = x ^^^ (2 ^ q - 1) := by
  apply Nat.eq_of_testBit_eq; intro i
  rw [show 2 ^ q - 1 - x = 2 ^ q - (x + 1) by omega, Nat.testBit_two_pow_sub_succ h,
    Nat.testBit_xor, Nat.testBit_two_pow_sub_one]
  by_cases hi : i < q
  · simp [hi]
  · simp [hi, testBit_ge_of_lt h (by omega : q ≤ i)]

theorem two_pow_add {q x : Nat} (h : x < 2 ^ q) : 2 ^ q + x = x ^^^ 2 ^ q := by
  have := add_eq_xor h 1
  simpa using this

theorem testBit_top_false {q x : Nat} (h : x < 2 ^ q) : x.testBit q = false :=
  Nat.testBit_lt_two_pow h

theorem testBit_top_flip {q x : Nat} (h : x < 2 ^ q) : (x ^^^ 2 ^ q).testBit q = true := by
  rw [Nat.testBit_xor, testBit_top_false h, Nat.testBit_two_pow_self]; rfl

theorem quadL0 {q u v : Nat} (hu : u < 2 ^ q) (hv : v < 2 ^ q) :
    stepB q (stepA q (u, v)) = (v, u) := by
  unfold stepA stepB
  simp only [testBit_top_false hv, Bool.false_eq_true, if_false,
    and_mask_of_lt (Nat.xor_lt_two_pow hu hv)]
  have e1 : u ^^^ (u ^^^ v) = v := by rw [← Nat.xor_assoc, Nat.xor_self, Nat.zero_xor]
  have e2 : v ^^^ (u ^^^ v) = u := by rw [Nat.xor_comm u v, ← Nat.xor_assoc, Nat.xor_self, Nat.zero_xor]
  simp only [e1, e2, testBit_top_false hv, Bool.false_eq_true, if_false]

theorem quadL1 {q u v : Nat} (hu : u < 2 ^ q) (hv : v < 2 ^ q) :
    stepB q (stepA q (u ^^^ (2 ^ q - 1), v ^^^ 2 ^ q)) = (u, 2 ^ q + v) := by
  unfold stepA stepB
  simp only [testBit_top_flip hv, if_true, xor_xor_cancel, testBit_top_false hu,
    Bool.false_eq_true, if_false, two_pow_add hv]

theorem quadL2 {q u v : Nat} (hu : u < 2 ^ q) (hv : v < 2 ^ q) :
    stepB q (stepA q (u ^^^ 2 ^ q, v ^^^ 2 ^ q)) = (2 ^ q + u, 2 ^ q + v) := by
  unfold stepA stepB
  have t : (u ^^^ 2 ^ q ^^^ (2 ^ q - 1)).testBit q = true := by
    rw [testBit_xor_mask]; exact testBit_top_flip hu
  simp only [testBit_top_flip hv, if_true, t, xor_xor_cancel, two_pow_add hu, two_pow_add hv]

theorem quadL3 {q u v : Nat} (hu : u < 2 ^ q) (hv : v < 2 ^ q) :
    stepB q (stepA q (u ^^^ (2 ^ q - 1) ^^^ 2 ^ q, v))
      = (2 ^ q + (2 ^ q - 1 - v), 2 ^ q - 1 - u) := by
  unfold stepA stepB
  have hm : 2 ^ q - 1 < 2 ^ q := mask_lt (Nat.le_refl q)
  have huv : u ^^^ (2 ^ q - 1) ^^^ v < 2 ^ q := Nat.xor_lt_two_pow (Nat.xor_lt_two_pow hu hm) hv
  have et : (u ^^^ (2 ^ q - 1) ^^^ 2 ^ q ^^^ v) &&& (2 ^ q - 1) = u ^^^ (2 ^ q - 1) ^^^ v := by
    rw [show u ^^^ (2 ^ q - 1) ^^^ 2 ^ q ^^^ v = (u ^^^ (2 ^ q - 1) ^^^ v) ^^^ 2 ^ q by ac_rfl,
      xor_and_mask_high (highMask_two_pow q), and_mask_of_lt huv]
  have e1 : u ^^^ (2 ^ q - 1) ^^^ 2 ^ q ^^^ (u ^^^ (2 ^ q - 1) ^^^ v) = v ^^^ 2 ^ q := by
    apply Nat.eq_of_testBit_eq; intro i
    simp only [Nat.testBit_xor]
    cases u.testBit i <;> cases (2 ^ q - 1).testBit i <;> cases (2 ^ q).testBit i <;> cases v.testBit i <;> rfl
  have e2 : v ^^^ (u ^^^ (2 ^ q - 1) ^^^ v) = u ^^^ (2 ^ q - 1) := by
    apply Nat.eq_of_testBit_eq; intro i
    simp only [Nat.testBit_xor]
    cases u.testBit i <;> cases (2 ^ q - 1).testBit i <;> cases v.testBit i <;> rfl
  have hvm : v ^^^ (2 ^ q - 1) < 2 ^ q := Nat.xor_lt_two_pow hv hm
  simp only [testBit_top_false hv, Bool.false_eq_true, if_false, et, e1, e2, testBit_top_flip hv,
    if_true, compl_eq_xor hu, compl_eq_xor hv, two_pow_add hvm]
  congr 1; ac_rfl

/-- **the word-level decoder satisfies the classical Hilbert recursion** -/
theorem coord2_succ (p d r : Nat) (hd : d < 4) (hr : r < 4 ^ p) :
    coord2 (p+1) (d * 4 ^ p + r) = quad p d (coord2 p r) := by
  match p with
  | 0 =>
    have : r = 0 := by simpa using hr
    subst this
    have : d = 0 ∨ d = 1 ∨ d = 2 ∨ d = 3 := by omega
    rcases this with h | h | h | h <;> subst h <;> decide
  | (k+1) =>
    have hb := coord2_bdd (k+1) r
    have htb := transpose2_bdd (k+1) r
    unfold coord2 at hb ⊢
    rw [transpose2_top (k+1) d r hd hr]
    generalize transpose2 (k+1) r = tr at hb htb ⊢
    obtain ⟨ra, rb⟩ := tr
    obtain ⟨hra, hrb⟩ := htb
    simp only at hra hrb
    rw [add_eq_xor hra, add_eq_xor hrb]
    -- Gray decode splits into the low part, the carry and the high masks
    have hg : grayDecode2 (ra ^^^ 2 ^ (k+1) * (d / 2), rb ^^^ 2 ^ (k+1) * (d % 2))
        = ((grayDecode2 (ra, rb)).1 ^^^ 2 ^ k * (d % 2) ^^^ 2 ^ (k+1) * (d / 2),
           (grayDecode2 (ra, rb)).2 ^^^ (2 ^ (k+1) * (d % 2) ^^^ 2 ^ (k+1) * (d / 2))) := by
      unfold grayDecode2
      simp only [Nat.shiftRight_xor_distrib, shiftRight_two_pow_mul]
      congr 1 <;> ac_rfl
    rw [hg]
    generalize grayDecode2 (ra, rb) = g at hb ⊢
    obtain ⟨g1, g2⟩ := g
    simp only
    rw [undoLoop2, undoLoop2_high (k+1) (highMask_mul (k+1) _)
      (highMask_xor (highMask_mul (k+1) _) (highMask_mul (k+1) _))]
    have : d = 0 ∨ d = 1 ∨ d = 2 ∨ d = 3 := by omega
    rcases this with h | h | h | h <;> subst h
    · -- d = 0
      simp only [Nat.zero_div, Nat.zero_mod, Nat.mul_zero, Nat.xor_zero, quad]
      generalize undoLoop2 (k+1) (g1, g2) = w at hb ⊢
      exact quadL0 hb.1 hb.2
    · -- d = 1
      simp only [show 1 / 2 = 0 by decide, show 1 % 2 = 1 by decide, Nat.mul_zero, Nat.mul_one,
        Nat.xor_zero, quad, undoLoop2_flipTop]
      generalize undoLoop2 (k+1) (g1, g2) = w at hb ⊢
      exact quadL1 hb.1 hb.2
    · -- d = 2
      simp only [show 2 / 2 = 1 by decide, show 2 % 2 = 0 by decide, Nat.mul_zero, Nat.mul_one,
        Nat.xor_zero, Nat.zero_xor, quad]
      generalize undoLoop2 (k+1) (g1, g2) = w at hb ⊢
      exact quadL2 hb.1 hb.2
    · -- d = 3
      simp only [show 3 / 2 = 1 by decide, show 3 % 2 = 1 by decide, Nat.mul_one, Nat.xor_self,
        Nat.xor_zero, quad, undoLoop2_flipTop]
      generalize undoLoop2 (k+1) (g1, g2) = w at hb ⊢
      exact quadL3 hb.1 hb.2

end SpVerif.Hilbert
