import SpVerif.Lemmas.HilbertN
/-! C07: for n = 2 the list model (`coordN`, as the code is written for every n) is the pair model (`coord2`) about which the
curve theorems (classical recursion, adjacency, end points, refinement) are proved. Core Lean only. -/
set_option linter.unusedSimpArgs false
namespace SpVerif.Hilbert

def L2 (x : W2) : List Nat := [x.1, x.2]

theorem step_one (q : Nat) (x : W2) : step q 1 (L2 x) = L2 (stepA q x) := by
  obtain ⟨a, b⟩ := x
  unfold step stepA L2
  by_cases hb : b.testBit q <;> simp [hb]

theorem step_zero (q : Nat) (x : W2) : step q 0 (L2 x) = L2 (stepB q x) := by
  obtain ⟨a, b⟩ := x
  unfold step stepB L2
  by_cases ha : a.testBit q <;> simp [ha]

theorem undoLoopN_two (p : Nat) (x : W2) : undoLoopN 2 p (L2 x) = L2 (undoLoop2 p x) := by
  induction p using Nat.strongRecOn generalizing x with
  | _ p ih =>
    match p with
    | 0 => rfl
    | 1 => rfl
    | (p+2) =>
      simp only [undoLoopN, undoLoop2]
      rw [ih (p+1) (by omega)]
      have : (List.range 2).reverse = [1, 0] := by decide
      rw [this]
      simp only [List.foldl_cons, List.foldl_nil]
      rw [step_one, step_zero]

theorem redoLoopN_two (p : Nat) (x : W2) : redoLoopN 2 p (L2 x) = L2 (redoLoop2 p x) := by
  induction p using Nat.strongRecOn generalizing x with
  | _ p ih =>
    match p with
    | 0 => rfl
    | 1 => rfl
    | (p+2) =>
      simp only [redoLoopN, redoLoop2]
      have : List.range 2 = [0, 1] := by decide
      rw [this]
      simp only [List.foldl_cons, List.foldl_nil]
      rw [step_zero, step_one]
      exact ih (p+1) (by omega) _

theorem grayDecodeN_two (x : W2) : grayDecodeN (L2 x) = L2 (grayDecode2 x) := by
  obtain ⟨a, b⟩ := x
  have : List.range 2 = [0, 1] := by decide
  simp [grayDecodeN, grayDecode2, L2, this]

theorem testBit_two_mul_add (r c j : Nat) (hc : c < 2) :
    (2 * r + c).testBit j = if j = 0 then decide (c = 1) else r.testBit (j - 1) := by
  cases j with
  | zero =>
    simp only [Nat.testBit_zero, if_true]
    have : (2 * r + c) % 2 = c := by omega
    rw [this]
  | succ j =>
    simp only [Nat.testBit_succ, Nat.succ_ne_zero, if_false, Nat.add_sub_cancel]
    have : (2 * r + c) / 2 = r := by omega
    rw [this]

theorem testBit_transpose2 (p h j : Nat) :
    (transpose2 p h).1.testBit j = (decide (j < p) && h.testBit (2 * j + 1)) ∧
    (transpose2 p h).2.testBit j = (decide (j < p) && h.testBit (2 * j)) := by
  induction p generalizing h j with
  | zero => simp [transpose2]
  | succ p ih =>
    simp only [transpose2]
    rw [testBit_two_mul_add _ _ j (Nat.mod_lt _ (by omega)), testBit_two_mul_add _ _ j (Nat.mod_lt _ (by omega))]
    cases j with
    | zero =>
      simp only [if_true, Nat.zero_lt_succ, decide_true, Bool.true_and, Nat.mul_zero, Nat.zero_add]
      constructor
      · rw [Nat.testBit_succ, Nat.testBit_zero]
      · rw [Nat.testBit_zero]
    | succ j =>
      simp only [Nat.succ_ne_zero, if_false, Nat.add_sub_cancel]
      obtain ⟨i1, i2⟩ := ih (h / 4) j
      rw [i1, i2]
      have hq : h / 4 = h / 2 / 2 := by omega
      have e1 : (h / 4).testBit (2 * j + 1) = h.testBit (2 * (j + 1) + 1) := by
        rw [hq, ← Nat.testBit_succ, ← Nat.testBit_succ]
        congr 1
      have e2 : (h / 4).testBit (2 * j) = h.testBit (2 * (j + 1)) := by
        rw [hq, ← Nat.testBit_succ, ← Nat.testBit_succ]
        congr 1
      rw [e1, e2]
      have : (decide (j < p)) = decide (j + 1 < p + 1) := by
        by_cases hj : j < p
        · simp [hj]
        · simp [hj]
      rw [this]
      exact ⟨rfl, rfl⟩

theorem toTranspose_two (p h : Nat) : toTranspose p 2 h = L2 (transpose2 p h) := by
  have : List.range 2 = [0, 1] := by decide
  simp only [toTranspose, this, List.map_cons, List.map_nil, L2]
  congr 1
  · apply Nat.eq_of_testBit_eq; intro j
    unfold transposeWord
    rw [testBit_bitsum, (testBit_transpose2 p h j).1]
  · congr 1
    apply Nat.eq_of_testBit_eq; intro j
    unfold transposeWord
    rw [testBit_bitsum, (testBit_transpose2 p h j).2]
    simp

/-- **for n = 2 the list model is the pair model** -/
theorem coordN_two (p h : Nat) : coordN p 2 h = L2 (coord2 p h) := by
  unfold coordN coord2
  rw [toTranspose_two, grayDecodeN_two, undoLoopN_two]

end SpVerif.Hilbert
