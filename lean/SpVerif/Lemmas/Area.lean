import SpVerif.Model.Geom
import Mathlib.Tactic.Ring
import Mathlib.Tactic.Linarith
/-! Helper lemmas for C14 / C15: the coded area loop is the shoelace sum on closed rings. -/
namespace SpVerif.Geom

/-- the textbook shoelace sum over consecutive vertex pairs: `Σ (x_i y_{i+1} - x_{i+1} y_i)` -/
def shoelace : List Pt → Int
  | a :: b :: rest => (a.1 * b.2 - b.1 * a.2) + shoelace (b :: rest)
  | _ => 0

/-- `x_last * y_secondlast` -/
def tailTerm : List Pt → Int
  | [a, b] => b.1 * a.2
  | _ :: b :: c :: rest => tailTerm (b :: c :: rest)
  | _ => 0

def lastPt : List Pt → Pt
  | [] => (0, 0)
  | [a] => a
  | _ :: b :: rest => lastPt (b :: rest)

def secondLast : List Pt → Pt
  | [a, _] => a
  | _ :: b :: c :: rest => secondLast (b :: c :: rest)
  | _ => (0, 0)

theorem tailTerm_eq (l : List Pt) (h : 2 ≤ l.length) : tailTerm l = (lastPt l).1 * (secondLast l).2 := by
  match l with
  | [a, b] => rfl
  | a :: b :: c :: rest =>
    simp only [tailTerm, lastPt, secondLast]
    exact tailTerm_eq (b :: c :: rest) (by simp)

/-- `S(L) = M(L) + x_0 y_1 - x_last y_secondlast` for every list with at least two vertices -/
theorem shoelace_eq_midSum (l : List Pt) (h : 2 ≤ l.length) :
    shoelace l = midSum l + (l.getD 0 (0,0)).1 * (l.getD 1 (0,0)).2 - tailTerm l := by
  match l with
  | [a, b] => simp [shoelace, midSum, tailTerm]
  | a :: b :: c :: rest =>
    have ih := shoelace_eq_midSum (b :: c :: rest) (by simp)
    simp only [shoelace, midSum, tailTerm, List.getD_cons_zero, List.getD_cons_succ] at ih ⊢
    rw [ih]
    ring

theorem getD_last (l : List Pt) (h : 1 ≤ l.length) : l.getD (l.length - 1) (0,0) = lastPt l := by
  match l with
  | [a] => rfl
  | a :: b :: rest =>
    simp only [List.length_cons, lastPt]
    have := getD_last (b :: rest) (by simp)
    simp only [List.length_cons] at this
    rw [show rest.length + 1 + 1 - 1 = (rest.length + 1 - 1) + 1 by omega, List.getD_cons_succ]
    exact this

theorem getD_secondLast (l : List Pt) (h : 2 ≤ l.length) : l.getD (l.length - 2) (0,0) = secondLast l := by
  match l with
  | [a, b] => rfl
  | a :: b :: c :: rest =>
    simp only [List.length_cons, secondLast]
    have := getD_secondLast (b :: c :: rest) (by simp)
    simp only [List.length_cons] at this
    rw [show rest.length + 1 + 1 + 1 - 2 = (rest.length + 1 + 1 - 2) + 1 by omega, List.getD_cons_succ]
    exact this

/-- a ring is closed when it has at least three stored vertices and the last repeats the first -/
def Closed (r : List Pt) : Prop := 3 ≤ r.length ∧ lastPt r = r.getD 0 (0,0)

/-- **the coded area of a closed ring is the shoelace sum** -/
theorem ringArea2_eq_shoelace (r : List Pt) (h : Closed r) : ringArea2 r = shoelace r := by
  obtain ⟨hl, hc⟩ := h
  have h3 : ¬ r.length < 3 := by omega
  rw [shoelace_eq_midSum r (by omega), tailTerm_eq r (by omega), hc]
  unfold ringArea2
  simp only [h3, if_false]
  rw [getD_secondLast r (by omega)]
  ring

/-! ### translation -/

def translate (d : Pt) (l : List Pt) : List Pt := l.map (fun p => (p.1 + d.1, p.2 + d.2))

theorem lastPt_translate (d : Pt) (l : List Pt) (h : 1 ≤ l.length) :
    lastPt (translate d l) = ((lastPt l).1 + d.1, (lastPt l).2 + d.2) := by
  match l with
  | [a] => rfl
  | a :: b :: rest =>
    have := lastPt_translate d (b :: rest) (by simp)
    simpa [translate, lastPt] using this

theorem shoelace_translate (d : Pt) (l : List Pt) (h : 1 ≤ l.length) :
    shoelace (translate d l) = shoelace l + d.1 * ((lastPt l).2 - (l.getD 0 (0,0)).2) - d.2 * ((lastPt l).1 - (l.getD 0 (0,0)).1) := by
  match l with
  | [a] => simp [translate, shoelace, lastPt]
  | a :: b :: rest =>
    have ih := shoelace_translate d (b :: rest) (by simp)
    simp only [translate, List.map_cons, shoelace, lastPt, List.getD_cons_zero] at ih ⊢
    rw [ih]
    ring

theorem closed_translate (d : Pt) (r : List Pt) (h : Closed r) : Closed (translate d r) := by
  obtain ⟨hl, hc⟩ := h
  refine ⟨by simpa [translate] using hl, ?_⟩
  rw [lastPt_translate d r (by omega), hc]
  match r, hl with
  | a :: _, _ => simp [translate]

/-! ### reversal -/

theorem shoelace_append_single (l : List Pt) (z : Pt) (h : 1 ≤ l.length) :
    shoelace (l ++ [z]) = shoelace l + ((lastPt l).1 * z.2 - z.1 * (lastPt l).2) := by
  match l with
  | [a] => simp [shoelace, lastPt]
  | a :: b :: rest =>
    have ih := shoelace_append_single (b :: rest) z (by simp)
    simp only [List.cons_append, shoelace, lastPt] at ih ⊢
    rw [ih]; ring

theorem lastPt_append_single (l : List Pt) (z : Pt) : lastPt (l ++ [z]) = z := by
  match l with
  | [] => rfl
  | [a] => rfl
  | a :: b :: rest =>
    have := lastPt_append_single (b :: rest) z
    simpa [lastPt] using this

theorem shoelace_reverse (l : List Pt) : shoelace l.reverse = - shoelace l := by
  match l with
  | [] => rfl
  | [a] => rfl
  | a :: b :: rest =>
    have ih := shoelace_reverse (b :: rest)
    rw [List.reverse_cons, shoelace_append_single _ _ (by simp), ih]
    have hl : lastPt (b :: rest).reverse = b := by
      rw [List.reverse_cons]; exact lastPt_append_single _ _
    rw [hl]
    simp only [shoelace]
    ring

theorem getD_zero_reverse (l : List Pt) (h : 1 ≤ l.length) : l.reverse.getD 0 (0,0) = lastPt l := by
  match l with
  | [a] => rfl
  | a :: b :: rest =>
    have := getD_zero_reverse (b :: rest) (by simp)
    rw [List.reverse_cons, lastPt]
    rw [← this]
    have hne : (b :: rest).reverse ≠ [] := by simp
    cases hr : (b :: rest).reverse with
    | nil => exact absurd hr hne
    | cons x xs => simp

theorem lastPt_reverse (l : List Pt) (h : 1 ≤ l.length) : lastPt l.reverse = l.getD 0 (0,0) := by
  match l with
  | a :: rest =>
    rw [List.reverse_cons, lastPt_append_single]; rfl

theorem closed_reverse (r : List Pt) (h : Closed r) : Closed r.reverse := by
  obtain ⟨hl, hc⟩ := h
  refine ⟨by simpa using hl, ?_⟩
  rw [lastPt_reverse r (by omega), getD_zero_reverse r (by omega), hc]

end SpVerif.Geom
