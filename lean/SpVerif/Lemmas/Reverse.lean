import SpVerif.Lemmas.PolyBox
/-! Reversing rings: the closed point set of a polygon does not change, the winding number changes sign as a whole. -/
namespace SpVerif.Geom

theorem orientQ_swap (a b : Pt) (p : QPt) : orientQ b a p = - orientQ a b p := by unfold orientQ; ring

theorem edgeQ_swap (p : QPt) (a b : Pt) : edgeQ p b a = - edgeQ p a b := by
  unfold edgeQ
  rw [orientQ_swap a b p]
  by_cases h1 : (a.2 : ℚ) < p.2 ∧ p.2 ≤ b.2 ∧ 0 ≤ orientQ a b p
  · have n : ¬ ((b.2 : ℚ) < p.2 ∧ p.2 ≤ a.2 ∧ 0 ≤ -orientQ a b p) := by rintro ⟨c1, c2, _⟩; linarith [h1.1, h1.2.1]
    have y : (a.2 : ℚ) < p.2 ∧ p.2 ≤ b.2 ∧ -orientQ a b p ≤ 0 := ⟨h1.1, h1.2.1, by linarith [h1.2.2]⟩
    simp [h1, n, y]
  · by_cases h2 : (b.2 : ℚ) < p.2 ∧ p.2 ≤ a.2 ∧ orientQ a b p ≤ 0
    · have y : (b.2 : ℚ) < p.2 ∧ p.2 ≤ a.2 ∧ 0 ≤ -orientQ a b p := ⟨h2.1, h2.2.1, by linarith [h2.2.2]⟩
      simp [h1, h2, y]
    · have n1 : ¬ ((b.2 : ℚ) < p.2 ∧ p.2 ≤ a.2 ∧ 0 ≤ -orientQ a b p) := by
        intro h; exact h2 ⟨h.1, h.2.1, by linarith [h.2.2]⟩
      have n2 : ¬ ((a.2 : ℚ) < p.2 ∧ p.2 ≤ b.2 ∧ -orientQ a b p ≤ 0) := by
        intro h; exact h1 ⟨h.1, h.2.1, by linarith [h.2.2]⟩
      simp [h1, h2, n1, n2]

theorem windQ_append_single (p : QPt) (l : List Pt) (z : Pt) (h : 1 ≤ l.length) :
    windQ p (l ++ [z]) = windQ p l + edgeQ p (lastPt l) z := by
  match l with
  | [a] => simp [windQ, lastPt]
  | a :: b :: rest =>
    have ih := windQ_append_single p (b :: rest) z (by simp)
    simp only [List.cons_append, windQ, lastPt] at ih ⊢
    rw [ih]; omega

/-- walking a ring backwards negates its winding number about every rational point -/
theorem windQ_reverse (p : QPt) (r : List Pt) : windQ p r.reverse = - windQ p r := by
  match r with
  | [] => rfl
  | [a] => rfl
  | a :: b :: rest =>
    have ih := windQ_reverse p (b :: rest)
    rw [List.reverse_cons, windQ_append_single p _ a (by simp), ih]
    have hl : lastPt (b :: rest).reverse = b := by
      rw [List.reverse_cons]; exact lastPt_append_single _ b
    rw [hl, edgeQ_swap p a b]
    simp only [windQ]; omega

theorem onSeg_swap {u v : Pt} {q : QPt} (h : OnSeg u v q) : OnSeg v u q := by
  obtain ⟨t, t0, t1, e1, e2⟩ := h
  exact ⟨1 - t, by linarith, by linarith, by rw [e1]; ring, by rw [e2]; ring⟩

theorem segs_append_single (l : List Pt) (z : Pt) (h : 1 ≤ l.length) : segs (l ++ [z]) = segs l ++ [(lastPt l, z)] := by
  match l with
  | [a] => simp [segs, lastPt]
  | a :: b :: rest =>
    have ih := segs_append_single (b :: rest) z (by simp)
    simp only [List.cons_append, segs, lastPt] at ih ⊢
    rw [ih]

theorem mem_segs_reverse {r : List Pt} {s : Pt × Pt} (h : s ∈ segs r.reverse) : (s.2, s.1) ∈ segs r := by
  match r with
  | [] => simp [segs] at h
  | [a] => simp [segs] at h
  | a :: b :: rest =>
    rw [List.reverse_cons, segs_append_single _ a (by simp)] at h
    have hl : lastPt (b :: rest).reverse = b := by
      rw [List.reverse_cons]; exact lastPt_append_single _ b
    rw [hl, List.mem_append] at h
    rcases h with h | h
    · have := mem_segs_reverse h
      simp only [segs, List.mem_cons]
      exact Or.inr this
    · simp only [List.mem_singleton] at h
      subst h
      simp [segs]

theorem linePoint_reverse {r : List Pt} {q : QPt} : LinePoint r.reverse q ↔ LinePoint r q := by
  have key : ∀ (r : List Pt), LinePoint r.reverse q → LinePoint r q := by
    intro r h
    rcases h with ⟨v, hv, e⟩ | ⟨s, hs, on⟩
    · exact Or.inl ⟨v, List.mem_reverse.mp hv, e⟩
    · exact Or.inr ⟨(s.2, s.1), mem_segs_reverse hs, onSeg_swap on⟩
  constructor
  · exact key r
  · intro h
    have := key r.reverse (by rw [List.reverse_reverse]; exact h)
    exact this

theorem bboxOf_congr (l l' : List Pt) (h : ∀ p, p ∈ l ↔ p ∈ l') : bboxOf l = bboxOf l' := by
  cases hb : bboxOf l with
  | none =>
    have : l = [] := (bboxOf_none_iff l).mp hb
    subst this
    have : l' = [] := by
      cases l' with
      | nil => rfl
      | cons x xs => exact absurd ((h x).mpr (by simp)) (by simp)
    subst this; rfl
  | some bb =>
    cases hb' : bboxOf l' with
    | none =>
      have : l' = [] := (bboxOf_none_iff l').mp hb'
      subst this
      have : l = [] := by
        cases l with
        | nil => rfl
        | cons x xs => exact absurd ((h x).mp (by simp)) (by simp)
      subst this; simp [bboxOf] at hb
    | some bb' =>
      have s1 := bboxOf_mono l l' bb bb' hb hb' (fun p hp => (h p).mp hp)
      have s2 := bboxOf_mono l' l bb' bb hb' hb (fun p hp => (h p).mpr hp)
      obtain ⟨a1, a2, a3, a4⟩ := s1
      obtain ⟨c1, c2, c3, c4⟩ := s2
      have e : bb = bb' := by
        cases bb; cases bb'
        simp only at a1 a2 a3 a4 c1 c2 c3 c4
        congr 1 <;> omega
      rw [e]

theorem polyPoint_map_reverse (rings : List (List Pt)) (q : QPt) :
    PolyPoint (rings.map List.reverse) q ↔ PolyPoint rings q := by
  have hw : windAllQ q (rings.map List.reverse) = - windAllQ q rings := by
    unfold windAllQ
    rw [List.map_map]
    induction rings with
    | nil => rfl
    | cons r rs ih =>
      simp only [List.map_cons, List.sum_cons, Function.comp]
      rw [windQ_reverse]
      rw [ih]; omega
  unfold PolyPoint
  rw [hw]
  constructor
  · rintro (⟨r, hr, hl⟩ | h)
    · obtain ⟨r0, hr0, rfl⟩ := List.mem_map.mp hr
      exact Or.inl ⟨r0, hr0, linePoint_reverse.mp hl⟩
    · right; intro hc; apply h; omega
  · rintro (⟨r, hr, hl⟩ | h)
    · exact Or.inl ⟨r.reverse, List.mem_map.mpr ⟨r, hr, rfl⟩, linePoint_reverse.mpr hl⟩
    · right; intro hc; apply h; omega

end SpVerif.Geom
