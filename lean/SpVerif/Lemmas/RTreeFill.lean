import SpVerif.Lemmas.RTreeArr
import SpVerif.Model.RTreeFill
/-!
# C03: the coded bottom-up pass fills `bounds_tree` with the boxes of the sub-trees

`fill_holds`: after the page loop and the layer loops of `_build_hilbert_rtree` (as coded: reads of the children from the array
being filled, nothing written when both children are NaN, `start` / `stop` moved by `_parent`), row `2^t − 1 + j` of `bounds_tree`
is the box of the sub-tree at depth `t`, position `j` — the hypothesis `Arr.Holds` of `loop_eq_query`.
-/
namespace SpVerif.RTreeFill
open RTree RTreeIndex RTreeArr

theorem fillNode_of_none (d : Nat) (bt : BT) (node : Nat) (h : bt node = none) :
    fillNode d bt node = setAt bt node (unionOpt d (bt (leftChild node)) (bt (rightChild node))) := by
  unfold fillNode
  cases hl : bt (leftChild node) <;> cases hr : bt (rightChild node) <;> simp [unionOpt]
  funext i
  simp only [setAt]
  split
  · next hi => rw [hi, h]
  · rfl

theorem fillLeaves_spec (d ps : Nat) (rows : List Row) (ls : Nat) (bt0 : BT) : ∀ np i,
    fillLeaves d ps rows ls np bt0 i =
      if ls ≤ i ∧ i < ls + np then pageBox d ((rows.drop ((i - ls) * ps)).take ps) else bt0 i := by
  intro np
  induction np with
  | zero =>
    intro i
    have : ¬ (ls ≤ i ∧ i < ls + 0) := by omega
    rw [if_neg this]
    simp [fillLeaves]
  | succ n ih =>
    intro i
    have ih' := ih i
    unfold fillLeaves at ih' ⊢
    rw [List.range_succ, List.foldl_append]
    simp only [List.foldl_cons, List.foldl_nil, setAt]
    by_cases h : i = ls + n
    · subst h
      have : ls ≤ ls + n ∧ ls + n < ls + (n + 1) := by omega
      simp [this]
    · rw [if_neg h, ih']
      by_cases h2 : ls ≤ i ∧ i < ls + n
      · have : ls ≤ i ∧ i < ls + (n + 1) := by omega
        rw [if_pos h2, if_pos this]
      · have : ¬ (ls ≤ i ∧ i < ls + (n + 1)) := by omega
        rw [if_neg h2, if_neg this]

theorem fillLayer_fold (d : Nat) (bt : BT) (s : Nat) : ∀ m,
    (∀ i, s ≤ i → i < s + m → bt i = none) →
    ∀ i, (List.range m).foldl (fun bt i => fillNode d bt (s + i)) bt i =
      if s ≤ i ∧ i < s + m then unionOpt d (bt (leftChild i)) (bt (rightChild i)) else bt i := by
  intro m
  induction m with
  | zero =>
    intro _ i
    have : ¬ (s ≤ i ∧ i < s + 0) := by omega
    rw [if_neg this]
    simp
  | succ n ih =>
    intro hnone i
    have ihn := ih (fun i h1 h2 => hnone i h1 (by omega))
    rw [List.range_succ, List.foldl_append]
    simp only [List.foldl_cons, List.foldl_nil]
    have hcur : (List.range n).foldl (fun bt i => fillNode d bt (s + i)) bt (s + n) = none := by
      rw [ihn (s + n)]
      have : ¬ (s ≤ s + n ∧ s + n < s + n) := by omega
      rw [if_neg this]
      exact hnone (s + n) (by omega) (by omega)
    rw [fillNode_of_none d _ _ hcur]
    have hl : ¬ (s ≤ leftChild (s + n) ∧ leftChild (s + n) < s + n) := by unfold leftChild; omega
    have hr : ¬ (s ≤ rightChild (s + n) ∧ rightChild (s + n) < s + n) := by unfold rightChild; omega
    rw [ihn (leftChild (s + n)), ihn (rightChild (s + n)), if_neg hl, if_neg hr]
    simp only [setAt]
    by_cases h : i = s + n
    · subst h
      have : s ≤ s + n ∧ s + n < s + (n + 1) := by omega
      simp [this]
    · rw [if_neg h, ihn i]
      by_cases h2 : s ≤ i ∧ i < s + n
      · have : s ≤ i ∧ i < s + (n + 1) := by omega
        rw [if_pos h2, if_pos this]
      · have : ¬ (s ≤ i ∧ i < s + (n + 1)) := by omega
        rw [if_neg h2, if_neg this]

/-- one layer: the nodes `2^t − 1 … 2^(t+1) − 2` receive the union of their children, nothing else changes -/
theorem fillLayer_spec (d : Nat) (bt : BT) (t : Nat) (hnone : ∀ i, i < 2 ^ (t + 1) - 1 → bt i = none) :
    ∀ i, fillLayer d bt (2 ^ t - 1) (2 ^ (t + 1) - 2) i =
      if 2 ^ t - 1 ≤ i ∧ i < 2 ^ (t + 1) - 1 then unionOpt d (bt (leftChild i)) (bt (rightChild i)) else bt i := by
  intro i
  have hp := Nat.two_pow_pos t
  have h2 : 2 ^ (t + 1) = 2 * 2 ^ t := by rw [Nat.pow_succ]; omega
  have hm : 2 ^ (t + 1) - 2 + 1 - (2 ^ t - 1) = 2 ^ t := by omega
  unfold fillLayer
  rw [hm, fillLayer_fold d bt (2 ^ t - 1) (2 ^ t) (fun i _ h => hnone i (by omega)) i]
  have : (2 ^ t - 1 ≤ i ∧ i < 2 ^ t - 1 + 2 ^ t) ↔ (2 ^ t - 1 ≤ i ∧ i < 2 ^ (t + 1) - 1) := by omega
  simp only [this]

theorem parent_start (l : Nat) (hl : 1 ≤ l) : parent (2 ^ l - 1) = 2 ^ (l - 1) - 1 := by
  obtain ⟨k, rfl⟩ : ∃ k, l = k + 1 := ⟨l - 1, by omega⟩
  have hp := Nat.two_pow_pos k
  have h2 : 2 ^ (k + 1) = 2 * 2 ^ k := by rw [Nat.pow_succ]; omega
  unfold parent
  simp only [Nat.add_sub_cancel]
  omega

theorem parent_stop (l : Nat) (hl : 1 ≤ l) : parent (2 ^ (l + 1) - 2) = 2 ^ l - 2 := by
  obtain ⟨k, rfl⟩ : ∃ k, l = k + 1 := ⟨l - 1, by omega⟩
  have hp := Nat.two_pow_pos k
  have h2 : 2 ^ (k + 1) = 2 * 2 ^ k := by rw [Nat.pow_succ]; omega
  have h3 : 2 ^ (k + 1 + 1) = 2 * 2 ^ (k + 1) := by rw [Nat.pow_succ]; omega
  unfold parent
  omega

/-- the layer loops: if the rows of the layers `l … D` hold the boxes `B` and everything above is still NaN, then after the
remaining `l` layers every row holds its box -/
theorem fillUp_spec (d D : Nat) (B : Nat → Nat → Option NBox)
    (hB : ∀ t j, t < D → j < 2 ^ t → B t j = unionOpt d (B (t + 1) (2 * j)) (B (t + 1) (2 * j + 1))) :
    ∀ l s e (bt : BT), l ≤ D → (1 ≤ l → s = 2 ^ (l - 1) - 1 ∧ e = 2 ^ l - 2) →
      (∀ i, i < 2 ^ l - 1 → bt i = none) →
      (∀ t j, l ≤ t → t ≤ D → j < 2 ^ t → bt (2 ^ t - 1 + j) = B t j) →
      ∀ t j, t ≤ D → j < 2 ^ t → fillUp d l s e bt (2 ^ t - 1 + j) = B t j := by
  intro l
  induction l with
  | zero =>
    intro s e bt _ _ _ hhigh t j ht hj
    simp only [fillUp]
    exact hhigh t j (Nat.zero_le _) ht hj
  | succ k ih =>
    intro s e bt hl hse hnone hhigh t j ht hj
    obtain ⟨hs, he⟩ := hse (by omega)
    simp only [Nat.add_sub_cancel] at hs
    subst hs he
    simp only [fillUp]
    have hpk := Nat.two_pow_pos k
    have h2k : 2 ^ (k + 1) = 2 * 2 ^ k := by rw [Nat.pow_succ]; omega
    have hspec := fillLayer_spec d bt k hnone
    apply ih _ _ _ (by omega)
    · intro hk
      exact ⟨parent_start k hk, parent_stop k hk⟩
    · intro i hi
      rw [hspec i]
      have : ¬ (2 ^ k - 1 ≤ i ∧ i < 2 ^ (k + 1) - 1) := by omega
      rw [if_neg this]
      exact hnone i (by omega)
    · intro t' j' hkt ht' hj'
      rw [hspec]
      by_cases hc : t' = k
      · subst hc
        have : 2 ^ t' - 1 ≤ 2 ^ t' - 1 + j' ∧ 2 ^ t' - 1 + j' < 2 ^ (t' + 1) - 1 := by omega
        rw [if_pos this]
        obtain ⟨hlc, hrc, _⟩ := index_arithmetic D 1 t' j' (Nat.le_refl _) ht' hj'
        rw [hlc, hrc]
        have hj2 : 2 * j' < 2 ^ (t' + 1) := by omega
        have hj3 : 2 * j' + 1 < 2 ^ (t' + 1) := by omega
        rw [hhigh (t' + 1) (2 * j') (by omega) (by omega) hj2, hhigh (t' + 1) (2 * j' + 1) (by omega) (by omega) hj3]
        exact (hB t' j' (by omega) hj').symm
      · have hlt : k + 1 ≤ t' := by omega
        have hpow : 2 ^ (k + 1) ≤ 2 ^ t' := Nat.pow_le_pow_right (by omega) hlt
        have : ¬ (2 ^ k - 1 ≤ 2 ^ t' - 1 + j' ∧ 2 ^ t' - 1 + j' < 2 ^ (k + 1) - 1) := by omega
        rw [if_neg this]
        exact hhigh t' j' hlt ht' hj'
    · exact ht
    · exact hj

theorem numPages_mul (n ps : Nat) (hps : 1 ≤ ps) : n ≤ numPages n ps * ps := by
  unfold numPages
  have h1 := Nat.div_add_mod (n + ps - 1) ps
  have h2 := Nat.mod_lt (n + ps - 1) (show 0 < ps by omega)
  rw [Nat.mul_comm] at h1
  omega

theorem pageBox_beyond (d ps : Nat) (rows : List Row) (j : Nat) (hps : 1 ≤ ps) (hj : numPages rows.length ps ≤ j) :
    pageBox d ((rows.drop (j * ps)).take ps) = none := by
  have h1 := numPages_mul rows.length ps hps
  have h2 : numPages rows.length ps * ps ≤ j * ps := Nat.mul_le_mul_right _ hj
  have : rows.drop (j * ps) = [] := List.drop_eq_nil_of_le (by omega)
  rw [this]
  simp [pageBox, PTree.box]

theorem fill_holds_aux (d ps : Nat) (rows : List Row) (D : Nat) (hps : 1 ≤ ps) (hDdef : D = clog2 (numPages rows.length ps)) :
    ({ D := D, ps := ps, bt := fill d ps rows, rows := rows } : Arr).Holds d := by
  intro t j ht hj
  have hfill : fill d ps rows = fillUp d D (parent (2 * 2 ^ D - 1 - 2 ^ D)) (parent (2 * 2 ^ D - 1 - 1))
      (fillLeaves d ps rows (2 * 2 ^ D - 1 - 2 ^ D) (numPages rows.length ps) (fun _ => none)) := by
    subst hDdef; rfl
  generalize ha : ({ D := D, ps := ps, bt := fill d ps rows, rows := rows } : Arr) = a at *
  have haD : a.D = D := by rw [← ha]
  have haps : a.ps = ps := by rw [← ha]
  have harows : a.rows = rows := by rw [← ha]
  have hbt : a.bt = fill d ps rows := by rw [← ha]
  have hpD := Nat.two_pow_pos D
  have hlen : 2 * 2 ^ D - 1 - 2 ^ D = 2 ^ D - 1 := by omega
  have h2D : 2 ^ (D + 1) = 2 * 2 ^ D := by rw [Nat.pow_succ]; omega
  rw [hbt, hfill, hlen]
  rw [haD] at ht
  apply fillUp_spec d D (fun t j => (sub a t j).box d)
  · intro t j ht hj
    show (sub a t j).box d = _
    rw [sub_node a t j (by omega)]
    rfl
  · exact Nat.le_refl _
  · intro hD1
    refine ⟨parent_start D hD1, ?_⟩
    have : 2 * 2 ^ D - 1 - 1 = 2 ^ (D + 1) - 2 := by omega
    rw [this]
    exact parent_stop D hD1
  · intro i hi
    rw [fillLeaves_spec]
    have : ¬ (2 ^ D - 1 ≤ i ∧ i < 2 ^ D - 1 + numPages rows.length ps) := by omega
    rw [if_neg this]
  · intro t' j' hDt ht' hj'
    have htD : t' = D := by omega
    subst htD
    rw [fillLeaves_spec]
    show _ = (sub a t' j').box d
    have hsl := sub_leaf a j'
    rw [haD] at hsl
    rw [hsl, haps, harows]
    by_cases hc : j' < numPages rows.length ps
    · have : 2 ^ t' - 1 ≤ 2 ^ t' - 1 + j' ∧ 2 ^ t' - 1 + j' < 2 ^ t' - 1 + numPages rows.length ps := by omega
      rw [if_pos this]
      have e : 2 ^ t' - 1 + j' - (2 ^ t' - 1) = j' := by omega
      rw [e]
      rfl
    · have : ¬ (2 ^ t' - 1 ≤ 2 ^ t' - 1 + j' ∧ 2 ^ t' - 1 + j' < 2 ^ t' - 1 + numPages rows.length ps) := by omega
      rw [if_neg this]
      have := pageBox_beyond d ps rows j' hps (by omega)
      unfold pageBox at this
      exact this.symm
  · exact ht
  · exact hj

/-- **the coded bottom-up pass produces the array the traversal theorem assumes** -/
theorem fill_holds (d ps : Nat) (rows : List Row) (hps : 1 ≤ ps) :
    ({ D := clog2 (numPages rows.length ps), ps := ps, bt := fill d ps rows, rows := rows } : Arr).Holds d :=
  fill_holds_aux d ps rows _ hps rfl

/-! ### the pass on the array itself computes the same rows -/

/-- the array `l` (of `len` rows) and the function `bt` agree on the rows of the tree -/
def Sim (len : Nat) (l : List (Option NBox)) (bt : BT) : Prop := l.length = len ∧ ∀ i, i < len → l.getD i none = bt i

theorem getD_set (l : List (Option NBox)) (k i : Nat) (v : Option NBox) :
    (l.set k v).getD i none = if i = k ∧ k < l.length then v else l.getD i none := by
  simp only [List.getD_eq_getElem?_getD, List.getElem?_set]
  by_cases h : k = i
  · subst h
    by_cases hk : k < l.length
    · simp [hk]
    · simp [hk, List.getElem?_eq_none (Nat.le_of_not_lt hk)]
  · have h' : ¬ i = k := fun e => h e.symm
    simp [h, h']

theorem sim_set {len : Nat} {l : List (Option NBox)} {bt : BT} (h : Sim len l bt) (k : Nat) (v : Option NBox) :
    Sim len (l.set k v) (setAt bt k v) := by
  refine ⟨by rw [List.length_set]; exact h.1, ?_⟩
  intro i hi
  rw [getD_set]
  simp only [setAt]
  by_cases hik : i = k
  · subst hik
    have : i < l.length := by rw [h.1]; exact hi
    simp [this]
  · rw [if_neg (fun hc => hik hc.1), if_neg hik]
    exact h.2 i hi

theorem sim_fillNode {len : Nat} {l : List (Option NBox)} {bt : BT} (d : Nat) (h : Sim len l bt) (node : Nat)
    (hr : rightChild node < len) : Sim len (fillNodeL d l node) (fillNode d bt node) := by
  have hl : leftChild node < len := by unfold leftChild; unfold rightChild at hr; omega
  unfold fillNodeL fillNode
  rw [h.2 _ hl, h.2 _ hr]
  cases bt (leftChild node) <;> cases bt (rightChild node)
  · exact h
  · exact sim_set h _ _
  · exact sim_set h _ _
  · exact sim_set h _ _

theorem sim_fold_nodes {len : Nat} (d s : Nat) : ∀ (m : Nat) (l : List (Option NBox)) (bt : BT), Sim len l bt →
    (∀ i, i < m → rightChild (s + i) < len) →
    Sim len ((List.range m).foldl (fun bt i => fillNodeL d bt (s + i)) l) ((List.range m).foldl (fun bt i => fillNode d bt (s + i)) bt) := by
  intro m
  induction m with
  | zero => intro l bt h _; simpa using h
  | succ n ih =>
    intro l bt h hr
    rw [List.range_succ, List.foldl_append, List.foldl_append]
    simp only [List.foldl_cons, List.foldl_nil]
    exact sim_fillNode d (ih l bt h (fun i hi => hr i (by omega))) _ (hr n (by omega))

theorem sim_leaves {len : Nat} (d ps : Nat) (rows : List Row) (ls : Nat) : ∀ (np : Nat) (l : List (Option NBox)) (bt : BT), Sim len l bt →
    Sim len (fillLeavesL d ps rows ls np l) (fillLeaves d ps rows ls np bt) := by
  intro np
  induction np with
  | zero => intro l bt h; simpa [fillLeavesL, fillLeaves] using h
  | succ n ih =>
    intro l bt h
    unfold fillLeavesL fillLeaves
    rw [List.range_succ, List.foldl_append, List.foldl_append]
    simp only [List.foldl_cons, List.foldl_nil]
    have := ih l bt h
    unfold fillLeavesL fillLeaves at this
    exact sim_set this _ _

theorem sim_fillUp (d D : Nat) : ∀ (l s e : Nat) (bl : List (Option NBox)) (bt : BT), l ≤ D →
    (1 ≤ l → s = 2 ^ (l - 1) - 1 ∧ e = 2 ^ l - 2) → Sim (2 * 2 ^ D - 1) bl bt →
    Sim (2 * 2 ^ D - 1) (fillUpL d l s e bl) (fillUp d l s e bt) := by
  intro l
  induction l with
  | zero => intro s e bl bt _ _ h; simpa [fillUpL, fillUp] using h
  | succ k ih =>
    intro s e bl bt hl hse h
    obtain ⟨hs, he⟩ := hse (by omega)
    simp only [Nat.add_sub_cancel] at hs
    subst hs he
    simp only [fillUpL, fillUp]
    have hpk := Nat.two_pow_pos k
    have h2k : 2 ^ (k + 1) = 2 * 2 ^ k := by rw [Nat.pow_succ]; omega
    have hkD : 2 ^ (k + 1) ≤ 2 ^ D := Nat.pow_le_pow_right (by omega) hl
    apply ih _ _ _ _ (by omega)
    · intro hk
      exact ⟨parent_start k hk, parent_stop k hk⟩
    · unfold fillLayerL fillLayer
      apply sim_fold_nodes d _ _ _ _ h
      intro i hi
      unfold rightChild
      omega

theorem sim_fill (d ps : Nat) (rows : List Row) :
    Sim (2 * 2 ^ clog2 (numPages rows.length ps) - 1) (fillL d ps rows) (fill d ps rows) := by
  unfold fillL fill
  simp only
  generalize clog2 (numPages rows.length ps) = D
  have hpD := Nat.two_pow_pos D
  have hlen : 2 * 2 ^ D - 1 - 2 ^ D = 2 ^ D - 1 := by omega
  have h2D : 2 ^ (D + 1) = 2 * 2 ^ D := by rw [Nat.pow_succ]; omega
  apply sim_fillUp d D D _ _ _ _ (Nat.le_refl _)
  · intro hD1
    rw [hlen]
    refine ⟨parent_start D hD1, ?_⟩
    have : 2 * 2 ^ D - 1 - 1 = 2 ^ (D + 1) - 2 := by omega
    rw [this]
    exact parent_stop D hD1
  · apply sim_leaves
    refine ⟨by simp, ?_⟩
    intro i hi
    simp [List.getD_eq_getElem?_getD, List.getElem?_replicate, hi]

/-- **the array the coded pass leaves behind holds, in row `2^t − 1 + j`, the box of the sub-tree at depth `t`, position `j`** -/
theorem fillL_holds (d ps : Nat) (rows : List Row) (hps : 1 ≤ ps) :
    ({ D := clog2 (numPages rows.length ps), ps := ps, bt := fun i => (fillL d ps rows).getD i none, rows := rows } : Arr).Holds d := by
  intro t j ht hj
  have hs := sim_fill d ps rows
  have hh := fill_holds d ps rows hps t j ht hj
  have hD : ({ D := clog2 (numPages rows.length ps), ps := ps, bt := fun i => (fillL d ps rows).getD i none, rows := rows } : Arr).D =
      clog2 (numPages rows.length ps) := rfl
  rw [hD] at ht
  have hpt : 2 ^ t ≤ 2 ^ clog2 (numPages rows.length ps) := Nat.pow_le_pow_right (by omega) ht
  have hpt0 := Nat.two_pow_pos t
  have hidx : 2 ^ t - 1 + j < 2 * 2 ^ clog2 (numPages rows.length ps) - 1 := by omega
  show (fillL d ps rows).getD (2 ^ t - 1 + j) none = _
  rw [hs.2 _ hidx]
  exact hh

theorem fillL_length (d ps : Nat) (rows : List Row) : (fillL d ps rows).length = 2 * 2 ^ clog2 (numPages rows.length ps) - 1 :=
  (sim_fill d ps rows).1

end SpVerif.RTreeFill
