import SpVerif.Model.Arrow
/-! C16: facts about views of shared Arrow buffers (core Lean only). -/
namespace SpVerif.Arrow

theorem sl_append {α} (l : List α) (a b c : Nat) (hab : a ≤ b) (hbc : b ≤ c) : sl l a b ++ sl l b c = sl l a c := by
  unfold sl
  have e1 : l.drop b = (l.drop a).drop (b - a) := by rw [List.drop_drop]; congr 1; omega
  have e2 : c - a = (b - a) + (c - b) := by omega
  rw [e1, e2, List.take_add]

theorem sl_self {α} (l : List α) (a : Nat) : sl l a a = [] := by simp [sl]

theorem rng_self (s : Nat) : rng s s = [] := by simp [rng]

theorem rng_succ_left (s e : Nat) (h : s < e) : rng s e = s :: rng (s + 1) e := by
  unfold rng
  have : e - s = (e - (s + 1)) + 1 := by omega
  rw [this, List.range_succ_eq_map]
  simp only [List.map_cons, List.map_map, Nat.zero_add, List.cons.injEq, true_and]
  apply List.map_congr_left
  intro k _
  simp only [Function.comp]; omega

theorem rng_of_ge (s e : Nat) (h : e ≤ s) : rng s e = [] := by
  unfold rng
  have : e - s = 0 := by omega
  rw [this]; rfl

theorem mem_rng {s e k : Nat} : k ∈ rng s e ↔ s ≤ k ∧ k < e := by
  unfold rng
  simp only [List.mem_map, List.mem_range]
  constructor
  · rintro ⟨a, ha, rfl⟩; omega
  · intro h; exact ⟨k - s, by omega, by omega⟩

theorem length_rng (s e : Nat) : (rng s e).length = e - s := by simp [rng]

/-- `g` does not decrease on `[s, e]` -/
def MonoOn (g : Nat → Nat) (s e : Nat) : Prop := ∀ k, s ≤ k → k < e → g k ≤ g (k + 1)

theorem MonoOn.le {g : Nat → Nat} {s e : Nat} (h : MonoOn g s e) : ∀ a b, s ≤ a → a ≤ b → b ≤ e → g a ≤ g b := by
  intro a b hsa hab hbe
  induction b with
  | zero => have : a = 0 := by omega
            subst this; exact Nat.le_refl _
  | succ b ih =>
    by_cases hb : a = b + 1
    · subst hb; exact Nat.le_refl _
    · exact Nat.le_trans (ih (by omega) (by omega)) (h b (by omega) (by omega))

theorem MonoOn.sub {g : Nat → Nat} {s e s' e' : Nat} (h : MonoOn g s e) (hs : s ≤ s') (he : e' ≤ e) : MonoOn g s' e' :=
  fun k h1 h2 => h k (by omega) (by omega)

/-- **telescoping**: consecutive runs of a value buffer delimited by a non-decreasing sequence concatenate to one run -/
theorem telescope {α} (l : List α) (g : Nat → Nat) (s e : Nat) (hse : s ≤ e) (hm : MonoOn g s e) :
    ((rng s e).map (fun k => sl l (g k) (g (k + 1)))).flatten = sl l (g s) (g e) := by
  induction hd : e - s generalizing s with
  | zero =>
    have : s = e := by omega
    subst this
    simp [rng_self, sl_self]
  | succ n ih =>
    have hlt : s < e := by omega
    rw [rng_succ_left s e hlt, List.map_cons, List.flatten_cons,
      ih (s + 1) (by omega) (hm.sub (by omega) (Nat.le_refl _)) (by omega)]
    exact sl_append l _ _ _ (hm s (Nat.le_refl _) hlt) (hm.le (s + 1) e (by omega) (by omega) (Nat.le_refl _))

/-- the values of the children `[s, e)` of a two-level structure are one run of the value buffer -/
theorem flat2 (vals : List Int) (o : List Nat) (s e : Nat) (hse : s ≤ e) (hm : MonoOn (rd o) s e) :
    (elem2 vals o s e).flatten = sl vals (rd o s) (rd o e) := by
  unfold elem2 elem1
  exact telescope vals (rd o) s e hse hm

theorem flat3 (vals : List Int) (o1 o2 : List Nat) (s e : Nat) (hse : s ≤ e) (hm1 : MonoOn (rd o1) s e)
    (hm2 : MonoOn (rd o2) (rd o1 s) (rd o1 e)) :
    ((elem3 vals o1 o2 s e).map List.flatten).flatten = sl vals (rd o2 (rd o1 s)) (rd o2 (rd o1 e)) := by
  unfold elem3
  rw [List.map_map]
  have hcongr : (rng s e).map (List.flatten ∘ fun k => elem2 vals o2 (rd o1 k) (rd o1 (k + 1)))
      = (rng s e).map (fun k => sl vals ((rd o2 ∘ rd o1) k) ((rd o2 ∘ rd o1) (k + 1))) := by
    apply List.map_congr_left
    intro k hk
    obtain ⟨h1, h2⟩ := mem_rng.mp hk
    simp only [Function.comp]
    apply flat2
    · exact hm1 k h1 h2
    · exact hm2.sub (hm1.le s k (Nat.le_refl _) h1 (by omega)) (hm1.le (k + 1) e (by omega) (by omega) (Nat.le_refl _))
  rw [hcongr]
  have hm : MonoOn (rd o2 ∘ rd o1) s e := by
    intro k h1 h2
    simp only [Function.comp]
    exact hm2.le _ _ (hm1.le s k (Nat.le_refl _) h1 (by omega)) (hm1 k h1 h2) (hm1.le (k + 1) e (by omega) (by omega) (Nat.le_refl _))
  exact telescope vals (rd o2 ∘ rd o1) s e hse hm

/-! ### slicing a view -/

theorem range_window {β} (f : Nat → β) (len s n : Nat) (h : s + n ≤ len) :
    (List.range n).map (fun i => f (s + i)) = sl ((List.range len).map f) s (s + n) := by
  unfold sl
  apply List.ext_getElem
  · simp; omega
  · intro i h1 h2
    simp only [List.length_map, List.length_range] at h1
    simp [List.getElem_take, List.getElem_drop]

theorem elems1_slice (v : View) (s n : Nat) (h : s + n ≤ v.len) : elems1 (v.slice s n) = sl (elems1 v) s (s + n) := by
  unfold elems1 View.slice
  match ho : v.offs with
  | [o0] =>
    simp only
    rw [← range_window (fun i => cell1 v.valid v.vals o0 (v.off + i)) v.len s n h]
    apply List.map_congr_left
    intro i _
    simp only [Nat.add_assoc]
  | [] => simp [sl]
  | _ :: _ :: _ => simp [sl]

theorem elems2_slice (v : View) (s n : Nat) (h : s + n ≤ v.len) : elems2 (v.slice s n) = sl (elems2 v) s (s + n) := by
  unfold elems2 View.slice
  match ho : v.offs with
  | [o0, o1] =>
    simp only
    rw [← range_window (fun i => cell2 v.valid v.vals o0 o1 (v.off + i)) v.len s n h]
    apply List.map_congr_left
    intro i _
    simp only [Nat.add_assoc]
  | [] => simp [sl]
  | [_] => simp [sl]
  | _ :: _ :: _ :: _ => simp [sl]

theorem elems3_slice (v : View) (s n : Nat) (h : s + n ≤ v.len) : elems3 (v.slice s n) = sl (elems3 v) s (s + n) := by
  unfold elems3 View.slice
  match ho : v.offs with
  | [o0, o1, o2] =>
    simp only
    rw [← range_window (fun i => cell3 v.valid v.vals o0 o1 o2 (v.off + i)) v.len s n h]
    apply List.map_congr_left
    intro i _
    simp only [Nat.add_assoc]
  | [] => simp [sl]
  | [_] => simp [sl]
  | [_, _] => simp [sl]
  | _ :: _ :: _ :: _ :: _ => simp [sl]


/-! ### the helpers the kernels read -/

theorem rd_sl (o : List Nat) (a n i : Nat) (h : i < n) : rd (sl o a (a + n)) i = rd o (a + i) := by
  unfold rd sl
  have : a + n - a = n := by omega
  rw [this]
  simp only [List.getD_eq_getElem?_getD, List.getElem?_take, h, if_true, List.getElem?_drop]

theorem length_sl {α} (l : List α) (a n : Nat) (h : a + n ≤ l.length) : (sl l a (a + n)).length = n := by
  unfold sl
  simp only [List.length_take, List.length_drop]
  omega

theorem rd_gather (o flat : List Nat) (i : Nat) (h : i < flat.length) : rd (gather o flat) i = rd o (rd flat i) := by
  unfold rd gather
  simp only [List.getD_eq_getElem?_getD, List.getElem?_map, List.getElem?_eq_getElem h, Option.map_some, Option.getD_some, rd]

theorem length_gather (o flat : List Nat) : (gather o flat).length = flat.length := by simp [gather]

theorem rd_foldl_gather (rest : List (List Nat)) (flat : List Nat) (i : Nat) (h : i < flat.length) :
    rd (rest.foldl (fun flat o => gather o flat) flat) i = thru rest (rd flat i) := by
  induction rest generalizing flat with
  | nil => rfl
  | cons o rest ih =>
    simp only [List.foldl_cons, thru]
    rw [ih (gather o flat) (by rw [length_gather]; exact h), rd_gather o flat i h]
    rfl

theorem length_foldl_gather (rest : List (List Nat)) (flat : List Nat) :
    (rest.foldl (fun flat o => gather o flat) flat).length = flat.length := by
  induction rest generalizing flat with
  | nil => rfl
  | cons o rest ih => simp only [List.foldl_cons]; rw [ih, length_gather]

/-- well-formed window: the first offsets buffer holds the `len + 1` entries of the window -/
def View.WF (v : View) : Prop := ∀ o0 ∈ v.offs.head?, v.off + v.len + 1 ≤ o0.length

/-- **`buffer_outer_offsets`**: entry `i` is the position in the value buffer where element `i` of the view starts (and entry
`i+1` where it ends): the first-level offset of the element pushed through all deeper levels -/
theorem outerOffsets_rd (v : View) (o0 : List Nat) (rest : List (List Nat)) (ho : v.offs = o0 :: rest)
    (hwf : v.off + v.len + 1 ≤ o0.length) (i : Nat) (hi : i ≤ v.len) :
    rd (outerOffsets v) i = thru rest (rd o0 (v.off + i)) := by
  unfold outerOffsets bufferOffsets
  rw [ho]
  simp only
  have hl : (sl o0 v.off (v.off + v.len + 1)).length = v.len + 1 := by
    rw [Nat.add_assoc]; exact length_sl o0 v.off (v.len + 1) (by omega)
  rw [rd_foldl_gather rest _ i (by omega)]
  rw [Nat.add_assoc, rd_sl o0 v.off (v.len + 1) i (by omega)]

theorem outerOffsets_length (v : View) (o0 : List Nat) (rest : List (List Nat)) (ho : v.offs = o0 :: rest)
    (hwf : v.off + v.len + 1 ≤ o0.length) : (outerOffsets v).length = v.len + 1 := by
  unfold outerOffsets bufferOffsets
  rw [ho]
  simp only
  rw [length_foldl_gather, Nat.add_assoc]
  exact length_sl o0 v.off (v.len + 1) (by omega)

/-- **`flat_values`** is the run of the value buffer from the start of the first element of the view to the end of its last -/
theorem flatValues_eq (v : View) (o0 : List Nat) (rest : List (List Nat)) (ho : v.offs = o0 :: rest)
    (hwf : v.off + v.len + 1 ≤ o0.length) :
    flatValues v = sl v.vals (thru rest (rd o0 v.off)) (thru rest (rd o0 (v.off + v.len))) := by
  unfold flatValues bufferOffsets
  rw [ho]
  simp only
  have hl : (sl o0 v.off (v.off + v.len + 1)).length = v.len + 1 := by
    rw [Nat.add_assoc]; exact length_sl o0 v.off (v.len + 1) (by omega)
  rw [hl]
  have e1 := rd_sl o0 v.off (v.len + 1) 0 (by omega)
  have e2 := rd_sl o0 v.off (v.len + 1) v.len (by omega)
  rw [← Nat.add_assoc] at e1 e2
  rw [Nat.add_sub_cancel, e1, e2, Nat.add_zero]

/-- **`buffer_inner_offsets`** (depth 2: multiline, polygon): the run of ring offsets belonging to the elements of the view -/
theorem innerOffsets2 (v : View) (o0 o1 : List Nat) (ho : v.offs = [o0, o1]) (hwf : v.off + v.len + 1 ≤ o0.length) :
    innerOffsets v = sl o1 (rd o0 v.off) (rd o0 (v.off + v.len) + 1) := by
  unfold innerOffsets bufferOffsets
  rw [ho]
  simp only [List.getLastD, List.dropLast, List.drop, thru, List.foldl_nil]
  have hl : (sl o0 v.off (v.off + v.len + 1)).length = v.len + 1 := by
    rw [Nat.add_assoc]; exact length_sl o0 v.off (v.len + 1) (by omega)
  have e1 := rd_sl o0 v.off (v.len + 1) 0 (by omega)
  have e2 := rd_sl o0 v.off (v.len + 1) v.len (by omega)
  rw [← Nat.add_assoc] at e1 e2
  simp only [List.getLast?, List.getLast, Option.getD_some, hl, Nat.add_sub_cancel, e1, e2, Nat.add_zero]

/-- depth 3 (multipolygon): the ring offsets of all rings of all parts of the elements of the view -/
theorem innerOffsets3 (v : View) (o0 o1 o2 : List Nat) (ho : v.offs = [o0, o1, o2]) (hwf : v.off + v.len + 1 ≤ o0.length) :
    innerOffsets v = sl o2 (rd o1 (rd o0 v.off)) (rd o1 (rd o0 (v.off + v.len)) + 1) := by
  unfold innerOffsets bufferOffsets
  rw [ho]
  simp only [List.getLastD, List.dropLast, List.drop, thru, List.foldl_cons, List.foldl_nil]
  have hl : (sl o0 v.off (v.off + v.len + 1)).length = v.len + 1 := by
    rw [Nat.add_assoc]; exact length_sl o0 v.off (v.len + 1) (by omega)
  have e1 := rd_sl o0 v.off (v.len + 1) 0 (by omega)
  have e2 := rd_sl o0 v.off (v.len + 1) v.len (by omega)
  rw [← Nat.add_assoc] at e1 e2
  simp only [List.getLast?, List.getLast, Option.getD_some, hl, Nat.add_sub_cancel, e1, e2, Nat.add_zero]

end SpVerif.Arrow
