import SpVerif.Model.Bounds
/-!
# C13: the spatial index's total bounds (after D41) and the root box of the tree

`_build_hilbert_rtree` leaves every row with a NaN entry out of the tree, so the root box is the union of the *fully defined* rows;
`HilbertRtree.total_bounds` as coded (D41) is, per column, the minimum / maximum over the non-NaN entries of *all* rows - per axis the
NaN-ignoring union `Row.union` (both ends of an axis of a bounds row are defined or undefined together).
-/
namespace SpVerif.Bounds

/-- a bounds row without a NaN entry: such rows are the ones the tree holds -/
def Row.defined (r : Row) : Bool := r.x.isSome && r.y.isSome

/-- the root box of the tree: the union of the rows that are in it -/
def rootBox (rows : List Row) : Row := (rows.filter Row.defined).foldl Row.union Row.empty

/-- `HilbertRtree.total_bounds` as coded: NaN-ignoring minimum / maximum per column over all rows -/
def indexTotal (rows : List Row) : Row := rows.foldl Row.union Row.empty

theorem Row.union_empty_right (r : Row) : r.union Row.empty = r := by
  cases r with
  | mk x y =>
    simp only [Row.union, Row.empty]
    congr 1
    · cases x <;> rfl
    · cases y <;> rfl

theorem rootBox_gen (rows : List Row) (h : ∀ r ∈ rows, r.defined = true ∨ r = Row.empty) (acc : Row) :
    (rows.filter Row.defined).foldl Row.union acc = rows.foldl Row.union acc := by
  induction rows generalizing acc with
  | nil => rfl
  | cons r rs ih =>
    have hrs : ∀ r ∈ rs, r.defined = true ∨ r = Row.empty := fun x hx => h x (List.mem_cons_of_mem _ hx)
    cases h r (List.mem_cons_self ..) with
    | inl hd =>
      simp only [List.filter_cons, hd, if_true, List.foldl_cons]
      exact ih hrs _
    | inr he =>
      subst he
      have : Row.defined Row.empty = false := rfl
      simp only [List.filter_cons, this, List.foldl_cons, Row.union_empty_right]
      exact ih hrs _

end SpVerif.Bounds
