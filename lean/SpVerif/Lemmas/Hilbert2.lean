import SpVerif.Model.Hilbert
/-! Helper lemmas for C07 (n = 2). Core Lean only. -/
set_option linter.unusedSimpArgs false
namespace SpVerif.Hilbert

theorem xor_xor_cancel (a b : Nat) : a ^^^ b ^^^ b = a := by
  rw [Nat.xor_assoc, Nat.xor_self, Nat.xor_zero]

theorem testBit_xor_mask (a q : Nat) : (a ^^^ (2 ^ q - 1)).testBit q = a.testBit q := by
  simp [Nat.testBit_xor, Nat.testBit_two_pow_sub_one]

theorem testBit_xor_masked (a b q : Nat) : (a ^^^ (b &&& (2 ^ q - 1))).testBit q = a.testBit q := by
  simp [Nat.testBit_xor, Nat.testBit_and, Nat.testBit_two_pow_sub_one]

/-! ### every elementary step is an involution -/

theorem stepA_invol (q : Nat) (x : W2) : stepA q (stepA q x) = x := by
  obtain ⟨a, b⟩ := x
  unfold stepA
  by_cases hb : b.testBit q
  · simp [hb, xor_xor_cancel]
  · have h2 : (b ^^^ ((a ^^^ b) &&& (2 ^ q - 1))).testBit q = false := by
      rw [testBit_xor_masked]; simpa using hb
    simp only [hb, Bool.false_eq_true, if_false, h2]
    have ht : ((a ^^^ ((a ^^^ b) &&& (2 ^ q - 1))) ^^^ (b ^^^ ((a ^^^ b) &&& (2 ^ q - 1))))
        = a ^^^ b := by
      apply Nat.eq_of_testBit_eq; intro i
      simp only [Nat.testBit_xor, Nat.testBit_and]
      cases a.testBit i <;> cases b.testBit i <;> cases (2 ^ q - 1).testBit i <;> rfl
    rw [ht, xor_xor_cancel, xor_xor_cancel]

theorem stepB_invol (q : Nat) (x : W2) : stepB q (stepB q x) = x := by
  obtain ⟨a, b⟩ := x
  unfold stepB
  by_cases ha : a.testBit q
  · simp [ha, testBit_xor_mask, xor_xor_cancel]
  · simp [ha]

theorem redo_undo (p : Nat) (x : W2) : redoLoop2 p (undoLoop2 p x) = x := by
  induction p using Nat.strongRecOn generalizing x with
  | _ p ih =>
    match p with
    | 0 => rfl
    | 1 => rfl
    | (p+2) =>
      simp only [undoLoop2, redoLoop2, stepB_invol, stepA_invol]
      exact ih (p+1) (by omega) x

theorem undo_redo (p : Nat) (x : W2) : undoLoop2 p (redoLoop2 p x) = x := by
  induction p using Nat.strongRecOn generalizing x with
  | _ p ih =>
    match p with
    | 0 => rfl
    | 1 => rfl
    | (p+2) =>
      simp only [undoLoop2, redoLoop2]
      rw [ih (p+1) (by omega), stepA_invol, stepB_invol]

/-! ### ranges -/

def Bdd (p : Nat) (x : W2) : Prop := x.1 < 2 ^ p ∧ x.2 < 2 ^ p

theorem mask_lt {q p : Nat} (h : q ≤ p) : 2 ^ q - 1 < 2 ^ p := by
  have := Nat.pow_le_pow_right (show 2 > 0 by omega) h
  have := Nat.two_pow_pos q
  omega

theorem stepA_bdd {q p : Nat} (h : q ≤ p) {x : W2} (hx : Bdd p x) : Bdd p (stepA q x) := by
  obtain ⟨a, b⟩ := x
  obtain ⟨ha, hb⟩ := hx
  unfold stepA Bdd
  split
  · exact ⟨Nat.xor_lt_two_pow ha (mask_lt h), hb⟩
  · exact ⟨Nat.xor_lt_two_pow ha (Nat.and_lt_two_pow _ (mask_lt h)),
           Nat.xor_lt_two_pow hb (Nat.and_lt_two_pow _ (mask_lt h))⟩

theorem stepB_bdd {q p : Nat} (h : q ≤ p) {x : W2} (hx : Bdd p x) : Bdd p (stepB q x) := by
  obtain ⟨a, b⟩ := x
  obtain ⟨ha, hb⟩ := hx
  unfold stepB Bdd
  split
  · exact ⟨Nat.xor_lt_two_pow ha (mask_lt h), hb⟩
  · exact ⟨ha, hb⟩

theorem undoLoop2_bdd (k p : Nat) (h : k ≤ p) {x : W2} (hx : Bdd p x) : Bdd p (undoLoop2 k x) := by
  induction k using Nat.strongRecOn generalizing x with
  | _ k ih =>
    match k with
    | 0 => exact hx
    | 1 => exact hx
    | (k+2) =>
      simp only [undoLoop2]
      exact stepB_bdd (by omega) (stepA_bdd (by omega) (ih (k+1) (by omega) (by omega) hx))

theorem redoLoop2_bdd (k p : Nat) (h : k ≤ p) {x : W2} (hx : Bdd p x) : Bdd p (redoLoop2 k x) := by
  induction k using Nat.strongRecOn generalizing x with
  | _ k ih =>
    match k with
    | 0 => exact hx
    | 1 => exact hx
    | (k+2) =>
      simp only [redoLoop2]
      exact ih (k+1) (by omega) (by omega) (stepA_bdd (by omega) (stepB_bdd (by omega) hx))

/-! ### Gray code -/

/-- xor of y's bits k with j < k ≤ q -/
def xorBits (y j : Nat) : Nat → Bool
  | 0 => false
  | (q+1) => (decide (j < q+1) && y.testBit (q+1)) ^^ xorBits y j q

theorem tLoop_testBit (q t y j : Nat) :
    (tLoop q t y).testBit j = (t.testBit j ^^ xorBits y j q) := by
  induction q generalizing t with
  | zero => simp [tLoop, xorBits]
  | succ q ih =>
    simp only [tLoop, xorBits]
    rw [ih]
    by_cases hy : y.testBit (q+1)
    · simp only [hy, if_true, Nat.testBit_xor, Nat.testBit_two_pow_sub_one, Bool.and_true]
      cases t.testBit j <;> cases decide (j < q + 1) <;> cases xorBits y j q <;> rfl
    · simp [hy]

theorem xorBits_ge (y j q : Nat) (h : q ≤ j) : xorBits y j q = false := by
  induction q with
  | zero => rfl
  | succ q ih =>
    have : ¬ j < q + 1 := by omega
    simp [xorBits, this, ih (by omega)]

theorem tLoop_lt (q y : Nat) : tLoop q 0 y < 2 ^ q := by
  apply Nat.lt_pow_two_of_testBit
  intro i hi
  rw [tLoop_testBit, xorBits_ge _ _ _ hi]; simp

/-- telescoping: xor over k in (j, q] of (x_k xor x_{k+1}) -/
theorem xorBits_gray (x j q : Nat) :
    xorBits (x ^^^ (x >>> 1)) j q = (decide (j < q) && (x.testBit (j+1) ^^ x.testBit (q+1))) := by
  induction q with
  | zero => simp [xorBits]
  | succ q ih =>
    simp only [xorBits, ih, Nat.testBit_xor, Nat.testBit_shiftRight]
    by_cases h1 : j < q
    · have h2 : j < q + 1 := by omega
      simp only [h1, h2, decide_true, Bool.true_and]
      rw [show 1 + (q + 1) = q + 1 + 1 by omega]
      cases x.testBit (j+1) <;> cases x.testBit (q+1) <;> cases x.testBit (q+1+1) <;> rfl
    · by_cases h3 : j = q
      · subst h3
        simp only [Nat.lt_irrefl, decide_false, Bool.false_and, Bool.xor_false, Nat.lt_succ_self,
          decide_true, Bool.true_and]
        rw [show 1 + (j + 1) = j + 1 + 1 by omega]
      · have h2 : ¬ j < q + 1 := by omega
        simp [h1, h2]

theorem testBit_ge_of_lt {b p k : Nat} (h : b < 2 ^ p) (hk : p ≤ k) : b.testBit k = false :=
  Nat.testBit_lt_two_pow (Nat.lt_of_lt_of_le h (Nat.pow_le_pow_right (by omega) hk))

theorem grayEncode2_decode (p : Nat) (x : W2) (h : x.2 < 2 ^ p) :
    grayEncode2 p (grayDecode2 x) = x := by
  obtain ⟨a, b⟩ := x
  simp only at h
  unfold grayEncode2 grayDecode2
  simp only
  have hy : (b ^^^ a) ^^^ (a ^^^ b >>> 1) = b ^^^ (b >>> 1) := by
    apply Nat.eq_of_testBit_eq; intro i
    simp only [Nat.testBit_xor]
    cases b.testBit i <;> cases a.testBit i <;> cases (b >>> 1).testBit i <;> rfl
  rw [hy]
  have ht : tLoop (p - 1) 0 (b ^^^ (b >>> 1)) = b >>> 1 := by
    apply Nat.eq_of_testBit_eq; intro j
    rw [tLoop_testBit, xorBits_gray, Nat.zero_testBit, Bool.false_xor, Nat.testBit_shiftRight]
    by_cases hj : j < p - 1
    · have h1 : b.testBit (p - 1 + 1) = false := testBit_ge_of_lt h (by omega)
      have h2 : 1 + j = j + 1 := by omega
      simp [hj, h1, h2]
    · have h1 : b.testBit (1 + j) = false := testBit_ge_of_lt h (by omega)
      simp [hj, h1]
  rw [ht]
  congr 1
  · rw [Nat.xor_assoc, Nat.xor_self, Nat.xor_zero]
  · rw [Nat.xor_assoc, Nat.xor_self, Nat.xor_zero]

/-- suffix recurrence of the accumulated mask: `t_j = y_{j+1} xor t_{j+1}` -/
theorem xorBits_succ (y j q : Nat) :
    xorBits y j q = ((decide (j + 1 ≤ q) && y.testBit (j+1)) ^^ xorBits y (j+1) q) := by
  induction q with
  | zero => simp [xorBits]
  | succ q ih =>
    simp only [xorBits]
    rw [ih]
    by_cases h1 : j + 1 ≤ q
    · have h2 : j < q + 1 := by omega
      have h3 : j + 1 < q + 1 := by omega
      have h4 : j + 1 ≤ q + 1 := by omega
      simp only [h1, h2, h3, h4, decide_true, Bool.true_and]
      cases y.testBit (q+1) <;> cases y.testBit (j+1) <;> cases xorBits y (j+1) q <;> rfl
    · by_cases h5 : j = q
      · subst h5
        have : ¬ (j + 1 < j + 1) := by omega
        have h6 : ¬ (j + 1 ≤ j) := by omega
        simp [this, h6, xorBits_ge y (j+1) j (by omega)]
      · have h2 : ¬ j < q + 1 := by omega
        have h3 : ¬ j + 1 < q + 1 := by omega
        have h4 : ¬ j + 1 ≤ q + 1 := by omega
        simp [h1, h2, h3, h4]

theorem grayDecode2_encode (p : Nat) (x : W2) (h : Bdd p x) :
    grayDecode2 (grayEncode2 p x) = x := by
  obtain ⟨a, b⟩ := x
  obtain ⟨ha, hb⟩ := h
  simp only at ha hb
  unfold grayEncode2 grayDecode2
  simp only
  have hy : (b ^^^ a) < 2 ^ p := Nat.xor_lt_two_pow hb ha
  -- t = (y ^ t) >> 1
  have ht : tLoop (p - 1) 0 (b ^^^ a) = ((b ^^^ a) ^^^ tLoop (p - 1) 0 (b ^^^ a)) >>> 1 := by
    apply Nat.eq_of_testBit_eq; intro j
    rw [Nat.testBit_shiftRight, Nat.testBit_xor, tLoop_testBit, tLoop_testBit, Nat.zero_testBit,
      Nat.zero_testBit, Bool.false_xor, Bool.false_xor, show 1 + j = j + 1 by omega,
      xorBits_succ (b ^^^ a) j (p - 1)]
    by_cases hj : j + 1 ≤ p - 1
    · simp [hj]
    · have : (b ^^^ a).testBit (j+1) = false := testBit_ge_of_lt hy (by omega)
      simp [hj, this]
  congr 1
  · conv => lhs; rw [← ht]
    rw [xor_xor_cancel]
  · apply Nat.eq_of_testBit_eq; intro i
    simp only [Nat.testBit_xor]
    cases b.testBit i <;> cases a.testBit i <;> cases (tLoop (p - 1) 0 (b ^^^ a)).testBit i <;> rfl

theorem grayDecode2_bdd {p : Nat} {x : W2} (h : Bdd p x) : Bdd p (grayDecode2 x) := by
  obtain ⟨a, b⟩ := x
  obtain ⟨ha, hb⟩ := h
  refine ⟨Nat.xor_lt_two_pow ha ?_, Nat.xor_lt_two_pow hb ha⟩
  simp only [Nat.shiftRight_eq_div_pow]
  exact Nat.lt_of_le_of_lt (Nat.div_le_self _ _) hb

theorem grayEncode2_bdd {p : Nat} {x : W2} (h : Bdd p x) : Bdd p (grayEncode2 p x) := by
  obtain ⟨a, b⟩ := x
  obtain ⟨ha, hb⟩ := h
  have ht : tLoop (p - 1) 0 (b ^^^ a) < 2 ^ p :=
    Nat.lt_of_lt_of_le (tLoop_lt _ _) (Nat.pow_le_pow_right (by omega) (by omega))
  exact ⟨Nat.xor_lt_two_pow ha ht, Nat.xor_lt_two_pow (Nat.xor_lt_two_pow hb ha) ht⟩

/-! ### bit transposition -/

theorem four_pow (p : Nat) : 4 ^ (p+1) = 4 * 4 ^ p := by rw [Nat.pow_succ]; omega

theorem transpose2_bdd (p h : Nat) : Bdd p (transpose2 p h) := by
  induction p generalizing h with
  | zero => simp [transpose2, Bdd]
  | succ p ih =>
    have := ih (h / 4)
    simp only [transpose2, Bdd, Nat.pow_succ] at *
    omega

theorem untranspose2_lt (p : Nat) (x : W2) : untranspose2 p x < 4 ^ p := by
  induction p generalizing x with
  | zero => simp [untranspose2]
  | succ p ih =>
    have := ih (x.1 / 2, x.2 / 2)
    simp only [untranspose2, four_pow]
    omega

theorem untranspose2_transpose2 (p h : Nat) (hh : h < 4 ^ p) :
    untranspose2 p (transpose2 p h) = h := by
  induction p generalizing h with
  | zero => simp at hh; simp [untranspose2, hh]
  | succ p ih =>
    have h4 : h / 4 < 4 ^ p := by rw [four_pow] at hh; omega
    have := ih (h / 4) h4
    simp only [transpose2, untranspose2]
    have e1 : (2 * (transpose2 p (h / 4)).1 + h / 2 % 2) / 2 = (transpose2 p (h / 4)).1 := by omega
    have e2 : (2 * (transpose2 p (h / 4)).2 + h % 2) / 2 = (transpose2 p (h / 4)).2 := by omega
    rw [e1, e2, this]
    omega

theorem transpose2_untranspose2 (p : Nat) (x : W2) (hx : Bdd p x) :
    transpose2 p (untranspose2 p x) = x := by
  induction p generalizing x with
  | zero =>
    obtain ⟨a, b⟩ := x
    simp [Bdd] at hx
    simp [transpose2, hx.1, hx.2]
  | succ p ih =>
    obtain ⟨a, b⟩ := x
    obtain ⟨ha, hb⟩ := hx
    simp only [Nat.pow_succ] at ha hb
    have hb' : Bdd p (a / 2, b / 2) := ⟨by simp only; omega, by simp only; omega⟩
    have := ih (a / 2, b / 2) hb'
    simp only [transpose2, untranspose2]
    have e1 : (4 * untranspose2 p (a / 2, b / 2) + 2 * (a % 2) + b % 2) / 4
        = untranspose2 p (a / 2, b / 2) := by omega
    rw [e1, this]
    simp only
    congr 1 <;> omega

end SpVerif.Hilbert
