import SpVerif.Lemmas.Triangle
/-!
# C02: the coded winding number of any ring is the signed number of fan triangles that cover the point

`fan_decomposition` (no hypothesis on the ring or the point): the winding number of the ring `v0, v1, …, vk, v0` is the sum of the
winding numbers of the triangles `v0, vi, vi+1, v0` - the contributions of the diagonals cancel by `edgeContrib_swap`, whatever the
half-open edge rule does with a point on a diagonal.  With the triangle theorems (a degenerate triangle contributes 0 about every point) this gives `signed_cover`: when the point lies on
the boundary of no non-degenerate fan triangle, the winding number is (# counter-clockwise fan triangles strictly containing the
point) − (# clockwise ones): the classical signed covering multiplicity, with no appeal to the Jordan curve theorem.
-/
namespace SpVerif.Geom

/-- sum of the winding numbers of the fan triangles `v0, a, b` over consecutive `a, b` of `l` -/
def fanSum (p v0 : Pt) : List Pt → Int
  | a :: b :: rest => windSum p [v0, a, b, v0] + fanSum p v0 (b :: rest)
  | _ => 0

theorem fan_aux (p v0 : Pt) : ∀ (l : List Pt) (a : Pt),
    fanSum p v0 (a :: l) = windSum p (a :: l) + edgeContrib p v0 a + edgeContrib p (lastPt (a :: l)) v0 := by
  intro l
  induction l with
  | nil =>
    intro a
    have := edgeContrib_swap p v0 a
    simp only [fanSum, windSum, lastPt]
    omega
  | cons b rest ih =>
    intro a
    have h := ih b
    have hs := edgeContrib_swap p v0 b
    have hl : lastPt (a :: b :: rest) = lastPt (b :: rest) := by simp [lastPt]
    rw [hl]
    simp only [fanSum, windSum] at h ⊢
    omega

/-- **fan decomposition** of the winding number of an arbitrary closed ring -/
theorem fan_decomposition (p v0 : Pt) (l : List Pt) (hl : l ≠ []) :
    windSum p (v0 :: l ++ [v0]) = fanSum p v0 l := by
  match l, hl with
  | a :: rest, _ =>
    have h1 := fan_aux p v0 rest a
    have h2 := windSum_append_single p (a :: rest) v0 (by simp)
    have h3 : v0 :: (a :: rest) ++ [v0] = v0 :: ((a :: rest) ++ [v0]) := rfl
    rw [h3]
    have h4 : (a :: rest) ++ [v0] = a :: (rest ++ [v0]) := rfl
    rw [h4] at h2 ⊢
    simp only [windSum]
    rw [h2] at *
    omega

/-- signed cover of `p` by the triangle `a, b, c`: `+1` strictly inside a counter-clockwise one, `-1` strictly inside a clockwise one -/
def triCover (p a b c : Pt) : Int :=
  if 0 < orientI a b p ∧ 0 < orientI b c p ∧ 0 < orientI c a p then 1
  else if orientI a b p < 0 ∧ orientI b c p < 0 ∧ orientI c a p < 0 then -1 else 0

/-- the triangle `a, b, c` is degenerate, or `p` is strictly inside or strictly outside it (not on its boundary) -/
def OffBoundary (p a b c : Pt) : Prop :=
  orientI a b c = 0 ∨
  (0 < orientI a b c ∧ ((0 < orientI a b p ∧ 0 < orientI b c p ∧ 0 < orientI c a p) ∨
                         (orientI a b p < 0 ∨ orientI b c p < 0 ∨ orientI c a p < 0))) ∨
  (orientI a b c < 0 ∧ ((orientI a b p < 0 ∧ orientI b c p < 0 ∧ orientI c a p < 0) ∨
                         (0 < orientI a b p ∨ 0 < orientI b c p ∨ 0 < orientI c a p)))

theorem triangle_cover (p a b c : Pt) (h : OffBoundary p a b c) : windSum p [a, b, c, a] = triCover p a b c := by
  have hs := orient_sum a b c p
  unfold triCover
  rcases h with hA | ⟨hA, hin | hout⟩ | ⟨hA, hin | hout⟩
  · rw [triangle_degenerate a b c p hA]
    have n1 : ¬ (0 < orientI a b p ∧ 0 < orientI b c p ∧ 0 < orientI c a p) := by omega
    have n2 : ¬ (orientI a b p < 0 ∧ orientI b c p < 0 ∧ orientI c a p < 0) := by omega
    rw [if_neg n1, if_neg n2]
  · rw [triangle_ccw_inside a b c p hin.1 hin.2.1 hin.2.2, if_pos hin]
  · rw [triangle_ccw_outside a b c p hA hout]
    have n1 : ¬ (0 < orientI a b p ∧ 0 < orientI b c p ∧ 0 < orientI c a p) := by omega
    have n2 : ¬ (orientI a b p < 0 ∧ orientI b c p < 0 ∧ orientI c a p < 0) := by omega
    rw [if_neg n1, if_neg n2]
  · rw [triangle_cw_inside a b c p hin.1 hin.2.1 hin.2.2]
    have n1 : ¬ (0 < orientI a b p ∧ 0 < orientI b c p ∧ 0 < orientI c a p) := by omega
    rw [if_neg n1, if_pos hin]
  · rw [triangle_cw_outside a b c p hA hout]
    have n1 : ¬ (0 < orientI a b p ∧ 0 < orientI b c p ∧ 0 < orientI c a p) := by omega
    have n2 : ¬ (orientI a b p < 0 ∧ orientI b c p < 0 ∧ orientI c a p < 0) := by omega
    rw [if_neg n1, if_neg n2]

/-- the signed number of fan triangles covering `p` -/
def coverSum (p v0 : Pt) : List Pt → Int
  | a :: b :: rest => triCover p v0 a b + coverSum p v0 (b :: rest)
  | _ => 0

/-- `p` is on the boundary of no non-degenerate fan triangle -/
def FanGeneral (p v0 : Pt) : List Pt → Prop
  | a :: b :: rest => OffBoundary p v0 a b ∧ FanGeneral p v0 (b :: rest)
  | _ => True

theorem fanSum_cover (p v0 : Pt) : ∀ l, FanGeneral p v0 l → fanSum p v0 l = coverSum p v0 l
  | [], _ => rfl
  | [_], _ => rfl
  | a :: b :: rest, h => by
    obtain ⟨h1, h2⟩ := h
    simp only [fanSum, coverSum]
    rw [triangle_cover p v0 a b h1, fanSum_cover p v0 (b :: rest) h2]

/-- **signed cover**: winding number = (# ccw fan triangles strictly containing `p`) − (# cw ones) -/
theorem signed_cover (p v0 : Pt) (l : List Pt) (hl : l ≠ []) (hg : FanGeneral p v0 l) :
    windSum p (v0 :: l ++ [v0]) = coverSum p v0 l := by
  rw [fan_decomposition p v0 l hl, fanSum_cover p v0 l hg]

end SpVerif.Geom
