import SpVerif.Lemmas.SegSeg
import SpVerif.Lemmas.BoxFacts
/-! C01, line-like kinds: `_perform_line_intersect_bounds` is exact for boxes of positive width and height. -/
namespace SpVerif.Geom

/-- a rational point lies in the closed box -/
def InBoxQ (b : Box) (p : ℚ × ℚ) : Prop := (b.x0 : ℚ) ≤ p.1 ∧ p.1 ≤ b.x1 ∧ (b.y0 : ℚ) ≤ p.2 ∧ p.2 ≤ b.y1

/-- `p` lies on the closed segment `u v` -/
def OnSeg (u v : Pt) (p : ℚ × ℚ) : Prop :=
  ∃ t : ℚ, 0 ≤ t ∧ t ≤ 1 ∧ p.1 = u.1 + t * (v.1 - u.1) ∧ p.2 = u.2 + t * (v.2 - u.2)

/-- the closed point set of a line: its vertices and its segments -/
def LinePoint (l : List Pt) (p : ℚ × ℚ) : Prop :=
  (∃ v ∈ l, p = ((v.1 : ℚ), (v.2 : ℚ))) ∨ ∃ s ∈ segs l, OnSeg s.1 s.2 p

theorem mem_segs {l : List Pt} {s : Pt × Pt} (h : s ∈ segs l) : s.1 ∈ l ∧ s.2 ∈ l := by
  match l with
  | [] => simp [segs] at h
  | [a] => simp [segs] at h
  | a :: b :: rest =>
    simp only [segs, List.mem_cons] at h
    rcases h with rfl | h
    · simp
    · have := mem_segs h
      simp only [List.mem_cons] at this ⊢
      exact ⟨Or.inr this.1, Or.inr this.2⟩

/-! ### the exit point of a segment that starts outside a convex polygon given by affine constraints -/

/-- an affine function `t ↦ a + b t` -/
abbrev Aff := ℚ × ℚ
def Aff.at (g : Aff) (t : ℚ) : ℚ := g.1 + g.2 * t

theorem aff_nonneg_between (g : Aff) (t s : ℚ) (ht : 0 ≤ g.at t) (h1 : 0 ≤ g.at 1) (hts : t ≤ s) (hs1 : s ≤ 1) (ht1 : t ≤ 1) :
    0 ≤ g.at s := by
  unfold Aff.at at *
  by_cases hb : 0 ≤ g.2
  · nlinarith
  · push Not at hb
    nlinarith

/-- **exit-point lemma**: constraints all satisfied at `t = 1`, at least one violated at `t = 0` ⇒ there is a parameter in
`(0, 1]` at which all are satisfied and one is tight -/
theorem exit_point (gs : List Aff) (h1 : ∀ g ∈ gs, 0 ≤ g.at 1) (h0 : ∃ g ∈ gs, g.at 0 < 0) :
    ∃ t : ℚ, 0 < t ∧ t ≤ 1 ∧ (∀ g ∈ gs, 0 ≤ g.at t) ∧ ∃ g ∈ gs, g.at t = 0 := by
  -- generalise: process the list keeping a current parameter
  have key : ∀ (gs : List Aff), (∀ g ∈ gs, 0 ≤ g.at 1) →
      ∃ t : ℚ, 0 ≤ t ∧ t ≤ 1 ∧ (∀ g ∈ gs, 0 ≤ g.at t) ∧ ((∀ g ∈ gs, 0 ≤ g.at 0) ∧ t = 0 ∨ (0 < t ∧ ∃ g ∈ gs, g.at t = 0)) := by
    intro gs
    induction gs with
    | nil => intro _; exact ⟨0, le_refl _, by norm_num, by simp, Or.inl ⟨by simp, rfl⟩⟩
    | cons g gs ih =>
      intro hall
      obtain ⟨t, ht0, ht1, hsat, hcase⟩ := ih (fun g' hg' => hall g' (by simp [hg']))
      have hg1 := hall g (by simp)
      by_cases hgt : 0 ≤ g.at t
      · refine ⟨t, ht0, ht1, ?_, ?_⟩
        · intro g' hg'
          simp only [List.mem_cons] at hg'
          rcases hg' with rfl | hg'
          · exact hgt
          · exact hsat g' hg'
        · rcases hcase with ⟨hz, rfl⟩ | ⟨hpos, g', hg', hz⟩
          · left
            refine ⟨?_, rfl⟩
            intro g' hg'
            simp only [List.mem_cons] at hg'
            rcases hg' with rfl | hg'
            · exact hgt
            · exact hz g' hg'
          · right; exact ⟨hpos, g', by simp [hg'], hz⟩
      · push Not at hgt
        -- the root of g in (t, 1]
        have hb : g.2 ≠ 0 := by
          intro hb; unfold Aff.at at hgt hg1; rw [hb] at hgt hg1; linarith
        have hbpos : 0 < g.2 := by
          unfold Aff.at at hgt hg1
          by_contra hc; push Not at hc
          nlinarith
        set r := -g.1 / g.2 with hr
        have hroot : g.at r = 0 := by
          unfold Aff.at; rw [hr]; field_simp; ring
        have htr : t < r := by
          unfold Aff.at at hgt
          rw [hr, lt_div_iff₀ hbpos]; nlinarith
        have hr1 : r ≤ 1 := by
          unfold Aff.at at hg1
          rw [hr, div_le_one hbpos]; nlinarith
        refine ⟨r, by linarith, hr1, ?_, Or.inr ⟨by linarith, g, by simp, hroot⟩⟩
        intro g' hg'
        simp only [List.mem_cons] at hg'
        rcases hg' with rfl | hg'
        · rw [hroot]
        · exact aff_nonneg_between g' t r (hsat g' hg') (hall g' (by simp [hg'])) htr.le hr1 ht1
  obtain ⟨t, ht0, ht1, hsat, hcase⟩ := key gs h1
  rcases hcase with ⟨hz, _⟩ | ⟨hpos, hg⟩
  · obtain ⟨g, hg, hneg⟩ := h0
    have := hz g hg; linarith
  · exact ⟨t, hpos, ht1, hsat, hg⟩

end SpVerif.Geom

namespace SpVerif.Geom

/-- the four edges of a box, as the kernels pass them to `segments_intersect` (top, bottom, left, right) -/
def boxEdges (b : Box) : List (Pt × Pt) :=
  [((b.x0, b.y1), (b.x1, b.y1)), ((b.x0, b.y0), (b.x1, b.y0)), ((b.x0, b.y0), (b.x0, b.y1)), ((b.x1, b.y0), (b.x1, b.y1))]

theorem segBoxEdges_eq (b : Box) (s : Pt × Pt) : segBoxEdges b s = (boxEdges b).any (fun e => segmentsIntersect s.1 s.2 e.1 e.2) := by
  simp [segBoxEdges, boxEdges, List.any_cons, Bool.or_assoc]

/-- **a segment that starts outside the box and reaches a point inside it meets one of the four edges** -/
theorem seg_meets_edge (b : Box) (hx : b.x0 < b.x1) (hy : b.y0 < b.y1) (u v : Pt)
    (hu : ¬ BoxHas b u) (τ : ℚ) (hτ0 : 0 ≤ τ) (hτ1 : τ ≤ 1)
    (hp : InBoxQ b ((u.1 : ℚ) + τ * (v.1 - u.1), (u.2 : ℚ) + τ * (v.2 - u.2))) :
    ∃ e ∈ boxEdges b, SegMeet u v e.1 e.2 := by
  obtain ⟨p1, p2, p3, p4⟩ := hp
  simp only at p1 p2 p3 p4
  have hxq : (b.x0 : ℚ) < b.x1 := by exact_mod_cast hx
  have hyq : (b.y0 : ℚ) < b.y1 := by exact_mod_cast hy
  let g1 : Aff := ((u.1 : ℚ) - b.x0, τ * (v.1 - u.1))
  let g2 : Aff := ((b.x1 : ℚ) - u.1, -(τ * (v.1 - u.1)))
  let g3 : Aff := ((u.2 : ℚ) - b.y0, τ * (v.2 - u.2))
  let g4 : Aff := ((b.y1 : ℚ) - u.2, -(τ * (v.2 - u.2)))
  have h1 : ∀ g ∈ [g1, g2, g3, g4], 0 ≤ g.at 1 := by
    intro g hg
    simp only [List.mem_cons, List.mem_nil_iff, or_false] at hg
    rcases hg with rfl | rfl | rfl | rfl <;> simp only [Aff.at, g1, g2, g3, g4] <;> linarith
  have h0 : ∃ g ∈ [g1, g2, g3, g4], g.at 0 < 0 := by
    simp only [BoxHas, not_and_or, not_le] at hu
    rcases hu with h | h | h | h
    · have hq : (u.1 : ℚ) < b.x0 := by exact_mod_cast h
      refine ⟨g1, by simp, ?_⟩
      simp only [Aff.at, g1]; linarith
    · have hq : (b.x1 : ℚ) < u.1 := by exact_mod_cast h
      refine ⟨g2, by simp, ?_⟩
      simp only [Aff.at, g2]; linarith
    · have hq : (u.2 : ℚ) < b.y0 := by exact_mod_cast h
      refine ⟨g3, by simp, ?_⟩
      simp only [Aff.at, g3]; linarith
    · have hq : (b.y1 : ℚ) < u.2 := by exact_mod_cast h
      refine ⟨g4, by simp, ?_⟩
      simp only [Aff.at, g4]; linarith
  obtain ⟨t, ht0, ht1, hsat, g, hg, hz⟩ := exit_point [g1, g2, g3, g4] h1 h0
  have s1 := hsat g1 (by simp); have s2 := hsat g2 (by simp); have s3 := hsat g3 (by simp); have s4 := hsat g4 (by simp)
  simp only [Aff.at, g1, g2, g3, g4] at s1 s2 s3 s4
  -- the parameter on the whole segment u → v
  have hs0 : 0 ≤ τ * t := mul_nonneg hτ0 ht0.le
  have hs1 : τ * t ≤ 1 := by nlinarith
  simp only [List.mem_cons, List.mem_nil_iff, or_false] at hg
  unfold SegMeet SP.Meet
  rcases hg with rfl | rfl | rfl | rfl
  · -- x = x0: left edge
    simp only [Aff.at, g1] at hz
    refine ⟨((b.x0, b.y0), (b.x0, b.y1)), by simp [boxEdges], τ * t, ((u.2 : ℚ) + τ * t * (v.2 - u.2) - b.y0) / (b.y1 - b.y0), hs0, hs1, ?_, ?_, ?_, ?_⟩
    · apply div_nonneg <;> nlinarith
    · rw [div_le_one (by linarith)]; nlinarith
    · simp only; push_cast; nlinarith
    · simp only; push_cast
      first
        | (rw [div_mul_cancel₀ _ (by linarith : (b.y1 : ℚ) - b.y0 ≠ 0)]; ring)
        | (rw [div_mul_cancel₀ _ (by linarith : (b.x1 : ℚ) - b.x0 ≠ 0)]; ring)
  · -- x = x1: right edge
    simp only [Aff.at, g2] at hz
    refine ⟨((b.x1, b.y0), (b.x1, b.y1)), by simp [boxEdges], τ * t, ((u.2 : ℚ) + τ * t * (v.2 - u.2) - b.y0) / (b.y1 - b.y0), hs0, hs1, ?_, ?_, ?_, ?_⟩
    · apply div_nonneg <;> nlinarith
    · rw [div_le_one (by linarith)]; nlinarith
    · simp only; push_cast; nlinarith
    · simp only; push_cast
      first
        | (rw [div_mul_cancel₀ _ (by linarith : (b.y1 : ℚ) - b.y0 ≠ 0)]; ring)
        | (rw [div_mul_cancel₀ _ (by linarith : (b.x1 : ℚ) - b.x0 ≠ 0)]; ring)
  · -- y = y0: bottom edge
    simp only [Aff.at, g3] at hz
    refine ⟨((b.x0, b.y0), (b.x1, b.y0)), by simp [boxEdges], τ * t, ((u.1 : ℚ) + τ * t * (v.1 - u.1) - b.x0) / (b.x1 - b.x0), hs0, hs1, ?_, ?_, ?_, ?_⟩
    · apply div_nonneg <;> nlinarith
    · rw [div_le_one (by linarith)]; nlinarith
    · simp only; push_cast
      first
        | (rw [div_mul_cancel₀ _ (by linarith : (b.y1 : ℚ) - b.y0 ≠ 0)]; ring)
        | (rw [div_mul_cancel₀ _ (by linarith : (b.x1 : ℚ) - b.x0 ≠ 0)]; ring)
    · simp only; push_cast; nlinarith
  · -- y = y1: top edge
    simp only [Aff.at, g4] at hz
    refine ⟨((b.x0, b.y1), (b.x1, b.y1)), by simp [boxEdges], τ * t, ((u.1 : ℚ) + τ * t * (v.1 - u.1) - b.x0) / (b.x1 - b.x0), hs0, hs1, ?_, ?_, ?_, ?_⟩
    · apply div_nonneg <;> nlinarith
    · rw [div_le_one (by linarith)]; nlinarith
    · simp only; push_cast
      first
        | (rw [div_mul_cancel₀ _ (by linarith : (b.y1 : ℚ) - b.y0 ≠ 0)]; ring)
        | (rw [div_mul_cancel₀ _ (by linarith : (b.x1 : ℚ) - b.x0 ≠ 0)]; ring)
    · simp only; push_cast; nlinarith

end SpVerif.Geom

namespace SpVerif.Geom

theorem inBoxQ_of_has {b : Box} {v : Pt} (h : BoxHas b v) : InBoxQ b ((v.1 : ℚ), (v.2 : ℚ)) := by
  obtain ⟨h1, h2, h3, h4⟩ := h
  unfold InBoxQ
  simp only [Int.cast_le]
  exact ⟨h1, h2, h3, h4⟩

theorem has_of_inBoxQ {b : Box} {v : Pt} (h : InBoxQ b ((v.1 : ℚ), (v.2 : ℚ))) : BoxHas b v := by
  unfold InBoxQ at h
  simp only [Int.cast_le] at h
  exact h

/-- a point of the closed segment `u v` lies in every box that holds `u` and `v` -/
theorem onSeg_in_box {bb : Box} {u v : Pt} (hu : BoxHas bb u) (hv : BoxHas bb v) {p : ℚ × ℚ} (hp : OnSeg u v p) : InBoxQ bb p := by
  obtain ⟨t, t0, t1, e1, e2⟩ := hp
  obtain ⟨a1, a2, a3, a4⟩ := inBoxQ_of_has hu
  obtain ⟨b1, b2, b3, b4⟩ := inBoxQ_of_has hv
  simp only at a1 a2 a3 a4 b1 b2 b3 b4
  refine ⟨?_, ?_, ?_, ?_⟩ <;> simp only [e1, e2] <;> nlinarith

theorem linePoint_in_bbox {l : List Pt} {bb : Box} (hbb : bboxOf l = some bb) {p : ℚ × ℚ} (hp : LinePoint l p) : InBoxQ bb p := by
  rcases hp with ⟨v, hv, rfl⟩ | ⟨s, hs, hon⟩
  · exact inBoxQ_of_has (bboxOf_has l bb hbb v hv)
  · obtain ⟨m1, m2⟩ := mem_segs hs
    exact onSeg_in_box (bboxOf_has l bb hbb _ m1) (bboxOf_has l bb hbb _ m2) hon

/-- a zero-length segment is reported to intersect a proper segment only at one of its end points -/
theorem segmentsIntersect_zero_left (a b0 b1 : Pt) (hb : b0 ≠ b1) (h : segmentsIntersect a a b0 b1 = true) : a = b0 ∨ a = b1 := by
  unfold segmentsIntersect at h
  have hbz : (b0 == b1) = false := by simpa using hb
  simp only [beq_self_eq_true, hbz, Bool.not_false, Bool.and_true, Bool.true_and, Bool.false_and, Bool.true_or,
    Bool.false_eq_true, if_false, if_true] at h
  split at h
  · cases h
  · split at h
    · cases h
    · split at h
      · next hc => simpa using hc
      · cases h

theorem edge_in_box {b : Box} (hx : b.x0 ≤ b.x1) (hy : b.y0 ≤ b.y1) {e : Pt × Pt} (he : e ∈ boxEdges b) : BoxHas b e.1 ∧ BoxHas b e.2 ∧ e.1 ≠ e.2 ∨
    BoxHas b e.1 ∧ BoxHas b e.2 := by
  right
  simp only [boxEdges, List.mem_cons, List.mem_nil_iff, or_false] at he
  rcases he with rfl | rfl | rfl | rfl <;> simp only [BoxHas] <;> omega

theorem edge_ne {b : Box} (hx : b.x0 < b.x1) (hy : b.y0 < b.y1) {e : Pt × Pt} (he : e ∈ boxEdges b) : e.1 ≠ e.2 := by
  simp only [boxEdges, List.mem_cons, List.mem_nil_iff, or_false] at he
  rcases he with rfl | rfl | rfl | rfl <;> simp only [ne_eq, Prod.mk.injEq, not_and] <;> omega

/-- **`_perform_line_intersect_bounds` is exact**: for a box of positive width and height the kernel answers True exactly
when the closed point set of the line (vertices and segments) shares a point with the closed box -/
theorem lineIBcore_iff (b : Box) (hx : b.x0 < b.x1) (hy : b.y0 < b.y1) (l : List Pt) :
    lineIBcore b l = true ↔ ∃ p, LinePoint l p ∧ InBoxQ b p := by
  have hxq : (b.x0 : ℚ) < b.x1 := by exact_mod_cast hx
  have hyq : (b.y0 : ℚ) < b.y1 := by exact_mod_cast hy
  constructor
  · -- the kernel says True: exhibit a common point
    intro h
    unfold lineIBcore at h
    cases hbb : bboxOf l with
    | none => rw [hbb] at h; cases h
    | some bb =>
      rw [hbb] at h
      simp only at h
      cases hout : bboxOutside bb b with
      | true => simp [hout] at h
      | false =>
        simp only [hout, Bool.false_eq_true, if_false] at h
        simp only [bboxOutside, Bool.or_eq_false_iff, decide_eq_false_iff_not] at hout
        by_cases hv : l.any (inBox b) = true
        · simp only [List.any_eq_true] at hv
          obtain ⟨v, hvl, hvb⟩ := hv
          exact ⟨_, Or.inl ⟨v, hvl, rfl⟩, inBoxQ_of_has ((inBox_iff b v).mp hvb)⟩
        · have hnov : ∀ v ∈ l, ¬ BoxHas b v := by
            intro v hvl hb
            exact hv (List.any_eq_true.mpr ⟨v, hvl, (inBox_iff b v).mpr hb⟩)
          cases hproj : bboxProjInside bb b with
          | true =>
            -- projection shortcut: discrete intermediate value along the free axis
            obtain ⟨⟨vx0, mx0, ex0⟩, ⟨vy0, my0, ey0⟩, ⟨vx1, mx1, ex1⟩, ⟨vy1, my1, ey1⟩⟩ := bboxOf_attains l bb hbb
            have hall := bboxOf_has l bb hbb
            simp only [bboxProjInside, Bool.or_eq_true, Bool.and_eq_true, decide_eq_true_eq] at hproj
            rcases hproj with ⟨px0, px1⟩ | ⟨py0, py1⟩
            · -- all x inside [b.x0, b.x1]; vertices are below b.y0 or above b.y1
              have hbelow : ∃ v ∈ l, v.2 < b.y0 := by
                refine ⟨vy0, my0, ?_⟩
                by_contra hc
                have := hall vy0 my0
                exact hnov vy0 my0 ⟨by have := this.1; omega, by have := this.2.1; omega, by omega, by omega⟩
              have habove : ∃ v ∈ l, ¬ v.2 < b.y0 := by
                refine ⟨vy1, my1, ?_⟩
                intro hc; omega
              obtain ⟨s, hs, hch⟩ := exists_seg_change (fun v => v.2 < b.y0) l hbelow habove
              obtain ⟨m1, m2⟩ := mem_segs hs
              have a1 := hall _ m1; have a2 := hall _ m2
              -- the end point not below is above b.y1 (no vertex in the box), so the segment crosses y = b.y0
              have cross : ∀ (u w : Pt), u ∈ l → w ∈ l → u.2 < b.y0 → ¬ w.2 < b.y0 → ∃ p, OnSeg u w p ∧ InBoxQ b p := by
                intro u w hu hw hlow hhigh
                have bu := hall u hu; have bw := hall w hw
                have hwy : b.y1 < w.2 := by
                  by_contra hc
                  exact hnov w hw ⟨by have := bw.1; omega, by have := bw.2.1; omega, by omega, by omega⟩
                have hlq : (u.2 : ℚ) < b.y0 := by exact_mod_cast hlow
                have hwq : (b.y1 : ℚ) < w.2 := by exact_mod_cast hwy
                have hden : (0 : ℚ) < (w.2 : ℚ) - u.2 := by linarith
                refine ⟨((u.1 : ℚ) + ((b.y0 : ℚ) - u.2) / ((w.2 : ℚ) - u.2) * ((w.1 : ℚ) - u.1),
                         (u.2 : ℚ) + ((b.y0 : ℚ) - u.2) / ((w.2 : ℚ) - u.2) * ((w.2 : ℚ) - u.2)),
                        ⟨((b.y0 : ℚ) - u.2) / ((w.2 : ℚ) - u.2), div_nonneg (by linarith) hden.le, by rw [div_le_one hden]; linarith, rfl, rfl⟩, ?_⟩
                have hu1 : (b.x0 : ℚ) ≤ u.1 := by exact_mod_cast (show b.x0 ≤ u.1 by have := bu.1; omega)
                have hu2 : (u.1 : ℚ) ≤ b.x1 := by exact_mod_cast (show u.1 ≤ b.x1 by have := bu.2.1; omega)
                have hw1 : (b.x0 : ℚ) ≤ w.1 := by exact_mod_cast (show b.x0 ≤ w.1 by have := bw.1; omega)
                have hw2 : (w.1 : ℚ) ≤ b.x1 := by exact_mod_cast (show w.1 ≤ b.x1 by have := bw.2.1; omega)
                set t := ((b.y0 : ℚ) - u.2) / ((w.2 : ℚ) - u.2) with ht
                have t0 : 0 ≤ t := div_nonneg (by linarith) hden.le
                have t1 : t ≤ 1 := by rw [ht, div_le_one hden]; linarith
                have hy0 : (u.2 : ℚ) + t * ((w.2 : ℚ) - u.2) = b.y0 := by rw [ht, div_mul_cancel₀ _ (ne_of_gt hden)]; ring
                refine ⟨?_, ?_, ?_, ?_⟩ <;> simp only
                · nlinarith
                · nlinarith
                · rw [hy0]
                · rw [hy0]; linarith
              rcases hch with ⟨hl, hh⟩ | ⟨hh, hl⟩
              · obtain ⟨p, hon, hin⟩ := cross s.1 s.2 m1 m2 hl hh
                exact ⟨p, Or.inr ⟨s, hs, hon⟩, hin⟩
              · obtain ⟨p, ⟨t, t0, t1, e1, e2⟩, hin⟩ := cross s.2 s.1 m2 m1 hl hh
                refine ⟨p, Or.inr ⟨s, hs, 1 - t, by linarith, by linarith, ?_, ?_⟩, hin⟩
                · rw [e1]; ring
                · rw [e2]; ring
            · -- symmetric: all y inside [b.y0, b.y1]
              have hbelow : ∃ v ∈ l, v.1 < b.x0 := by
                refine ⟨vx0, mx0, ?_⟩
                by_contra hc
                have := hall vx0 mx0
                exact hnov vx0 mx0 ⟨by omega, by omega, by have := this.2.2.1; omega, by have := this.2.2.2; omega⟩
              have habove : ∃ v ∈ l, ¬ v.1 < b.x0 := by
                refine ⟨vx1, mx1, ?_⟩
                intro hc; omega
              obtain ⟨s, hs, hch⟩ := exists_seg_change (fun v => v.1 < b.x0) l hbelow habove
              obtain ⟨m1, m2⟩ := mem_segs hs
              have cross : ∀ (u w : Pt), u ∈ l → w ∈ l → u.1 < b.x0 → ¬ w.1 < b.x0 → ∃ p, OnSeg u w p ∧ InBoxQ b p := by
                intro u w hu hw hlow hhigh
                have bu := hall u hu; have bw := hall w hw
                have hwx : b.x1 < w.1 := by
                  by_contra hc
                  exact hnov w hw ⟨by omega, by omega, by have := bw.2.2.1; omega, by have := bw.2.2.2; omega⟩
                have hlq : (u.1 : ℚ) < b.x0 := by exact_mod_cast hlow
                have hwq : (b.x1 : ℚ) < w.1 := by exact_mod_cast hwx
                have hden : (0 : ℚ) < (w.1 : ℚ) - u.1 := by linarith
                refine ⟨((u.1 : ℚ) + ((b.x0 : ℚ) - u.1) / ((w.1 : ℚ) - u.1) * ((w.1 : ℚ) - u.1),
                         (u.2 : ℚ) + ((b.x0 : ℚ) - u.1) / ((w.1 : ℚ) - u.1) * ((w.2 : ℚ) - u.2)),
                        ⟨((b.x0 : ℚ) - u.1) / ((w.1 : ℚ) - u.1), div_nonneg (by linarith) hden.le, by rw [div_le_one hden]; linarith, rfl, rfl⟩, ?_⟩
                have hu1 : (b.y0 : ℚ) ≤ u.2 := by exact_mod_cast (show b.y0 ≤ u.2 by have := bu.2.2.1; omega)
                have hu2 : (u.2 : ℚ) ≤ b.y1 := by exact_mod_cast (show u.2 ≤ b.y1 by have := bu.2.2.2; omega)
                have hw1 : (b.y0 : ℚ) ≤ w.2 := by exact_mod_cast (show b.y0 ≤ w.2 by have := bw.2.2.1; omega)
                have hw2 : (w.2 : ℚ) ≤ b.y1 := by exact_mod_cast (show w.2 ≤ b.y1 by have := bw.2.2.2; omega)
                set t := ((b.x0 : ℚ) - u.1) / ((w.1 : ℚ) - u.1) with ht
                have t0 : 0 ≤ t := div_nonneg (by linarith) hden.le
                have t1 : t ≤ 1 := by rw [ht, div_le_one hden]; linarith
                have hx0 : (u.1 : ℚ) + t * ((w.1 : ℚ) - u.1) = b.x0 := by rw [ht, div_mul_cancel₀ _ (ne_of_gt hden)]; ring
                refine ⟨?_, ?_, ?_, ?_⟩ <;> simp only
                · rw [hx0]
                · rw [hx0]; linarith
                · nlinarith
                · nlinarith
              rcases hch with ⟨hl, hh⟩ | ⟨hh, hl⟩
              · obtain ⟨p, hon, hin⟩ := cross s.1 s.2 m1 m2 hl hh
                exact ⟨p, Or.inr ⟨s, hs, hon⟩, hin⟩
              · obtain ⟨p, ⟨t, t0, t1, e1, e2⟩, hin⟩ := cross s.2 s.1 m2 m1 hl hh
                refine ⟨p, Or.inr ⟨s, hs, 1 - t, by linarith, by linarith, ?_, ?_⟩, hin⟩
                · rw [e1]; ring
                · rw [e2]; ring
          | false =>
            simp only [hproj, Bool.false_eq_true, if_false] at h
            have hv' : l.any (inBox b) = false := by simpa using hv
            simp only [hv', Bool.false_eq_true, if_false, List.any_eq_true] at h
            obtain ⟨s, hs, hedge⟩ := h
            rw [segBoxEdges_eq, List.any_eq_true] at hedge
            obtain ⟨e, he, hint⟩ := hedge
            have hene := edge_ne hx hy he
            obtain ⟨m1, m2⟩ := mem_segs hs
            have hebox : BoxHas b e.1 ∧ BoxHas b e.2 := by
              rcases edge_in_box (by omega) (by omega) he with h' | h'
              · exact ⟨h'.1, h'.2.1⟩
              · exact h'
            by_cases hdeg : s.1 = s.2
            · -- zero-length segment: it is one of the edge's end points, a vertex in the box (impossible here)
              rw [hdeg] at hint
              rcases segmentsIntersect_zero_left s.2 e.1 e.2 hene hint with hc | hc
              · exact absurd (hc ▸ hebox.1) (hnov s.2 m2)
              · exact absurd (hc ▸ hebox.2) (hnov s.2 m2)
            · obtain ⟨sp, tp, s0, s1, t0, t1, ex, ey⟩ := (segmentsIntersect_iff s.1 s.2 e.1 e.2 hdeg hene).mp hint
              refine ⟨((s.1.1 : ℚ) + sp * (s.2.1 - s.1.1), (s.1.2 : ℚ) + sp * (s.2.2 - s.1.2)), Or.inr ⟨s, hs, sp, s0, s1, rfl, rfl⟩, ?_⟩
              have : OnSeg e.1 e.2 ((s.1.1 : ℚ) + sp * (s.2.1 - s.1.1), (s.1.2 : ℚ) + sp * (s.2.2 - s.1.2)) :=
                ⟨tp, t0, t1, ex, ey⟩
              exact onSeg_in_box hebox.1 hebox.2 this
  · -- a common point exists: the kernel says True
    rintro ⟨p, hlp, hpb⟩
    have hne : l ≠ [] := by
      rintro rfl
      rcases hlp with ⟨v, hv, _⟩ | ⟨s, hs, _⟩
      · cases hv
      · simp [segs] at hs
    cases hbb : bboxOf l with
    | none => exact absurd ((bboxOf_none_iff l).mp hbb) hne
    | some bb =>
      have hpbb := linePoint_in_bbox hbb hlp
      unfold lineIBcore
      rw [hbb]
      simp only
      have hout : bboxOutside bb b = false := by
        simp only [bboxOutside, Bool.or_eq_false_iff, decide_eq_false_iff_not]
        obtain ⟨q1, q2, q3, q4⟩ := hpbb
        obtain ⟨r1, r2, r3, r4⟩ := hpb
        refine ⟨⟨⟨?_, ?_⟩, ?_⟩, ?_⟩
        · intro hc; have : (b.x1 : ℚ) < bb.x0 := by exact_mod_cast hc
          linarith
        · intro hc; have : (b.y1 : ℚ) < bb.y0 := by exact_mod_cast hc
          linarith
        · intro hc; have : (bb.x1 : ℚ) < b.x0 := by exact_mod_cast hc
          linarith
        · intro hc; have : (bb.y1 : ℚ) < b.y0 := by exact_mod_cast hc
          linarith
      simp only [hout, Bool.false_eq_true, if_false]
      cases hproj : bboxProjInside bb b with
      | true => simp
      | false =>
        simp only [Bool.false_eq_true, if_false]
        cases hv : l.any (inBox b) with
        | true => simp
        | false =>
          simp only [Bool.false_eq_true, if_false, List.any_eq_true]
          have hnov : ∀ v ∈ l, ¬ BoxHas b v := by
            intro v hvl hb
            have : l.any (inBox b) = true := List.any_eq_true.mpr ⟨v, hvl, (inBox_iff b v).mpr hb⟩
            rw [hv] at this; cases this
          rcases hlp with ⟨v, hvl, rfl⟩ | ⟨s, hs, t, t0, t1, e1, e2⟩
          · exact absurd (has_of_inBoxQ hpb) (hnov v hvl)
          · obtain ⟨m1, m2⟩ := mem_segs hs
            have hp' : InBoxQ b ((s.1.1 : ℚ) + t * (s.2.1 - s.1.1), (s.1.2 : ℚ) + t * (s.2.2 - s.1.2)) := by
              obtain ⟨r1, r2, r3, r4⟩ := hpb
              exact ⟨by rw [← e1]; exact r1, by rw [← e1]; exact r2, by rw [← e2]; exact r3, by rw [← e2]; exact r4⟩
            obtain ⟨e, he, hmeet⟩ := seg_meets_edge b hx hy s.1 s.2 (hnov s.1 m1) t t0 t1 hp'
            have hdeg : s.1 ≠ s.2 := by
              intro hc
              apply hnov s.1 m1
              apply has_of_inBoxQ
              have : ((s.1.1 : ℚ), (s.1.2 : ℚ)) = ((s.1.1 : ℚ) + t * (s.2.1 - s.1.1), (s.1.2 : ℚ) + t * (s.2.2 - s.1.2)) := by
                rw [← hc]; simp
              rw [this]; exact hp'
            refine ⟨s, hs, ?_⟩
            rw [segBoxEdges_eq, List.any_eq_true]
            exact ⟨e, he, (segmentsIntersect_iff s.1 s.2 e.1 e.2 hdeg (edge_ne hx hy he)).mpr hmeet⟩

end SpVerif.Geom
