import SpVerif.Lemmas.Hilbert2
/-! C07, every dimension `n`: the "undo excess work" loops of `hilbert_curve.py` are inverse to each other. Core Lean only. -/
set_option linter.unusedSimpArgs false
namespace SpVerif.Hilbert

theorem getD_set_self (X : List Nat) (i v : Nat) (h : i < X.length) : (X.set i v).getD i 0 = v := by
  simp [List.getD_eq_getElem?_getD, List.getElem?_set, h]

theorem getD_set_ne (X : List Nat) (i j v : Nat) (h : i ≠ j) : (X.set i v).getD j 0 = X.getD j 0 := by
  simp [List.getD_eq_getElem?_getD, List.getElem?_set, h]

theorem set_getD_self (X : List Nat) (i : Nat) : X.set i (X.getD i 0) = X := by
  apply List.ext_getElem?
  intro k
  by_cases hk : i = k
  · subst hk
    by_cases hl : i < X.length
    · simp [List.getElem?_set, hl, List.getD_eq_getElem?_getD, List.getElem?_eq_getElem hl]
    · simp [List.getElem?_set, hl, List.getElem?_eq_none (Nat.le_of_not_lt hl)]
  · simp [List.getElem?_set, hk]

theorem xor_masked_pair (a b q : Nat) :
    ((a ^^^ ((a ^^^ b) &&& (2 ^ q - 1))) ^^^ (b ^^^ ((a ^^^ b) &&& (2 ^ q - 1)))) = a ^^^ b := by
  apply Nat.eq_of_testBit_eq; intro i
  simp only [Nat.testBit_xor, Nat.testBit_and]
  cases a.testBit i <;> cases b.testBit i <;> cases (2 ^ q - 1).testBit i <;> rfl

/-- **every elementary step is an involution**, for every word index `i` of a list of any length -/
theorem step_invol (q i : Nat) (X : List Nat) (h0 : 0 < X.length) (hi : i < X.length) : step q i (step q i X) = X := by
  by_cases hb : (X.getD i 0).testBit q = true
  · -- invert the low bits of X[0]; bit q of X[i] is unchanged (also when i = 0)
    have e1 : step q i X = X.set 0 (X.getD 0 0 ^^^ (2 ^ q - 1)) := by simp only [step, hb, if_true]
    have hb' : ((X.set 0 (X.getD 0 0 ^^^ (2 ^ q - 1))).getD i 0).testBit q = true := by
      by_cases hi0 : i = 0
      · subst hi0
        rw [getD_set_self X 0 _ h0, testBit_xor_mask]; exact hb
      · rw [getD_set_ne X 0 i _ (Ne.symm hi0)]; exact hb
    rw [e1]
    have e2 : step q i (X.set 0 (X.getD 0 0 ^^^ (2 ^ q - 1)))
        = (X.set 0 (X.getD 0 0 ^^^ (2 ^ q - 1))).set 0 ((X.set 0 (X.getD 0 0 ^^^ (2 ^ q - 1))).getD 0 0 ^^^ (2 ^ q - 1)) := by
      simp only [step, hb', if_true]
    rw [e2, getD_set_self X 0 _ h0, xor_xor_cancel, List.set_set, set_getD_self]
  · have hbf : (X.getD i 0).testBit q = false := by simpa using hb
    by_cases hi0 : i = 0
    · -- i = 0: t = 0, nothing changes
      subst hi0
      have : step q 0 X = X := by
        simp only [step, hbf, Bool.false_eq_true, if_false, Nat.xor_self, Nat.zero_and, Nat.xor_zero]
        rw [set_getD_self, set_getD_self]
      rw [this, this]
    · -- exchange the low bits of X[0] and X[i]
      let t := (X.getD 0 0 ^^^ X.getD i 0) &&& (2 ^ q - 1)
      have e1 : step q i X = (X.set 0 (X.getD 0 0 ^^^ t)).set i (X.getD i 0 ^^^ t) := by
        simp only [step, hbf, Bool.false_eq_true, if_false]
        rw [getD_set_ne X 0 i _ (Ne.symm hi0)]
      have l1 : (X.set 0 (X.getD 0 0 ^^^ t)).length = X.length := by simp
      have g0 : ((X.set 0 (X.getD 0 0 ^^^ t)).set i (X.getD i 0 ^^^ t)).getD 0 0 = X.getD 0 0 ^^^ t := by
        rw [getD_set_ne _ i 0 _ hi0, getD_set_self X 0 _ h0]
      have gi : ((X.set 0 (X.getD 0 0 ^^^ t)).set i (X.getD i 0 ^^^ t)).getD i 0 = X.getD i 0 ^^^ t := by
        rw [getD_set_self _ i _ (by rw [l1]; exact hi)]
      have hb2 : (X.getD i 0 ^^^ t).testBit q = false := by
        show (X.getD i 0 ^^^ ((X.getD 0 0 ^^^ X.getD i 0) &&& (2 ^ q - 1))).testBit q = false
        rw [testBit_xor_masked]; exact hbf
      have ht : ((X.getD 0 0 ^^^ t) ^^^ (X.getD i 0 ^^^ t)) &&& (2 ^ q - 1) = t := by
        show ((X.getD 0 0 ^^^ ((X.getD 0 0 ^^^ X.getD i 0) &&& (2 ^ q - 1))) ^^^
              (X.getD i 0 ^^^ ((X.getD 0 0 ^^^ X.getD i 0) &&& (2 ^ q - 1)))) &&& (2 ^ q - 1) = _
        rw [xor_masked_pair]
      rw [e1]
      have key : ∀ Y : List Nat, Y = (X.set 0 (X.getD 0 0 ^^^ t)).set i (X.getD i 0 ^^^ t) → step q i Y = X := by
        intro Y hY
        have g0' : Y.getD 0 0 = X.getD 0 0 ^^^ t := by rw [hY]; exact g0
        have gi' : Y.getD i 0 = X.getD i 0 ^^^ t := by rw [hY]; exact gi
        have e2 : step q i Y = (Y.set 0 (Y.getD 0 0 ^^^ t)).set i (Y.getD i 0 ^^^ t) := by
          simp only [step, gi', hb2, Bool.false_eq_true, if_false, g0', ht]
          rw [getD_set_ne Y 0 i _ (Ne.symm hi0), gi']
        rw [e2, g0', gi', xor_xor_cancel, xor_xor_cancel]
        -- undo the two sets
        apply List.ext_getElem?
        intro k
        simp only [hY, List.getElem?_set, List.length_set]
        by_cases hk0 : 0 = k
        · subst hk0
          simp [hi0, h0, List.getD_eq_getElem?_getD, List.getElem?_eq_getElem h0]
        · by_cases hki : i = k
          · subst hki
            simp [hk0, hi, List.getD_eq_getElem?_getD, List.getElem?_eq_getElem hi]
          · simp [hk0, hki]
      exact key _ rfl

theorem length_step (q i : Nat) (X : List Nat) : (step q i X).length = X.length := by
  unfold step; split <;> simp

theorem length_foldl_step (q : Nat) (is : List Nat) (X : List Nat) : (is.foldl (fun Z i => step q i Z) X).length = X.length := by
  induction is generalizing X with
  | nil => rfl
  | cons i rest ih => simp only [List.foldl_cons]; rw [ih, length_step]

/-- running a sequence of steps and then the same steps in reverse order restores the words -/
theorem foldl_step_cancel (q : Nat) (is : List Nat) (X : List Nat) (h0 : 0 < X.length) (his : ∀ i ∈ is, i < X.length) :
    is.foldl (fun Z i => step q i Z) (is.reverse.foldl (fun Z i => step q i Z) X) = X := by
  induction is generalizing X with
  | nil => rfl
  | cons i rest ih =>
    rw [List.reverse_cons, List.foldl_append]
    simp only [List.foldl_cons, List.foldl_nil]
    have hl : (rest.reverse.foldl (fun Z i => step q i Z) X).length = X.length := length_foldl_step q _ X
    rw [step_invol q i _ (by rw [hl]; exact h0) (by rw [hl]; exact his i (by simp))]
    exact ih X h0 (fun j hj => his j (by simp [hj]))

theorem foldl_step_cancel' (q : Nat) (is : List Nat) (X : List Nat) (h0 : 0 < X.length) (his : ∀ i ∈ is, i < X.length) :
    is.reverse.foldl (fun Z i => step q i Z) (is.foldl (fun Z i => step q i Z) X) = X := by
  have := foldl_step_cancel q is.reverse X h0 (fun i hi => his i (List.mem_reverse.mp hi))
  rwa [List.reverse_reverse] at this

theorem length_undoLoopN (n p : Nat) (X : List Nat) : (undoLoopN n p X).length = X.length := by
  induction p using Nat.strongRecOn generalizing X with
  | _ p ih =>
    match p with
    | 0 => rfl
    | 1 => rfl
    | (p+2) =>
      simp only [undoLoopN]
      rw [length_foldl_step, ih (p+1) (by omega)]

theorem length_redoLoopN (n p : Nat) (X : List Nat) : (redoLoopN n p X).length = X.length := by
  induction p using Nat.strongRecOn generalizing X with
  | _ p ih =>
    match p with
    | 0 => rfl
    | 1 => rfl
    | (p+2) =>
      simp only [redoLoopN]
      rw [ih (p+1) (by omega), length_foldl_step]

/-- **the encode loop undoes the decode loop**, for every order and every dimension -/
theorem redoN_undoN (n p : Nat) (X : List Nat) (hn : 0 < n) (hl : X.length = n) : redoLoopN n p (undoLoopN n p X) = X := by
  induction p using Nat.strongRecOn generalizing X with
  | _ p ih =>
    match p with
    | 0 => rfl
    | 1 => rfl
    | (p+2) =>
      simp only [undoLoopN, redoLoopN]
      have hlen : (undoLoopN n (p+1) X).length = n := by rw [length_undoLoopN, hl]
      rw [foldl_step_cancel (p+1) (List.range n) _ (by rw [hlen]; exact hn)
        (fun i hi => by rw [hlen]; exact List.mem_range.mp hi)]
      exact ih (p+1) (by omega) X hl

theorem undoN_redoN (n p : Nat) (X : List Nat) (hn : 0 < n) (hl : X.length = n) : undoLoopN n p (redoLoopN n p X) = X := by
  induction p using Nat.strongRecOn generalizing X with
  | _ p ih =>
    match p with
    | 0 => rfl
    | 1 => rfl
    | (p+2) =>
      simp only [undoLoopN, redoLoopN]
      have hlen : ((List.range n).foldl (fun Z i => step (p+1) i Z) X).length = n := by rw [length_foldl_step, hl]
      rw [ih (p+1) (by omega) _ hlen]
      exact foldl_step_cancel' (p+1) (List.range n) X (by rw [hl]; exact hn) (fun i hi => by rw [hl]; exact List.mem_range.mp hi)

end SpVerif.Hilbert
