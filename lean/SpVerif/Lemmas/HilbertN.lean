import SpVerif.Lemmas.Hilbert2
/-! C07, every dimension `n`: the "undo excess work" loops of `hilbert_curve.py` are inverse to each other. Core Lean only. -/
set_option linter.unusedSimpArgs false
namespace SpVerif.Hilbert

theorem getD_set_self (X : List Nat) (i v : Nat) (h : i < X.length) : (X.set i v).getD i 0 = v := by
  simp [List.getD_eq_getElem?_getD, List.getElem?_set, h]

theorem getD_set_ne (X : List Nat) (i j v : Nat) (h : i ≠ j) : (X.set i v).getD j 0 = X.getD j 0 := by
  simp [List.getD_eq_getElem?_getD, List.getElem?_set, h]

theorem set_getD_self (X : List Nat) (i : Nat) : X.set i (X.getD i 0) = X := by
  apply List.ext_getElem?
  intro k
  by_cases hk : i = k
  · subst hk
    by_cases hl : i < X.length
    · simp [List.getElem?_set, hl, List.getD_eq_getElem?_getD, List.getElem?_eq_getElem hl]
    · simp [List.getElem?_set, hl, List.getElem?_eq_none (Nat.le_of_not_lt hl)]
  · simp [List.getElem?_set, hk]

theorem xor_masked_pair (a b q : Nat) :
    ((a ^^^ ((a ^^^ b) &&& (2 ^ q - 1))) ^^^ (b ^^^ ((a ^^^ b) &&& (2 ^ q - 1)))) = a ^^^ b := by
  apply Nat.eq_of_testBit_eq; intro i
  simp only [Nat.testBit_xor, Nat.testBit_and]
  cases a.testBit i <;> cases b.testBit i <;> cases (2 ^ q - 1).testBit i <;> rfl

/-- **every elementary step is an involution**, for every word index `i` of a list of any length -/
theorem step_invol (q i : Nat) (X : List Nat) (h0 : 0 < X.length) (hi : i < X.length) : step q i (step q i X) = X := by
  by_cases hb : (X.getD i 0).testBit q = true
  · -- invert the low bits of X[0]; bit q of X[i] is unchanged (also when i = 0)
    have e1 : step q i X = X.set 0 (X.getD 0 0 ^^^ (2 ^ q - 1)) := by simp only [step, hb, if_true]
    have hb' : ((X.set 0 (X.getD 0 0 ^^^ (2 ^ q - 1))).getD i 0).testBit q = true := by
      by_cases hi0 : i = 0
      · subst hi0
        rw [getD_set_self X 0 _ h0, testBit_xor_mask]; exact hb
      · rw [getD_set_ne X 0 i _ (Ne.symm hi0)]; exact hb
    rw [e1]
    have e2 : step q i (X.set 0 (X.getD 0 0 ^^^ (2 ^ q - 1)))
        = (X.set 0 (X.getD 0 0 ^^^ (2 ^ q - 1))).set 0 ((X.set 0 (X.getD 0 0 ^^^ (2 ^ q - 1))).getD 0 0 ^^^ (2 ^ q - 1)) := by
      simp only [step, hb', if_true]
    rw [e2, getD_set_self X 0 _ h0, xor_xor_cancel, List.set_set, set_getD_self]
  · have hbf : (X.getD i 0).testBit q = false := by simpa using hb
    by_cases hi0 : i = 0
    · -- i = 0: t = 0, nothing changes
      subst hi0
      have : step q 0 X = X := by
        simp only [step, hbf, Bool.false_eq_true, if_false, Nat.xor_self, Nat.zero_and, Nat.xor_zero]
        rw [set_getD_self, set_getD_self]
      rw [this, this]
    · -- exchange the low bits of X[0] and X[i]
      let t := (X.getD 0 0 ^^^ X.getD i 0) &&& (2 ^ q - 1)
      have e1 : step q i X = (X.set 0 (X.getD 0 0 ^^^ t)).set i (X.getD i 0 ^^^ t) := by
        simp only [step, hbf, Bool.false_eq_true, if_false]
        rw [getD_set_ne X 0 i _ (Ne.symm hi0)]
      have l1 : (X.set 0 (X.getD 0 0 ^^^ t)).length = X.length := by simp
      have g0 : ((X.set 0 (X.getD 0 0 ^^^ t)).set i (X.getD i 0 ^^^ t)).getD 0 0 = X.getD 0 0 ^^^ t := by
        rw [getD_set_ne _ i 0 _ hi0, getD_set_self X 0 _ h0]
      have gi : ((X.set 0 (X.getD 0 0 ^^^ t)).set i (X.getD i 0 ^^^ t)).getD i 0 = X.getD i 0 ^^^ t := by
        rw [getD_set_self _ i _ (by rw [l1]; exact hi)]
      have hb2 : (X.getD i 0 ^^^ t).testBit q = false := by
        show (X.getD i 0 ^^^ ((X.getD 0 0 ^^^ X.getD i 0) &&& (2 ^ q - 1))).testBit q = false
        rw [testBit_xor_masked]; exact hbf
      have ht : ((X.getD 0 0 ^^^ t) ^^^ (X.getD i 0 ^^^ t)) &&& (2 ^ q - 1) = t := by
        show ((X.getD 0 0 ^^^ ((X.getD 0 0 ^^^ X.getD i 0) &&& (2 ^ q - 1))) ^^^
              (X.getD i 0 ^^^ ((X.getD 0 0 ^^^ X.getD i 0) &&& (2 ^ q - 1)))) &&& (2 ^ q - 1) = _
        rw [xor_masked_pair]
      rw [e1]
      have key : ∀ Y : List Nat, Y = (X.set 0 (X.getD 0 0 ^^^ t)).set i (X.getD i 0 ^^^ t) → step q i Y = X := by
        intro Y hY
        have g0' : Y.getD 0 0 = X.getD 0 0 ^^^ t := by rw [hY]; exact g0
        have gi' : Y.getD i 0 = X.getD i 0 ^^^ t := by rw [hY]; exact gi
        have e2 : step q i Y = (Y.set 0 (Y.getD 0 0 ^^^ t)).set i (Y.getD i 0 ^^^ t) := by
          simp only [step, gi', hb2, Bool.false_eq_true, if_false, g0', ht]
          rw [getD_set_ne Y 0 i _ (Ne.symm hi0), gi']
        rw [e2, g0', gi', xor_xor_cancel, xor_xor_cancel]
        -- undo the two sets
        apply List.ext_getElem?
        intro k
        simp only [hY, List.getElem?_set, List.length_set]
        by_cases hk0 : 0 = k
        · subst hk0
          simp [hi0, h0, List.getD_eq_getElem?_getD, List.getElem?_eq_getElem h0]
        · by_cases hki : i = k
          · subst hki
            simp [hk0, hi, List.getD_eq_getElem?_getD, List.getElem?_eq_getElem hi]
          · simp [hk0, hki]
      exact key _ rfl

theorem length_step (q i : Nat) (X : List Nat) : (step q i X).length = X.length := by
  unfold step; split <;> simp

theorem length_foldl_step (q : Nat) (is : List Nat) (X : List Nat) : (is.foldl (fun Z i => step q i Z) X).length = X.length := by
  induction is generalizing X with
  | nil => rfl
  | cons i rest ih => simp only [List.foldl_cons]; rw [ih, length_step]

/-- running a sequence of steps and then the same steps in reverse order restores the words -/
theorem foldl_step_cancel (q : Nat) (is : List Nat) (X : List Nat) (h0 : 0 < X.length) (his : ∀ i ∈ is, i < X.length) :
    is.foldl (fun Z i => step q i Z) (is.reverse.foldl (fun Z i => step q i Z) X) = X := by
  induction is generalizing X with
  | nil => rfl
  | cons i rest ih =>
    rw [List.reverse_cons, List.foldl_append]
    simp only [List.foldl_cons, List.foldl_nil]
    have hl : (rest.reverse.foldl (fun Z i => step q i Z) X).length = X.length := length_foldl_step q _ X
    rw [step_invol q i _ (by rw [hl]; exact h0) (by rw [hl]; exact his i (by simp))]
    exact ih X h0 (fun j hj => his j (by simp [hj]))

theorem foldl_step_cancel' (q : Nat) (is : List Nat) (X : List Nat) (h0 : 0 < X.length) (his : ∀ i ∈ is, i < X.length) :
    is.reverse.foldl (fun Z i => step q i Z) (is.foldl (fun Z i => step q i Z) X) = X := by
  have := foldl_step_cancel q is.reverse X h0 (fun i hi => his i (List.mem_reverse.mp hi))
  rwa [List.reverse_reverse] at this

theorem length_undoLoopN (n p : Nat) (X : List Nat) : (undoLoopN n p X).length = X.length := by
  induction p using Nat.strongRecOn generalizing X with
  | _ p ih =>
    match p with
    | 0 => rfl
    | 1 => rfl
    | (p+2) =>
      simp only [undoLoopN]
      rw [length_foldl_step, ih (p+1) (by omega)]

theorem length_redoLoopN (n p : Nat) (X : List Nat) : (redoLoopN n p X).length = X.length := by
  induction p using Nat.strongRecOn generalizing X with
  | _ p ih =>
    match p with
    | 0 => rfl
    | 1 => rfl
    | (p+2) =>
      simp only [redoLoopN]
      rw [ih (p+1) (by omega), length_foldl_step]

/-- **the encode loop undoes the decode loop**, for every order and every dimension -/
theorem redoN_undoN (n p : Nat) (X : List Nat) (hn : 0 < n) (hl : X.length = n) : redoLoopN n p (undoLoopN n p X) = X := by
  induction p using Nat.strongRecOn generalizing X with
  | _ p ih =>
    match p with
    | 0 => rfl
    | 1 => rfl
    | (p+2) =>
      simp only [undoLoopN, redoLoopN]
      have hlen : (undoLoopN n (p+1) X).length = n := by rw [length_undoLoopN, hl]
      rw [foldl_step_cancel (p+1) (List.range n) _ (by rw [hlen]; exact hn)
        (fun i hi => by rw [hlen]; exact List.mem_range.mp hi)]
      exact ih (p+1) (by omega) X hl

theorem undoN_redoN (n p : Nat) (X : List Nat) (hn : 0 < n) (hl : X.length = n) : undoLoopN n p (redoLoopN n p X) = X := by
  induction p using Nat.strongRecOn generalizing X with
  | _ p ih =>
    match p with
    | 0 => rfl
    | 1 => rfl
    | (p+2) =>
      simp only [undoLoopN, redoLoopN]
      have hlen : ((List.range n).foldl (fun Z i => step (p+1) i Z) X).length = n := by rw [length_foldl_step, hl]
      rw [ih (p+1) (by omega) _ hlen]
      exact foldl_step_cancel' (p+1) (List.range n) X (by rw [hl]; exact hn) (fun i hi => by rw [hl]; exact List.mem_range.mp hi)

/-! ### Gray code on a list of words -/

/-- the mask accumulated from the Gray code of `b` is `b >> 1` -/
theorem tLoop_gray (p b : Nat) (h : b < 2 ^ p) : tLoop (p - 1) 0 (b ^^^ (b >>> 1)) = b >>> 1 := by
  apply Nat.eq_of_testBit_eq; intro j
  rw [tLoop_testBit, xorBits_gray, Nat.zero_testBit, Bool.false_xor, Nat.testBit_shiftRight]
  by_cases hj : j < p - 1
  · have h1 : b.testBit (p - 1 + 1) = false := testBit_ge_of_lt h (by omega)
    have h2 : 1 + j = j + 1 := by omega
    simp [hj, h1, h2]
  · have h1 : b.testBit (1 + j) = false := testBit_ge_of_lt h (by omega)
    simp [hj, h1]

/-- the accumulated mask `t` of a word `y` satisfies `t = (y xor t) >> 1` -/
theorem tLoop_fix (p y : Nat) (hy : y < 2 ^ p) : ((y ^^^ tLoop (p - 1) 0 y) >>> 1) = tLoop (p - 1) 0 y := by
  apply Nat.eq_of_testBit_eq; intro j
  rw [Nat.testBit_shiftRight, Nat.testBit_xor, tLoop_testBit, tLoop_testBit, Nat.zero_testBit,
    Nat.zero_testBit, Bool.false_xor, Bool.false_xor, show 1 + j = j + 1 by omega,
    xorBits_succ y j (p - 1)]
  by_cases hj : j + 1 ≤ p - 1
  · simp [hj]
  · have : y.testBit (j+1) = false := testBit_ge_of_lt hy (by omega)
    simp [hj, this]

/-- the words `g s, g (s+1), …` accumulate to `X[i] xor t` when `g` is the adjacent-xor decode of `X` -/
theorem prefixXor_decode (X : List Nat) (t : Nat) (k s acc : Nat)
    (hacc : acc = if s = 0 then 0 else X.getD (s - 1) 0 ^^^ t) :
    prefixXor acc ((List.range' s k).map (fun i => if i = 0 then X.getD 0 0 ^^^ t else X.getD i 0 ^^^ X.getD (i - 1) 0))
      = (List.range' s k).map (fun i => X.getD i 0 ^^^ t) := by
  induction k generalizing s acc with
  | zero => rfl
  | succ k ih =>
    rw [List.range'_succ, List.map_cons, List.map_cons, prefixXor]
    have hhead : (if s = 0 then X.getD 0 0 ^^^ t else X.getD s 0 ^^^ X.getD (s - 1) 0) ^^^ acc = X.getD s 0 ^^^ t := by
      subst hacc
      by_cases hs : s = 0
      · subst hs; simp
      · simp only [hs, if_false]
        apply Nat.eq_of_testBit_eq; intro i
        simp only [Nat.testBit_xor]
        cases (X.getD s 0).testBit i <;> cases (X.getD (s - 1) 0).testBit i <;> cases t.testBit i <;> rfl
    rw [hhead]
    congr 1
    exact ih (s + 1) (X.getD s 0 ^^^ t) (by simp)

theorem getD_map_range (n : Nat) (f : Nat → Nat) (i : Nat) (h : i < n) : ((List.range n).map f).getD i 0 = f i := by
  simp [List.getD_eq_getElem?_getD, List.getElem?_map, List.getElem?_range h]

theorem map_getD_range (X : List Nat) : (List.range X.length).map (fun i => X.getD i 0) = X := by
  apply List.ext_getElem?
  intro k
  by_cases hk : k < X.length
  · simp [List.getElem?_map, List.getElem?_range hk, List.getD_eq_getElem?_getD, List.getElem?_eq_getElem hk]
  · simp [List.getElem?_eq_none (Nat.le_of_not_lt hk)]
    omega

/-- **Gray encode after Gray decode is the identity** on a list of words whose last word is below `2^p` -/
theorem grayEncodeN_decodeN (p : Nat) (X : List Nat) (hne : 0 < X.length) (hlast : X.getD (X.length - 1) 0 < 2 ^ p) :
    grayEncodeN p (grayDecodeN X) = X := by
  unfold grayEncodeN grayDecodeN
  simp only
  have hpre := prefixXor_decode X (X.getD (X.length - 1) 0 >>> 1) X.length 0 0 (by simp)
  rw [← List.range_eq_range'] at hpre
  rw [hpre]
  simp only [List.length_map, List.length_range]
  rw [getD_map_range X.length _ (X.length - 1) (by omega), tLoop_gray p _ hlast, List.map_map]
  conv => rhs; rw [← map_getD_range X]
  apply List.map_congr_left
  intro i _
  simp only [Function.comp]
  exact xor_xor_cancel _ _

theorem length_prefixXor (acc : Nat) (X : List Nat) : (prefixXor acc X).length = X.length := by
  induction X generalizing acc with
  | nil => rfl
  | cons x xs ih => simp [prefixXor, ih]

theorem prefixXor_zero (acc : Nat) (X : List Nat) (h : 0 < X.length) : (prefixXor acc X).getD 0 0 = X.getD 0 0 ^^^ acc := by
  cases X with
  | nil => simp at h
  | cons x xs => simp [prefixXor]

theorem prefixXor_succ (acc : Nat) (X : List Nat) (i : Nat) (h : i + 1 < X.length) :
    (prefixXor acc X).getD (i + 1) 0 = X.getD (i + 1) 0 ^^^ (prefixXor acc X).getD i 0 := by
  induction X generalizing acc i with
  | nil => simp at h
  | cons x xs ih =>
    cases i with
    | zero =>
      simp only [prefixXor, List.getD_cons_succ, List.getD_cons_zero]
      rw [prefixXor_zero _ xs (by simpa using h)]
    | succ i =>
      simp only [prefixXor, List.getD_cons_succ]
      exact ih (x ^^^ acc) i (by simpa using h)

theorem prefixXor_lt (p acc : Nat) (X : List Nat) (hacc : acc < 2 ^ p) (hX : ∀ x ∈ X, x < 2 ^ p) :
    ∀ y ∈ prefixXor acc X, y < 2 ^ p := by
  induction X generalizing acc with
  | nil => intro y hy; simp [prefixXor] at hy
  | cons x xs ih =>
    intro y hy
    simp only [prefixXor, List.mem_cons] at hy
    have hx : x ^^^ acc < 2 ^ p := Nat.xor_lt_two_pow (hX x (by simp)) hacc
    rcases hy with rfl | hy
    · exact hx
    · exact ih (x ^^^ acc) hx (fun z hz => hX z (by simp [hz])) y hy

theorem getD_mem_lt (p : Nat) (X : List Nat) (hX : ∀ x ∈ X, x < 2 ^ p) (i : Nat) : X.getD i 0 < 2 ^ p := by
  by_cases hi : i < X.length
  · rw [List.getD_eq_getElem?_getD, List.getElem?_eq_getElem hi]
    exact hX _ (List.getElem_mem hi)
  · rw [List.getD_eq_getElem?_getD, List.getElem?_eq_none (Nat.le_of_not_lt hi)]
    exact Nat.two_pow_pos p

theorem getD_map (f : Nat → Nat) (X : List Nat) (i : Nat) (h : i < X.length) : (X.map f).getD i 0 = f (X.getD i 0) := by
  simp [List.getD_eq_getElem?_getD, List.getElem?_map, List.getElem?_eq_getElem h]

/-- **Gray decode after Gray encode is the identity** on words below `2^p` -/
theorem grayDecodeN_encodeN (p : Nat) (X : List Nat) (hne : 0 < X.length) (hX : ∀ x ∈ X, x < 2 ^ p) :
    grayDecodeN (grayEncodeN p X) = X := by
  have hY := prefixXor_lt p 0 X (Nat.two_pow_pos p) hX
  have hlen : (prefixXor 0 X).length = X.length := length_prefixXor 0 X
  unfold grayDecodeN grayEncodeN
  simp only [List.length_map, hlen]
  have hlast : (prefixXor 0 X).getD (X.length - 1) 0 < 2 ^ p := getD_mem_lt p _ hY _
  rw [getD_map _ _ (X.length - 1) (by rw [hlen]; omega), tLoop_fix p _ hlast]
  conv => rhs; rw [← map_getD_range X]
  apply List.map_congr_left
  intro i hi
  have hi' := List.mem_range.mp hi
  by_cases h0 : i = 0
  · subst h0
    simp only [if_true]
    rw [getD_map _ _ 0 (by rw [hlen]; exact hne), xor_xor_cancel, prefixXor_zero 0 X hne, Nat.xor_zero]
  · simp only [h0, if_false]
    obtain ⟨j, rfl⟩ : ∃ j, i = j + 1 := ⟨i - 1, by omega⟩
    rw [getD_map _ _ (j + 1) (by rw [hlen]; exact hi'), getD_map _ _ (j + 1 - 1) (by rw [hlen]; omega),
      Nat.add_sub_cancel, prefixXor_succ 0 X j hi']
    apply Nat.eq_of_testBit_eq; intro k
    simp only [Nat.testBit_xor]
    cases (X.getD (j + 1) 0).testBit k <;> cases ((prefixXor 0 X).getD j 0).testBit k <;>
      cases (tLoop (p - 1) 0 ((prefixXor 0 X).getD (X.length - 1) 0)).testBit k <;> rfl

/-! ### the transpose (bit de-interleaving) and its inverse -/

theorem bitsum_succ (k : Nat) (f : Nat → Bool) : bitsum (k + 1) f = bitsum k f + (if f k then 2 ^ k else 0) := by
  unfold bitsum
  rw [List.range_succ, List.foldl_append]
  rfl

theorem bitsum_spec (k : Nat) (f : Nat → Bool) :
    bitsum k f < 2 ^ k ∧ ∀ e, (bitsum k f).testBit e = (decide (e < k) && f e) := by
  induction k with
  | zero => simp [bitsum]
  | succ k ih =>
    obtain ⟨hlt, hbit⟩ := ih
    rw [bitsum_succ]
    by_cases hf : f k = true
    · simp only [hf, if_true]
      constructor
      · rw [Nat.pow_succ]; omega
      · intro e
        have := Nat.testBit_two_pow_mul_add 1 hlt e
        rw [Nat.mul_one, Nat.add_comm] at this
        rw [this]
        by_cases he : e < k
        · simp [he, hbit, show e < k + 1 by omega]
        · by_cases hek : e = k
          · subst hek; simp [hf]
          · have h1 : ¬ e < k + 1 := by omega
            have h2 : e - k ≠ 0 := by omega
            have h3 : Nat.testBit 1 (e - k) = false := by
              cases hb : Nat.testBit 1 (e - k) with
              | false => rfl
              | true => exact absurd (Nat.testBit_one_eq_true_iff_self_eq_zero.mp hb) h2
            simp [he, h1, h3]
    · have hf' : f k = false := by simpa using hf
      simp only [hf', Bool.false_eq_true, if_false, Nat.add_zero]
      constructor
      · rw [Nat.pow_succ]; omega
      · intro e
        rw [hbit]
        by_cases he : e < k
        · simp [he, show e < k + 1 by omega]
        · by_cases hek : e = k
          · subst hek; simp [hf']
          · simp [he, show ¬ e < k + 1 by omega]

theorem bitsum_lt (k : Nat) (f : Nat → Bool) : bitsum k f < 2 ^ k := (bitsum_spec k f).1
theorem testBit_bitsum (k : Nat) (f : Nat → Bool) (e : Nat) : (bitsum k f).testBit e = (decide (e < k) && f e) :=
  (bitsum_spec k f).2 e

theorem transposeWord_lt (p n i h : Nat) : transposeWord p n i h < 2 ^ p := bitsum_lt p _

theorem length_toTranspose (p n h : Nat) : (toTranspose p n h).length = n := by simp [toTranspose]

/-- **re-interleaving the transposed words gives the distance back** -/
theorem fromTranspose_toTranspose (p n h : Nat) (hn : 0 < n) (hh : h < 2 ^ (n * p)) :
    fromTranspose p (toTranspose p n h) = h := by
  apply Nat.eq_of_testBit_eq
  intro e
  unfold fromTranspose
  simp only [length_toTranspose]
  rw [testBit_bitsum]
  by_cases he : e < n * p
  · simp only [he, decide_true, Bool.true_and]
    have hmod : e % n < n := Nat.mod_lt e hn
    have hidx : n - 1 - e % n < n := by omega
    unfold toTranspose
    rw [getD_map_range n _ _ hidx]
    unfold transposeWord
    rw [testBit_bitsum]
    have hdiv : e / n < p := by
      rw [Nat.div_lt_iff_lt_mul hn]; rw [Nat.mul_comm]; exact he
    simp only [hdiv, decide_true, Bool.true_and]
    congr 1
    have : n - 1 - (n - 1 - e % n) = e % n := by omega
    rw [this]
    exact (Nat.div_add_mod e n)
  · simp only [he, decide_false, Bool.false_and]
    exact (testBit_ge_of_lt hh (by omega)).symm

/-- **transposing an interleaved word list gives the words back** -/
theorem toTranspose_fromTranspose (p : Nat) (X : List Nat) (hn : 0 < X.length) (hX : ∀ x ∈ X, x < 2 ^ p) :
    toTranspose p X.length (fromTranspose p X) = X := by
  unfold toTranspose
  conv => rhs; rw [← map_getD_range X]
  apply List.map_congr_left
  intro i hi
  have hi' := List.mem_range.mp hi
  apply Nat.eq_of_testBit_eq
  intro j
  unfold transposeWord
  rw [testBit_bitsum]
  by_cases hj : j < p
  · simp only [hj, decide_true, Bool.true_and]
    unfold fromTranspose
    simp only
    rw [testBit_bitsum]
    have hlt : X.length * j + (X.length - 1 - i) < X.length * p := by
      have : X.length * j + X.length ≤ X.length * p := by
        rw [← Nat.mul_succ]; exact Nat.mul_le_mul_left _ hj
      omega
    simp only [hlt, decide_true, Bool.true_and]
    have hr : X.length - 1 - i < X.length := by omega
    have hmod : (X.length * j + (X.length - 1 - i)) % X.length = X.length - 1 - i := by
      rw [Nat.mul_add_mod]; exact Nat.mod_eq_of_lt hr
    have hdiv : (X.length * j + (X.length - 1 - i)) / X.length = j := by
      rw [Nat.mul_add_div hn, Nat.div_eq_of_lt hr, Nat.add_zero]
    rw [hmod, hdiv]
    congr 2
    omega
  · simp only [hj, decide_false, Bool.false_and]
    exact (testBit_ge_of_lt (getD_mem_lt p X hX i) (by omega)).symm

/-! ### words stay below `2^p` -/

def AllLt (p : Nat) (X : List Nat) : Prop := ∀ x ∈ X, x < 2 ^ p

theorem allLt_set {p : Nat} {X : List Nat} (h : AllLt p X) (i v : Nat) (hv : v < 2 ^ p) : AllLt p (X.set i v) := by
  intro x hx
  rcases List.mem_or_eq_of_mem_set hx with h1 | h1
  · exact h x h1
  · rw [h1]; exact hv

theorem step_allLt {p q : Nat} (hq : q ≤ p) (i : Nat) {X : List Nat} (h : AllLt p X) : AllLt p (step q i X) := by
  have hP : 2 ^ q - 1 < 2 ^ p := mask_lt hq
  have g : ∀ k, X.getD k 0 < 2 ^ p := getD_mem_lt p X h
  unfold step
  simp only
  split
  · exact allLt_set h 0 _ (Nat.xor_lt_two_pow (g 0) hP)
  · have ht : (X.getD 0 0 ^^^ X.getD i 0) &&& (2 ^ q - 1) < 2 ^ p :=
      Nat.lt_of_le_of_lt Nat.and_le_right hP
    have h1 := allLt_set h 0 _ (Nat.xor_lt_two_pow (g 0) ht)
    exact allLt_set h1 i _ (Nat.xor_lt_two_pow (getD_mem_lt p _ h1 i) ht)

theorem foldl_step_allLt {p q : Nat} (hq : q ≤ p) (is : List Nat) {X : List Nat} (h : AllLt p X) :
    AllLt p (is.foldl (fun Z i => step q i Z) X) := by
  induction is generalizing X with
  | nil => exact h
  | cons i rest ih => exact ih (step_allLt hq i h)

theorem redoLoopN_allLt (n k p : Nat) (hk : k ≤ p + 1) {X : List Nat} (h : AllLt p X) : AllLt p (redoLoopN n k X) := by
  induction k using Nat.strongRecOn generalizing X with
  | _ k ih =>
    match k with
    | 0 => exact h
    | 1 => exact h
    | (k+2) =>
      simp only [redoLoopN]
      exact ih (k+1) (by omega) (by omega) (foldl_step_allLt (by omega) _ h)

theorem undoLoopN_allLt (n k p : Nat) (hk : k ≤ p + 1) {X : List Nat} (h : AllLt p X) : AllLt p (undoLoopN n k X) := by
  induction k using Nat.strongRecOn generalizing X with
  | _ k ih =>
    match k with
    | 0 => exact h
    | 1 => exact h
    | (k+2) =>
      simp only [undoLoopN]
      exact foldl_step_allLt (by omega) _ (ih (k+1) (by omega) (by omega) h)

theorem grayEncodeN_allLt (p : Nat) (hp : 1 ≤ p) {X : List Nat} (h : AllLt p X) : AllLt p (grayEncodeN p X) := by
  unfold grayEncodeN
  simp only
  have hY := prefixXor_lt p 0 X (Nat.two_pow_pos p) h
  have ht : tLoop (p - 1) 0 ((prefixXor 0 X).getD ((prefixXor 0 X).length - 1) 0) < 2 ^ p :=
    Nat.lt_of_lt_of_le (tLoop_lt _ _) (Nat.pow_le_pow_right (by omega) (by omega))
  intro x hx
  simp only [List.mem_map] at hx
  obtain ⟨y, hy, rfl⟩ := hx
  exact Nat.xor_lt_two_pow (hY y hy) ht

theorem length_grayEncodeN (p : Nat) (X : List Nat) : (grayEncodeN p X).length = X.length := by
  simp [grayEncodeN, length_prefixXor]

theorem length_grayDecodeN (X : List Nat) : (grayDecodeN X).length = X.length := by simp [grayDecodeN]

/-! ### the two round trips, every order, every dimension -/

/-- **distance → coordinates → distance** -/
theorem distN_coordN (p n h : Nat) (hn : 0 < n) (hh : h < 2 ^ (n * p)) : distN p (coordN p n h) = h := by
  unfold distN coordN
  have hT : (toTranspose p n h).length = n := length_toTranspose p n h
  have hG : (grayDecodeN (toTranspose p n h)).length = n := by rw [length_grayDecodeN, hT]
  rw [length_undoLoopN, hG, redoN_undoN n p _ hn hG]
  rw [grayEncodeN_decodeN p _ (by rw [hT]; exact hn)]
  · exact fromTranspose_toTranspose p n h hn hh
  · rw [hT]
    unfold toTranspose
    rw [getD_map_range n _ _ (by omega)]
    exact transposeWord_lt p n _ h

/-- **coordinates → distance → coordinates** -/
theorem coordN_distN (p : Nat) (hp : 1 ≤ p) (X : List Nat) (hn : 0 < X.length) (hX : AllLt p X) :
    coordN p X.length (distN p X) = X := by
  unfold distN coordN
  have hR : (redoLoopN X.length p X).length = X.length := length_redoLoopN _ _ _
  have hRl : AllLt p (redoLoopN X.length p X) := redoLoopN_allLt _ p p (by omega) hX
  have hE : (grayEncodeN p (redoLoopN X.length p X)).length = X.length := by rw [length_grayEncodeN, hR]
  have hEl : AllLt p (grayEncodeN p (redoLoopN X.length p X)) := grayEncodeN_allLt p hp hRl
  have := toTranspose_fromTranspose p (grayEncodeN p (redoLoopN X.length p X)) (by rw [hE]; exact hn) hEl
  rw [hE] at this
  rw [this, grayDecodeN_encodeN p _ (by rw [hR]; exact hn) hRl]
  exact undoN_redoN X.length p X hn rfl

theorem grayDecodeN_allLt (p : Nat) {X : List Nat} (h : AllLt p X) : AllLt p (grayDecodeN X) := by
  have g : ∀ k, X.getD k 0 < 2 ^ p := getD_mem_lt p X h
  intro x hx
  unfold grayDecodeN at hx
  simp only [List.mem_map, List.mem_range] at hx
  obtain ⟨i, _, rfl⟩ := hx
  split
  · apply Nat.xor_lt_two_pow (g 0)
    exact Nat.lt_of_le_of_lt (Nat.shiftRight_le _ _) (g _)
  · exact Nat.xor_lt_two_pow (g i) (g (i - 1))

/-- the coordinates of every distance lie in the `2^p`-per-side grid, one per dimension -/
theorem coordN_range (p n h : Nat) : (coordN p n h).length = n ∧ AllLt p (coordN p n h) := by
  unfold coordN
  constructor
  · rw [length_undoLoopN, length_grayDecodeN, length_toTranspose]
  · apply undoLoopN_allLt n p p (by omega)
    apply grayDecodeN_allLt
    intro x hx
    unfold toTranspose at hx
    simp only [List.mem_map, List.mem_range] at hx
    obtain ⟨i, _, rfl⟩ := hx
    exact transposeWord_lt p n i h

theorem distN_lt (p : Nat) (X : List Nat) : distN p X < 2 ^ (X.length * p) := by
  unfold distN fromTranspose
  simp only [length_grayEncodeN, length_redoLoopN]
  exact bitsum_lt _ _

end SpVerif.Hilbert
