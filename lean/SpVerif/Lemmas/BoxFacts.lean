import SpVerif.Model.Frames
/-! Facts about the box kernels that the index / pruning layers rely on (C01 ⇒ C04, C06, C12, C17). Core Lean only.

* `elemIB_overlaps`  : an element that intersects the box has bounds, and its bounding box is not outside the box
* `elemIB_of_inside` : an element whose bounding box lies inside a box of positive width and height intersects it
-/
namespace SpVerif.Geom

/-- bounding box `bb` contains the point `p` -/
def BoxHas (bb : Box) (p : Pt) : Prop := bb.x0 ≤ p.1 ∧ p.1 ≤ bb.x1 ∧ bb.y0 ≤ p.2 ∧ p.2 ≤ bb.y1

theorem bboxOf_none_iff (l : List Pt) : bboxOf l = none ↔ l = [] := by
  cases l with
  | nil => simp [bboxOf]
  | cons p ps => simp only [bboxOf]; split <;> simp

/-- the bounding box contains every vertex -/
theorem bboxOf_has (l : List Pt) (bb : Box) (h : bboxOf l = some bb) : ∀ p ∈ l, BoxHas bb p := by
  induction l generalizing bb with
  | nil => simp [bboxOf] at h
  | cons q qs ih =>
    simp only [bboxOf] at h
    intro p hp
    cases hq : bboxOf qs with
    | none =>
      rw [hq] at h
      simp only [Option.some.injEq] at h
      have : qs = [] := (bboxOf_none_iff qs).mp hq
      subst this
      simp only [List.mem_singleton] at hp
      subst hp; subst h
      simp [BoxHas]
    | some b =>
      rw [hq] at h
      simp only [Option.some.injEq] at h
      subst h
      simp only [List.mem_cons] at hp
      rcases hp with rfl | hp
      · simp only [BoxHas]; omega
      · have := ih b hq p hp
        simp only [BoxHas] at *; omega

/-- the bounding box is the least box containing every vertex -/
theorem bboxOf_least (l : List Pt) (bb c : Box) (h : bboxOf l = some bb) (hc : ∀ p ∈ l, BoxHas c p) :
    c.x0 ≤ bb.x0 ∧ bb.x1 ≤ c.x1 ∧ c.y0 ≤ bb.y0 ∧ bb.y1 ≤ c.y1 := by
  induction l generalizing bb with
  | nil => simp [bboxOf] at h
  | cons q qs ih =>
    simp only [bboxOf] at h
    have hq0 := hc q (by simp)
    cases hq : bboxOf qs with
    | none =>
      rw [hq] at h
      simp only [Option.some.injEq] at h
      subst h
      simp only [BoxHas] at hq0; simp only; omega
    | some b =>
      rw [hq] at h
      simp only [Option.some.injEq] at h
      subst h
      have := ih b hq (fun p hp => hc p (by simp [hp]))
      simp only [BoxHas] at hq0; simp only; omega

/-- `bb` lies inside `c` -/
def BoxSub (bb c : Box) : Prop := c.x0 ≤ bb.x0 ∧ bb.x1 ≤ c.x1 ∧ c.y0 ≤ bb.y0 ∧ bb.y1 ≤ c.y1

theorem bboxOf_mono (l L : List Pt) (bb BB : Box) (h : bboxOf l = some bb) (H : bboxOf L = some BB)
    (hsub : ∀ p ∈ l, p ∈ L) : BoxSub bb BB :=
  bboxOf_least l bb BB h (fun p hp => bboxOf_has L BB H p (hsub p hp))

theorem bboxOf_wf (l : List Pt) (bb : Box) (h : bboxOf l = some bb) : bb.x0 ≤ bb.x1 ∧ bb.y0 ≤ bb.y1 := by
  cases l with
  | nil => simp [bboxOf] at h
  | cons p ps =>
    have := bboxOf_has (p :: ps) bb h p (by simp)
    simp only [BoxHas] at this; omega

theorem bboxOf_some_of_mem (l : List Pt) (p : Pt) (hp : p ∈ l) : ∃ bb, bboxOf l = some bb := by
  cases h : bboxOf l with
  | none => rw [(bboxOf_none_iff l).mp h] at hp; cases hp
  | some bb => exact ⟨bb, rfl⟩

theorem not_outside_of_sub {bb BB b : Box} (hs : BoxSub bb BB) (h : bboxOutside bb b = false) : bboxOutside BB b = false := by
  simp only [bboxOutside, Bool.or_eq_false_iff, decide_eq_false_iff_not] at *
  simp only [BoxSub] at hs
  omega

theorem inBox_iff (b : Box) (p : Pt) : inBox b p = true ↔ BoxHas b p := by
  simp [inBox, BoxHas, and_assoc]

theorem not_outside_of_has {bb b : Box} {p : Pt} (h1 : BoxHas bb p) (h2 : BoxHas b p) : bboxOutside bb b = false := by
  simp only [bboxOutside, Bool.or_eq_false_iff, decide_eq_false_iff_not]
  simp only [BoxHas] at *
  omega

theorem lineIBcore_overlaps (b : Box) (l : List Pt) (h : lineIBcore b l = true) :
    ∃ bb, bboxOf l = some bb ∧ bboxOutside bb b = false := by
  unfold lineIBcore at h
  cases hb : bboxOf l with
  | none => rw [hb] at h; cases h
  | some bb =>
    rw [hb] at h
    simp only at h
    refine ⟨bb, rfl, ?_⟩
    cases ho : bboxOutside bb b with
    | false => rfl
    | true => simp [ho] at h

theorem polygonIBcore_overlaps (b : Box) (rings : List (List Pt)) (h : polygonIBcore b rings = true) :
    ∃ bb, bboxOf rings.flatten = some bb ∧ bboxOutside bb b = false := by
  unfold polygonIBcore at h
  simp only at h
  cases hb : bboxOf rings.flatten with
  | none => rw [hb] at h; cases h
  | some bb =>
    rw [hb] at h
    simp only at h
    refine ⟨bb, rfl, ?_⟩
    cases ho : bboxOutside bb b with
    | false => rfl
    | true => simp [ho] at h

end SpVerif.Geom

namespace SpVerif.Frames
open SpVerif.Geom

/-- **an element that intersects the box has a bounding box that is not outside the box** -/
theorem elemIB_overlaps (bx : Box) (e : Elem) (h : elemIB bx (some e) = true) :
    ∃ bb, bboxOf (elemVerts e) = some bb ∧ bboxOutside bb (orientBox bx) = false := by
  cases e with
  | point p =>
    simp only [elemIB, pointIB] at h
    refine ⟨⟨p.1, p.2, p.1, p.2⟩, by simp [elemVerts, bboxOf], ?_⟩
    exact not_outside_of_has (p := p) (by simp [BoxHas]) ((inBox_iff _ _).mp h)
  | multipoint ps =>
    simp only [elemIB, multipointIB, List.any_eq_true] at h
    obtain ⟨p, hp, hin⟩ := h
    obtain ⟨bb, hbb⟩ := bboxOf_some_of_mem ps p hp
    exact ⟨bb, hbb, not_outside_of_has (bboxOf_has ps bb hbb p hp) ((inBox_iff _ _).mp hin)⟩
  | line l =>
    simp only [elemIB, lineIB] at h
    split at h
    · cases h
    · exact lineIBcore_overlaps _ l h
  | multiline ls =>
    simp only [elemIB, multilineIB] at h
    split at h
    · cases h
    · simp only [List.any_eq_true] at h
      obtain ⟨l, hl, hc⟩ := h
      obtain ⟨bb, hbb, ho⟩ := lineIBcore_overlaps _ l hc
      have hne : l ≠ [] := fun he => by rw [he] at hbb; simp [bboxOf] at hbb
      obtain ⟨p, hp⟩ := List.exists_mem_of_ne_nil l hne
      have hpf : p ∈ ls.flatten := List.mem_flatten.mpr ⟨l, hl, hp⟩
      obtain ⟨BB, hBB⟩ := bboxOf_some_of_mem ls.flatten p hpf
      refine ⟨BB, hBB, not_outside_of_sub (bboxOf_mono l ls.flatten bb BB hbb hBB (fun q hq => List.mem_flatten.mpr ⟨l, hl, hq⟩)) ho⟩
  | polygon rs =>
    simp only [elemIB, polygonIB] at h
    exact polygonIBcore_overlaps _ rs h
  | multipolygon ps =>
    simp only [elemIB, multipolygonIB, List.any_eq_true] at h
    obtain ⟨rs, hrs, hc⟩ := h
    obtain ⟨bb, hbb, ho⟩ := polygonIBcore_overlaps _ rs hc
    have hne : rs.flatten ≠ [] := fun he => by rw [he] at hbb; simp [bboxOf] at hbb
    obtain ⟨p, hp⟩ := List.exists_mem_of_ne_nil _ hne
    have hsub : ∀ q ∈ rs.flatten, q ∈ ps.flatten.flatten := by
      intro q hq
      obtain ⟨r, hr, hqr⟩ := List.mem_flatten.mp hq
      exact List.mem_flatten.mpr ⟨r, List.mem_flatten.mpr ⟨rs, hrs, hr⟩, hqr⟩
    obtain ⟨BB, hBB⟩ := bboxOf_some_of_mem ps.flatten.flatten p (hsub p hp)
    exact ⟨BB, hBB, not_outside_of_sub (bboxOf_mono _ _ bb BB hbb hBB hsub) ho⟩

end SpVerif.Frames

namespace SpVerif.Frames
open SpVerif.Geom

theorem lineIBcore_of_inside (b : Box) (l : List Pt) (bb : Box) (hbb : bboxOf l = some bb) (hs : BoxSub bb b) :
    lineIBcore b l = true := by
  have hw := bboxOf_wf l bb hbb
  unfold lineIBcore
  rw [hbb]
  simp only [BoxSub] at hs
  have ho : bboxOutside bb b = false := by
    simp only [bboxOutside, Bool.or_eq_false_iff, decide_eq_false_iff_not]; omega
  have hp : bboxProjInside bb b = true := by
    simp only [bboxProjInside, Bool.or_eq_true, Bool.and_eq_true, decide_eq_true_eq]; omega
  simp [ho, hp]

theorem polygonIBcore_of_inside (b : Box) (rs : List (List Pt)) (bb : Box) (hbb : bboxOf rs.flatten = some bb) (hs : BoxSub bb b) :
    polygonIBcore b rs = true := by
  have hw := bboxOf_wf _ bb hbb
  unfold polygonIBcore
  simp only
  rw [hbb]
  simp only [BoxSub] at hs
  have ho : bboxOutside bb b = false := by
    simp only [bboxOutside, Bool.or_eq_false_iff, decide_eq_false_iff_not]; omega
  have hp : bboxProjInside bb b = true := by
    simp only [bboxProjInside, Bool.or_eq_true, Bool.and_eq_true, decide_eq_true_eq]; omega
  simp [ho, hp]

theorem boxSub_trans {a b c : Box} (h1 : BoxSub a b) (h2 : BoxSub b c) : BoxSub a c := by
  simp only [BoxSub] at *; omega

/-- **an element whose bounding box lies inside a box of positive width and height intersects it** (the projection
shortcut of the kernels) — this is why rows the index reports as *covered* need no exact test -/
theorem elemIB_of_inside (bx : Box) (e : Elem) (bb : Box) (hbb : bboxOf (elemVerts e) = some bb)
    (hpos : zeroAreaBox (orientBox bx) = false) (hs : BoxSub bb (orientBox bx)) : elemIB bx (some e) = true := by
  cases e with
  | point p =>
    simp only [elemVerts, bboxOf, Option.some.injEq] at hbb
    subst hbb
    simp only [elemIB, pointIB, inBox_iff, BoxHas]
    simp only [BoxSub] at hs; omega
  | multipoint ps =>
    simp only [elemVerts] at hbb
    have hne : ps ≠ [] := fun he => by rw [he] at hbb; simp [bboxOf] at hbb
    obtain ⟨p, hp⟩ := List.exists_mem_of_ne_nil ps hne
    simp only [elemIB, multipointIB, List.any_eq_true]
    refine ⟨p, hp, (inBox_iff _ _).mpr ?_⟩
    have := bboxOf_has ps bb hbb p hp
    simp only [BoxHas, BoxSub] at *; omega
  | line l =>
    simp only [elemIB, lineIB, hpos]
    exact lineIBcore_of_inside _ l bb hbb hs
  | multiline ls =>
    simp only [elemVerts] at hbb
    simp only [elemIB, multilineIB, hpos, Bool.false_eq_true, if_false, List.any_eq_true]
    have hne : ls.flatten ≠ [] := fun he => by rw [he] at hbb; simp [bboxOf] at hbb
    obtain ⟨p, hp⟩ := List.exists_mem_of_ne_nil _ hne
    obtain ⟨l, hl, hpl⟩ := List.mem_flatten.mp hp
    obtain ⟨b1, hb1⟩ := bboxOf_some_of_mem l p hpl
    refine ⟨l, hl, lineIBcore_of_inside _ l b1 hb1 (boxSub_trans ?_ hs)⟩
    exact bboxOf_mono l ls.flatten b1 bb hb1 hbb (fun q hq => List.mem_flatten.mpr ⟨l, hl, hq⟩)
  | polygon rs =>
    simp only [elemIB, polygonIB]
    exact polygonIBcore_of_inside _ rs bb hbb hs
  | multipolygon ps =>
    simp only [elemVerts] at hbb
    simp only [elemIB, multipolygonIB, List.any_eq_true]
    have hne : ps.flatten.flatten ≠ [] := fun he => by rw [he] at hbb; simp [bboxOf] at hbb
    obtain ⟨p, hp⟩ := List.exists_mem_of_ne_nil _ hne
    obtain ⟨r, hr, hpr⟩ := List.mem_flatten.mp hp
    obtain ⟨rs, hrs, hrr⟩ := List.mem_flatten.mp hr
    have hprs : p ∈ rs.flatten := List.mem_flatten.mpr ⟨r, hrr, hpr⟩
    obtain ⟨b1, hb1⟩ := bboxOf_some_of_mem rs.flatten p hprs
    refine ⟨rs, hrs, polygonIBcore_of_inside _ rs b1 hb1 (boxSub_trans ?_ hs)⟩
    apply bboxOf_mono _ _ b1 bb hb1 hbb
    intro q hq
    obtain ⟨r', hr', hq'⟩ := List.mem_flatten.mp hq
    exact List.mem_flatten.mpr ⟨r', List.mem_flatten.mpr ⟨rs, hrs, hr'⟩, hq'⟩

end SpVerif.Frames

namespace SpVerif.Geom

/-- every side of the bounding box is attained by a vertex -/
theorem bboxOf_attains (l : List Pt) (bb : Box) (h : bboxOf l = some bb) :
    (∃ v ∈ l, v.1 = bb.x0) ∧ (∃ v ∈ l, v.2 = bb.y0) ∧ (∃ v ∈ l, v.1 = bb.x1) ∧ (∃ v ∈ l, v.2 = bb.y1) := by
  induction l generalizing bb with
  | nil => simp [bboxOf] at h
  | cons q qs ih =>
    simp only [bboxOf] at h
    cases hq : bboxOf qs with
    | none =>
      rw [hq] at h
      simp only [Option.some.injEq] at h
      subst h
      exact ⟨⟨q, by simp, rfl⟩, ⟨q, by simp, rfl⟩, ⟨q, by simp, rfl⟩, ⟨q, by simp, rfl⟩⟩
    | some b =>
      rw [hq] at h
      simp only [Option.some.injEq] at h
      subst h
      obtain ⟨⟨v1, m1, e1⟩, ⟨v2, m2, e2⟩, ⟨v3, m3, e3⟩, ⟨v4, m4, e4⟩⟩ := ih b hq
      refine ⟨?_, ?_, ?_, ?_⟩
      · by_cases hc : q.1 ≤ b.x0
        · exact ⟨q, by simp, by simp only; omega⟩
        · exact ⟨v1, by simp [m1], by simp only; omega⟩
      · by_cases hc : q.2 ≤ b.y0
        · exact ⟨q, by simp, by simp only; omega⟩
        · exact ⟨v2, by simp [m2], by simp only; omega⟩
      · by_cases hc : b.x1 ≤ q.1
        · exact ⟨q, by simp, by simp only; omega⟩
        · exact ⟨v3, by simp [m3], by simp only; omega⟩
      · by_cases hc : b.y1 ≤ q.2
        · exact ⟨q, by simp, by simp only; omega⟩
        · exact ⟨v4, by simp [m4], by simp only; omega⟩

/-- discrete intermediate value: a list with a vertex satisfying `P` and one not satisfying it has two consecutive vertices
on which `P` differs -/
theorem exists_seg_change (P : Pt → Prop) [DecidablePred P] (l : List Pt) (h1 : ∃ v ∈ l, P v) (h2 : ∃ v ∈ l, ¬ P v) :
    ∃ s ∈ segs l, (P s.1 ∧ ¬ P s.2) ∨ (¬ P s.1 ∧ P s.2) := by
  match l with
  | [] => obtain ⟨v, hv, _⟩ := h1; cases hv
  | [a] =>
    obtain ⟨v, hv, pv⟩ := h1; obtain ⟨w, hw, pw⟩ := h2
    simp only [List.mem_singleton] at hv hw
    subst hv; subst hw; exact absurd pv pw
  | a :: b :: rest =>
    by_cases hab : (P a ∧ ¬ P b) ∨ (¬ P a ∧ P b)
    · exact ⟨(a, b), by simp [segs], hab⟩
    · -- P a ↔ P b: the tail still has both kinds
      have hiff : P a ↔ P b := by
        by_cases pa : P a <;> by_cases pb : P b <;> simp_all
      have t1 : ∃ v ∈ b :: rest, P v := by
        obtain ⟨v, hv, pv⟩ := h1
        simp only [List.mem_cons] at hv
        rcases hv with rfl | hv
        · exact ⟨b, by simp, hiff.mp pv⟩
        · exact ⟨v, by simpa using hv, pv⟩
      have t2 : ∃ v ∈ b :: rest, ¬ P v := by
        obtain ⟨v, hv, pv⟩ := h2
        simp only [List.mem_cons] at hv
        rcases hv with rfl | hv
        · exact ⟨b, by simp, fun hb => pv (hiff.mpr hb)⟩
        · exact ⟨v, by simpa using hv, pv⟩
      obtain ⟨s, hs, hc⟩ := exists_seg_change P (b :: rest) t1 t2
      exact ⟨s, by simp [segs, hs], hc⟩

end SpVerif.Geom
