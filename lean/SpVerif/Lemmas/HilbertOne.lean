import SpVerif.Lemmas.HilbertLast
/-!
# C07: in one dimension the curve is the identity (so consecutive distances are neighbours and successive orders refine each other)
-/
namespace SpVerif.Hilbert

theorem transposeWord_one (p h : Nat) (hh : h < 2 ^ p) : transposeWord p 1 0 h = h := by
  apply Nat.eq_of_testBit_eq
  intro e
  unfold transposeWord
  rw [testBit_bitsum]
  simp only [Nat.one_mul, Nat.sub_self, Nat.add_zero]
  by_cases he : e < p
  · simp [he]
  · have : h.testBit e = false := Nat.testBit_lt_two_pow (Nat.lt_of_lt_of_le hh (Nat.pow_le_pow_right (by omega) (by omega)))
    simp [he, this]

theorem step_single (q x : Nat) : step q 0 [x] = [if x.testBit q then x ^^^ (2 ^ q - 1) else x] := by
  unfold step
  by_cases hb : x.testBit q = true
  · simp [hb]
  · simp [hb]

/-- the state of the one-word decode loop after the steps `q < k`: bit `j` is `h_j xor h_k` below `k`, still the Gray bit above -/
theorem undoLoopN_one (h : Nat) : ∀ k, ∃ x, undoLoopN 1 k [h ^^^ (h >>> 1)] = [x] ∧
    ∀ j, x.testBit j = if j < k then (h.testBit j ^^ h.testBit k) else (h.testBit j ^^ h.testBit (j + 1)) := by
  intro k
  induction k using Nat.strongRecOn with
  | _ k ih =>
    match k with
    | 0 => exact ⟨_, rfl, fun j => by simp [Nat.testBit_xor, Nat.testBit_shiftRight, Nat.add_comm]⟩
    | 1 =>
      refine ⟨_, rfl, fun j => ?_⟩
      rw [Nat.testBit_xor, Nat.testBit_shiftRight, Nat.add_comm 1 j]
      by_cases hj : j < 1
      · have : j = 0 := by omega
        subst this; simp
      · simp [hj]
    | k + 2 =>
      obtain ⟨x, hx, hbits⟩ := ih (k + 1) (by omega)
      simp only [undoLoopN, hx]
      have hr : (List.range 1).reverse = [0] := rfl
      rw [hr]
      simp only [List.foldl_cons, List.foldl_nil, step_single]
      refine ⟨_, rfl, ?_⟩
      intro j
      have hk1 : x.testBit (k + 1) = (h.testBit (k + 1) ^^ h.testBit (k + 2)) := by
        rw [hbits (k + 1)]; simp
      have hj := hbits j
      by_cases hb : x.testBit (k + 1) = true
      · rw [if_pos hb, Nat.testBit_xor, ones_testBit, hj]
        rw [hk1] at hb
        by_cases c1 : j < k + 1
        · have c2 : j < k + 2 := by omega
          rw [if_pos c1, if_pos c2]
          simp only [c1, decide_true]
          revert hb; cases h.testBit j <;> cases h.testBit (k + 1) <;> cases h.testBit (k + 2) <;> simp
        · rw [if_neg c1]
          simp only [c1, decide_false, Bool.xor_false]
          by_cases c2 : j < k + 2
          · have : j = k + 1 := by omega
            subst this
            rw [if_pos c2]
          · rw [if_neg c2]
      · rw [if_neg hb, hj]
        rw [hk1] at hb
        by_cases c1 : j < k + 1
        · have c2 : j < k + 2 := by omega
          rw [if_pos c1, if_pos c2]
          revert hb; cases h.testBit j <;> cases h.testBit (k + 1) <;> cases h.testBit (k + 2) <;> simp
        · rw [if_neg c1]
          by_cases c2 : j < k + 2
          · have : j = k + 1 := by omega
            subst this
            rw [if_pos c2]
          · rw [if_neg c2]

/-- **in one dimension the curve is the identity** -/
theorem coordN_one (p h : Nat) (hh : h < 2 ^ p) : coordN p 1 h = [h] := by
  unfold coordN
  have ht : toTranspose p 1 h = [h] := by
    unfold toTranspose
    simp [transposeWord_one p h hh]
  have hg : grayDecodeN [h] = [h ^^^ (h >>> 1)] := by
    unfold grayDecodeN; simp
  rw [ht, hg]
  obtain ⟨x, hx, hbits⟩ := undoLoopN_one h p
  rw [hx]
  congr 1
  apply Nat.eq_of_testBit_eq
  intro j
  rw [hbits j]
  have hp : h.testBit p = false := Nat.testBit_lt_two_pow hh
  by_cases c : j < p
  · rw [if_pos c, hp]; simp
  · rw [if_neg c]
    have h1 : h.testBit j = false := Nat.testBit_lt_two_pow (Nat.lt_of_lt_of_le hh (Nat.pow_le_pow_right (by omega) (by omega)))
    have h2 : h.testBit (j + 1) = false := Nat.testBit_lt_two_pow (Nat.lt_of_lt_of_le hh (Nat.pow_le_pow_right (by omega) (by omega)))
    rw [h1, h2]; rfl

end SpVerif.Hilbert
