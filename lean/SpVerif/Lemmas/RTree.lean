import SpVerif.Model.RTree
/-! Helper lemmas for C03: box containment, monotonicity of the node tests, the query invariant. Core Lean only. -/
namespace SpVerif.RTree

/-- `r` is contained in `b` -/
def Sub (d : Nat) (r b : NBox) : Prop := ∀ k, k < d → lo b k ≤ lo r k ∧ hi d r k ≤ hi d b k

/-- a box is well formed when min ≤ max in every dimension (bounding boxes of geometries are) -/
def WF (d : Nat) (r : NBox) : Prop := ∀ k, k < d → lo r k ≤ hi d r k

theorem getD_append_left {l₁ l₂ : List Int} {k : Nat} (h : k < l₁.length) : (l₁ ++ l₂).getD k 0 = l₁.getD k 0 := by
  simp [List.getD_eq_getElem?_getD, List.getElem?_append_left h]

theorem getD_append_right {l₁ l₂ : List Int} {k : Nat} (h : l₁.length ≤ k) : (l₁ ++ l₂).getD k 0 = l₂.getD (k - l₁.length) 0 := by
  simp [List.getD_eq_getElem?_getD, List.getElem?_append_right h]

theorem lo_union (d : Nat) (a b : NBox) (k : Nat) (h : k < d) : lo (unionBox d a b) k = min (lo a k) (lo b k) := by
  unfold unionBox lo
  rw [getD_append_left (by simpa using h)]
  simp [List.getD_eq_getElem?_getD, List.getElem?_map, List.getElem?_range h]

theorem hi_union (d : Nat) (a b : NBox) (k : Nat) (h : k < d) : hi d (unionBox d a b) k = max (hi d a k) (hi d b k) := by
  unfold unionBox
  show hi d ((List.range d).map _ ++ (List.range d).map _) k = _
  unfold hi
  rw [getD_append_right (by simp)]
  simp [List.getD_eq_getElem?_getD, List.getElem?_map, List.getElem?_range h]

theorem sub_refl (d : Nat) (r : NBox) : Sub d r r := fun _ _ => ⟨Int.le_refl _, Int.le_refl _⟩

theorem sub_trans {d : Nat} {a b c : NBox} (h1 : Sub d a b) (h2 : Sub d b c) : Sub d a c := by
  intro k hk
  have := h1 k hk; have := h2 k hk
  omega

theorem sub_union_left (d : Nat) (a b : NBox) : Sub d a (unionBox d a b) := by
  intro k hk
  rw [lo_union d a b k hk, hi_union d a b k hk]
  omega

theorem sub_union_right (d : Nat) (a b : NBox) : Sub d b (unionBox d a b) := by
  intro k hk
  rw [lo_union d a b k hk, hi_union d a b k hk]
  omega

theorem outside_iff (d : Nat) (q b : NBox) :
    outside d q b = true ↔ ∃ k, k < d ∧ (hi d q k < lo b k ∨ lo q k > hi d b k) := by
  unfold outside
  simp only [List.any_eq_true, List.mem_range, Bool.or_eq_true, decide_eq_true_eq]

theorem inside_iff (d : Nat) (q b : NBox) :
    inside d q b = true ↔ ∀ k, k < d → lo q k ≤ lo b k ∧ hi d b k ≤ hi d q k := by
  unfold inside
  simp only [List.all_eq_true, List.mem_range, Bool.not_eq_true', Bool.or_eq_false_iff, decide_eq_false_iff_not]
  constructor
  · intro h k hk; have := h k hk; omega
  · intro h k hk; have := h k hk; omega

/-- a node box disjoint from the query: everything inside the node is disjoint too -/
theorem outside_mono {d : Nat} {q r b : NBox} (hs : Sub d r b) (h : outside d q b = true) : outside d q r = true := by
  rw [outside_iff] at *
  obtain ⟨k, hk, hc⟩ := h
  have := hs k hk
  exact ⟨k, hk, by omega⟩

/-- a node box inside the query: everything inside the node is inside the query -/
theorem inside_mono {d : Nat} {q r b : NBox} (hs : Sub d r b) (h : inside d q b = true) : inside d q r = true := by
  rw [inside_iff] at *
  intro k hk
  have := hs k hk; have := h k hk
  omega

/-- a well-formed box inside the query overlaps it -/
theorem inside_not_outside {d : Nat} {q r : NBox} (hw : WF d r) (h : inside d q r = true) : outside d q r = false := by
  rw [Bool.eq_false_iff]
  intro ho
  rw [outside_iff] at ho
  rw [inside_iff] at h
  obtain ⟨k, hk, hc⟩ := ho
  have := h k hk; have := hw k hk
  omega

/-! ### the stored node box bounds every row below the node -/

theorem leaf_box_spec (d : Nat) (rs : List Row) (acc : Option NBox) :
    match rs.foldl (fun acc r => unionOpt d acc (some r.2)) acc with
    | none => acc = none ∧ rs = []
    | some b => (∀ a, acc = some a → Sub d a b) ∧ ∀ r ∈ rs, Sub d r.2 b := by
  induction rs generalizing acc with
  | nil =>
    cases acc with
    | none => simp
    | some a => simp only [List.foldl_nil]; exact ⟨fun a' h => by cases h; exact sub_refl d a, by simp⟩
  | cons r rs ih =>
    simp only [List.foldl_cons]
    have := ih (unionOpt d acc (some r.2))
    cases hres : rs.foldl (fun acc r => unionOpt d acc (some r.2)) (unionOpt d acc (some r.2)) with
    | none =>
      rw [hres] at this
      cases acc <;> simp [unionOpt] at this
    | some b =>
      rw [hres] at this
      simp only at this ⊢
      obtain ⟨h1, h2⟩ := this
      cases acc with
      | none =>
        simp only [unionOpt] at h1
        refine ⟨by simp, ?_⟩
        intro x hx
        simp only [List.mem_cons] at hx
        rcases hx with rfl | hx
        · exact h1 _ rfl
        · exact h2 x hx
      | some a =>
        simp only [unionOpt] at h1
        have hu := h1 _ rfl
        refine ⟨fun a' ha' => by cases ha'; exact sub_trans (sub_union_left d a r.2) hu, ?_⟩
        intro x hx
        simp only [List.mem_cons] at hx
        rcases hx with rfl | hx
        · exact sub_trans (sub_union_right d a x.2) hu
        · exact h2 x hx

theorem box_spec (d : Nat) (t : PTree) :
    match t.box d with
    | none => t.rows = []
    | some b => ∀ r ∈ t.rows, Sub d r.2 b := by
  induction t with
  | leaf rs =>
    have := leaf_box_spec d rs none
    simp only [PTree.box, PTree.rows]
    cases h : rs.foldl (fun acc r => unionOpt d acc (some r.2)) none with
    | none => rw [h] at this; exact this.2
    | some b => rw [h] at this; exact this.2
  | node l r ihl ihr =>
    simp only [PTree.box, PTree.rows]
    cases hl : l.box d with
    | none =>
      rw [hl] at ihl
      cases hr : r.box d with
      | none => rw [hr] at ihr; simp [unionOpt, ihl, ihr]
      | some b => rw [hr] at ihr; simp only [unionOpt, ihl, List.nil_append]; exact ihr
    | some a =>
      rw [hl] at ihl
      cases hr : r.box d with
      | none =>
        rw [hr] at ihr
        simp only [unionOpt, ihr, List.append_nil]; exact ihl
      | some b =>
        rw [hr] at ihr
        simp only [unionOpt, List.mem_append]
        intro x hx
        rcases hx with hx | hx
        · exact sub_trans (ihl x hx) (sub_union_left d a b)
        · exact sub_trans (ihr x hx) (sub_union_right d a b)

/-- rows that overlap the query -/
def overlapping (d : Nat) (q : NBox) (rs : List Row) : List Row := rs.filter (fun r => !outside d q r.2)

theorem overlapping_all_outside {d : Nat} {q : NBox} {rs : List Row} (h : ∀ r ∈ rs, outside d q r.2 = true) :
    overlapping d q rs = [] := by
  unfold overlapping
  rw [List.filter_eq_nil_iff]
  intro r hr
  simp [h r hr]

theorem overlapping_all_inside {d : Nat} {q : NBox} {rs : List Row} (hw : ∀ r ∈ rs, WF d r.2)
    (h : ∀ r ∈ rs, inside d q r.2 = true) : overlapping d q rs = rs := by
  unfold overlapping
  rw [List.filter_eq_self]
  intro r hr
  simp [inside_not_outside (hw r hr) (h r hr)]

/-- **the traversal invariant**: covered rows are inside the query, and covered ++ (overlapping maybe-rows) is a
permutation of the overlapping rows below the node -/
theorem query_spec (d : Nat) (q : NBox) (t : PTree) (hw : ∀ r ∈ t.rows, WF d r.2) :
    (∀ r ∈ (query d q t).1, inside d q r.2 = true) ∧
    ((query d q t).1 ++ overlapping d q (query d q t).2).Perm (overlapping d q t.rows) := by
  induction t with
  | leaf rs =>
    have hb := box_spec d (.leaf rs)
    simp only [query]
    cases hbox : (PTree.leaf rs).box d with
    | none =>
      rw [hbox] at hb
      simp only [PTree.rows] at hb
      subst hb
      simp [overlapping, PTree.rows]
    | some b =>
      rw [hbox] at hb
      simp only [PTree.rows] at hb hw ⊢
      cases ho : outside d q b with
      | true =>
        simp only [if_true]
        refine ⟨by simp, ?_⟩
        rw [overlapping_all_outside (fun r hr => outside_mono (hb r hr) ho)]
        simp [overlapping]
      | false =>
        cases hi : inside d q b with
        | true =>
          simp only [Bool.false_eq_true, if_false, if_true]
          refine ⟨fun r hr => inside_mono (hb r hr) hi, ?_⟩
          rw [overlapping_all_inside hw (fun r hr => inside_mono (hb r hr) hi)]
          simp [overlapping]
        | false =>
          simp only [Bool.false_eq_true, if_false]
          exact ⟨by simp, by simp⟩
  | node l r ihl ihr =>
    have hb := box_spec d (.node l r)
    simp only [query]
    have hwl : ∀ x ∈ l.rows, WF d x.2 := fun x hx => hw x (by simp [PTree.rows, hx])
    have hwr : ∀ x ∈ r.rows, WF d x.2 := fun x hx => hw x (by simp [PTree.rows, hx])
    cases hbox : (PTree.node l r).box d with
    | none =>
      rw [hbox] at hb
      simp only at hb
      simp [hb, overlapping]
    | some b =>
      rw [hbox] at hb
      simp only at hb
      cases ho : outside d q b with
      | true =>
        simp only [ho, if_true]
        refine ⟨by simp, ?_⟩
        rw [overlapping_all_outside (fun x hx => outside_mono (hb x hx) ho)]
        simp [overlapping]
      | false =>
        cases hi : inside d q b with
        | true =>
          simp only [ho, hi, Bool.false_eq_true, if_false, if_true]
          refine ⟨fun x hx => inside_mono (hb x hx) hi, ?_⟩
          rw [overlapping_all_inside hw (fun x hx => inside_mono (hb x hx) hi)]
          simp [overlapping]
        | false =>
          simp only [ho, hi, Bool.false_eq_true, if_false]
          obtain ⟨l1, l2⟩ := ihl hwl
          obtain ⟨r1, r2⟩ := ihr hwr
          refine ⟨?_, ?_⟩
          · intro x hx
            simp only [List.mem_append] at hx
            rcases hx with hx | hx
            · exact l1 x hx
            · exact r1 x hx
          · simp only [PTree.rows, overlapping, List.filter_append] at l2 r2 ⊢
            have := List.Perm.append l2 r2
            refine List.Perm.trans ?_ this
            simp only [List.append_assoc]
            apply List.Perm.append_left
            rw [← List.append_assoc, ← List.append_assoc]
            apply List.Perm.append_right
            exact List.perm_append_comm

/-! ### the tree that is actually built holds exactly the given rows -/

theorem build_rows (ps : Nat) (k : Nat) (rs : List Row) : (build ps k rs).rows = rs.take (2 ^ k * ps) := by
  induction k generalizing rs with
  | zero => simp [build, PTree.rows]
  | succ k ih =>
    simp only [build, PTree.rows, ih]
    rw [List.take_take, List.take_drop]
    have e : 2 ^ (k + 1) * ps = 2 ^ k * ps + 2 ^ k * ps := by rw [Nat.pow_succ]; rw [Nat.mul_assoc, Nat.mul_comm 2 ps, ← Nat.mul_assoc]; omega
    rw [e, Nat.min_self]
    conv => rhs; rw [← List.take_append_drop (2 ^ k * ps) (rs.take (2 ^ k * ps + 2 ^ k * ps))]
    congr 1
    all_goals first
      | (rw [List.take_take]; congr 1 <;> omega)
      | (rw [List.drop_take]; congr 1 <;> omega)

theorem le_two_pow_clog2 (m : Nat) : m ≤ 2 ^ clog2 m := by
  unfold clog2
  split
  · have := Nat.two_pow_pos 0; omega
  · have := @Nat.lt_log2_self (m - 1)
    omega

theorem buildTree_rows (ps : Nat) (hps : 1 ≤ ps) (sorted : List Row) : (buildTree ps sorted).rows = sorted := by
  unfold buildTree
  rw [build_rows]
  apply List.take_of_length_le
  have h1 := le_two_pow_clog2 (numPages sorted.length ps)
  have h2 : sorted.length ≤ numPages sorted.length ps * ps := by
    unfold numPages
    have := Nat.div_add_mod (sorted.length + ps - 1) ps
    have := Nat.mod_lt (sorted.length + ps - 1) (by omega : ps > 0)
    rw [Nat.mul_comm]
    omega
  calc sorted.length ≤ numPages sorted.length ps * ps := h2
    _ ≤ 2 ^ clog2 (numPages sorted.length ps) * ps := Nat.mul_le_mul_right ps h1


end SpVerif.RTree
