def hello := "world"
