import SpVerif.Lemmas.CxIndex
/-!
# C04 — .cx selects exactly the intersecting rows, with or without a spatial index

Theorems about the `.cx` model of `Frames` (`_BaseCoordinateIndexer._get_bounds`, `_CoordinateIndexer._perform_get_item`).
The mask path is, by definition, the rows whose element intersects the box, in original order; the indexed path is the sorted
union of the rows the R-tree reports as covered and the overlapping rows that pass the exact test.  `C04_index_irrelevant`:
for every tree holding the array's valid bounds rows (any page size, any arrangement - the Hilbert order for any `p`) and every
box of positive width and height the two paths select the same rows.  It rests on C03 (index exact), on
`elemIB_of_inside` (a covered row intersects: the projection shortcut of the kernels) and `elemIB_overlaps` (an intersecting
row has bounds that overlap the box).  Series / DataFrame wrappers select the same positions through `iloc` / a boolean mask.
-/
namespace SpVerif
open Geom Frames RTree Dask

/-- reversed slice ends are swapped: the box `.cx` uses is always oriented -/
theorem C04_getbounds_oriented (a b c d : Option Int) (t : Box) :
    (getBounds a b c d t).x0 ≤ (getBounds a b c d t).x1 ∧ (getBounds a b c d t).y0 ≤ (getBounds a b c d t).y1 := by
  simp only [getBounds]
  constructor <;> split <;> omega

/-- present slice ends are used as given (up to the swap), omitted ones are the data's total extent on that side -/
theorem C04_getbounds_ends (x0 x1 y0 y1 : Int) (t : Box) (hx : x0 ≤ x1) (hy : y0 ≤ y1) :
    getBounds (some x0) (some x1) (some y0) (some y1) t = ⟨x0, y0, x1, y1⟩ ∧
    getBounds (some x1) (some x0) (some y1) (some y0) t = ⟨x0, y0, x1, y1⟩ ∧
    getBounds none none none none t = orientBox t := by
  refine ⟨?_, ?_, ?_⟩
  · simp only [getBounds, Option.getD_some]
    congr 1 <;> split <;> omega
  · simp only [getBounds, Option.getD_some]
    congr 1 <;> split <;> omega
  · simp [getBounds, orientBox]

/-- **without an index**: exactly the rows whose geometry intersects the box, in their original order -/
theorem C04_cx_exact (b : Box) (els : List (Option Elem)) :
    cxMask b els = (List.range els.length).filter (fun i => elemIB b (els.getD i none)) :=
  cxMask_eq_filter b els

theorem orientBox_id {b : Box} (hx : b.x0 ≤ b.x1) (hy : b.y0 ≤ b.y1) : orientBox b = b := by
  cases b with
  | mk x0 y0 x1 y1 =>
    simp only at hx hy
    simp only [orientBox, Box.mk.injEq]
    refine ⟨?_, ?_, ?_, ?_⟩ <;> split <;> omega

/-- **the spatial index is irrelevant**: for every tree over the array's bounds rows and every box of positive width and height
the indexed path selects exactly the rows of the mask path -/
theorem C04_index_irrelevant (t : PTree) (b : Box) (els : List (Option Elem))
    (hrows : t.rows.Perm (validRows els)) (hx : b.x0 < b.x1) (hy : b.y0 < b.y1) :
    cxFromTree t b els = cxMask b els := by
  have hor : orientBox b = b := orientBox_id (by omega) (by omega)
  have hpos : zeroAreaBox (orientBox b) = false := by
    rw [hor]; simp [zeroAreaBox]; omega
  have hwf : ∀ r ∈ t.rows, WF 2 r.2 := fun r hr => validRows_wf els r (hrows.subset hr)
  have hkeys : (t.rows.map (·.1)).Nodup := (List.Perm.map _ hrows).nodup_iff.mpr (validRows_keys_nodup els)
  obtain ⟨hc, ho⟩ := C03_covers_overlaps_exact 2 t (nbox b) hwf
  -- characterise the rows of the tree
  have hmem : ∀ i bx, (i, bx) ∈ t.rows ↔ ∃ e, els[i]? = some e ∧ elemBounds e = some bx := by
    intro i bx
    rw [← mem_validRows]
    exact ⟨fun h => hrows.subset h, fun h => hrows.symm.subset h⟩
  set ib := fun i => elemIB b (els.getD i none) with hib
  set L := (coversOverlaps 2 t (nbox b)).1 ++ (coversOverlaps 2 t (nbox b)).2.filter ib with hL
  -- membership
  have hLmem : ∀ i, i ∈ L ↔ (i < els.length ∧ ib i = true) := by
    intro i
    simp only [hL, List.mem_append, List.mem_filter]
    constructor
    · rintro (h1 | ⟨h2, hi⟩)
      · have := hc.subset h1
        simp only [List.mem_map, List.mem_filter] at this
        obtain ⟨⟨i', bx⟩, ⟨hr, hins⟩, rfl⟩ := this
        obtain ⟨e, he, hbx⟩ := (hmem i' bx).mp hr
        have hlt : i' < els.length := by
          rcases Nat.lt_or_ge i' els.length with h | h
          · exact h
          · rw [List.getElem?_eq_none h] at he; cases he
        refine ⟨hlt, ?_⟩
        cases e with
        | none => simp [elemBounds] at hbx
        | some e =>
          simp only [elemBounds, Option.map_eq_some_iff] at hbx
          obtain ⟨bb, hbb, rfl⟩ := hbx
          have hsub : BoxSub bb b := (inside_nbox b bb).mp hins
          have := elemIB_of_inside b e bb hbb hpos (by rw [hor]; exact hsub)
          simp only [hib, List.getD_eq_getElem?_getD, he, Option.getD_some]
          exact this
      · have := ho.subset h2
        simp only [List.mem_map, List.mem_filter] at this
        obtain ⟨⟨i', bx⟩, ⟨hr, _⟩, rfl⟩ := this
        obtain ⟨e, he, _⟩ := (hmem i' bx).mp hr
        have hlt : i' < els.length := by
          rcases Nat.lt_or_ge i' els.length with h | h
          · exact h
          · rw [List.getElem?_eq_none h] at he; cases he
        exact ⟨hlt, hi⟩
    · rintro ⟨hlt, hi⟩
      have hget : els[i]? = some (els.getD i none) := by
        simp [List.getD_eq_getElem?_getD, List.getElem?_eq_getElem hlt]
      cases hel : els.getD i none with
      | none =>
        have : ib i = false := by simp only [hib, hel]; rfl
        rw [this] at hi; cases hi
      | some e =>
        simp only [hib, hel] at hi
        obtain ⟨bb, hbb, hout⟩ := elemIB_overlaps b e hi
        rw [hor] at hout
        have hrow : (i, nbox bb) ∈ t.rows := (hmem i (nbox bb)).mpr ⟨some e, by rw [hget, hel], elemBounds_eq e bb hbb⟩
        have hno : outside 2 (nbox b) (nbox bb) = false := by rw [outside_nbox]; exact hout
        cases hins : inside 2 (nbox b) (nbox bb) with
        | true =>
          left
          apply hc.symm.subset
          simp only [List.mem_map, List.mem_filter]
          exact ⟨(i, nbox bb), ⟨hrow, hins⟩, rfl⟩
        | false =>
          right
          refine ⟨?_, by simp only [hib, hel]; exact hi⟩
          apply ho.symm.subset
          simp only [List.mem_map, List.mem_filter]
          exact ⟨(i, nbox bb), ⟨hrow, by simp [hno, hins]⟩, rfl⟩
  -- no duplicates
  have hnd : L.Nodup := by
    have n1 : ((t.rows.filter (fun r => inside 2 (nbox b) r.2)).map (·.1)).Nodup :=
      (hkeys.sublist (List.Sublist.map _ List.filter_sublist))
    have n2 : ((t.rows.filter (fun r => !outside 2 (nbox b) r.2 && !inside 2 (nbox b) r.2)).map (·.1)).Nodup :=
      (hkeys.sublist (List.Sublist.map _ List.filter_sublist))
    rw [hL, List.nodup_append]
    refine ⟨hc.nodup_iff.mpr n1, (ho.nodup_iff.mpr n2).filter _, ?_⟩
    intro x hx1 y hy2 hxy
    subst hxy
    have h1 := hc.subset hx1
    have h2 := ho.subset (List.mem_of_mem_filter hy2)
    simp only [List.mem_map, List.mem_filter] at h1 h2
    obtain ⟨⟨i1, b1⟩, ⟨hr1, hi1⟩, e1⟩ := h1
    obtain ⟨⟨i2, b2⟩, ⟨hr2, hi2⟩, e2⟩ := h2
    simp only at e1 e2
    subst e1
    subst e2
    have := key_unique hkeys hr1 hr2
    subst this
    simp [hi1] at hi2
  -- both sides are sorted lists without duplicates over the same members
  unfold cxFromTree
  simp only
  rw [cxMask_eq_filter]
  have hsortedR : ((List.range els.length).filter ib).Pairwise (fun a b => decide (a ≤ b) = true) := by
    have : (List.range els.length).Pairwise (· < ·) := List.pairwise_lt_range
    exact (List.Pairwise.sublist List.filter_sublist this).imp (fun h => by simp; omega)
  have hsortedL : (sortNat L).Pairwise (fun a b => decide (a ≤ b) = true) :=
    (sortNat_sorted L).imp (fun h => by simpa using h)
  have hperm : (sortNat L).Perm ((List.range els.length).filter ib) := by
    refine (sortNat_perm L).trans ?_
    rw [List.perm_ext_iff_of_nodup hnd (List.nodup_range.filter _)]
    intro i
    rw [hLmem]
    simp [List.mem_filter]
  exact List.Perm.eq_of_pairwise (le := fun a b => decide (a ≤ b))
    (by intro a b _ _ h1 h2; simp only [decide_eq_true_eq] at h1 h2; omega) hsortedL hsortedR hperm

/-- in particular for the tree `build_sindex` lays out, for every page size and every arrangement `sorted` of the valid rows -/
theorem C04_index_irrelevant_built (ps : Nat) (hps : 1 ≤ ps) (sorted : List Row) (b : Box) (els : List (Option Elem))
    (hs : sorted.Perm (validRows els)) (hx : b.x0 < b.x1) (hy : b.y0 < b.y1) :
    cxFromTree (buildTree ps sorted) b els = cxMask b els :=
  C04_index_irrelevant _ b els (by rw [buildTree_rows ps hps]; exact hs) hx hy

/-! non-vacuity: a line array with a missing and an empty row, page size 2 -/
example : cxIndexed 2 [] ⟨0, 0, 3, 4⟩ [some (.line [(0,0),(4,4)]), none, some (.line [(4,0),(4,1)]), some (.line []), some (.line [(1,3),(1,4)])] = [0, 4] := by
  decide

end SpVerif
