import SpVerif.Model.Frames
namespace SpVerif
open Geom Frames
/-- reversed slice ends are swapped: the box `.cx` uses is always oriented -/
theorem C04_getbounds_oriented (a b c d : Option Int) (t : Box) :
    (getBounds a b c d t).x0 ≤ (getBounds a b c d t).x1 ∧ (getBounds a b c d t).y0 ≤ (getBounds a b c d t).y1 := by
  simp only [getBounds]
  constructor <;> split <;> omega
end SpVerif
