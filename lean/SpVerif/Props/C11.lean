import SpVerif.Model.Parquet
import SpVerif.Generated.Registry
namespace SpVerif
open Parquet Generated
/-- every dtype name spatialpandas prints is parsed back to the same (kind, subtype), for every kind registered in
the source tree (regenerated table) and every coordinate subtype -/
theorem C11_dtype_name_roundtrip :
    ∀ k ∈ registeredKinds, ∀ s ∈ subtypes, parseDtype registeredKinds (printDtype k s) = some (k, s) := by decide +kernel
end SpVerif
