import SpVerif.Model.Parquet
import SpVerif.Generated.Registry
import Mathlib.Data.List.Nodup
/-!
# C11 — parquet round trips are lossless

What spatialpandas itself contributes to a round trip is small: the dtype *name* written into the pandas metadata and parsed
back through pandas' extension-dtype registry (this is how kind and coordinate subtype survive), and the column list handed to
pyarrow by `read_parquet(columns=…)`.  Those two are modelled and proved here.  The byte-level encoding and decoding of the
nested Arrow arrays is pyarrow's and is **not** modelled: for it the tie is the differential check alone (every kind × subtype ×
missing/empty/sliced/concatenated arrays × index kinds × compression × partition counts), which is why C11 is claimed as
`partial`.
-/
namespace SpVerif
open Parquet Generated

/-- every dtype name spatialpandas prints is parsed back to the same (kind, subtype), for every kind registered in
the source tree (regenerated table) and every coordinate subtype — in particular no class registered earlier accepts the
name of a later one (`line` versus `multiline`, …) -/
theorem C11_dtype_name_roundtrip :
    ∀ k ∈ registeredKinds, ∀ s ∈ subtypes, parseDtype registeredKinds (printDtype k s) = some (k, s) := by decide +kernel

/-- the bare kind name (no subtype) means float64 -/
theorem C11_bare_name_is_float64 :
    ∀ k ∈ registeredKinds, parseDtype registeredKinds k = some (k, "float64") := by decide +kernel

/-- **`columns=`**: the columns read are the requested ones, in the requested order, preceded by exactly those index columns
that are stored as columns and were not requested — nothing else, and nothing twice -/
theorem C11_projection (indexCols allCols requested : List String) :
    (∃ pre, project indexCols allCols requested = pre ++ requested ∧ ∀ c ∈ pre, c ∈ indexCols ∧ c ∈ allCols ∧ c ∉ requested) ∧
    (∀ c ∈ indexCols, c ∈ allCols → c ∈ project indexCols allCols requested) ∧
    (indexCols.Nodup → requested.Nodup → (project indexCols allCols requested).Nodup) := by
  unfold project
  refine ⟨⟨_, rfl, ?_⟩, ?_, ?_⟩
  · intro c hc
    simp only [List.mem_filter, Bool.and_eq_true, Bool.not_eq_true', List.contains_eq_mem, decide_eq_false_iff_not,
      decide_eq_true_eq] at hc
    exact ⟨hc.1, hc.2.2, hc.2.1⟩
  · intro c hi ha
    by_cases hr : c ∈ requested
    · exact List.mem_append_right _ hr
    · apply List.mem_append_left
      simp only [List.mem_filter, Bool.and_eq_true, Bool.not_eq_true', List.contains_eq_mem, decide_eq_false_iff_not,
        decide_eq_true_eq]
      exact ⟨hi, hr, ha⟩
  · intro h1 h2
    rw [List.nodup_append]
    refine ⟨h1.filter _, h2, ?_⟩
    intro a ha b hb hab
    subst hab
    simp only [List.mem_filter, Bool.and_eq_true, Bool.not_eq_true', List.contains_eq_mem, decide_eq_false_iff_not] at ha
    exact ha.2.1 hb

/-- an index that is not stored as a column (a `RangeIndex`, kept in the metadata only) adds nothing to the request -/
theorem C11_projection_range_index (allCols requested : List String) : project [] allCols requested = requested := by
  simp [project]

/-! non-vacuity -/
example : project ["hilbert_distance"] ["hilbert_distance", "a", "geometry"] ["geometry", "a"] = ["hilbert_distance", "geometry", "a"] := by decide
example : project ["idx"] ["idx", "a", "geometry"] ["a", "idx"] = ["a", "idx"] := by decide

end SpVerif
