import SpVerif.Model.Parquet
import SpVerif.Lemmas.DaskFacts
/-!
# C12 — stored partition bounds are the true extents; pruning never loses a row

Theorems about the metadata model: the natural-sort key orders `part.<i>.parquet` numerically for every number of
partitions (the textual order does not from the eleventh on), re-sorting the loaded bounds rows by their integer key restores
the partition order whatever order the JSON object came back in, and pruning by the recorded extent keeps every partition that
holds a row intersecting the box — given that the recorded extent is the true extent, which is what the correspondence checks
on every dataset it writes.
-/
namespace SpVerif
open Parquet Dask Geom Frames RTree

/-- textual and numeric order of part files differ from the eleventh partition on -/
theorem C12_textual_order_differs : ("part.10.parquet" < "part.2.parquet") = true ∧ keyLe (partKey 2) (partKey 10) = true := by
  decide

/-- the natural-sort key orders part files numerically, for every pair of partition numbers -/
theorem C12_natural_order (i j : Nat) : keyLe (partKey i) (partKey j) = decide (i ≤ j) := by
  simp only [partKey, keyLe]
  by_cases h : i = j
  · subst h; simp [keyLe]
  · have : (Tok.num i == Tok.num j) = false := by
      rw [Bool.eq_false_iff]; intro hc; exact h (by simpa using hc)
    simp [this, Tok.le]

/-- `_load_partition_bounds`: whatever order the rows of the JSON object come back in, sorting them by their integer key
yields the rows in partition order -/
theorem C12_load_restores_order (rows : List (Nat × Nat)) (stored loaded : List (Nat × Nat))
    (hs : stored = (List.range rows.length).zip (rows.map (·.2))) (hp : loaded.Perm stored) :
    (loaded.mergeSort (fun a b => a.1 ≤ b.1)) = stored := by
  have hsorted : stored.Pairwise (fun a b => decide (a.1 ≤ b.1) = true) := by
    subst hs
    have : ((List.range rows.length).zip (rows.map (·.2))).Pairwise (fun a b => a.1 < b.1) := by
      rw [← List.pairwise_map (f := Prod.fst) (R := fun a b => a < b)]
      rw [List.map_fst_zip (by simp)]
      exact List.pairwise_lt_range
    exact this.imp (fun h => by simp; omega)
  have hnd : ∀ a b, a ∈ loaded.mergeSort (fun a b => a.1 ≤ b.1) → b ∈ stored → decide (a.1 ≤ b.1) = true → decide (b.1 ≤ a.1) = true → a = b := by
    intro a b ha hb h1 h2
    simp only [decide_eq_true_eq] at h1 h2
    have ha' : a ∈ stored := hp.subset ((List.mergeSort_perm _ _).subset ha)
    subst hs
    obtain ⟨k, hk, rfl⟩ := List.mem_iff_getElem.mp ha'
    obtain ⟨k', hk', rfl⟩ := List.mem_iff_getElem.mp hb
    simp only [List.getElem_zip, List.getElem_range] at h1 h2 ⊢
    have : k = k' := by omega
    subst this; rfl
  exact List.Perm.eq_of_pairwise (le := fun a b => decide (a.1 ≤ b.1)) hnd
    (List.pairwise_mergeSort (by intro a b c; simp; omega) (by intro a b; simp; omega) loaded)
    hsorted ((List.mergeSort_perm _ _).trans hp)

/-- pruning keeps exactly the partitions whose recorded extent overlaps the closed (oriented) box -/
theorem C12_prune_exact (bx0 by0 bx1 by1 x0 y0 x1 y1 : Int) :
    keepPartition (bx0, by0, bx1, by1) (some (x0, y0, x1, y1)) = true ↔ ¬ (x1 < bx0 ∨ y1 < by0 ∨ x0 > bx1 ∨ y0 > by1) := by
  simp [keepPartition]
  omega

/-- **pruning never loses a row**: if the recorded extent of a partition is the total bounds of its rows, a partition that
holds a row intersecting the box is kept -/
theorem C12_prune_loses_no_row (b : Box) (hb : orientBox b = b) (part : Part) (e : Elem) (he : some e ∈ part)
    (hit : elemIB b (some e) = true) :
    ∃ B, Dask.totalBounds part = some B ∧
      keepPartition (b.x0, b.y0, b.x1, b.y1) (some (lo B 0, lo B 1, hi 2 B 0, hi 2 B 1)) = true := by
  obtain ⟨bb, hbb, ho⟩ := elemIB_overlaps b e hit
  rw [hb] at ho
  obtain ⟨B, hB, hsub⟩ := totalBounds_contains part (some e) he (nbox bb) (elemBounds_eq e bb hbb)
  refine ⟨B, hB, ?_⟩
  rw [C12_prune_exact]
  have h0 := hsub 0 (by omega); have h1 := hsub 1 (by omega)
  simp only [nbox, lo, hi, List.getD_cons_zero, List.getD_cons_succ, show (2 : Nat) + 0 = 2 by rfl, show (2 : Nat) + 1 = 3 by rfl] at h0 h1
  simp only [bboxOutside, Bool.or_eq_false_iff, decide_eq_false_iff_not] at ho
  simp only [lo, hi, show (2 : Nat) + 0 = 2 by rfl, show (2 : Nat) + 1 = 3 by rfl]
  omega

end SpVerif
