import SpVerif.Model.Parquet
namespace SpVerif
open Parquet
/-- textual and numeric order of part files differ from the eleventh partition on, the natural-sort key restores
the numeric order (non-vacuity of the property's "more than ten partitions" clause) -/
theorem C12_textual_order_differs : ("part.10.parquet" < "part.2.parquet") = true ∧ keyLe (partKey 2) (partKey 10) = true := by
  decide
end SpVerif
