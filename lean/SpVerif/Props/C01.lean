import SpVerif.Model.Geom
namespace SpVerif
open Geom
/-- a missing or empty element never intersects: the kernels see no vertex, the bbox is NaN -/
theorem C01_empty_false (b : Box) :
    lineIB b [] = false ∧ multilineIB b [] = false ∧ multipointIB b [] = false ∧
    polygonIB b [] = false ∧ polygonIB b [[]] = false ∧ multipolygonIB b [] = false ∧ multipolygonIB b [[]] = false := by
  refine ⟨?_, ?_, ?_, ?_, ?_, ?_, ?_⟩ <;>
    simp [lineIB, multilineIB, multipointIB, polygonIB, multipolygonIB, lineIBcore, polygonIBcore, bboxOf]
end SpVerif
