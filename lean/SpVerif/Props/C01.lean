import SpVerif.Lemmas.LineBox
import SpVerif.Lemmas.PolyBox
/-!
# C01 — the box-intersection test is geometrically exact for every geometry type

Theorems about the kernel models of `Geom` (`intersection.py`), over exact integer coordinates; the semantic side ("shares a
point with the closed box") is stated with rational points, so it covers every point of every segment.

Proved here for every element and every box: points, multipoints (degenerate boxes included), lines, rings and multilines
(boxes of positive width and height), missing / empty elements, independence of the corner order, and **polygons and
multipolygons** (`C01_polygon_exact`, `C01_multipolygon_exact`): the closed point set of a polygon is read as the points of its
rings together with the points of non-zero winding number of all its rings (`PolyPoint`).  The last step of the kernel - testing
the winding number at the four box corners only - is justified by `Lemmas/WindQ.lean`: the winding number of a closed ring is
constant on every box that contains no point of the ring (`windQ_const_box`, the formalised Appendix B of DESIGN.md) and zero
outside the ring's bounding box (`windQ_far`).  That "non-zero winding number" is "inside the shell and in none of the holes" for
a valid polygon is C02's decision logic plus the Jordan curve theorem for simple rings, which is not proved.
-/
namespace SpVerif
open Geom

/-- `segments_intersect` is exact for two non-degenerate integer segments: True iff they share a point -/
theorem C01_segmentsIntersect_iff (a0 a1 b0 b1 : Pt) (ha : a0 ≠ a1) (hb : b0 ≠ b1) :
    segmentsIntersect a0 a1 b0 b1 = true ↔ SegMeet a0 a1 b0 b1 :=
  segmentsIntersect_iff a0 a1 b0 b1 ha hb

theorem orientBox_pos {bx : Box} (hx : bx.x0 ≠ bx.x1) (hy : bx.y0 ≠ bx.y1) :
    (orientBox bx).x0 < (orientBox bx).x1 ∧ (orientBox bx).y0 < (orientBox bx).y1 := by
  simp only [orientBox]
  constructor <;> split <;> omega

theorem zeroArea_false {bx : Box} (hx : bx.x0 ≠ bx.x1) (hy : bx.y0 ≠ bx.y1) : zeroAreaBox (orientBox bx) = false := by
  have := orientBox_pos hx hy
  simp only [zeroAreaBox, Bool.or_eq_false_iff, beq_eq_false_iff_ne]
  omega

/-- **lines and rings**: for every box of positive width and height (corners in any order) the test is True exactly when the
closed point set of the line - its vertices and segments - shares a point with the closed box -/
theorem C01_line_exact (bx : Box) (hx : bx.x0 ≠ bx.x1) (hy : bx.y0 ≠ bx.y1) (l : List Pt) :
    lineIB bx l = true ↔ ∃ p, LinePoint l p ∧ InBoxQ (orientBox bx) p := by
  obtain ⟨px, py⟩ := orientBox_pos hx hy
  simp only [lineIB, zeroArea_false hx hy, Bool.false_eq_true, if_false]
  exact lineIBcore_iff (orientBox bx) px py l

/-- **multilines**: True exactly when some part shares a point with the closed box -/
theorem C01_multiline_exact (bx : Box) (hx : bx.x0 ≠ bx.x1) (hy : bx.y0 ≠ bx.y1) (ls : List (List Pt)) :
    multilineIB bx ls = true ↔ ∃ l ∈ ls, ∃ p, LinePoint l p ∧ InBoxQ (orientBox bx) p := by
  obtain ⟨px, py⟩ := orientBox_pos hx hy
  simp only [multilineIB, zeroArea_false hx hy, Bool.false_eq_true, if_false, List.any_eq_true]
  constructor
  · rintro ⟨l, hl, h⟩; exact ⟨l, hl, (lineIBcore_iff _ px py l).mp h⟩
  · rintro ⟨l, hl, h⟩; exact ⟨l, hl, (lineIBcore_iff _ px py l).mpr h⟩

/-- **points** (degenerate boxes included): True exactly when the point lies in the closed box -/
theorem C01_point_exact (bx : Box) (p : Pt) : pointIB bx p = true ↔ InBoxQ (orientBox bx) ((p.1 : ℚ), (p.2 : ℚ)) := by
  simp only [pointIB, inBox_iff]
  exact ⟨inBoxQ_of_has, has_of_inBoxQ⟩

/-- **multipoints** (degenerate boxes included): True exactly when one of the points lies in the closed box -/
theorem C01_multipoint_exact (bx : Box) (ps : List Pt) :
    multipointIB bx ps = true ↔ ∃ p ∈ ps, InBoxQ (orientBox bx) ((p.1 : ℚ), (p.2 : ℚ)) := by
  simp only [multipointIB, List.any_eq_true, inBox_iff]
  constructor
  · rintro ⟨p, hp, h⟩; exact ⟨p, hp, inBoxQ_of_has h⟩
  · rintro ⟨p, hp, h⟩; exact ⟨p, hp, has_of_inBoxQ h⟩

/-- a missing or empty element never intersects: the kernels see no vertex, the bbox is NaN -/
theorem C01_empty_false (b : Box) :
    lineIB b [] = false ∧ multilineIB b [] = false ∧ multipointIB b [] = false ∧
    polygonIB b [] = false ∧ polygonIB b [[]] = false ∧ multipolygonIB b [] = false ∧ multipolygonIB b [[]] = false := by
  refine ⟨?_, ?_, ?_, ?_, ?_, ?_, ?_⟩ <;>
    simp [lineIB, multilineIB, multipointIB, polygonIB, multipolygonIB, lineIBcore, polygonIBcore, bboxOf]

/-- **corner order**: the answer depends on the box only through its oriented form, so all four ways of giving the corners
agree, for every kind -/
theorem C01_corner_order (x0 y0 x1 y1 : Int) :
    orientBox ⟨x1, y0, x0, y1⟩ = orientBox ⟨x0, y0, x1, y1⟩ ∧ orientBox ⟨x0, y1, x1, y0⟩ = orientBox ⟨x0, y0, x1, y1⟩ ∧
    orientBox ⟨x1, y1, x0, y0⟩ = orientBox ⟨x0, y0, x1, y1⟩ := by
  simp only [orientBox, Box.mk.injEq]
  refine ⟨⟨?_, ?_, ?_, ?_⟩, ⟨?_, ?_, ?_, ?_⟩, ⟨?_, ?_, ?_, ?_⟩⟩ <;>
    first
      | trivial
      | omega
      | (split <;> split <;> omega)
      | (split <;> omega)

/-- **polygons**: for every box of positive width and height (corners in any order) and every polygon with closed rings whose
holes lie within the bounding box of the shell, the test is True exactly when the closed point set of the polygon - ring points
and points of non-zero winding number - shares a point with the closed box -/
theorem C01_polygon_exact (bx : Box) (hx : bx.x0 ≠ bx.x1) (hy : bx.y0 ≠ bx.y1) (shell : List Pt) (holes : List (List Pt))
    (hcl : ∀ r ∈ shell :: holes, Closed r) (hsh : bboxOf (shell :: holes).flatten = bboxOf shell) :
    polygonIB bx (shell :: holes) = true ↔ ∃ q : QPt, InBoxQ (orientBox bx) q ∧ PolyPoint (shell :: holes) q := by
  obtain ⟨px, py⟩ := orientBox_pos hx hy
  exact polygonIBcore_iff (orientBox bx) px py shell holes hcl hsh

/-- the polygons a multipolygon may consist of: a shell with holes, all rings closed, holes within the shell's bounding box -/
def PolyOK (rings : List (List Pt)) : Prop :=
  ∃ shell holes, rings = shell :: holes ∧ (∀ r ∈ shell :: holes, Closed r) ∧ bboxOf (shell :: holes).flatten = bboxOf shell

/-- **multipolygons**: True exactly when some part shares a point with the closed box -/
theorem C01_multipolygon_exact (bx : Box) (hx : bx.x0 ≠ bx.x1) (hy : bx.y0 ≠ bx.y1) (parts : List (List (List Pt)))
    (hok : ∀ part ∈ parts, PolyOK part) :
    multipolygonIB bx parts = true ↔ ∃ part ∈ parts, ∃ q : QPt, InBoxQ (orientBox bx) q ∧ PolyPoint part q := by
  obtain ⟨px, py⟩ := orientBox_pos hx hy
  simp only [multipolygonIB, List.any_eq_true]
  constructor
  · rintro ⟨part, hp, h⟩
    obtain ⟨shell, holes, rfl, hcl, hsh⟩ := hok part hp
    exact ⟨_, hp, (polygonIBcore_iff _ px py shell holes hcl hsh).mp h⟩
  · rintro ⟨part, hp, h⟩
    obtain ⟨shell, holes, rfl, hcl, hsh⟩ := hok part hp
    exact ⟨_, hp, (polygonIBcore_iff _ px py shell holes hcl hsh).mpr h⟩

/-! non-vacuity: a square with a square hole meets the hypotheses; a box inside the hole does not intersect, a box inside the
ring of material does -/
example : PolyOK [[(0,0),(9,0),(9,9),(0,9),(0,0)], [(3,3),(3,6),(6,6),(6,3),(3,3)]] := by
  refine ⟨_, _, rfl, ?_, by decide⟩
  intro r hr
  simp only [List.mem_cons, List.mem_nil_iff, or_false] at hr
  rcases hr with rfl | rfl <;> exact ⟨by decide, by decide⟩
example : polygonIB ⟨4, 4, 5, 5⟩ [[(0,0),(9,0),(9,9),(0,9),(0,0)], [(3,3),(3,6),(6,6),(6,3),(3,3)]] = false ∧
          polygonIB ⟨1, 1, 2, 2⟩ [[(0,0),(9,0),(9,9),(0,9),(0,0)], [(3,3),(3,6),(6,6),(6,3),(3,3)]] = true := by decide

/-- polygons, boundary part (a lemma kept from before the full theorem): whenever a vertex of some ring lies in the box, or a ring segment meets a box edge,
the polygon kernel answers True -/
theorem C01_polygon_boundary_partial (b : Box) (rings : List (List Pt)) (bb : Box) (hbb : bboxOf rings.flatten = some bb)
    (hout : bboxOutside bb b = false)
    (h : (∃ v ∈ rings.flatten, BoxHas b v) ∨ ∃ r ∈ rings, ∃ s ∈ segs r, segBoxEdges b s = true) :
    polygonIBcore b rings = true := by
  unfold polygonIBcore
  simp only [hbb, hout, Bool.false_eq_true, if_false]
  split
  · rfl
  · split
    · rfl
    · next hv =>
      rcases h with ⟨v, hv1, hv2⟩ | ⟨r, hr, s, hs, he⟩
      · exact absurd (List.any_eq_true.mpr ⟨v, hv1, (inBox_iff b v).mpr hv2⟩) hv
      · have : rings.any (fun r => (segs r).any (segBoxEdges b)) = true :=
          List.any_eq_true.mpr ⟨r, hr, List.any_eq_true.mpr ⟨s, hs, he⟩⟩
        simp [this]

/-! non-vacuity: a line whose only contact with the box is the interior of a segment passing through a box corner -/
example : lineIB ⟨3, 3, 1, 1⟩ [(0, 1), (1, 0)] = false ∧ lineIB ⟨3, 3, 1, 1⟩ [(0, 2), (2, 0)] = true ∧
    lineIB ⟨1, 1, 3, 3⟩ [(0, 2), (2, 4)] = true := by decide

end SpVerif
