import SpVerif.Model.PackFS
import SpVerif.Model.PackProto
import Mathlib.Data.List.Perm.Basic
/-!
# C10 — pack_partitions_to_parquet leaves a complete, clean, re-readable dataset

`C10_contiguous`: the renumbering step (the only place where a part file is moved onto another name): for every pattern of
empty output partitions the moves, executed in the coded order, never overwrite a live file and leave exactly the non-empty
parts, in their Hilbert order, numbered 0..m-1.
`C10_final_tree`: the whole fault-free protocol (`Model/PackProto.lean`): for every number of output and input partitions, every
pattern of empty cells, every temporary-directory mode, a prior dataset with `overwrite=True`, and **every order in which the
concatenation tasks run**, the run ends with exactly the part files `0 … m-1` (holding the non-empty partitions in order) and the
two metadata files - no placeholder directory, no temporary directory, no sub-part file, no `{uuid}` directory, nothing of the
prior dataset.  The model's final tree is compared with the real directory tree on every correspondence case; the parquet
encoding of the files is pyarrow's.
-/
namespace SpVerif
open PackFS PackProto

/-- strictly increasing indices, all at least `j` -/
def IncFrom : Nat → List Nat → Prop
  | _, [] => True
  | j, i :: rest => j ≤ i ∧ IncFrom (i + 1) rest

theorem incFrom_mono {j j' : Nat} {l : List Nat} (h : IncFrom j l) (hj : j' ≤ j) : IncFrom j' l := by
  cases l with
  | nil => trivial
  | cons i rest => exact ⟨by have := h.1; omega, h.2⟩

theorem incFrom_mem {j : Nat} {l : List Nat} (h : IncFrom j l) : ∀ x ∈ l, j ≤ x := by
  induction l generalizing j with
  | nil => intro x hx; cases hx
  | cons i rest ih =>
    intro x hx
    simp only [List.mem_cons] at hx
    rcases hx with rfl | hx
    · exact h.1
    · have := ih h.2 x hx; have := h.1; omega

theorem applyMove_perm {s t : St} (h : s.Perm t) (m : Nat × Nat) : (applyMove s m).Perm (applyMove t m) := by
  unfold applyMove
  have hany : s.any (fun e => e.1 == m.1) = t.any (fun e => e.1 == m.1) := by
    rw [Bool.eq_iff_iff]
    simp only [List.any_eq_true]
    constructor
    · rintro ⟨x, hx, hp⟩; exact ⟨x, h.subset hx, hp⟩
    · rintro ⟨x, hx, hp⟩; exact ⟨x, h.symm.subset hx, hp⟩
  rw [hany]
  split
  · exact List.Perm.append (List.Perm.map _ (List.Perm.filter _ h)) (List.Perm.filter _ h)
  · exact h

/-- the loop invariant: with the first `j` outputs in place (`done`, all keys `< j`) and the remaining non-empty parts still
under their own index, the rest of the loop puts them at `j, j+1, …` without touching `done` -/
theorem compactFrom_spec (j : Nat) (rest : List Nat) (done s : St) (hinc : IncFrom j rest)
    (hdone : ∀ e ∈ done, e.1 < j) (hs : s.Perm (done ++ rest.map (fun i => (i, i)))) :
    (compactFrom j rest s).Perm (done ++ (List.range' j rest.length).zip rest) := by
  induction rest generalizing j done s with
  | nil => simpa [compactFrom] using hs
  | cons i rest ih =>
    obtain ⟨hji, hrest⟩ := hinc
    simp only [compactFrom]
    have hgt : ∀ x ∈ rest, i + 1 ≤ x := incFrom_mem hrest
    -- the state after this iteration is `done ++ [(j, i)]` followed by the untouched rest
    have key : (if (i != j) = true then applyMove s (i, j) else s).Perm ((done ++ [(j, i)]) ++ rest.map (fun i => (i, i))) := by
      by_cases hij : i = j
      · subst hij
        simp only [bne_self_eq_false, Bool.false_eq_true, if_false]
        refine hs.trans ?_
        simp [List.append_assoc]
      · have hne : (i != j) = true := by simpa using hij
        simp only [hne, if_true]
        refine (applyMove_perm hs (i, j)).trans ?_
        unfold applyMove
        have hany : (done ++ List.map (fun i => (i, i)) (i :: rest)).any (fun e => e.1 == i) = true := by
          simp [List.any_append]
        simp only [hany, if_true]
        have f1 : (done ++ List.map (fun i => (i, i)) (i :: rest)).filter (fun e => e.1 == i) = [(i, i)] := by
          simp only [List.filter_append, List.map_cons, List.filter_cons, beq_self_eq_true, if_true]
          have d0 : done.filter (fun e => e.1 == i) = [] := by
            rw [List.filter_eq_nil_iff]; intro e he; have := hdone e he; simp; omega
          have r0 : (rest.map (fun i => (i, i))).filter (fun e => e.1 == i) = [] := by
            rw [List.filter_eq_nil_iff]; intro e he
            simp only [List.mem_map] at he
            obtain ⟨x, hx, rfl⟩ := he
            have := hgt x hx; simp; omega
          rw [d0, r0]; rfl
        have f2 : (done ++ List.map (fun i => (i, i)) (i :: rest)).filter (fun e => e.1 != i && e.1 != j) = done ++ rest.map (fun i => (i, i)) := by
          simp only [List.filter_append, List.map_cons, List.filter_cons, bne_self_eq_false, Bool.false_and, Bool.false_eq_true, if_false]
          congr 1
          · rw [List.filter_eq_self]; intro e he; have := hdone e he; simp; omega
          · rw [List.filter_eq_self]; intro e he
            simp only [List.mem_map] at he
            obtain ⟨x, hx, rfl⟩ := he
            have := hgt x hx; simp; omega
        rw [f1, f2]
        simp only [List.map_cons, List.map_nil, List.singleton_append, List.append_assoc]
        exact (List.perm_middle (a := (j, i)) (l₁ := done) (l₂ := rest.map (fun i => (i, i)))).symm
    have := ih (j + 1) (done ++ [(j, i)]) _ (incFrom_mono hrest (by omega))
      (by intro e he; simp only [List.mem_append, List.mem_singleton] at he; rcases he with he | rfl; have := hdone e he; omega; simp) key
    refine this.trans ?_
    simp [List.range'_succ, List.append_assoc]

/-- **renumbering is safe and order preserving**: for every strictly increasing list of non-empty output partitions the final
dataset holds exactly their contents under the indices `0 … m-1`, in the same order; nothing is overwritten or lost -/
theorem C10_contiguous (nonEmpty : List Nat) (h : IncFrom 0 nonEmpty) :
    (compact nonEmpty).Perm ((List.range nonEmpty.length).zip nonEmpty) := by
  have := compactFrom_spec 0 nonEmpty [] (initial nonEmpty) h (by simp) (by simp [initial])
  simpa [compact, List.range_eq_range'] using this

/-- when no output partition is empty nothing is moved -/
theorem C10_no_empty_no_moves (k : Nat) : moves (List.range k) = [] := by
  unfold moves
  rw [List.filter_eq_nil_iff]
  intro p hp
  obtain ⟨i, hi, rfl⟩ := List.mem_iff_getElem.mp hp
  simp [List.getElem_zip]

/-! ### the whole protocol -/

theorem incFrom_filter_range' (p : Nat → Bool) (j k : Nat) : IncFrom j ((List.range' j k).filter p) := by
  induction k generalizing j with
  | zero => simp [IncFrom]
  | succ k ih =>
    rw [List.range'_succ, List.filter_cons]
    split
    · exact ⟨Nat.le_refl _, ih (j + 1)⟩
    · exact incFrom_mono (ih (j + 1)) (by omega)

theorem foldl_concat (nIn : Nat) (cells : Nat → Nat → Bool) (order : List Nat) (t : Tree) :
    order.foldl (concat nIn cells) t =
      { t with tmpDirs := t.tmpDirs.filter (fun x => !order.contains x),
               subs := t.subs.filter (fun s => !order.contains s.1),
               placeholders := t.placeholders.filter (fun x => !order.contains x),
               files := t.files ++ (order.filter (nonEmptyPart nIn cells)).map (fun i => (i, i)) } := by
  induction order generalizing t with
  | nil => simp
  | cons i rest ih =>
    rw [List.foldl_cons, ih]
    simp only [concat, List.filter_filter, List.contains_cons, Bool.not_or]
    have c1 : ∀ (l : List Nat), l.filter (fun a => (!rest.contains a) && (a != i)) = l.filter (fun x => (!(x == i)) && !rest.contains x) := by
      intro l; apply List.filter_congr; intro x _; rw [Bool.and_comm]; rfl
    have c2 : ∀ (l : List (Nat × Nat)), l.filter (fun a => (!rest.contains a.1) && (a.1 != i)) = l.filter (fun s => (!(s.1 == i)) && !rest.contains s.1) := by
      intro l; apply List.filter_congr; intro x _; rw [Bool.and_comm]; rfl
    rw [c1, c1, c2]
    by_cases hne : nonEmptyPart nIn cells i = true
    · simp [hne, List.filter_cons, List.append_assoc]
    · simp [hne, List.filter_cons]

/-- **the whole fault-free run leaves a complete, clean dataset**, whatever the order of the concatenation tasks -/
theorem C10_final_tree (m : Mode) (overwrite : Bool) (n nIn : Nat) (cells : Nat → Nat → Bool) (order : List Nat)
    (hperm : order.Perm (List.range n)) (t₀ : Tree) (h0 : overwrite = true ∨ t₀ = PackProto.empty)
    (hext : t₀.tmpDirs = [] ∧ t₀.subs = [] ∧ t₀.uuidDir = false) :
    let t := run m overwrite n nIn cells order t₀
    let ne := nonEmptyList n nIn cells
    t.placeholders = [] ∧ t.tmpDirs = [] ∧ t.subs = [] ∧ t.uuidDir = false ∧ t.metaF = true ∧ t.cmetaF = true ∧ t.stale = [] ∧
      t.files.Perm ((List.range ne.length).zip ne) := by
  intro t ne
  obtain ⟨e1, e2, e3⟩ := hext
  -- after the optional removal the relevant part of the tree is clean
  have hclean : ∀ t1 : Tree, t1 = (if overwrite then overwriteRm m t₀ else t₀) →
      t1.placeholders = [] ∧ t1.tmpDirs = [] ∧ t1.subs = [] ∧ t1.files = [] ∧ t1.uuidDir = false ∧ t1.stale = [] := by
    intro t1 ht1
    rcases h0 with h | h
    · subst h
      simp only [if_true] at ht1
      subst ht1
      refine ⟨rfl, e1, ?_, rfl, e3, rfl⟩
      show (if m = Mode.inside then [] else t₀.subs) = []
      split
      · rfl
      · exact e2
    · subst h
      cases overwrite <;> simp at ht1 <;> subst ht1 <;> simp [overwriteRm, PackProto.empty]
  obtain ⟨c1, c2, c3, c4, c5, c6⟩ := hclean _ rfl
  have hin : ∀ x, x < n → order.contains x = true := by
    intro x hx
    rw [List.contains_iff_mem]
    exact hperm.symm.subset (List.mem_range.mpr hx)
  have hmem : ∀ x, x < n → x ∈ order := fun x hx => hperm.symm.subset (List.mem_range.mpr hx)
  have hfiles : t.files = compactFrom 0 ne ((order.filter (nonEmptyPart nIn cells)).map (fun i => (i, i))) := by
    simp only [t, PackProto.run, metadata, renumber, cleanup, foldl_concat, writeSubs, scaffold, c4, List.nil_append, ne]
  refine ⟨?_, ?_, ?_, ?_, ?_, ?_, ?_, ?_⟩
  · simp only [t, PackProto.run, metadata, renumber, cleanup, foldl_concat, writeSubs, scaffold, c1, List.nil_append]
    rw [List.filter_eq_nil_iff]
    intro x hx
    simpa using hmem x (List.mem_range.mp hx)
  · simp only [t, PackProto.run, metadata, renumber, cleanup, foldl_concat, writeSubs, scaffold, c2]
    split
    · simp
    · rw [List.nil_append, List.filter_eq_nil_iff]
      intro x hx
      simpa using hmem x (List.mem_range.mp hx)
  · simp only [t, PackProto.run, metadata, renumber, cleanup, foldl_concat, writeSubs, scaffold, c3, List.nil_append]
    rw [List.filter_eq_nil_iff]
    intro s hs
    simp only [List.mem_flatMap, List.mem_map, List.mem_filter, List.mem_range] at hs
    obtain ⟨i, hi, j, _, rfl⟩ := hs
    simpa using hmem i hi
  · simp [t, PackProto.run, metadata, renumber, cleanup]
  · simp [t, PackProto.run, metadata]
  · simp [t, PackProto.run, metadata]
  · simp only [t, PackProto.run, metadata, renumber, cleanup, foldl_concat, writeSubs, scaffold, c6]
  · rw [hfiles]
    have hinc : IncFrom 0 ne := by
      have := incFrom_filter_range' (nonEmptyPart nIn cells) 0 n
      simpa [ne, nonEmptyList, List.range_eq_range'] using this
    have hs : ((order.filter (nonEmptyPart nIn cells)).map (fun i => (i, i))).Perm ([] ++ ne.map (fun i => (i, i))) := by
      simp only [List.nil_append, ne, nonEmptyList]
      exact List.Perm.map _ (List.Perm.filter _ hperm)
    have := compactFrom_spec 0 ne [] _ hinc (by simp) hs
    simpa [List.range_eq_range'] using this

/-! non-vacuity: 4 output partitions (1 and 2 empty), 2 input partitions, external `{uuid}` temp dir, overwrite of a prior
dataset of 6 parts, concatenation tasks finishing in the order 2,0,3,1 -/
example :
    run .outsideUuid true 4 2 (fun i j => (i == 0 && j == 0) || (i == 3)) [2, 0, 3, 1]
      { PackProto.empty with files := [(0, 1000), (5, 1005)], metaF := true, cmetaF := true }
    = { PackProto.empty with files := [(1, 3), (0, 0)], metaF := true, cmetaF := true } := by decide

/-! non-vacuity: output partitions 1, 2 and 5 of 0..7 are empty -/
example : IncFrom 0 [0, 3, 4, 6, 7] ∧ compact [0, 3, 4, 6, 7] = [(4, 7), (3, 6), (2, 4), (1, 3), (0, 0)] := by
  refine ⟨by simp [IncFrom], by decide⟩

end SpVerif
