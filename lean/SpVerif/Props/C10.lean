import SpVerif.Model.PackFS
namespace SpVerif
open PackFS
/-- when no output partition is empty nothing is moved -/
theorem C10_no_empty_no_moves (k : Nat) : moves (List.range k) = [] := by
  unfold moves
  induction k with
  | zero => rfl
  | succ k ih =>
    simp only [List.length_range] at *
    rw [List.filter_eq_nil_iff]
    intro p hp
    have := List.of_mem_zip hp
    simp only [List.mem_range] at this
    have h2 : p.1 = p.2 := by
      obtain ⟨i, hi, rfl⟩ := List.mem_iff_getElem.mp hp
      simp [List.getElem_zip]
    simp [h2]
end SpVerif
