import SpVerif.Model.PackFS
import Mathlib.Data.List.Perm.Basic
/-!
# C10 — pack_partitions_to_parquet leaves a complete, clean, re-readable dataset

Theorem about the renumbering step (the only place where a part file is moved onto another name): for every pattern of
empty output partitions the moves, executed in the coded order, never overwrite a live file and leave exactly the non-empty
parts, in their Hilbert order, numbered 0..m-1.  The rest of the protocol (directory layout, temporary directories,
overwrite) is checked on the real filesystem by the correspondence; the Lean model does not cover it yet (partial).
-/
namespace SpVerif
open PackFS

/-- strictly increasing indices, all at least `j` -/
def IncFrom : Nat → List Nat → Prop
  | _, [] => True
  | j, i :: rest => j ≤ i ∧ IncFrom (i + 1) rest

theorem incFrom_mono {j j' : Nat} {l : List Nat} (h : IncFrom j l) (hj : j' ≤ j) : IncFrom j' l := by
  cases l with
  | nil => trivial
  | cons i rest => exact ⟨by have := h.1; omega, h.2⟩

theorem incFrom_mem {j : Nat} {l : List Nat} (h : IncFrom j l) : ∀ x ∈ l, j ≤ x := by
  induction l generalizing j with
  | nil => intro x hx; cases hx
  | cons i rest ih =>
    intro x hx
    simp only [List.mem_cons] at hx
    rcases hx with rfl | hx
    · exact h.1
    · have := ih h.2 x hx; have := h.1; omega

theorem applyMove_perm {s t : St} (h : s.Perm t) (m : Nat × Nat) : (applyMove s m).Perm (applyMove t m) := by
  unfold applyMove
  have hany : s.any (fun e => e.1 == m.1) = t.any (fun e => e.1 == m.1) := by
    rw [Bool.eq_iff_iff]
    simp only [List.any_eq_true]
    constructor
    · rintro ⟨x, hx, hp⟩; exact ⟨x, h.subset hx, hp⟩
    · rintro ⟨x, hx, hp⟩; exact ⟨x, h.symm.subset hx, hp⟩
  rw [hany]
  split
  · exact List.Perm.append (List.Perm.map _ (List.Perm.filter _ h)) (List.Perm.filter _ h)
  · exact h

/-- the loop invariant: with the first `j` outputs in place (`done`, all keys `< j`) and the remaining non-empty parts still
under their own index, the rest of the loop puts them at `j, j+1, …` without touching `done` -/
theorem compactFrom_spec (j : Nat) (rest : List Nat) (done s : St) (hinc : IncFrom j rest)
    (hdone : ∀ e ∈ done, e.1 < j) (hs : s.Perm (done ++ rest.map (fun i => (i, i)))) :
    (compactFrom j rest s).Perm (done ++ (List.range' j rest.length).zip rest) := by
  induction rest generalizing j done s with
  | nil => simpa [compactFrom] using hs
  | cons i rest ih =>
    obtain ⟨hji, hrest⟩ := hinc
    simp only [compactFrom]
    have hgt : ∀ x ∈ rest, i + 1 ≤ x := incFrom_mem hrest
    -- the state after this iteration is `done ++ [(j, i)]` followed by the untouched rest
    have key : (if (i != j) = true then applyMove s (i, j) else s).Perm ((done ++ [(j, i)]) ++ rest.map (fun i => (i, i))) := by
      by_cases hij : i = j
      · subst hij
        simp only [bne_self_eq_false, Bool.false_eq_true, if_false]
        refine hs.trans ?_
        simp [List.append_assoc]
      · have hne : (i != j) = true := by simpa using hij
        simp only [hne, if_true]
        refine (applyMove_perm hs (i, j)).trans ?_
        unfold applyMove
        have hany : (done ++ List.map (fun i => (i, i)) (i :: rest)).any (fun e => e.1 == i) = true := by
          simp [List.any_append]
        simp only [hany, if_true]
        have f1 : (done ++ List.map (fun i => (i, i)) (i :: rest)).filter (fun e => e.1 == i) = [(i, i)] := by
          simp only [List.filter_append, List.map_cons, List.filter_cons, beq_self_eq_true, if_true]
          have d0 : done.filter (fun e => e.1 == i) = [] := by
            rw [List.filter_eq_nil_iff]; intro e he; have := hdone e he; simp; omega
          have r0 : (rest.map (fun i => (i, i))).filter (fun e => e.1 == i) = [] := by
            rw [List.filter_eq_nil_iff]; intro e he
            simp only [List.mem_map] at he
            obtain ⟨x, hx, rfl⟩ := he
            have := hgt x hx; simp; omega
          rw [d0, r0]; rfl
        have f2 : (done ++ List.map (fun i => (i, i)) (i :: rest)).filter (fun e => e.1 != i && e.1 != j) = done ++ rest.map (fun i => (i, i)) := by
          simp only [List.filter_append, List.map_cons, List.filter_cons, bne_self_eq_false, Bool.false_and, Bool.false_eq_true, if_false]
          congr 1
          · rw [List.filter_eq_self]; intro e he; have := hdone e he; simp; omega
          · rw [List.filter_eq_self]; intro e he
            simp only [List.mem_map] at he
            obtain ⟨x, hx, rfl⟩ := he
            have := hgt x hx; simp; omega
        rw [f1, f2]
        simp only [List.map_cons, List.map_nil, List.singleton_append, List.append_assoc]
        exact (List.perm_middle (a := (j, i)) (l₁ := done) (l₂ := rest.map (fun i => (i, i)))).symm
    have := ih (j + 1) (done ++ [(j, i)]) _ (incFrom_mono hrest (by omega))
      (by intro e he; simp only [List.mem_append, List.mem_singleton] at he; rcases he with he | rfl; have := hdone e he; omega; simp) key
    refine this.trans ?_
    simp [List.range'_succ, List.append_assoc]

/-- **renumbering is safe and order preserving**: for every strictly increasing list of non-empty output partitions the final
dataset holds exactly their contents under the indices `0 … m-1`, in the same order; nothing is overwritten or lost -/
theorem C10_contiguous (nonEmpty : List Nat) (h : IncFrom 0 nonEmpty) :
    (compact nonEmpty).Perm ((List.range nonEmpty.length).zip nonEmpty) := by
  have := compactFrom_spec 0 nonEmpty [] (initial nonEmpty) h (by simp) (by simp [initial])
  simpa [compact, List.range_eq_range'] using this

/-- when no output partition is empty nothing is moved -/
theorem C10_no_empty_no_moves (k : Nat) : moves (List.range k) = [] := by
  unfold moves
  rw [List.filter_eq_nil_iff]
  intro p hp
  obtain ⟨i, hi, rfl⟩ := List.mem_iff_getElem.mp hp
  simp [List.getElem_zip]

/-! non-vacuity: output partitions 1, 2 and 5 of 0..7 are empty -/
example : IncFrom 0 [0, 3, 4, 6, 7] ∧ compact [0, 3, 4, 6, 7] = [(4, 7), (3, 6), (2, 4), (1, 3), (0, 0)] := by
  refine ⟨by simp [IncFrom], by decide⟩

end SpVerif
