import SpVerif.Model.Join
import SpVerif.Lemmas.DaskJoin
import Mathlib.Data.List.Nodup
import Mathlib.Data.List.Range
/-!
# C05 — spatial join returns exactly the intersecting (left, right) pairs

Theorems about the join model `Join`: the pair table is exactly `{(i, j) | hit left[i] right[j]}`, each pair once; the three
join shapes keep every pair and add exactly one unmatched row per unmatched left (resp. right) row.  `hit` is the exact
predicate of C02 (`Geom.point*`).  pandas' `merge` is modelled relationally (trusted base, compared on every run).
-/
namespace SpVerif
open Join Geom Frames

/-- a missing geometry on either side never matches -/
theorem C05_missing_never_matches (p : Option Pt) (s : Option Elem) : hit none s = false ∧ hit p none = false := by
  constructor
  · rfl
  · cases p <;> rfl

/-- **the pair table is exactly the set of intersecting (left, right) positions** -/
theorem C05_pairs_exact (left : List (Option Pt)) (right : List (Option Elem)) (i j : Nat) :
    (i, j) ∈ pairs left right ↔ i < left.length ∧ j < right.length ∧ hit (left.getD i none) (right.getD j none) = true := by
  unfold pairs
  simp only [List.mem_flatMap, List.mem_range, List.mem_map, List.mem_filter, Prod.mk.injEq]
  constructor
  · rintro ⟨j', hj', i', ⟨hi', hh⟩, rfl, rfl⟩
    exact ⟨hi', hj', hh⟩
  · rintro ⟨hi, hj, hh⟩
    exact ⟨j, hj, i, ⟨hi, hh⟩, rfl, rfl⟩

/-- **no pair is duplicated** -/
theorem C05_pairs_nodup (left : List (Option Pt)) (right : List (Option Elem)) : (pairs left right).Nodup := by
  unfold pairs
  rw [List.nodup_flatMap]
  constructor
  · intro j _
    exact List.Nodup.map (fun a b h => by simpa using h) (List.Nodup.filter _ List.nodup_range)
  · apply List.Pairwise.imp_of_mem _ (List.nodup_range (n := right.length))
    intro j j' _ _ hne
    simp only [Function.onFun, List.disjoint_left, List.mem_map, List.mem_filter, List.mem_range]
    rintro ⟨a, b⟩ ⟨i, _, h1⟩ ⟨i', _, h2⟩
    simp only [Prod.mk.injEq] at h1 h2
    exact hne (h1.2.trans h2.2.symm)

/-- `inner`: exactly one row per intersecting pair -/
theorem C05_inner (left : List (Option Pt)) (right : List (Option Elem)) :
    join .inner left right = (pairs left right).map (fun p => (some p.1, some p.2)) := by
  simp [join]

theorem filter_fst_isEmpty {ps : List (Nat × Nat)} {i : Nat} :
    (ps.filter (fun p => p.1 == i)).isEmpty = true ↔ ∀ j, (i, j) ∉ ps := by
  rw [List.isEmpty_iff, List.filter_eq_nil_iff]
  constructor
  · intro h j hj; exact h (i, j) hj (by simp)
  · rintro h ⟨a, b⟩ hp; simp only [beq_iff_eq]; intro ha; subst ha; exact h b hp

theorem filter_snd_isEmpty {ps : List (Nat × Nat)} {j : Nat} :
    (ps.filter (fun p => p.2 == j)).isEmpty = true ↔ ∀ i, (i, j) ∉ ps := by
  rw [List.isEmpty_iff, List.filter_eq_nil_iff]
  constructor
  · intro h i hi; exact h (i, j) hi (by simp)
  · rintro h ⟨a, b⟩ hp; simp only [beq_iff_eq]; intro hb; subst hb; exact h a hp

/-- `left`: the rows are exactly one row per intersecting pair plus one row `(i, missing)` for every left row without a partner -/
theorem C05_left (left : List (Option Pt)) (right : List (Option Elem)) (x : Option Nat × Option Nat) :
    x ∈ join .left left right ↔
      (∃ i j, (i, j) ∈ pairs left right ∧ x = (some i, some j)) ∨
      (∃ i, i < left.length ∧ (∀ j, (i, j) ∉ pairs left right) ∧ x = (some i, none)) := by
  simp only [join, List.mem_flatMap, List.mem_range]
  constructor
  · rintro ⟨i, hi, hx⟩
    split at hx
    · next he => right; exact ⟨i, hi, filter_fst_isEmpty.mp he, by simpa using hx⟩
    · next he =>
      left
      simp only [List.mem_map, List.mem_filter, beq_iff_eq] at hx
      obtain ⟨⟨a, b⟩, ⟨hp, ha⟩, rfl⟩ := hx
      simp only at ha; subst ha
      exact ⟨a, b, hp, rfl⟩
  · rintro (⟨i, j, hp, rfl⟩ | ⟨i, hi, hn, rfl⟩)
    · have hi : i < left.length := ((C05_pairs_exact left right i j).mp hp).1
      refine ⟨i, hi, ?_⟩
      have : ¬ ((pairs left right).filter (fun p => p.1 == i)).isEmpty = true := fun he => filter_fst_isEmpty.mp he j hp
      rw [if_neg this]
      simp only [List.mem_map, List.mem_filter, beq_iff_eq]
      exact ⟨(i, j), ⟨hp, rfl⟩, rfl⟩
    · exact ⟨i, hi, by simp [filter_fst_isEmpty.mpr hn]⟩

/-- `right`: one row per intersecting pair plus one row `(missing, j)` for every right row without a partner -/
theorem C05_right (left : List (Option Pt)) (right : List (Option Elem)) (x : Option Nat × Option Nat) :
    x ∈ join .right left right ↔
      (∃ i j, (i, j) ∈ pairs left right ∧ x = (some i, some j)) ∨
      (∃ j, j < right.length ∧ (∀ i, (i, j) ∉ pairs left right) ∧ x = (none, some j)) := by
  simp only [join, List.mem_flatMap, List.mem_range]
  constructor
  · rintro ⟨j, hj, hx⟩
    split at hx
    · next he => right; exact ⟨j, hj, filter_snd_isEmpty.mp he, by simpa using hx⟩
    · next he =>
      left
      simp only [List.mem_map, List.mem_filter, beq_iff_eq] at hx
      obtain ⟨⟨a, b⟩, ⟨hp, hb⟩, rfl⟩ := hx
      simp only at hb; subst hb
      exact ⟨a, b, hp, rfl⟩
  · rintro (⟨i, j, hp, rfl⟩ | ⟨j, hj, hn, rfl⟩)
    · have hj : j < right.length := ((C05_pairs_exact left right i j).mp hp).2.1
      refine ⟨j, hj, ?_⟩
      have : ¬ ((pairs left right).filter (fun p => p.2 == j)).isEmpty = true := fun he => filter_snd_isEmpty.mp he i hp
      rw [if_neg this]
      simp only [List.mem_map, List.mem_filter, beq_iff_eq]
      exact ⟨(i, j), ⟨hp, rfl⟩, rfl⟩
    · exact ⟨j, hj, by simp [filter_snd_isEmpty.mpr hn]⟩

/-- no row of any join shape is duplicated (each pair exactly once, each unmatched row exactly once) -/
theorem C05_join_nodup (how : How) (left : List (Option Pt)) (right : List (Option Elem)) : (join how left right).Nodup := by
  have hp := C05_pairs_nodup left right
  cases how with
  | inner =>
    simp only [join]
    exact List.Nodup.map (fun a b h => by
      obtain ⟨a1, a2⟩ := a; obtain ⟨b1, b2⟩ := b; simpa using h) hp
  | left =>
    simp only [join]
    rw [List.nodup_flatMap]
    constructor
    · intro i _
      split
      · simp
      · exact List.Nodup.map (fun a b h => by
          obtain ⟨a1, a2⟩ := a; obtain ⟨b1, b2⟩ := b; simpa using h) (List.Nodup.filter _ hp)
    · apply List.Pairwise.imp_of_mem _ (List.nodup_range (n := left.length))
      intro i i' _ _ hne
      simp only [Function.onFun, List.disjoint_left]
      intro x hx hx'
      have e1 : x.1 = some i := by
        split at hx
        · simp only [List.mem_singleton] at hx; rw [hx]
        · simp only [List.mem_map, List.mem_filter, beq_iff_eq] at hx
          obtain ⟨⟨a, b⟩, ⟨_, ha⟩, rfl⟩ := hx
          simp only at ha; rw [ha]
      have e2 : x.1 = some i' := by
        split at hx'
        · simp only [List.mem_singleton] at hx'; rw [hx']
        · simp only [List.mem_map, List.mem_filter, beq_iff_eq] at hx'
          obtain ⟨⟨a, b⟩, ⟨_, ha⟩, rfl⟩ := hx'
          simp only at ha; rw [ha]
      rw [e1] at e2
      exact hne (Option.some.inj e2)
  | right =>
    simp only [join]
    rw [List.nodup_flatMap]
    constructor
    · intro j _
      split
      · simp
      · exact List.Nodup.map (fun a b h => by
          obtain ⟨a1, a2⟩ := a; obtain ⟨b1, b2⟩ := b; simpa using h) (List.Nodup.filter _ hp)
    · apply List.Pairwise.imp_of_mem _ (List.nodup_range (n := right.length))
      intro j j' _ _ hne
      simp only [Function.onFun, List.disjoint_left]
      intro x hx hx'
      have e1 : x.2 = some j := by
        split at hx
        · simp only [List.mem_singleton] at hx; rw [hx]
        · simp only [List.mem_map, List.mem_filter, beq_iff_eq] at hx
          obtain ⟨⟨a, b⟩, ⟨_, hb⟩, rfl⟩ := hx
          simp only at hb; rw [hb]
      have e2 : x.2 = some j' := by
        split at hx'
        · simp only [List.mem_singleton] at hx'; rw [hx']
        · simp only [List.mem_map, List.mem_filter, beq_iff_eq] at hx'
          obtain ⟨⟨a, b⟩, ⟨_, hb⟩, rfl⟩ := hx'
          simp only at hb; rw [hb]
      rw [e1] at e2
      exact hne (Option.some.inj e2)

/-- **the candidate filter loses no pair**: the pair table as `_sjoin_pandas_pandas` computes it - right rows with NaN bounds
skipped, for every other right row only the left rows that the spatial index reports for its bounds (by C03: those whose box
overlaps), then the exact predicate - is the table of all hits, because a point that intersects a shape lies in the shape's
bounding box (`Join.hit_in_bbox`: equality / membership / the line test's own box reject / winding number 0 outside the box of a
closed ring).  Polygon rings are closed (`WFElem`) -/
theorem C05_index_prefilter_exact (left : List (Option Pt)) (right : List (Option Elem))
    (hw : ∀ e, some e ∈ right → WFElem e) : DaskJoin.pairsIdx left right = pairs left right :=
  DaskJoin.pairsIdx_eq left right hw

/-! non-vacuity: the candidate filter really filters (two of three left rows are no candidates for the polygon), and an unclosed
ring shows why `WFElem` is needed: the coded winding number is non-zero far to the left of a single upward edge -/
example : DaskJoin.cand [some (1, 1), none, some (9, 9)] [0, 0, 4, 4] = [0] ∧
          DaskJoin.pairsIdx [some (1, 1), none, some (9, 9)] [some (.polygon [[(0,0),(4,0),(4,4),(0,4),(0,0)]])] = [(0, 0)] ∧
          hit (some (-5, 1)) (some (.polygon [[(0,0),(0,2)]])) = true := by decide

/-! non-vacuity: a point matching two overlapping polygons, a missing point, an unmatched polygon -/
example : join .left [some (1, 1), none, some (9, 9)]
    [some (.polygon [[(0,0),(4,0),(4,4),(0,4),(0,0)]]), some (.polygon [[(0,0),(2,0),(2,2),(0,2),(0,0)]])]
    = [(some 0, some 0), (some 0, some 1), (some 1, none), (some 2, none)] := by decide

end SpVerif
