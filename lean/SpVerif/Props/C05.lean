import SpVerif.Model.Join
namespace SpVerif
open Join
/-- a missing geometry on either side never matches -/
theorem C05_missing_never_matches (p : Option Geom.Pt) (s : Option Frames.Elem) :
    hit none s = false ∧ hit p none = false := by
  constructor
  · rfl
  · cases p <;> rfl
end SpVerif
