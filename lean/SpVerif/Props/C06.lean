import SpVerif.Model.Dask
namespace SpVerif
open Dask
/-- a frame without partitions has NaN total bounds -/
theorem C06_no_partitions : daskTotalBounds [] = none := rfl
end SpVerif
