import SpVerif.Lemmas.DaskFacts
import SpVerif.Props.C04
import SpVerif.Lemmas.DaskJoin
import Mathlib.Data.List.Induction
/-!
# C06 — a Dask geo frame answers exactly like the pandas frame it represents

Theorems about the partition model `Dask` (a frame = list of partitions = the concatenation): element-wise operations
commute with concatenation, the NaN-ignoring fold of the partition bounds is the total bounds of the concatenation (empty and
all-missing partitions are the unit), and partition selection for `cx` / `cx_partitions` never drops a partition that holds
an intersecting row.  Dask's graph construction and execution are what the correspondence exercises.
-/
namespace SpVerif
open Dask Geom Frames RTree

/-- a frame without partitions has NaN total bounds -/
theorem C06_no_partitions : daskTotalBounds [] = none := rfl

/-- element-wise maps (bounds, area, length, intersects_bounds): mapping every partition and concatenating is mapping the
concatenation -/
theorem C06_elementwise {α β : Type} (f : α → β) (parts : List (List α)) :
    (parts.map (fun p => p.map f)).flatten = parts.flatten.map f := by
  simp [List.map_flatten]

theorem unionBox_assoc (d : Nat) (a b c : NBox) : unionBox d (unionBox d a b) c = unionBox d a (unionBox d b c) := by
  unfold unionBox
  congr 1
  · apply List.map_congr_left
    intro k hk
    have hk' : k < d := by simpa using hk
    have h1 := lo_union d a b k hk'
    have h2 := lo_union d b c k hk'
    unfold unionBox at h1 h2
    rw [h1, h2]; omega
  · apply List.map_congr_left
    intro k hk
    have hk' : k < d := by simpa using hk
    have h1 := hi_union d a b k hk'
    have h2 := hi_union d b c k hk'
    unfold unionBox at h1 h2
    rw [h1, h2]; omega

theorem unionOpt_assoc (d : Nat) (a b c : Option NBox) : unionOpt d (unionOpt d a b) c = unionOpt d a (unionOpt d b c) := by
  cases a <;> cases b <;> cases c <;> simp [unionOpt, unionBox_assoc]

theorem unionOpt_none_right (d : Nat) (a : Option NBox) : unionOpt d a none = a := by cases a <;> rfl
theorem unionOpt_none_left (d : Nat) (a : Option NBox) : unionOpt d none a = a := by cases a <;> rfl

theorem totalBounds_fold (els : List (Option Elem)) (acc : Option NBox) :
    els.foldl (fun acc e => unionOpt 2 acc (elemBounds e)) acc = unionOpt 2 acc (Dask.totalBounds els) := by
  induction els generalizing acc with
  | nil => simp [Dask.totalBounds, unionOpt_none_right]
  | cons e es ih =>
    simp only [List.foldl_cons, Dask.totalBounds]
    rw [ih, ih (unionOpt 2 none (elemBounds e)), unionOpt_none_left, unionOpt_assoc]

theorem totalBounds_append (xs ys : List (Option Elem)) :
    Dask.totalBounds (xs ++ ys) = unionOpt 2 (Dask.totalBounds xs) (Dask.totalBounds ys) := by
  unfold Dask.totalBounds
  rw [List.foldl_append, totalBounds_fold]
  rfl

/-- **total_bounds**: the NaN-ignoring fold of the per-partition bounds equals the total bounds of the concatenated frame,
for every partitioning (empty and all-missing partitions contribute nothing) -/
theorem C06_total_bounds (parts : List Part) : daskTotalBounds parts = Dask.totalBounds parts.flatten := by
  have gen : ∀ (acc : List (Option Elem)),
      (partitionBounds parts).foldl (unionOpt 2) (Dask.totalBounds acc) = Dask.totalBounds (acc ++ parts.flatten) := by
    induction parts with
    | nil => intro acc; simp [partitionBounds]
    | cons p ps ih =>
      intro acc
      simp only [partitionBounds, List.map_cons, List.foldl_cons, List.flatten_cons] at ih ⊢
      rw [← totalBounds_append, ih, List.append_assoc]
  have := gen []
  simpa [daskTotalBounds, Dask.totalBounds] using this

/-- **cx_partitions / cx never lose a row**: every partition that holds a row intersecting the (oriented) box is among the
partitions returned -/
theorem C06_cx_partitions_lose_no_row (b : Box) (hb : orientBox b = b) (parts : List Part) (i : Nat) (hi : i < parts.length)
    (e : Elem) (he : some e ∈ parts.getD i []) (hit : elemIB b (some e) = true) : i ∈ cxPartitions b parts :=
  cxPartitions_keeps b hb parts i hi e he hit

theorem cxPartitions_eq_filter (b : Box) (parts : List Part) :
    cxPartitions b parts = (List.range parts.length).filter
      (fun i => boxOverlaps [b.x0, b.y0, b.x1, b.y1] ((partitionBounds parts).getD i none)) := by
  unfold cxPartitions
  have hl : (partitionBounds parts).length = parts.length := by simp [partitionBounds]
  generalize partitionBounds parts = pbs at hl
  rw [← hl]
  clear hl
  induction pbs using List.reverseRecOn with
  | nil => simp
  | append_singleton xs x ih =>
    rw [List.length_append, List.length_singleton, List.range_succ, List.zip_append (by simp), List.filterMap_append,
      List.filter_append]
    congr 1
    · rw [ih]
      apply List.filter_congr
      intro i hi
      have : i < xs.length := List.mem_range.mp hi
      simp [List.getD_eq_getElem?_getD, List.getElem?_append_left this]
    · simp only [List.filterMap_cons, List.filterMap_nil, List.filter_cons, List.filter_nil, List.getD_eq_getElem?_getD,
        List.getElem?_append_right (Nat.le_refl _), Nat.sub_self, List.getElem?_cons_zero, Option.getD_some]
      cases hx : boxOverlaps [b.x0, b.y0, b.x1, b.y1] x <;> simp [hx]

/-- **Dask `.cx` is the partition-wise pandas `.cx`, pruning is invisible**: the rows returned are exactly, partition after
partition and in their original order, the rows the pandas `.cx` selects in each partition - the partitions dropped by the
partition-level index contribute nothing -/
theorem C06_cx_exact (b : Box) (hb : orientBox b = b) (parts : List Part) :
    daskCx b parts = (List.range parts.length).flatMap (fun i => (cxMask b (parts.getD i [])).map (fun j => (i, j))) := by
  unfold daskCx
  rw [cxPartitions_eq_filter]
  have hdrop : ∀ i ∈ List.range parts.length,
      boxOverlaps [b.x0, b.y0, b.x1, b.y1] ((partitionBounds parts).getD i none) = false →
      (cxMask b (parts.getD i [])).map (fun j => (i, j)) = [] := by
    intro i hi hno
    have hi' := List.mem_range.mp hi
    rw [List.map_eq_nil_iff]
    by_contra hne
    obtain ⟨j, hj⟩ := List.exists_mem_of_ne_nil _ hne
    rw [C04_cx_exact] at hj
    simp only [List.mem_filter, List.mem_range] at hj
    obtain ⟨hjl, hit⟩ := hj
    cases he : (parts.getD i []).getD j none with
    | none => rw [he] at hit; simp [elemIB] at hit
    | some e =>
      rw [he] at hit
      have hmem : some e ∈ parts.getD i [] := by
        have h1 : (parts.getD i [])[j]? = some (some e) := by
          have := he
          rw [List.getD_eq_getElem?_getD, List.getElem?_eq_getElem hjl] at this
          rw [List.getElem?_eq_getElem hjl]
          simpa using this
        exact List.mem_of_getElem? h1
      have hk := cxPartitions_keeps b hb parts i hi' e hmem hit
      rw [cxPartitions_eq_filter] at hk
      simp only [List.mem_filter] at hk
      rw [hk.2] at hno; cases hno
  generalize List.range parts.length = idx at hdrop
  induction idx with
  | nil => rfl
  | cons i rest ih =>
    rw [List.filter_cons]
    have ih' := ih (fun k hk => hdrop k (List.mem_cons_of_mem _ hk))
    split
    · simp only [List.flatMap_cons]; rw [ih']
    · next hf =>
      simp only [List.flatMap_cons]
      rw [hdrop i (by simp) (by simpa using hf), List.nil_append, ih']

/-- only rows that intersect the box are returned, each from a kept partition -/
theorem C06_cx_sound (b : Box) (parts : List Part) (i j : Nat) (h : (i, j) ∈ daskCx b parts) :
    i ∈ cxPartitions b parts ∧ j ∈ cxMask b (parts.getD i []) := by
  unfold daskCx at h
  simp only [List.mem_flatMap, List.mem_map] at h
  obtain ⟨i', hi', j', hj', he⟩ := h
  simp only [Prod.mk.injEq] at he
  obtain ⟨rfl, rfl⟩ := he
  exact ⟨hi', hj'⟩

/-- **sjoin, how='left'**: joining every partition on its own with the right rows whose box overlaps the partition's bounds
(`right_df.iloc[right_sindex.intersects(bounds)]`) and concatenating gives, row for row and in the same order, the left join of the
concatenated frame - for every split of the rows into partitions, empty and all-missing partitions included -/
theorem C06_sjoin_left (parts : List (List (Option Pt))) (right : List (Option Elem))
    (hw : ∀ e, some e ∈ right → Join.WFElem e) :
    DaskJoin.daskJoin .left right (DaskJoin.keepOverlap right) 0 parts = Join.join .left parts.flatten right := by
  rw [DaskJoin.daskJoin_left right _ parts 0 (fun P _ i j hi h => DaskJoin.keepOverlap_sound right hw P i j hi h), DaskJoin.shift_zero]

/-- **sjoin, how='inner'**: the same rows as the inner join of the concatenated frame (pandas orders them by right row, Dask by
partition: equal as multisets); partitions without any candidate contribute nothing, as when they are skipped -/
theorem C06_sjoin_inner (parts : List (List (Option Pt))) (right : List (Option Elem))
    (hw : ∀ e, some e ∈ right → Join.WFElem e) :
    (DaskJoin.daskJoin .inner right (DaskJoin.keepOverlap right) 0 parts).Perm (Join.join .inner parts.flatten right) := by
  have := DaskJoin.daskJoin_inner right _ parts 0 (fun P _ i j hi h => DaskJoin.keepOverlap_sound right hw P i j hi h)
  rwa [DaskJoin.shift_zero] at this

/-- any candidate set that contains the overlapping rows gives the same result (what the index returns for a NaN query box does
not matter) -/
theorem C06_sjoin_pruning_irrelevant (how : Join.How) (hhow : how ≠ .right) (P : List (Option Pt)) (right : List (Option Elem))
    (k : Nat → Bool) (hs : ∀ i j, i < P.length → Join.hit (P.getD i none) (right.getD j none) = true → k j = true) :
    DaskJoin.joinK how P right k = Join.join how P right :=
  DaskJoin.joinK_eq how hhow P right k hs

/-! non-vacuity: two partitions (the second all missing), pruning drops the far polygon for the first partition -/
example : DaskJoin.keepOverlap [some (.polygon [[(0,0),(4,0),(4,4),(0,4),(0,0)]]), some (.polygon [[(50,50),(54,50),(54,54),(50,50)]])]
            [some (1, 1), some (3, 2)] 1 = false ∧
          DaskJoin.daskJoin .left [some (.polygon [[(0,0),(4,0),(4,4),(0,4),(0,0)]]), some (.polygon [[(50,50),(54,50),(54,54),(50,50)]])]
            (DaskJoin.keepOverlap [some (.polygon [[(0,0),(4,0),(4,4),(0,4),(0,0)]]), some (.polygon [[(50,50),(54,50),(54,54),(50,50)]])])
            0 [[some (1, 1), some (3, 2)], [none]] = [(some 0, some 0), (some 1, some 0), (some 2, none)] := by decide

/-! non-vacuity: three partitions, one of them without any bounds -/
example : daskTotalBounds [[some (.line [(0,0),(1,1)]), none], [none], [some (.line [(5,5),(6,6)]), some (.line [(2,2),(9,9)])]]
    = some [0, 0, 9, 9] := by decide

end SpVerif
