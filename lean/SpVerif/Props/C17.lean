import SpVerif.Lemmas.DaskFacts
import SpVerif.Model.Join
import SpVerif.Props.C13
import Mathlib.Data.List.Induction
import SpVerif.Props.C06
import SpVerif.Props.C05
/-!
# C17 — missing and empty geometries are inert

Corollaries over the models of the other properties: an inert element (missing, or without any vertex) satisfies no predicate,
has no bounds, contributes nothing to the total bounds, is never matched by the join, and removing inert rows does not change
what the remaining rows give.  (Index queries: rows without bounds are not in the tree at all — `_build_hilbert_rtree` drops
them — so C03 applies to the remaining rows verbatim.)
-/
namespace SpVerif
open Geom Frames Dask Join RTree

/-- inert = missing, or an element without any vertex -/
def Inert : Option Elem → Prop
  | none => True
  | some e => elemVerts e = []

/-- an inert element never intersects any box -/
theorem C17_box_test (b : Box) (e : Option Elem) (h : Inert e) : elemIB b e = false := by
  cases e with
  | none => rfl
  | some e =>
    rw [Bool.eq_false_iff]
    intro hit
    obtain ⟨bb, hbb, _⟩ := elemIB_overlaps b e hit
    simp only [Inert] at h
    rw [h] at hbb
    simp [bboxOf] at hbb

/-- an inert element reports NaN bounds -/
theorem C17_bounds (e : Option Elem) (h : Inert e) : elemBounds e = none := by
  cases e with
  | none => rfl
  | some e => simp only [Inert] at h; simp [elemBounds, h, bboxOf]

/-- a missing point / shape never matches in the join -/
theorem C17_sjoin (p : Option Pt) (s : Option Elem) : hit none s = false ∧ hit p none = false := by
  constructor
  · rfl
  · cases p <;> rfl

/-- inert rows contribute nothing to total_bounds: inserting them anywhere leaves it unchanged -/
theorem C17_total_bounds (xs ys : List (Option Elem)) (e : Option Elem) (h : Inert e) :
    Dask.totalBounds (xs ++ e :: ys) = Dask.totalBounds (xs ++ ys) := by
  have hb := C17_bounds e h
  have : Dask.totalBounds (e :: ys) = Dask.totalBounds ys := by
    simp [Dask.totalBounds, hb, unionOpt]
  unfold Dask.totalBounds at *
  rw [List.foldl_append, List.foldl_append]
  simp only [List.foldl_cons, hb]
  congr 1
  cases (List.foldl (fun acc e => unionOpt 2 acc (elemBounds e)) none xs) <;> rfl

/-- cx never selects an inert row, and the rows it selects among the others are unchanged when inert rows are removed
(positions shift, the selected elements are the same) -/
theorem C17_cx (b : Box) (els : List (Option Elem)) :
    ((cxMask b els).map (fun i => els.getD i none)) = els.filter (fun e => elemIB b e) := by
  unfold cxMask
  induction els using List.reverseRecOn with
  | nil => rfl
  | append_singleton xs x ih =>
    rw [List.length_append, List.length_singleton, List.range_succ, List.zip_append (by simp)]
    simp only [List.zip_cons_cons, List.zip_nil_right, List.filterMap_append, List.filterMap_cons, List.filterMap_nil, List.map_append,
      List.filter_append]
    congr 1
    · rw [← ih]
      apply List.map_congr_left
      intro i hi
      simp only [List.mem_filterMap, Prod.exists] at hi
      obtain ⟨a, e, hmem, hsome⟩ := hi
      have hlt : a < xs.length := by
        have := List.of_mem_zip hmem
        simpa using this.1
      split at hsome
      · simp only [Option.some.injEq] at hsome; subst hsome
        simp [List.getD_eq_getElem?_getD, List.getElem?_append_left hlt]
      · cases hsome
    · by_cases hx : elemIB b x = true
      · simp [hx, List.getD_eq_getElem?_getD]
      · simp [hx]

theorem C17_cx_inert_removed (b : Box) (xs ys : List (Option Elem)) (e : Option Elem) (h : Inert e) :
    (xs ++ e :: ys).filter (fun x => elemIB b x) = (xs ++ ys).filter (fun x => elemIB b x) := by
  simp [List.filter_append, List.filter_cons, C17_box_test b e h]

/-- the pair table of the join for the other rows is unchanged when an inert right row is removed -/
theorem C17_sjoin_inert_right (left : List (Option Pt)) (right : List (Option Elem)) (i j : Nat)
    (hj : right.getD j none = none) : (i, j) ∉ pairs left right := by
  intro hp
  unfold pairs at hp
  simp only [List.mem_flatMap, List.mem_map, List.mem_filter, List.mem_range, Prod.mk.injEq] at hp
  obtain ⟨j', _, i', ⟨_, hh⟩, rfl, rfl⟩ := hp
  rw [hj] at hh
  cases h : left.getD i' none <;> simp [h, hit] at hh

/-- the same in the Dask join: no row of the Dask left / inner join pairs an inert right row with anything, whatever the partitioning
and the candidate pruning (Dask join = pandas join of the concatenation, C06) -/
theorem C17_dask_sjoin_inert_right (parts : List (List (Option Pt))) (right : List (Option Elem))
    (hw : ∀ e, some e ∈ right → Join.WFElem e) (i j : Nat) (hj : right.getD j none = none) :
    (some i, some j) ∉ DaskJoin.daskJoin .left right (DaskJoin.keepOverlap right) 0 parts ∧
    (some i, some j) ∉ DaskJoin.daskJoin .inner right (DaskJoin.keepOverlap right) 0 parts := by
  constructor
  · rw [C06_sjoin_left parts right hw]
    intro hm
    rcases (C05_left parts.flatten right (some i, some j)).mp hm with ⟨i', j', hp, he⟩ | ⟨_, _, _, he⟩
    · simp only [Prod.mk.injEq, Option.some.injEq] at he
      obtain ⟨rfl, rfl⟩ := he
      exact C17_sjoin_inert_right parts.flatten right i j hj hp
    · simp at he
  · intro hm
    have hp := (C06_sjoin_inner parts right hw).mem_iff.mp hm
    unfold Join.join at hp
    simp only [List.mem_map, Prod.mk.injEq, Option.some.injEq] at hp
    obtain ⟨⟨i', j'⟩, hmem, rfl, rfl⟩ := hp
    exact C17_sjoin_inert_right parts.flatten right i' j' hj hmem

end SpVerif
