import SpVerif.Model.Frames
import SpVerif.Model.Join
namespace SpVerif
open Geom Frames
/-- a missing element never satisfies the box predicate and has no bounds row -/
theorem C17_missing_inert (b : Box) : elemIB b none = false ∧ elemBounds none = none := ⟨rfl, rfl⟩
end SpVerif
