import SpVerif.Lemmas.Area
/-!
# C14 — length, area and boundary are the exact measures of each element

Theorems about the measure model of `Geom` (`compute_area` doubled, `compute_line_length` as the list of squared segment
lengths in summation order).  `sqrt` and the float additions are applied by the harness in the model's order; what is
proved here is structural and arithmetic on exact integers.  Rings are closed (first vertex = last), see DESIGN §2.
-/
namespace SpVerif
open Geom

/-- rings with fewer than three vertices are skipped by the area kernel (`poly_length < 6`) -/
theorem C14_degenerate_ring_zero (r : List Pt) (h : r.length < 3) : ringArea2 r = 0 := by
  simp [ringArea2, h]

/-- **the coded area of a closed ring is the shoelace area** `½ Σ (x_i y_{i+1} - x_{i+1} y_i)` (doubled) -/
theorem C14_area_shoelace (r : List Pt) (h : Closed r) : ringArea2 r = shoelace r :=
  ringArea2_eq_shoelace r h

/-- the area is unchanged by translating all coordinates -/
theorem C14_area_translation (d : Pt) (r : List Pt) (h : Closed r) : ringArea2 (translate d r) = ringArea2 r := by
  rw [ringArea2_eq_shoelace _ (closed_translate d r h), ringArea2_eq_shoelace r h, shoelace_translate d r (by have := h.1; omega), h.2]
  ring

/-- reversing a closed ring negates its area (this is what `oriented()` relies on) -/
theorem C14_area_reversal (r : List Pt) (h : Closed r) : ringArea2 r.reverse = - ringArea2 r := by
  rw [ringArea2_eq_shoelace _ (closed_reverse r h), ringArea2_eq_shoelace r h, shoelace_reverse]

/-- polygon area = sum over its rings; for a ring-oriented polygon (shell ≥ 0, holes ≤ 0) that is the shell area minus the
hole areas, and a multipolygon adds up its parts -/
theorem C14_polygon_area (shell : List Pt) (holes : List (List Pt)) :
    area2 (shell :: holes) = ringArea2 shell + (holes.map ringArea2).sum := by
  simp [area2]

theorem C14_multipolygon_area (parts : List (List (List Pt))) :
    area2 parts.flatten = (parts.map area2).sum := by
  induction parts with
  | nil => rfl
  | cons p ps ih =>
    simp only [List.flatten_cons, List.map_cons, List.sum_cons, area2, List.map_append, List.sum_append] at ih ⊢
    rw [ih]

theorem C14_oriented_polygon_area (shell : List Pt) (holes : List (List Pt))
    (hs : 0 ≤ ringArea2 shell) (hh : ∀ h ∈ holes, ringArea2 h ≤ 0) :
    area2 (shell :: holes) = (ringArea2 shell).natAbs - ((holes.map (fun h => ((ringArea2 h).natAbs : Int))).sum) := by
  rw [C14_polygon_area]
  have e1 : ((ringArea2 shell).natAbs : Int) = ringArea2 shell := by omega
  rw [e1]
  have : (holes.map ringArea2).sum = - (holes.map (fun h => ((ringArea2 h).natAbs : Int))).sum := by
    induction holes with
    | nil => rfl
    | cons h hs' ih =>
      have h1 := hh h (by simp)
      have := ih (fun x hx => hh x (by simp [hx]))
      simp only [List.map_cons, List.sum_cons]
      rw [this]; omega
  omega

/-- a segment touching a vertex with a non-finite coordinate counts as absent: a NaN vertex breaks the line -/
theorem C14_nan_vertex_breaks_line (a b : Pt) (rest : List (Option Pt)) :
    segSquares (some a :: none :: some b :: rest) = segSquares (some b :: rest) := by
  simp [segSquares]

/-- the length is unchanged by translating all coordinates (every squared segment length is) -/
theorem C14_length_translation (d : Pt) (l : List (Option Pt)) :
    segSquares (l.map (Option.map (fun p => (p.1 + d.1, p.2 + d.2)))) = segSquares l := by
  match l with
  | [] => rfl
  | [x] => cases x <;> rfl
  | some a :: some b :: rest =>
    have ih := C14_length_translation d (some b :: rest)
    simp only [List.map_cons, Option.map_some, segSquares] at ih ⊢
    rw [ih]
    congr 1; ring
  | some a :: none :: rest =>
    have ih := C14_length_translation d (none :: rest)
    simp only [List.map_cons, Option.map_some, Option.map_none, segSquares] at ih ⊢
    exact ih
  | none :: b :: rest =>
    have ih := C14_length_translation d (b :: rest)
    simp only [List.map_cons, Option.map_none, segSquares] at ih ⊢
    exact ih

/-- the boundary of a polygon is the multiline of exactly its rings, so both lengths are the *same* fold over the same
squared segment lengths in the same order (hence bit-identical floats); for a multipolygon the rings of all parts -/
theorem C14_boundary_length (parts : List (List (List (Option Pt)))) :
    lengthSquares parts.flatten = (parts.map lengthSquares).flatten := by
  induction parts with
  | nil => rfl
  | cons p ps ih =>
    simp only [List.flatten_cons, List.map_cons, lengthSquares, List.map_append, List.flatten_append] at ih ⊢
    rw [ih]

/-! non-vacuity: a closed clockwise square of area 16 and its reversal -/
example : Closed [(1,1), (1,5), (5,5), (5,1), (1,1)] ∧ ringArea2 [(1,1), (1,5), (5,5), (5,1), (1,1)] = -32 ∧
    ringArea2 [(1,1), (1,5), (5,5), (5,1), (1,1)].reverse = 32 := by
  refine ⟨⟨by decide, by decide⟩, by decide, by decide⟩

end SpVerif
