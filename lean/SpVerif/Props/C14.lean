import SpVerif.Model.Geom
namespace SpVerif
open Geom
/-- rings with fewer than three vertices are skipped by the area kernel (`poly_length < 6`) -/
theorem C14_degenerate_ring_zero (r : List Pt) (h : r.length < 3) : ringArea2 r = 0 := by
  simp [ringArea2, h]
end SpVerif
