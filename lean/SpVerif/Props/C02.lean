import SpVerif.Model.Geom
namespace SpVerif
open Geom
/-- a horizontal edge never contributes to the winding number (the kernel skips it) -/
theorem C02_horizontal_edge_skipped (p a b : Pt) (h : a.2 = b.2) : edgeContrib p a b = 0 := by
  simp [edgeContrib, h]
end SpVerif
