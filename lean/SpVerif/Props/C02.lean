import SpVerif.Lemmas.Winding
import SpVerif.Lemmas.WindQ
import SpVerif.Lemmas.Triangle
import SpVerif.Lemmas.Fan
import SpVerif.Model.GeomProto
/-!
# C02 — point-versus-shape `intersects` is exact

Theorems about the kernels of `spatialpandas/geometry/_algorithms/intersection.py` as modelled in `Model/Geom.lean`
(`segPoint`, `pointLine`, `edgeContrib`/`ringWinding`/`winding`/`pointInRings`) with integer coordinates standing for the
exactly representable coordinates the property quantifies over; rational points (`ℚ × ℚ`) are used to say what "lies on a
segment" means.

* point / multipoint / line / multiline: **exact** (`C02_point_point` … `C02_point_multiline`).
* polygon / multipolygon: the winding loop is pinned down operator by operator (`C02_edge_rule`, its geometric reading
  `C02_edge_rule_geometric`), shown antisymmetric under reversal of an edge and of a ring, **zero outside the bounding box** of a
  closed ring and **constant along every horizontal or vertical segment, hence on every box, that contains no point of the
  ring** (`C02_winding_far`, `C02_winding_moves`, `C02_winding_constant_off_ring`, and jumping by exactly the edge's direction when one edge is crossed, `C02_winding_jump`; for triangles the full statement - `±1` strictly inside, `0` strictly outside - is proved (`C02_triangle_inside`, `C02_triangle_outside`), and for every ring the number is the sum over its fan triangles (`C02_fan_decomposition`), hence in general position the signed number of fan triangles covering the point (`C02_signed_cover`): the formalised Appendix B of DESIGN.md, stated
  at rational points and tied to the coded loop by `C02_winding_rational`), and the decision logic "inside a shell and in none
  of its holes" is derived from the per-ring facts (`C02_polygon_logic`, `C02_multipolygon_logic`).  What is **not** proved is the
  topological fact that for a *simple* ring every point off the ring can be joined to infinity crossing the ring transversally
  an even / odd number of times (Jordan curve theorem); with it the proved facts characterise the winding number as ±1 inside
  and 0 outside.  The polygon clause is therefore `partial`, see DESIGN.md.
-/
namespace SpVerif
open Geom

/-- point versus point: equality -/
theorem C02_point_point (p q : Pt) : pointPoint p q = true ↔ p = q := by simp [pointPoint]

/-- point versus multipoint: membership -/
theorem C02_point_multipoint (p : Pt) (qs : List Pt) : pointMultiPoint p qs = true ↔ p ∈ qs := by
  simp only [pointMultiPoint, List.any_eq_true, beq_iff_eq]
  constructor
  · rintro ⟨x, hx, rfl⟩; exact hx
  · intro h; exact ⟨p, h, rfl⟩

/-- `segment_intersects_point` is exact: True exactly when the point lies on the closed segment (zero-length segments and
points collinear with the segment but beyond its end included) -/
theorem C02_segment_point (p : Pt) (s : Pt × Pt) : segPoint p s = true ↔ OnSeg s.1 s.2 ((p.1 : ℚ), (p.2 : ℚ)) :=
  segPoint_iff p s

/-- point versus line (and ring): True exactly when the point is a vertex or lies on a segment -/
theorem C02_point_line (p : Pt) (l : List Pt) : pointLine p l = true ↔ LinePoint l ((p.1 : ℚ), (p.2 : ℚ)) :=
  pointLine_iff p l

/-- point versus multiline: True exactly when it lies on one of the lines -/
theorem C02_point_multiline (p : Pt) (ls : List (List Pt)) :
    pointMultiLine p ls = true ↔ ∃ l ∈ ls, LinePoint l ((p.1 : ℚ), (p.2 : ℚ)) := by
  simp only [pointMultiLine, List.any_eq_true, pointLine_iff]

/-- **the edge rule**: the coded contribution of the directed edge `a → b` to the winding number at `p` is `+1` for an edge
that crosses the height of `p` upwards (half-open: `a.y < p.y ≤ b.y`) with `p` on its left or on it, `-1` for one that
crosses it downwards with `p` on its right or on it, and `0` otherwise — horizontal edges never count.  Every comparison
operator of `point_intersects_polygon` is fixed by this closed form. -/
theorem C02_edge_rule (p a b : Pt) :
    edgeContrib p a b =
      if a.2 < p.2 ∧ p.2 ≤ b.2 ∧ 0 ≤ orientI a b p then 1
      else if b.2 < p.2 ∧ p.2 ≤ a.2 ∧ orientI a b p ≤ 0 then -1 else 0 := edgeContrib_eq p a b

/-- **geometric reading of the edge rule**: an edge counts exactly when it spans the height of `p` (half-open at its lower
end, so a ray through a vertex counts the two edges at that vertex once if they continue through, twice or not at all if
they turn back) and its point at that height is at or to the right of `p` -/
theorem C02_edge_rule_geometric (p a b : Pt) :
    edgeContrib p a b ≠ 0 ↔ (min a.2 b.2 < p.2 ∧ p.2 ≤ max a.2 b.2) ∧ ∃ x : ℚ, (p.1 : ℚ) ≤ x ∧ OnSeg a b (x, (p.2 : ℚ)) :=
  edgeContrib_ne_zero_iff p a b

/-- a horizontal edge never contributes (the kernel skips it) -/
theorem C02_horizontal_edge_skipped (p a b : Pt) (h : a.2 = b.2) : edgeContrib p a b = 0 := by
  simp [edgeContrib, h]

/-- reversing an edge negates its contribution; walking a ring backwards negates its winding number -/
theorem C02_reversal (p : Pt) : (∀ a b, edgeContrib p b a = - edgeContrib p a b) ∧
    (∀ r, ringWinding p r.reverse = - ringWinding p r) :=
  ⟨edgeContrib_swap p, ringWinding_reverse p⟩

/-- **far away**: the winding number of a closed ring about a point outside its bounding box is zero -/
theorem C02_winding_far (p : Pt) (r : List Pt) (hc : Closed r) (bb : Box) (hbb : bboxOf r = some bb) (hout : ¬ BoxHas bb p) :
    ringWinding p r = 0 := ringWinding_far p r hc bb hbb hout

/-- the coded winding loop is the closed-form winding number `windQ` read at the point's (integer) coordinates -/
theorem C02_winding_rational (p : Pt) (r : List Pt) : ringWinding p r = windQ ((p.1 : ℚ), (p.2 : ℚ)) r := by
  rw [windQ_cast, ringWinding_eq]

/-- **moving the point without touching the ring does not change the winding number**: along a vertical segment (closed ring)
and along a horizontal segment that contain no point of any edge -/
theorem C02_winding_moves (r : List Pt) (hcl : Closed r) (x h h' x' : ℚ) :
    (h ≤ h' → (∀ s ∈ segs r, SlabClear s.1 s.2 x h h') → windQ (x, h') r = windQ (x, h) r) ∧
    (x ≤ x' → (∀ s ∈ segs r, RowClear s.1 s.2 x x' h) → windQ (x', h) r = windQ (x, h) r) :=
  ⟨fun hh hc => windQ_vmove r hcl x h h' hh hc, fun hx hc => windQ_hmove r x x' h hx hc⟩

/-- **the winding number of a closed ring is constant on every box that contains no point of the ring** -/
theorem C02_winding_constant_off_ring (r : List Pt) (hcl : Closed r) (b : Box) (hclear : BoxClear b r) (q1 q2 : QPt)
    (h1 : InBoxQ b q1) (h2 : InBoxQ b q2) : windQ q1 r = windQ q2 r :=
  windQ_const_box r hcl b hclear q1 q2 h1 h2

/-- far away, at rational points too -/
theorem C02_winding_far_rational (q : QPt) (r : List Pt) (hcl : Closed r) (bb : Box) (hbb : bboxOf r = some bb)
    (hout : ¬ InBoxQ bb q) : windQ q r = 0 := windQ_far q r hcl bb hbb hout

/-- **jump**: crossing exactly one edge transversally (at an interior point of the edge, no other edge touching the path) changes
the winding number by the direction of that edge: from left to right it drops by `+1` for an edge going up, `-1` for one going
down.  Together with `C02_winding_far` (zero far away) and `C02_winding_constant_off_ring` this is the complete local
description of the winding number on the complement of the ring. -/
theorem C02_winding_jump (l1 l2 : List Pt) (a b : Pt) (x x' h : ℚ) (hxx : x ≤ x')
    (hspan : ((a.2 : ℚ) < h ∧ h < b.2) ∨ ((b.2 : ℚ) < h ∧ h < a.2)) (hl : x < xAt a b h) (hr : xAt a b h < x')
    (hc1 : ∀ s ∈ segs (l1 ++ [a]), RowClear s.1 s.2 x x' h) (hc2 : ∀ s ∈ segs (b :: l2), RowClear s.1 s.2 x x' h) :
    windQ (x, h) (l1 ++ a :: b :: l2) - windQ (x', h) (l1 ++ a :: b :: l2) = gQ h b - gQ h a :=
  windQ_jump l1 l2 a b x x' h hxx hspan hl hr hc1 hc2

/-! ### decision logic for polygons with holes
 and for multipolygons -/

theorem winding_eq_sum (p : Pt) (rings : List (List Pt)) : winding p rings = (rings.map (ringWinding p)).sum := by
  unfold winding
  have : ∀ (acc : Int), rings.foldl (fun acc r => acc + ringWinding p r) acc = acc + (rings.map (ringWinding p)).sum := by
    induction rings with
    | nil => intro acc; simp
    | cons r rs ih => intro acc; simp only [List.foldl_cons, List.map_cons, List.sum_cons]; rw [ih]; omega
  rw [this]; omega

/-- **triangles**: about a point strictly inside a triangle (strictly on the same side of all three edges) the coded winding
number is the triangle's orientation, `+1` counter-clockwise and `-1` clockwise - so `point_intersects_polygon` answers True -/
theorem C02_triangle_inside (a b c p : Pt) :
    (0 < orientI a b p → 0 < orientI b c p → 0 < orientI c a p → ringWinding p [a, b, c, a] = 1) ∧
    (orientI a b p < 0 → orientI b c p < 0 → orientI c a p < 0 → ringWinding p [a, b, c, a] = -1) ∧
    (((0 < orientI a b p ∧ 0 < orientI b c p ∧ 0 < orientI c a p) ∨ (orientI a b p < 0 ∧ orientI b c p < 0 ∧ orientI c a p < 0)) →
      pointPolygon p [[a, b, c, a]] = true) := by
  refine ⟨fun h1 h2 h3 => by rw [ringWinding_eq]; exact triangle_ccw_inside a b c p h1 h2 h3,
          fun h1 h2 h3 => by rw [ringWinding_eq]; exact triangle_cw_inside a b c p h1 h2 h3, ?_⟩
  intro h
  unfold pointPolygon pointInRings
  rw [winding_eq_sum]
  simp only [List.map_cons, List.map_nil, List.sum_cons, List.sum_nil, ringWinding_eq]
  rcases h with ⟨h1, h2, h3⟩ | ⟨h1, h2, h3⟩
  · rw [triangle_ccw_inside a b c p h1 h2 h3]; decide
  · rw [triangle_cw_inside a b c p h1 h2 h3]; decide

/-- **triangles, outside**: about a point strictly on the wrong side of some edge of a non-degenerate triangle the winding number
is `0`, in either orientation - so, off the boundary, `point_intersects_polygon` is exactly "strictly inside the triangle" -/
theorem C02_triangle_outside (a b c p : Pt) :
    (0 < orientI a b c → (orientI a b p < 0 ∨ orientI b c p < 0 ∨ orientI c a p < 0) → pointPolygon p [[a, b, c, a]] = false) ∧
    (orientI a b c < 0 → (0 < orientI a b p ∨ 0 < orientI b c p ∨ 0 < orientI c a p) → pointPolygon p [[a, b, c, a]] = false) := by
  constructor
  · intro hA hout
    unfold pointPolygon pointInRings
    rw [winding_eq_sum]
    simp only [List.map_cons, List.map_nil, List.sum_cons, List.sum_nil, ringWinding_eq]
    rw [triangle_ccw_outside a b c p hA hout]; decide
  · intro hA hout
    unfold pointPolygon pointInRings
    rw [winding_eq_sum]
    simp only [List.map_cons, List.map_nil, List.sum_cons, List.sum_nil, ringWinding_eq]
    rw [triangle_cw_outside a b c p hA hout]; decide

/-- **fan decomposition** (any ring, any point, no side condition): the coded winding number of the closed ring
`v0, v1, …, vk, v0` is the sum of the coded winding numbers of the fan triangles `v0, vi, vi+1, v0`; the contributions of the
diagonals cancel exactly (`edgeContrib` is antisymmetric under reversal even for a point on the diagonal) -/
theorem C02_fan_decomposition (p v0 : Pt) (l : List Pt) (hl : l ≠ []) :
    ringWinding p (v0 :: l ++ [v0]) = fanSum p v0 l := by
  rw [ringWinding_eq]; exact fan_decomposition p v0 l hl

/-- **signed covering number** (what the winding number means, for every ring in general position with respect to the point): if `p` lies on
the boundary of no non-degenerate fan triangle `v0, vi, vi+1` (a degenerate one contributes 0 about every point), the coded winding number is the number of
counter-clockwise fan triangles that contain `p` strictly minus the number of clockwise ones - the classical signed area cover, for
self-intersecting and non-convex rings alike, without the Jordan curve theorem.  In particular `point_intersects_polygon` on one
ring answers True exactly when that signed count is non-zero -/
theorem C02_signed_cover (p v0 : Pt) (l : List Pt) (hl : l ≠ []) (hg : FanGeneral p v0 l) :
    ringWinding p (v0 :: l ++ [v0]) = coverSum p v0 l ∧
    (pointPolygon p [v0 :: l ++ [v0]] = true ↔ coverSum p v0 l ≠ 0) := by
  have h : ringWinding p (v0 :: l ++ [v0]) = coverSum p v0 l := by
    rw [ringWinding_eq]; exact signed_cover p v0 l hl hg
  refine ⟨h, ?_⟩
  unfold pointPolygon pointInRings
  rw [winding_eq_sum]
  simp only [List.map_cons, List.map_nil, List.sum_cons, List.sum_nil, Int.add_zero, h]
  simp

/-! non-vacuity: a non-convex ring whose fan from `(0,0)` has a clockwise triangle; `(3,2)` is inside the ring (cover +1),
`(2,3)` lies in the notch (cover 0) -/
example : FanGeneral (3, 2) (0, 0) [(4,0),(4,4),(2,1),(0,4)] ∧ coverSum (3, 2) (0, 0) [(4,0),(4,4),(2,1),(0,4)] = 1 ∧
          FanGeneral (2, 3) (0, 0) [(4,0),(4,4),(2,1),(0,4)] ∧ coverSum (2, 3) (0, 0) [(4,0),(4,4),(2,1),(0,4)] = 0 ∧
          triCover (3, 2) (0, 0) (4, 4) (2, 1) = 0 ∧ orientI (0, 0) (4, 4) (2, 1) < 0 := by
  simp [FanGeneral, OffBoundary, coverSum, triCover, orientI]

/-- sum over the holes of `[p inside h]` when at most one hole contains `p` -/
theorem sum_ind_le_one (ins : List Pt → Bool) (holes : List (List Pt))
    (hd : holes.Pairwise (fun h1 h2 => ¬ (ins h1 = true ∧ ins h2 = true))) :
    ((holes.map (fun h => if ins h then (1 : Int) else 0)).sum = 0 ∧ ∀ h ∈ holes, ins h = false) ∨
    ((holes.map (fun h => if ins h then (1 : Int) else 0)).sum = 1 ∧ ∃ h ∈ holes, ins h = true) := by
  induction holes with
  | nil => left; simp
  | cons x xs ih =>
    rw [List.pairwise_cons] at hd
    obtain ⟨hx, hxs⟩ := hd
    rcases ih hxs with ⟨s0, hall⟩ | ⟨s1, h, hh, hi⟩
    · cases hix : ins x with
      | false => left; simp only [List.map_cons, List.sum_cons, hix]; refine ⟨by simp [s0], ?_⟩
                 intro h hm; rcases List.mem_cons.mp hm with rfl | hm
                 · exact hix
                 · exact hall h hm
      | true => right; simp only [List.map_cons, List.sum_cons, hix]; exact ⟨by simp [s0], x, by simp, hix⟩
    · have hix : ins x = false := by
        cases hix : ins x with
        | false => rfl
        | true => exact absurd ⟨hix, hi⟩ (hx h hh)
      right; simp only [List.map_cons, List.sum_cons, hix]
      exact ⟨by simp [s1], h, List.mem_cons_of_mem _ hh, hi⟩

/-- **polygon with holes**: let `ins r` say whether `p` is strictly inside ring `r`.  If the shell's winding number about `p`
is `o·[p inside shell]` and every hole's is `-o·[p inside hole]` (`o = ±1`: holes wound opposite to their shell, either way
round — the per-ring fact), at most one hole contains `p` (holes disjoint) and a point inside a hole is inside the shell
(holes inside their shell), then the kernel answers True exactly when `p` is inside the shell and in none of its holes. -/
theorem C02_polygon_logic (p : Pt) (shell : List Pt) (holes : List (List Pt)) (ins : List Pt → Bool) (o : Int)
    (ho : o = 1 ∨ o = -1)
    (hs : ringWinding p shell = if ins shell then o else 0)
    (hh : ∀ h ∈ holes, ringWinding p h = if ins h then -o else 0)
    (hd : holes.Pairwise (fun h1 h2 => ¬ (ins h1 = true ∧ ins h2 = true)))
    (hin : ∀ h ∈ holes, ins h = true → ins shell = true) :
    pointPolygon p (shell :: holes) = true ↔ (ins shell = true ∧ ∀ h ∈ holes, ins h = false) := by
  unfold pointPolygon pointInRings
  rw [winding_eq_sum]
  simp only [List.map_cons, List.sum_cons, hs]
  have e : (holes.map (ringWinding p)).sum = -o * (holes.map (fun h => if ins h then (1 : Int) else 0)).sum := by
    clear hd hin
    induction holes with
    | nil => simp
    | cons x xs ih =>
      simp only [List.map_cons, List.sum_cons]
      rw [ih (fun h hm => hh h (List.mem_cons_of_mem _ hm)), hh x (by simp)]
      cases ins x <;> simp <;> ring
  rw [e]
  rcases sum_ind_le_one ins holes hd with ⟨s0, hall⟩ | ⟨s1, h, hm, hi⟩
  · rw [s0]
    cases hsx : ins shell with
    | false => simp
    | true =>
      simp only [if_true, mul_zero, add_zero, bne_iff_ne, ne_eq, true_and]
      constructor
      · intro _; exact hall
      · intro _; rcases ho with rfl | rfl <;> decide
  · rw [s1]
    have hsx := hin h hm hi
    simp only [hsx, if_true, mul_one, bne_iff_ne, ne_eq, true_and]
    constructor
    · intro hne; exfalso; apply hne; ring
    · intro hall; rw [hall h hm] at hi; cases hi

/-- **multipolygon**: the winding number of a multipolygon is the sum over its parts, so when at most one part has `p` in its
region (parts with disjoint interiors) the kernel answers True exactly when some part does -/
theorem C02_multipolygon_logic (p : Pt) (parts : List (List (List Pt)))
    (hd : parts.Pairwise (fun a b => ¬ (winding p a ≠ 0 ∧ winding p b ≠ 0))) :
    pointMultiPolygon p parts = true ↔ ∃ part ∈ parts, pointPolygon p part = true := by
  unfold pointMultiPolygon pointPolygon pointInRings
  have hsum : winding p parts.flatten = (parts.map (winding p)).sum := by
    rw [winding_eq_sum, List.map_flatten, List.sum_flatten]
    congr 1
    rw [List.map_map]
    apply List.map_congr_left
    intro a _
    simp only [Function.comp, winding_eq_sum]
  rw [hsum]
  simp only [bne_iff_ne, ne_eq]
  clear hsum
  induction parts with
  | nil => simp
  | cons x xs ih =>
    rw [List.pairwise_cons] at hd
    obtain ⟨hx, hxs⟩ := hd
    have ih' := ih hxs
    simp only [List.map_cons, List.sum_cons, List.mem_cons, exists_eq_or_imp]
    by_cases hx0 : winding p x = 0
    · rw [hx0, zero_add]; simp only [hx0, not_true_eq_false, false_or]; exact ih'
    · have hz : ∀ y ∈ xs, winding p y = 0 := by
        intro y hy; by_contra hc; exact hx y hy ⟨hx0, hc⟩
      have hs0 : ∀ (ys : List (List (List Pt))), (∀ y ∈ ys, winding p y = 0) → (ys.map (winding p)).sum = 0 := by
        intro ys
        induction ys with
        | nil => intro _; rfl
        | cons y ys ihy =>
          intro hzz
          simp only [List.map_cons, List.sum_cons]
          rw [hzz y (by simp), ihy (fun y hy => hzz y (List.mem_cons_of_mem _ hy))]; rfl
      rw [hs0 xs hz, add_zero]
      simp [hx0]

/-- a missing point gives False in the array forms: the kernels are never run for it -/
theorem C02_missing_false {α} (dec : Proto.V → Option α) (f : α → Bool) (els : List Proto.V) :
    GeomProto.mapEl dec f false (Proto.V.none :: els) = (GeomProto.mapEl dec f false els).map (false :: ·) := by
  simp only [GeomProto.mapEl, List.mapM_cons]
  cases List.mapM (m := Option) _ els <;> rfl

/-! non-vacuity -/
example : pointPolygon (2, 2) [[(0,0),(6,0),(6,6),(0,6),(0,0)], [(1,1),(1,3),(3,3),(3,1),(1,1)]] = false ∧
          pointPolygon (4, 4) [[(0,0),(6,0),(6,6),(0,6),(0,0)], [(1,1),(1,3),(3,3),(3,1),(1,1)]] = true ∧
          ringWinding (4, 4) [(0,0),(6,0),(6,6),(0,6),(0,0)] = 1 ∧ ringWinding (2, 2) [(1,1),(1,3),(3,3),(3,1),(1,1)] = -1 := by decide
example : pointLine (2, 2) [(0,0),(4,4)] = true ∧ pointLine (5, 5) [(0,0),(4,4)] = false := by decide

end SpVerif
