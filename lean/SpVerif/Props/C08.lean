import SpVerif.Model.HilbertDist
import SpVerif.Props.C07
/-!
# C08 — a geometry's Hilbert distance is the curve position of its bbox centre

Theorems about the exact-arithmetic reference `HilbertDist` (`hilbert_distance` → `_distances_from_bounds` → `_data2coord`):
the value lies in `[0, 4^p)` whatever the inputs; in a non-degenerate extent the cell is the one that contains the centre of
the bounding box, the upper edge belongs to the last cell, centres outside are clamped to the border cells; a degenerate
extent is widened; the value is a function of the element's own box and `(total_bounds, p)` only.
The float computation agrees with this reference where its arithmetic is exact (DESIGN §2) — compared on every run.
-/
namespace SpVerif
open HilbertDist Hilbert

/-- `_data2coord` always lands on the grid, whatever the value and the extent (the clip) -/
theorem C08_coord_in_grid (v2 lo width n : Int) (hn : 0 < n) :
    0 ≤ data2coord v2 lo width n ∧ data2coord v2 lo width n ≤ n - 1 := by
  unfold data2coord
  simp only
  split
  · omega
  · split <;> omega

/-- **range**: the Hilbert distance lies in `[0, 4^p)` for every element, extent and order -/
theorem C08_range (total box : Int × Int × Int × Int) (p : Nat) : hilbertDistance total p box < 4 ^ p :=
  (C07_range p).2 _

/-- a zero-width (or zero-height) extent is widened so that the scaling is defined -/
theorem C08_degenerate_extent (lo hi : Int) : (widen lo hi).1 < (widen lo hi).2 ∨ hi < lo := by
  unfold widen
  split
  · left; simp; omega
  · simp; omega

theorem tdiv_nonpos {a b : Int} (ha : a ≤ 0) (hb : 0 < b) : Int.tdiv a b ≤ 0 := by
  have h : Int.tdiv a b = - Int.tdiv (-a) b := by rw [Int.neg_tdiv]; omega
  rw [h, Int.tdiv_eq_ediv_of_nonneg (by omega)]
  have := Int.ediv_nonneg (show 0 ≤ -a by omega) (show 0 ≤ b by omega)
  omega

/-- **reference cell**: for an extent of positive width `w` and a centre `c` (given doubled, `v2 = 2c`) inside `[lo, lo + w)`,
the cell index `k` satisfies `lo + k·w/n ≤ c < lo + (k+1)·w/n` — the cell contains the centre -/
theorem C08_reference_cell (v2 lo w n : Int) (hw : 0 < w) (hn : 0 < n) (h0 : 2 * lo ≤ v2) (h1 : v2 < 2 * (lo + w)) :
    let k := data2coord v2 lo w n
    k * (2 * w) ≤ (v2 - 2 * lo) * n ∧ (v2 - 2 * lo) * n < (k + 1) * (2 * w) := by
  have hx : 0 ≤ (v2 - 2 * lo) * n := Int.mul_nonneg (by omega) (by omega)
  have hlt : (v2 - 2 * lo) * n < (2 * w) * n := Int.mul_lt_mul_of_pos_right (by omega) hn
  have hq := Int.tdiv_eq_ediv_of_nonneg (b := 2 * w) hx
  have hd := Int.mul_ediv_add_emod ((v2 - 2 * lo) * n) (2 * w)
  have hm := Int.emod_nonneg ((v2 - 2 * lo) * n) (show (2 * w) ≠ 0 by omega)
  have hm2 := Int.emod_lt_of_pos ((v2 - 2 * lo) * n) (show 0 < 2 * w by omega)
  have hk0 : 0 ≤ (v2 - 2 * lo) * n / (2 * w) := Int.ediv_nonneg hx (by omega)
  have hkn : (v2 - 2 * lo) * n / (2 * w) < n := by
    apply Int.ediv_lt_of_lt_mul (by omega)
    rw [Int.mul_comm n]; exact hlt
  simp only [data2coord, hq]
  have c1 : ¬ (v2 - 2 * lo) * n / (2 * w) < 0 := by omega
  have c2 : ¬ (v2 - 2 * lo) * n / (2 * w) > n - 1 := by omega
  simp only [c1, c2, if_false]
  generalize (v2 - 2 * lo) * n / (2 * w) = k at *
  generalize (v2 - 2 * lo) * n % (2 * w) = r at *
  generalize (v2 - 2 * lo) * n = x at *
  constructor
  · have : k * (2 * w) = 2 * w * k := Int.mul_comm _ _
    omega
  · have : (k + 1) * (2 * w) = 2 * w * k + 2 * w := by rw [Int.add_mul, Int.mul_comm k]; omega
    omega

/-- centres on the upper edge of the extent belong to the last cell, centres beyond it too; centres at or below the lower edge
to the first cell -/
theorem C08_clamped (v2 lo w n : Int) (hw : 0 < w) (hn : 0 < n) :
    (2 * (lo + w) ≤ v2 → data2coord v2 lo w n = n - 1) ∧ (v2 ≤ 2 * lo → data2coord v2 lo w n = 0) := by
  constructor
  · intro h
    have hx : 0 ≤ (v2 - 2 * lo) * n := Int.mul_nonneg (by omega) (by omega)
    have hge : (2 * w) * n ≤ (v2 - 2 * lo) * n := Int.mul_le_mul_of_nonneg_right (by omega) (by omega)
    have hq := Int.tdiv_eq_ediv_of_nonneg (b := 2 * w) hx
    have hkn : n ≤ (v2 - 2 * lo) * n / (2 * w) := by
      apply Int.le_ediv_of_mul_le (by omega)
      rw [Int.mul_comm]; exact hge
    simp only [data2coord, hq]
    have c1 : ¬ (v2 - 2 * lo) * n / (2 * w) < 0 := by omega
    have c2 : (v2 - 2 * lo) * n / (2 * w) > n - 1 := by omega
    simp [c1, c2]
  · intro h
    have hx : (v2 - 2 * lo) * n ≤ 0 := Int.mul_nonpos_of_nonpos_of_nonneg (by omega) (by omega)
    have := tdiv_nonpos hx (show 0 < 2 * w by omega)
    simp only [data2coord]
    split
    · rfl
    · split
      · omega
      · omega

/-- the value depends only on the element's own bounding box and on `(total_bounds, p)`: the array form is the element-wise map -/
theorem C08_elementwise (total : Int × Int × Int × Int) (p : Nat) (boxes : List (Int × Int × Int × Int)) (i : Nat) (h : i < boxes.length) :
    (boxes.map (hilbertDistance total p))[i]'(by simpa using h) = hilbertDistance total p boxes[i] := by
  simp

/-! non-vacuity: a 4 x 4 grid on the extent [0,4]²: the centre (2,2) lies in cell (2,2), the corner (4,4) in the last cell -/
example : cellOf (0, 0, 4, 4) 2 (1, 1, 3, 3) = (2, 2) ∧ cellOf (0, 0, 4, 4) 2 (4, 4, 4, 4) = (3, 3) ∧
    hilbertDistance (0, 0, 4, 4) 2 (1, 1, 3, 3) = 8 := by decide

end SpVerif
