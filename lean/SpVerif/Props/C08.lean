import SpVerif.Model.HilbertDist
namespace SpVerif
open HilbertDist
/-- `_data2coord` always lands on the grid, whatever the value and the extent (the clip) -/
theorem C08_coord_in_grid (v2 lo width n : Int) (hn : 0 < n) :
    0 ≤ data2coord v2 lo width n ∧ data2coord v2 lo width n ≤ n - 1 := by
  unfold data2coord
  simp only
  split
  · omega
  · split <;> omega
end SpVerif
