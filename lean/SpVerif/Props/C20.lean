import SpVerif.Model.ActiveGeom
/-!
# C20 — the active geometry column is honoured and survives frame operations

Theorems about the specification machine `ActiveGeom` (what the frame operations must do to the pair
"flavour, active column"); that pandas / Dask route every listed operation through this machine is what the
correspondence check observes (DESIGN §3 C20).
-/
namespace SpVerif
open ActiveGeom

/-- row-level operations (selection, sorting, copying, cx, pickling, concatenation of agreeing frames, a Dask
round trip) leave the frame's columns and its active geometry untouched -/
theorem C20_rows_keep_active (f : Frame) : step f .rows = some f := rfl

theorem mem_geomCols {f : Frame} {a : String} : a ∈ geomCols f ↔ (a, true) ∈ f.cols := by
  unfold geomCols
  simp only [List.mem_map, List.mem_filter]
  constructor
  · rintro ⟨⟨n, g⟩, ⟨hm, hg⟩, rfl⟩
    simp only at hg
    subst hg
    exact hm
  · intro h
    exact ⟨(a, true), ⟨h, rfl⟩, rfl⟩

/-- the resolution rule of the constructor always yields a frame whose active column is one of its geometry columns -/
theorem C20_init_resolution (cols : List (String × Bool)) (e i : Option String) (f : Frame)
    (h : init cols e i = some f) : f.cols = cols ∧ ∃ a, f.active = some a ∧ a ∈ geomCols f := by
  unfold init at h
  generalize hgs : (cols.filter (·.2)).map (·.1) = gs at h
  have key : ∀ a, a ∈ gs → a ∈ geomCols ⟨cols, some a⟩ := by
    intro a ha; unfold geomCols; simpa [hgs] using ha
  cases gs with
  | nil => simp at h
  | cons first rest =>
    simp only at h
    cases e with
    | some g =>
      simp only at h
      split at h
      · next hc =>
        cases h
        exact ⟨rfl, g, rfl, key g (by simpa using hc)⟩
      · cases h
    | none =>
      simp only at h
      cases i with
      | some g =>
        simp only at h
        split at h
        · next hc =>
          cases h
          exact ⟨rfl, g, rfl, key g (by simpa using hc)⟩
        · cases h
          exact ⟨rfl, first, rfl, key first (by simp)⟩
      | none =>
        cases h
        exact ⟨rfl, first, rfl, key first (by simp)⟩

/-- invariant: the active column, if any, is a geometry column of the frame — preserved by every operation -/
theorem C20_invariant (f f' : Frame) (op : Op) (hinv : Inv f) (h : step f op = some f') : Inv f' := by
  cases op with
  | rows => cases h; exact hinv
  | setGeometry g =>
    simp only [step] at h
    split at h
    · next hc =>
      cases h
      intro a ha
      cases ha
      simpa [geomCols] using hc
    · cases h
  | subset keep =>
    simp only [step] at h
    cases hact : f.active with
    | none =>
      rw [hact] at h; cases h
      intro a ha; cases ha
    | some a =>
      rw [hact] at h
      simp only at h
      split at h
      · next hc =>
        cases h
        intro b hb
        cases hb
        unfold geomCols
        simpa using hc
      · cases h
        intro b hb; cases hb

/-- an operation "keeps the active column `a`": a row-level operation, or a column subset that contains `a` -/
def keeps (a : String) : Op → Prop
  | .rows => True
  | .subset keep => a ∈ keep
  | .setGeometry _ => False

def runOps : Frame → List Op → Option Frame
  | f, [] => some f
  | f, op :: ops => (step f op).bind (fun f' => runOps f' ops)

/-- **every sequence of operations that keep the active column returns a geo frame with the same active geometry** -/
theorem C20_preserved (a : String) (ops : List Op) (f : Frame) (hact : f.active = some a) (hinv : Inv f)
    (hk : ∀ op ∈ ops, keeps a op) :
    ∃ f', runOps f ops = some f' ∧ f'.active = some a ∧ isGeo f' = true := by
  induction ops generalizing f with
  | nil =>
    refine ⟨f, rfl, hact, ?_⟩
    have := hinv a hact
    unfold isGeo
    cases hg : geomCols f with
    | nil => rw [hg] at this; cases this
    | cons x xs => rfl
  | cons op ops ih =>
    have hop := hk op (by simp)
    have hrest : ∀ o ∈ ops, keeps a o := fun o ho => hk o (by simp [ho])
    cases op with
    | rows =>
      simp only [runOps, step, Option.bind]
      exact ih f hact hinv hrest
    | setGeometry g => exact absurd hop (by simp [keeps])
    | subset keep =>
      simp only [keeps] at hop
      have ha := mem_geomCols.mp (hinv a hact)
      -- the subset keeps column `a` as a geometry column
      have hmem : (a, true) ∈ f.cols.filter (fun c => keep.contains c.1) := by
        simp only [List.mem_filter]
        exact ⟨ha, by simpa using hop⟩
      have hc : ((f.cols.filter (fun c => keep.contains c.1)).filter (·.2)).map (·.1) |>.contains a := by
        simp only [List.contains_iff_mem, List.mem_map]
        exact ⟨(a, true), List.mem_filter.mpr ⟨hmem, rfl⟩, rfl⟩
      have hs : step f (.subset keep) = some ⟨f.cols.filter (fun c => keep.contains c.1), some a⟩ := by
        simp only [step, hact, hc, if_true]
      simp only [runOps, hs, Option.bind]
      refine ih _ rfl ?_ hrest
      exact C20_invariant f _ (.subset keep) hinv hs

/-- a result without any geometry column is a plain frame without an active geometry -/
theorem C20_plain_without_geometry (f : Frame) (keep : List String)
    (h : ∀ c ∈ f.cols, c.2 = true → c.1 ∉ keep) :
    ∃ f', step f (.subset keep) = some f' ∧ isGeo f' = false ∧ f'.active = none := by
  have hnil : ((f.cols.filter (fun c => keep.contains c.1)).filter (·.2)).map (·.1) = [] := by
    simp only [List.map_eq_nil_iff, List.filter_eq_nil_iff, List.mem_filter]
    rintro c ⟨hc, hk⟩ hg
    exact h c hc (by simpa using hg) (by simpa using hk)
  cases hact : f.active with
  | none =>
    refine ⟨⟨f.cols.filter (fun c => keep.contains c.1), none⟩, by simp [step, hact], ?_, rfl⟩
    show (!(((f.cols.filter (fun c => keep.contains c.1)).filter (·.2)).map (·.1)).isEmpty) = false
    rw [hnil]; rfl
  | some a =>
    refine ⟨⟨f.cols.filter (fun c => keep.contains c.1), none⟩, ?_, ?_, rfl⟩
    · simp only [step, hact, hnil]
      simp
    · show (!(((f.cols.filter (fun c => keep.contains c.1)).filter (·.2)).map (·.1)).isEmpty) = false
      rw [hnil]; rfl

/-- `set_geometry` accepts exactly the geometry columns of the frame -/
theorem C20_set_geometry_validation (f : Frame) (g : String) :
    (step f (.setGeometry g)).isSome = (geomCols f).contains g := by
  simp only [step]
  split <;> simp_all

/-! non-vacuity: a frame with three geometry columns, active column neither first nor called `geometry` -/
example : ∃ f, init [("v", false), ("ln", true), ("pt", true), ("pg", true)] (some "pt") none = some f ∧
    f.active = some "pt" ∧ Inv f := by
  refine ⟨⟨[("v", false), ("ln", true), ("pt", true), ("pg", true)], some "pt"⟩, by decide, rfl, ?_⟩
  intro a ha; cases ha; decide

end SpVerif
