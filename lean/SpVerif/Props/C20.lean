import SpVerif.Model.ActiveGeom
namespace SpVerif
open ActiveGeom
/-- row-level operations (selection, sorting, copying, cx, pickling, concatenation of agreeing frames, a Dask
round trip) leave the frame's columns and its active geometry untouched -/
theorem C20_rows_keep_active (f : Frame) : step f .rows = some f := rfl
end SpVerif
