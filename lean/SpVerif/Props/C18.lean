import SpVerif.Generated.ParKernels
import SpVerif.Model.PackFS
namespace SpVerif
open Generated PackFS
/-- every loop of a kernel compiled with `parallel=True` (table regenerated from the source on every run) only stores
to `result[<loop variable>]` and carries no reduction variable: iterations have disjoint write sets -/
theorem C18_kernels_race_free :
    ∀ l ∈ parLoops, l.reductions = [] ∧ ∀ s ∈ l.stores, s.1 = "result" ∧ s.2 = true := by decide
/-- the renumbering moves are order dependent: run in another order they lose a part (so they must not be independent tasks) -/
theorem C18_moves_do_not_commute :
    compactIn (moves [0, 2, 3]).reverse [0, 2, 3] ≠ compact [0, 2, 3] := by decide
end SpVerif
