import SpVerif.Generated.ParKernels
import SpVerif.Model.PackFS
import SpVerif.Props.C10
/-!
# C18 — results do not depend on scheduling, thread count or concurrent use

The logic half: (i) every loop of a kernel compiled with `parallel=True` — the table is regenerated from the source on every
run — stores only to `result[<loop variable>]` and carries no reduction variable, so iterations have pairwise disjoint write
sets; (ii) writes to disjoint indices commute, hence every interleaving of such iterations produces the same array;
(iii) a check-then-build cache whose builder is a deterministic function of immutable data gives every reader the same value
in every interleaving; (iv) the renumbering moves of pack_partitions_to_parquet do **not** commute (negative witness): they
must run in the coded order; (v) the concatenation tasks of pack_partitions_to_parquet, which Dask runs in any order, leave
the same dataset whatever that order is.  Memory-model effects, GIL release points and the Dask scheduler are outside any model here.
-/
namespace SpVerif
open Generated PackFS

/-- every parallel loop found in the source only stores to `result[<loop variable>]` and has no reduction variable -/
theorem C18_kernels_race_free :
    ∀ l ∈ parLoops, l.reductions = [] ∧ ∀ s ∈ l.stores, s.1 = "result" ∧ s.2 = true := by decide

/-- an array write -/
def write (a : List Int) (w : Nat × Int) : List Int := a.set w.1 w.2

/-- two writes to different indices commute -/
theorem write_comm (a : List Int) (w₁ w₂ : Nat × Int) (h : w₁.1 ≠ w₂.1) :
    write (write a w₁) w₂ = write (write a w₂) w₁ := by
  unfold write
  exact List.set_comm _ _ h

theorem pairwise_mem {α : Type} {R : α → α → Prop} (hsymm : ∀ a b, R a b → R b a) {l : List α} (h : l.Pairwise R)
    {x y : α} (hx : x ∈ l) (hy : y ∈ l) (hne : x ≠ y) : R x y := by
  induction l with
  | nil => cases hx
  | cons a l ih =>
    obtain ⟨h1, h2⟩ := List.pairwise_cons.mp h
    simp only [List.mem_cons] at hx hy
    rcases hx with rfl | hx
    · rcases hy with rfl | hy
      · exact absurd rfl hne
      · exact h1 y hy
    · rcases hy with rfl | hy
      · exact hsymm _ _ (h1 x hx)
      · exact ih h2 hx hy

/-- **disjoint writes commute**: iterations that write pairwise different indices produce the same array in every order
(every interleaving of atomic writes is a permutation of the write list) -/
theorem C18_disjoint_writes_commute (a : List Int) (ws ws' : List (Nat × Int)) (hp : ws.Perm ws')
    (hd : ws.Pairwise (fun x y => x.1 ≠ y.1)) : ws.foldl write a = ws'.foldl write a := by
  apply List.Perm.foldl_eq' hp
  intro x hx y hy z
  by_cases hxy : x = y
  · subst hxy; rfl
  · exact write_comm z x y (pairwise_mem (fun a b h => Ne.symm h) hd hx hy hxy)

/-- a check-then-build cache: a thread that finds the cell empty builds and stores; the builder is a function of immutable
data.  Whatever the interleaving (any sequence of "store" events by any threads), every later reader sees `build data` -/
theorem C18_cache_benign {D V : Type} (build : D → V) (data : D) (stores : List Unit) (cell : Option V)
    (hcell : cell = none ∨ cell = some (build data)) :
    let final := stores.foldl (fun c _ => some (build data)) cell
    final = none ∨ final = some (build data) := by
  induction stores generalizing cell with
  | nil => simpa using hcell
  | cons _ rest ih => exact ih (some (build data)) (Or.inr rfl)

/-- the renumbering moves are order dependent: run in another order they lose a part (so they must not be independent tasks) -/
theorem C18_moves_do_not_commute :
    ¬ (compactIn (moves [0, 2, 3]).reverse [0, 2, 3]).Perm (compact [0, 2, 3]) := by decide

/-- **the concatenation tasks may run in any order**: two schedules of the per-partition concatenation tasks of
`pack_partitions_to_parquet` end with the same dataset - the same clean tree and the same part files (as a set) -/
theorem C18_concat_tasks_order_irrelevant (m : PackProto.Mode) (overwrite : Bool) (n nIn : Nat) (cells : Nat → Nat → Bool)
    (o₁ o₂ : List Nat) (h₁ : o₁.Perm (List.range n)) (h₂ : o₂.Perm (List.range n)) (t₀ : PackProto.Tree)
    (h0 : overwrite = true ∨ t₀ = PackProto.empty) (hext : t₀.tmpDirs = [] ∧ t₀.subs = [] ∧ t₀.uuidDir = false) :
    let a := PackProto.run m overwrite n nIn cells o₁ t₀
    let b := PackProto.run m overwrite n nIn cells o₂ t₀
    a.placeholders = b.placeholders ∧ a.tmpDirs = b.tmpDirs ∧ a.subs = b.subs ∧ a.uuidDir = b.uuidDir ∧ a.metaF = b.metaF ∧
      a.cmetaF = b.cmetaF ∧ a.stale = b.stale ∧ a.files.Perm b.files := by
  intro a b
  obtain ⟨a1, a2, a3, a4, a5, a6, a7, a8⟩ := C10_final_tree m overwrite n nIn cells o₁ h₁ t₀ h0 hext
  obtain ⟨b1, b2, b3, b4, b5, b6, b7, b8⟩ := C10_final_tree m overwrite n nIn cells o₂ h₂ t₀ h0 hext
  exact ⟨a1.trans b1.symm, a2.trans b2.symm, a3.trans b3.symm, a4.trans b4.symm, a5.trans b5.symm, a6.trans b6.symm,
    a7.trans b7.symm, a8.trans b8.symm⟩

end SpVerif
