import SpVerif.Model.PackFS
/-!
# C19 — transient filesystem faults never yield a silently wrong packed dataset

The logic half, for the retry-wrapped blocks of `pack_partitions_to_parquet` (`@retryit`): a block whose effect on the
filesystem is a function `f` such that every state a failed attempt can leave (`Leaves`) still satisfies `f s' = f s₀` ends,
after any number of failed attempts followed by one that runs through, exactly where a fault-free run ends; if no attempt runs
through, the block raises.  The guarded move, the removal and the (over)writing of a file are such blocks.  That the whole
function consists of such blocks, that an exhausted retry budget propagates as an exception, and what the real filesystem does
below the fsspec call boundary is what the exhaustive single-fault enumeration on the real code checks (partial, DESIGN §3 C19).
-/
namespace SpVerif
open PackFS

/-- outcome of a retried block: the attempts `leave` intermediate states, the last attempt either runs through or the budget is
exhausted (raise) -/
inductive Outcome (S : Type) where
  | done (s : S)
  | raised (s : S)
  deriving DecidableEq

/-- the block either raised or ended in `target` -/
def Outcome.raisedOrEq {S : Type} (o : Outcome S) (target : S) : Prop :=
  match o with
  | .done s => s = target
  | .raised _ => True

/-- `retry` semantics: `failed` lists, for each failed attempt, the state it leaves behind (a function of the state it
started from, chosen by the fault schedule); then either one attempt runs the whole block (`f`) or the budget is exhausted -/
def retryRun {S : Type} (f : S → S) (failed : List (S → S)) (succeeds : Bool) (s₀ : S) : Outcome S :=
  let s := failed.foldl (fun s leave => leave s) s₀
  if succeeds then .done (f s) else .raised s

/-- **retry block**: if every state a failed attempt can leave is one from which the block still ends where a fault-free run
ends, then under every fault schedule the block either raises or ends in the fault-free state -/
theorem C19_retry_block {S : Type} (f : S → S) (s₀ : S) (failed : List (S → S)) (succeeds : Bool)
    (hleave : ∀ leave ∈ failed, ∀ s, f s = f s₀ → f (leave s) = f s₀) :
    (retryRun f failed succeeds s₀).raisedOrEq (f s₀) := by
  unfold retryRun Outcome.raisedOrEq
  simp only
  cases succeeds with
  | false => simp
  | true =>
    simp only [if_true]
    have : ∀ (l : List (S → S)) (s : S), (∀ leave ∈ l, ∀ s, f s = f s₀ → f (leave s) = f s₀) → f s = f s₀ →
        f (l.foldl (fun s leave => leave s) s) = f s₀ := by
      intro l
      induction l with
      | nil => intro s _ hs; exact hs
      | cons g gs ih =>
        intro s hl hs
        exact ih (g s) (fun lv hlv => hl lv (by simp [hlv])) (hl g (by simp) s hs)
    exact this failed s₀ hleave rfl

/-- `move_retry` is idempotent: repeating a completed move changes nothing (its `exists(p1)` guard) -/
theorem C19_move_idempotent (s : St) (m : Nat × Nat) (h : m.1 ≠ m.2) : applyMove (applyMove s m) m = applyMove s m := by
  unfold applyMove
  by_cases ha : s.any (fun e => e.1 == m.1) = true
  · simp only [ha, if_true]
    have : ((s.filter (fun e => e.1 == m.1)).map (fun e => (m.2, e.2)) ++ s.filter (fun e => e.1 != m.1 && e.1 != m.2)).any
        (fun e => e.1 == m.1) = false := by
      rw [Bool.eq_false_iff]
      intro hc
      simp only [List.any_eq_true, List.mem_append, List.mem_map, List.mem_filter] at hc
      obtain ⟨x, hx, hk⟩ := hc
      rcases hx with ⟨e, _, rfl⟩ | ⟨_, hne⟩
      · simp only [beq_iff_eq] at hk; exact h hk.symm
      · simp only [Bool.and_eq_true, bne_iff_ne, ne_eq] at hne
        simp only [beq_iff_eq] at hk; exact hne.1 hk
    simp [this]
  · simp [ha]

/-- a failed `move_retry` attempt leaves the state untouched or already moved; either way the block ends in the moved state -/
theorem C19_move_restartable (s₀ : St) (m : Nat × Nat) (h : m.1 ≠ m.2) (failed : List Bool) (succeeds : Bool) :
    (retryRun (fun s => applyMove s m) (failed.map (fun moved => if moved then (fun s => applyMove s m) else id)) succeeds s₀).raisedOrEq
      (applyMove s₀ m) := by
  apply C19_retry_block (f := fun s => applyMove s m)
  intro leave hl s hs
  simp only [List.mem_map] at hl
  obtain ⟨b, _, rfl⟩ := hl
  cases b with
  | false => simpa using hs
  | true => simp only [if_true]; rw [C19_move_idempotent s m h]; exact hs

/-- removing a path (`rm_retry`) and (over)writing a file (`write_*`): the state a failed attempt leaves differs from the start
state at most at that path (not removed yet / half removed; missing / truncated / complete file), and the block's effect does
not depend on what was at the path -/
def putFile (path : Nat) (content : Option Nat) (s : St) : St :=
  (s.filter (fun e => e.1 != path)) ++ (match content with | some c => [(path, c)] | none => [])

theorem C19_write_restartable (path : Nat) (content : Option Nat) (s₀ : St) (junk : List (Option Nat)) (succeeds : Bool) :
    (retryRun (putFile path content) (junk.map (fun j => putFile path j)) succeeds s₀).raisedOrEq (putFile path content s₀) := by
  apply C19_retry_block (f := putFile path content)
  intro leave hl s hs
  simp only [List.mem_map] at hl
  obtain ⟨j, _, rfl⟩ := hl
  rw [← hs]
  unfold putFile
  congr 1
  rw [List.filter_append, List.filter_filter]
  have : (match j with | some c => [(path, c)] | none => ([] : St)).filter (fun (e : Nat × Nat) => e.1 != path) = [] := by
    cases j <;> simp
  rw [this, List.append_nil]
  apply List.filter_congr
  intro e _
  simp

/-! ### a whole run: retried blocks in sequence, the first exhausted budget aborts the run -/

/-- one retried block of the run together with what the fault schedule does to it: the states its failed attempts leave and
whether an attempt finally runs through -/
structure Step (S : Type) where
  f : S → S
  failed : List (S → S)
  succeeds : Bool

/-- the block is restartable from wherever it is started: every state a failed attempt can leave still leads to the same end -/
def Step.Restartable {S : Type} (st : Step S) : Prop :=
  ∀ leave ∈ st.failed, ∀ s₀ s, st.f s = st.f s₀ → st.f (leave s) = st.f s₀

/-- run the blocks in order; a block whose budget is exhausted raises and nothing after it is executed -/
def runSteps {S : Type} : List (Step S) → S → Outcome S
  | [], s => .done s
  | st :: rest, s =>
    match retryRun st.f st.failed st.succeeds s with
    | .done s' => runSteps rest s'
    | .raised s' => .raised s'

/-- **the whole run**: if every block is restartable then, whatever the fault schedule does (any number of failed attempts in any
block, any budget exhausted), the run either raises or ends exactly where the fault-free run ends -/
theorem C19_run_of_blocks {S : Type} (steps : List (Step S)) (s₀ : S) (hr : ∀ st ∈ steps, st.Restartable) :
    (runSteps steps s₀).raisedOrEq (steps.foldl (fun s st => st.f s) s₀) := by
  induction steps generalizing s₀ with
  | nil => simp [runSteps, Outcome.raisedOrEq]
  | cons st rest ih =>
    have hb := C19_retry_block st.f s₀ st.failed st.succeeds (fun leave hl s hs => hr st (by simp) leave hl s₀ s hs)
    simp only [runSteps, List.foldl_cons]
    cases hrun : retryRun st.f st.failed st.succeeds s₀ with
    | raised s' => simp [Outcome.raisedOrEq]
    | done s' =>
      rw [hrun] at hb
      simp only [Outcome.raisedOrEq] at hb
      simp only
      rw [hb]
      exact ih (st.f s₀) (fun x hx => hr x (by simp [hx]))

/-- the guarded move and the (over)writing / removal of a path are restartable blocks, for every fault schedule -/
theorem C19_blocks_restartable (m : Nat × Nat) (h : m.1 ≠ m.2) (path : Nat) (content : Option Nat) (moved : List Bool)
    (junk : List (Option Nat)) (b₁ b₂ : Bool) :
    (Step.mk (fun s : St => applyMove s m) (moved.map (fun mv => if mv then (fun s => applyMove s m) else id)) b₁).Restartable ∧
    (Step.mk (putFile path content) (junk.map (fun j => putFile path j)) b₂).Restartable := by
  constructor
  · intro leave hl s₀ s hs
    simp only [List.mem_map] at hl
    obtain ⟨b, _, rfl⟩ := hl
    cases b with
    | false => simpa using hs
    | true => simp only [if_true]; rw [C19_move_idempotent s m h]; exact hs
  · intro leave hl s₀ s hs
    simp only [List.mem_map] at hl
    obtain ⟨j, _, rfl⟩ := hl
    simp only at hs ⊢
    rw [← hs]
    unfold putFile
    congr 1
    rw [List.filter_append, List.filter_filter]
    have : (match j with | some c => [(path, c)] | none => ([] : St)).filter (fun (e : Nat × Nat) => e.1 != path) = [] := by
      cases j <;> simp
    rw [this, List.append_nil]
    apply List.filter_congr
    intro e _
    simp

/-! non-vacuity: two blocks (write part 1, move 2 → 0), the first attempt of the write leaves a truncated file, the move is
interrupted after it took effect: the run ends in the fault-free state -/
example : runSteps [Step.mk (putFile 1 (some 7)) [putFile 1 (some 0)] true,
                    Step.mk (fun s : St => applyMove s (2, 0)) [fun s => applyMove s (2, 0)] true] [(2, 5)]
          = .done [(0, 5), (1, 7)] := by decide

end SpVerif
