import SpVerif.Model.PackFS
namespace SpVerif
open PackFS
/-- `move_retry` is idempotent: repeating a completed move changes nothing (its `exists(p1)` guard) -/
theorem C19_move_idempotent (s : St) (m : Nat × Nat) (h : m.1 ≠ m.2) :
    applyMove (applyMove s m) m = applyMove s m := by
  unfold applyMove
  cases hf : s.find? (fun e => e.1 == m.1) with
  | none => simp [hf]
  | some e =>
    simp only
    have : ((m.2, e.2) :: s.filter (fun x => x.1 != m.1 && x.1 != m.2)).find? (fun e => e.1 == m.1) = none := by
      rw [List.find?_cons]
      have h1 : ((m.2, e.2).1 == m.1) = false := by simp; exact fun h' => h h'.symm
      rw [h1]
      simp only [List.find?_eq_none, List.mem_filter]
      intro x hx
      simp at hx ⊢
      exact hx.2.1
    rw [this]
end SpVerif
