import SpVerif.Model.Pack
import Mathlib.Data.List.Sort
/-!
# C09 — `pack_partitions` keeps every row and orders rows along the curve

`Pack.pack cuts rows`: all rows (key = Hilbert distance, second component = row identity) sorted by key with a stable sort
and cut into `cuts.length + 1` consecutive groups at *any* cut points — Dask chooses the divisions from quantiles of the
keys; the theorems hold for every choice, so they do not depend on it.  The number of partitions Dask actually produces can
be smaller than requested on tiny or duplicate-heavy frames (known finding D16): `C09_partition_count` is about the model's
`cuts`, and the correspondence check compares the produced partitions with `pack` for the cut points Dask chose.
-/
namespace SpVerif
open Pack

theorem flatten_cutAt {α} (cuts : List Nat) (off : Nat) (xs : List α) : (cutAt cuts off xs).flatten = xs := by
  induction cuts generalizing off xs with
  | nil => simp [cutAt]
  | cons c cs ih => simp only [cutAt, List.flatten_cons, ih, List.take_append_drop]

theorem length_cutAt {α} (cuts : List Nat) (off : Nat) (xs : List α) : (cutAt cuts off xs).length = cuts.length + 1 := by
  induction cuts generalizing off xs with
  | nil => simp [cutAt]
  | cons c cs ih => simp only [cutAt, List.length_cons, ih]

/-- the partitions, read in order, are the rows sorted by Hilbert distance -/
theorem C09_concatenation_is_sorted_rows (cuts : List Nat) (rows : List KRow) :
    (pack cuts rows).flatten = sortRows rows := flatten_cutAt cuts 0 _

/-- packing keeps exactly the input rows (as a multiset): no row lost, none duplicated, whatever the cut points -/
theorem C09_rows_conserved (cuts : List Nat) (rows : List KRow) : (pack cuts rows).flatten.Perm rows := by
  rw [C09_concatenation_is_sorted_rows]
  exact List.mergeSort_perm rows _

theorem C09_sort_conserves_rows (rows : List KRow) : (sortRows rows).Perm rows :=
  List.mergeSort_perm rows _

theorem sortRows_sorted (rows : List KRow) : (sortRows rows).Pairwise (fun a b => a.1 ≤ b.1) := by
  have := List.pairwise_mergeSort (le := fun (a b : KRow) => decide (a.1 ≤ b.1))
    (by intro a b c h1 h2; simp only [decide_eq_true_eq] at *; omega)
    (by intro a b; simp only [Bool.or_eq_true, decide_eq_true_eq]; omega) rows
  simpa [sortRows] using this

/-- **ordering**: inside every partition the keys do not decrease, and every key of an earlier partition is `≤` every key of a
later one -/
theorem C09_sorted_within_and_across (cuts : List Nat) (rows : List KRow) :
    (∀ part ∈ pack cuts rows, part.Pairwise (fun a b => a.1 ≤ b.1)) ∧
    (pack cuts rows).Pairwise (fun p q => ∀ a ∈ p, ∀ b ∈ q, a.1 ≤ b.1) := by
  have h := sortRows_sorted rows
  rw [← C09_concatenation_is_sorted_rows cuts rows, List.pairwise_flatten] at h
  exact h

/-- the number of partitions is the number of cut points plus one (`npartitions`) -/
theorem C09_partition_count (cuts : List Nat) (rows : List KRow) : (pack cuts rows).length = cuts.length + 1 :=
  length_cutAt cuts 0 _

/-- **the input partitioning is irrelevant**: rows presented in any other order (any split into input partitions, read in
any order) give the same sequence of keys, hence — cut at the same points — partitions with the same keys; with distinct
keys the partitions are identical -/
theorem C09_input_partitioning_irrelevant (cuts : List Nat) (rows rows' : List KRow) (hp : rows.Perm rows') :
    (sortRows rows).map (·.1) = (sortRows rows').map (·.1) ∧
    ((rows.map (·.1)).Nodup → pack cuts rows = pack cuts rows') := by
  have hs := sortRows_sorted rows
  have hs' := sortRows_sorted rows'
  have hperm : (sortRows rows).Perm (sortRows rows') :=
    (C09_sort_conserves_rows rows).trans (hp.trans (C09_sort_conserves_rows rows').symm)
  constructor
  · apply List.Perm.eq_of_pairwise (le := fun (a b : Nat) => a ≤ b)
    · intro a b _ _ h1 h2; omega
    · exact (List.pairwise_map).mpr hs
    · exact (List.pairwise_map).mpr hs'
    · exact hperm.map _
  · intro hnd
    have hnd' : ((sortRows rows).map (·.1)).Nodup := (hperm.map _).nodup_iff.mpr ((hperm.map _).nodup_iff.mp
      (((C09_sort_conserves_rows rows).map _).nodup_iff.mpr hnd))
    have : sortRows rows = sortRows rows' := by
      apply List.Perm.eq_of_pairwise (le := fun (a b : KRow) => a.1 ≤ b.1)
      · intro a b ha hb h1 h2
        have hk : a.1 = b.1 := by omega
        have hb' : b ∈ sortRows rows := hperm.mem_iff.mpr hb
        exact List.inj_on_of_nodup_map hnd' ha hb' hk
      · exact hs
      · exact hs'
      · exact hperm
    unfold pack
    rw [this]

/-! non-vacuity: the hypotheses of `C09_input_partitioning_irrelevant` are satisfiable by a real reordering with distinct keys;
cutting a sorted five-row sequence at two points (the driver evaluates `pack` itself on every correspondence case) -/
example : ([(7, 0), (1, 1), (4, 2)] : List KRow).Perm [(4, 2), (7, 0), (1, 1)] ∧
    (([(7, 0), (1, 1), (4, 2)] : List KRow).map (·.1)).Nodup := by decide
example : cutAt [2, 3] 0 [(1, 1), (4, 2), (4, 4), (7, 0), (9, 3)] = [[(1, 1), (4, 2)], [(4, 4)], [(7, 0), (9, 3)]] := by decide

/-- **packing what was packed before** (with other keys: another curve order `p`, another active column, other total bounds): the packed
frame is one more arrangement of the same rows, so re-keying and packing it gives the key sequence - and, for distinct keys, the
partitions - of packing the original rows with the new keys (what D25 violated: the old keys were kept) -/
theorem C09_repack (cuts1 cuts2 : List Nat) (rows : List KRow) (rekey : KRow → KRow) :
    (sortRows (((pack cuts1 rows).flatten).map rekey)).map (·.1) = (sortRows (rows.map rekey)).map (·.1) ∧
    (((rows.map rekey).map (·.1)).Nodup →
      pack cuts2 (((pack cuts1 rows).flatten).map rekey) = pack cuts2 (rows.map rekey)) := by
  have hp : (((pack cuts1 rows).flatten).map rekey).Perm (rows.map rekey) := (C09_rows_conserved cuts1 rows).map rekey
  obtain ⟨h1, h2⟩ := C09_input_partitioning_irrelevant cuts2 _ _ hp
  refine ⟨h1, fun hn => h2 ?_⟩
  exact (hp.map (·.1)).nodup_iff.mpr hn

end SpVerif
