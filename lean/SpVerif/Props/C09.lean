import SpVerif.Model.Pack
namespace SpVerif
open Pack
/-- packing keeps exactly the input rows (as a multiset), whatever the cut points -/
theorem C09_sort_conserves_rows (rows : List KRow) : (sortRows rows).Perm rows :=
  List.mergeSort_perm rows _
end SpVerif
