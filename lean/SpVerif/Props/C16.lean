import SpVerif.Model.Select
import SpVerif.Lemmas.Arrow
/-!
# C16 — derived arrays hold the same elements and behave like fresh ones

Two layers are modelled.

* **Requests** (`Model/Select.lean`): which source positions `take` / `arr[i]` select and which error they raise.
* **Buffers** (`Model/Arrow.lean`): a geometry array is a window (`off`, `len`) on shared Arrow buffers; a slice only moves the
  window.  The theorems say that the elements of a slice are the slice of the elements, that what `_ListArrayBufferMixin`
  hands to the numba kernels for element `i` of any window (`buffer_values` cut at `buffer_outer_offsets[i]`,
  `[i+1]`) is exactly the values of element `i`, whatever the window and however the buffers are laid out, and that
  `flat_values` / `buffer_inner_offsets` are the corresponding runs.  Hence every per-element quantity computed from those
  inputs depends on the element only.  Hypotheses: the window lies inside the first offsets buffer (`hwf`) and offsets do not
  decrease (`MonoOn`) — both guaranteed by the Arrow format; the correspondence check feeds the model the raw buffers of real
  derived arrays and compares all five outputs.

The deeper pandas / pyarrow machinery (`pa.concat_arrays`, `take`, pickling) is not modelled: for those steps the tie is the
differential check only.
-/
namespace SpVerif
open Select Arrow

/-! ### requests -/

/-- a successful `take` returns one slot per requested index -/
theorem C16_take_length (n : Nat) (fill : Bool) (idx : List Int) (ps : List (Option Nat))
    (h : takeSpec n fill idx = .ok ps) : ps.length = idx.length := by
  unfold takeSpec at h
  split at h
  · cases h
  · split at h
    · cases h
    · split at h
      · split at h
        · cases h
        · cases h; simp
      · cases h; simp

/-- a successful `take` selects, slot by slot: position `i` for `i ≥ 0`; with `allow_fill` a missing element for `-1`; without
it position `n + i` for negative `i` — and every selected position exists -/
theorem C16_take_slots (n : Nat) (fill : Bool) (idx : List Int) (ps : List (Option Nat))
    (h : takeSpec n fill idx = .ok ps) :
    ps = idx.map (fun i => if i < 0 then (if fill then none else some (i + (n : Int)).toNat) else some i.toNat) ∧
    ∀ p ∈ ps, ∀ k, p = some k → k < n := by
  unfold takeSpec at h
  split at h
  · cases h
  · next hbad0 =>
    split at h
    · cases h
    · next hbad =>
      simp only [List.any_eq_true, Bool.or_eq_true, decide_eq_true_eq, Bool.and_eq_true, Bool.not_eq_true', not_exists, not_and,
        not_or] at hbad
      split at h
      · next hf =>
        split at h
        · cases h
        · next hneg =>
          cases h
          simp only [List.any_eq_true, decide_eq_true_eq, not_exists, not_and, Int.not_lt] at hneg
          subst hf
          refine ⟨by simp, ?_⟩
          intro p hp k hk
          simp only [List.mem_map] at hp
          obtain ⟨i, hi, rfl⟩ := hp
          have := (hbad i hi).1
          split at hk
          · cases hk
          · cases hk; omega
      · next hf =>
        cases h
        have hff : fill = false := by simpa using hf
        subst hff
        refine ⟨by simp, ?_⟩
        intro p hp k hk
        simp only [List.mem_map] at hp
        obtain ⟨i, hi, rfl⟩ := hp
        have h1 := (hbad i hi).1
        have h2 := (hbad i hi).2 rfl
        split at hk
        · cases hk; omega
        · cases hk; omega

/-- `take` raises exactly in three cases: a non-empty take from an empty array (`IndexError`), an index outside
`[-n, n)` — or below `-1`… with `allow_fill` outside `[.., n)` — (`IndexError`), a negative index other than `-1` with
`allow_fill` (`ValueError`) -/
theorem C16_take_errors (n : Nat) (fill : Bool) (idx : List Int) :
    (takeSpec n fill idx = .error .indexError ↔
      (n = 0 ∧ idx ≠ [] ∧ (fill = false ∨ ∃ i ∈ idx, i ≥ 0)) ∨ ∃ i ∈ idx, i ≥ (n : Int) ∨ (fill = false ∧ i < -(n : Int))) ∧
    (takeSpec n fill idx = .error .valueError →
      fill = true ∧ ∃ i ∈ idx, i < -1) := by
  unfold takeSpec
  constructor
  · constructor
    · intro h
      split at h
      · next h0 =>
        left
        obtain ⟨a, b, c⟩ := h0
        refine ⟨a, b, ?_⟩
        rcases c with c | c
        · left; simpa using c
        · right; simpa using c
      · split at h
        · next h1 =>
          right
          simp only [List.any_eq_true, Bool.or_eq_true, decide_eq_true_eq, Bool.and_eq_true, Bool.not_eq_true'] at h1
          obtain ⟨i, hi, hc⟩ := h1
          exact ⟨i, hi, hc⟩
        · split at h
          · split at h <;> cases h
          · cases h
    · intro h
      rcases h with ⟨a, b, c⟩ | ⟨i, hi, hc⟩
      · have : n = 0 ∧ idx ≠ [] ∧ ((!fill) = true ∨ (idx.any (· ≥ 0)) = true) := by
          refine ⟨a, b, ?_⟩
          rcases c with c | ⟨i, hi, hc⟩
          · left; simp [c]
          · right; simp only [List.any_eq_true, decide_eq_true_eq]; exact ⟨i, hi, hc⟩
        rw [if_pos this]
      · split
        · rfl
        · have : (idx.any (fun i => decide (i ≥ (n : Int)) || (!fill && decide (i < -(n : Int))))) = true := by
            simp only [List.any_eq_true, Bool.or_eq_true, decide_eq_true_eq, Bool.and_eq_true, Bool.not_eq_true']
            exact ⟨i, hi, hc⟩
          simp only [this, if_true]
  · intro h
    split at h
    · cases h
    · split at h
      · cases h
      · split at h
        · next hf =>
          split at h
          · next hneg =>
            simp only [List.any_eq_true, decide_eq_true_eq] at hneg
            exact ⟨hf, hneg⟩
          · cases h
        · cases h

/-- `arr[i]` for an integer: position `i`, or `n + i` for a negative `i`; `IndexError` outside `[-n, n)` -/
theorem C16_getitem (n : Nat) (i : Int) :
    (getItemSpec n i = .error .indexError ↔ (i < -(n : Int) ∨ i ≥ (n : Int))) ∧
    ∀ k, getItemSpec n i = .ok k → k < n ∧ ((k : Int) = i ∨ (k : Int) = i + n) := by
  unfold getItemSpec
  constructor
  · constructor
    · intro h; split at h
      · assumption
      · cases h
    · intro h; simp only [h, if_true]
  · intro k h
    split at h
    · cases h
    · cases h
      split <;> omega

/-! ### buffers: a slice is a window on the same buffers -/

/-- slicing a slice is slicing once: windows compose by adding their starts -/
theorem C16_slice_of_slice (v : View) (a n b m : Nat) : (v.slice a n).slice b m = v.slice (a + b) m := by
  simp [View.slice, Nat.add_assoc]

/-- **the elements of a slice are the slice of the elements** (missing stays missing, order kept) — depth 1 (multipoint,
line, ring), depth 2 (multiline, polygon), depth 3 (multipolygon) -/
theorem C16_slice_elements (v : View) (s n : Nat) (h : s + n ≤ v.len) :
    elems1 (v.slice s n) = sl (elems1 v) s (s + n) ∧ elems2 (v.slice s n) = sl (elems2 v) s (s + n) ∧
    elems3 (v.slice s n) = sl (elems3 v) s (s + n) :=
  ⟨elems1_slice v s n h, elems2_slice v s n h, elems3_slice v s n h⟩

/-- **what a kernel reads for element `i` is element `i`** (depth 1): `buffer_values[outer[i] : outer[i+1]]` is the element stored
at position `off + i` -/
theorem C16_kernel_input1 (v : View) (o0 : List Nat) (ho : v.offs = [o0]) (hwf : v.off + v.len + 1 ≤ o0.length)
    (i : Nat) (hi : i < v.len) :
    sl v.vals (rd (outerOffsets v) i) (rd (outerOffsets v) (i + 1)) = elem1 v.vals (rd o0 (v.off + i)) (rd o0 (v.off + i + 1)) := by
  rw [outerOffsets_rd v o0 [] ho hwf i (by omega), outerOffsets_rd v o0 [] ho hwf (i + 1) (by omega)]
  rfl

/-- depth 2: the values of all lines / rings of element `i`, in order -/
theorem C16_kernel_input2 (v : View) (o0 o1 : List Nat) (ho : v.offs = [o0, o1]) (hwf : v.off + v.len + 1 ≤ o0.length)
    (hm0 : MonoOn (rd o0) v.off (v.off + v.len)) (hm1 : MonoOn (rd o1) (rd o0 v.off) (rd o0 (v.off + v.len)))
    (i : Nat) (hi : i < v.len) :
    sl v.vals (rd (outerOffsets v) i) (rd (outerOffsets v) (i + 1)) =
      (elem2 v.vals o1 (rd o0 (v.off + i)) (rd o0 (v.off + i + 1))).flatten := by
  rw [outerOffsets_rd v o0 [o1] ho hwf i (by omega), outerOffsets_rd v o0 [o1] ho hwf (i + 1) (by omega)]
  have h1 : rd o0 (v.off + i) ≤ rd o0 (v.off + i + 1) := hm0 (v.off + i) (by omega) (by omega)
  rw [flat2 v.vals o1 _ _ h1 (hm1.sub (hm0.le _ _ (Nat.le_refl _) (by omega) (by omega)) (hm0.le _ _ (by omega) (by omega) (Nat.le_refl _)))]
  rfl

/-- depth 3: the values of all rings of all parts of element `i`, in order -/
theorem C16_kernel_input3 (v : View) (o0 o1 o2 : List Nat) (ho : v.offs = [o0, o1, o2]) (hwf : v.off + v.len + 1 ≤ o0.length)
    (hm0 : MonoOn (rd o0) v.off (v.off + v.len)) (hm1 : MonoOn (rd o1) (rd o0 v.off) (rd o0 (v.off + v.len)))
    (hm2 : MonoOn (rd o2) (rd o1 (rd o0 v.off)) (rd o1 (rd o0 (v.off + v.len))))
    (i : Nat) (hi : i < v.len) :
    sl v.vals (rd (outerOffsets v) i) (rd (outerOffsets v) (i + 1)) =
      ((elem3 v.vals o1 o2 (rd o0 (v.off + i)) (rd o0 (v.off + i + 1))).map List.flatten).flatten := by
  rw [outerOffsets_rd v o0 [o1, o2] ho hwf i (by omega), outerOffsets_rd v o0 [o1, o2] ho hwf (i + 1) (by omega)]
  have ha : rd o0 v.off ≤ rd o0 (v.off + i) := hm0.le _ _ (Nat.le_refl _) (by omega) (by omega)
  have hb : rd o0 (v.off + i + 1) ≤ rd o0 (v.off + v.len) := hm0.le _ _ (by omega) (by omega) (Nat.le_refl _)
  have h1 : rd o0 (v.off + i) ≤ rd o0 (v.off + i + 1) := hm0 (v.off + i) (by omega) (by omega)
  have hm1' := hm1.sub ha hb
  rw [flat3 v.vals o1 o2 _ _ h1 hm1'
    (hm2.sub (hm1.le _ _ (Nat.le_refl _) ha (by omega)) (hm1.le _ _ (by omega) hb (Nat.le_refl _)))]
  rfl

/-- **results depend only on element values, never on buffer offsets**: if element `i` of one window and element `j` of
another (other buffers, other offsets, other history) are equal, the kernels are handed equal inputs for them (depth 2;
depth 1 and 3 alike from `C16_kernel_input1/3`) -/
theorem C16_buffer_independent2 (v w : View) (o0 o1 p0 p1 : List Nat) (hv : v.offs = [o0, o1]) (hw : w.offs = [p0, p1])
    (wfv : v.off + v.len + 1 ≤ o0.length) (wfw : w.off + w.len + 1 ≤ p0.length)
    (mv0 : MonoOn (rd o0) v.off (v.off + v.len)) (mv1 : MonoOn (rd o1) (rd o0 v.off) (rd o0 (v.off + v.len)))
    (mw0 : MonoOn (rd p0) w.off (w.off + w.len)) (mw1 : MonoOn (rd p1) (rd p0 w.off) (rd p0 (w.off + w.len)))
    (i j : Nat) (hi : i < v.len) (hj : j < w.len)
    (heq : elem2 v.vals o1 (rd o0 (v.off + i)) (rd o0 (v.off + i + 1)) = elem2 w.vals p1 (rd p0 (w.off + j)) (rd p0 (w.off + j + 1))) :
    sl v.vals (rd (outerOffsets v) i) (rd (outerOffsets v) (i + 1)) = sl w.vals (rd (outerOffsets w) j) (rd (outerOffsets w) (j + 1)) := by
  rw [C16_kernel_input2 v o0 o1 hv wfv mv0 mv1 i hi, C16_kernel_input2 w p0 p1 hw wfw mw0 mw1 j hj, heq]

/-- **`flat_values`** of a window is the concatenation, in order, of what the kernels read for its elements -/
theorem C16_flat_values (v : View) (o0 : List Nat) (rest : List (List Nat)) (ho : v.offs = o0 :: rest)
    (hwf : v.off + v.len + 1 ≤ o0.length) (hm : MonoOn (fun i => thru rest (rd o0 (v.off + i))) 0 v.len) :
    flatValues v = ((rng 0 v.len).map (fun i => sl v.vals (rd (outerOffsets v) i) (rd (outerOffsets v) (i + 1)))).flatten := by
  rw [flatValues_eq v o0 rest ho hwf]
  have := telescope v.vals (fun i => thru rest (rd o0 (v.off + i))) 0 v.len (Nat.zero_le _) hm
  simp only [Nat.add_zero] at this
  rw [← this]
  congr 1
  apply List.map_congr_left
  intro i hi
  obtain ⟨_, h2⟩ := mem_rng.mp hi
  rw [outerOffsets_rd v o0 rest ho hwf i (by omega), outerOffsets_rd v o0 rest ho hwf (i + 1) (by omega)]

/-- **`buffer_inner_offsets`**: the ring offsets of exactly the elements of the window (depth 2 and 3) -/
theorem C16_inner_offsets (v : View) (o0 o1 o2 : List Nat) (hwf : v.off + v.len + 1 ≤ o0.length) :
    (v.offs = [o0, o1] → innerOffsets v = sl o1 (rd o0 v.off) (rd o0 (v.off + v.len) + 1)) ∧
    (v.offs = [o0, o1, o2] → innerOffsets v = sl o2 (rd o1 (rd o0 v.off)) (rd o1 (rd o0 (v.off + v.len)) + 1)) :=
  ⟨fun h => innerOffsets2 v o0 o1 h hwf, fun h => innerOffsets3 v o0 o1 o2 h hwf⟩

/-- fixed-width arrays (points): element `i` of a window starting at `off + s` is element `s + i` of the window at `off`, and
`flat_values` is the run holding exactly the window's elements -/
theorem C16_fixed (vals : List Int) (w off s i len : Nat) :
    fixedElem vals w (off + s) i = fixedElem vals w off (s + i) ∧
    fixedFlat vals w off len = ((rng 0 len).map (fun i => fixedElem vals w off i)).flatten := by
  constructor
  · simp [fixedElem, Nat.add_assoc]
  · unfold fixedFlat fixedElem
    have hm : MonoOn (fun i => w * (off + i)) 0 len := by
      intro k _ _
      exact Nat.mul_le_mul_left w (by omega)
    have := telescope vals (fun i => w * (off + i)) 0 len (Nat.zero_le _) hm
    simp only [Nat.add_zero] at this
    rw [← this]
    congr 1

/-! non-vacuity: a polygon array of three elements (one missing) on buffers with a leading unused element, sliced -/
example :
    let v : View := { off := 1, len := 2, offs := [[0, 1, 3, 4], [0, 2, 4, 8, 10]], vals := [1,2,3,4,5,6,7,8,9,10], valid := [true, true, false] }
    elems2 v = [some [[3, 4], [5, 6, 7, 8]], none] ∧ outerOffsets v = [2, 8, 10] ∧ flatValues v = [3,4,5,6,7,8,9,10] ∧
    innerOffsets v = [2, 4, 8, 10] ∧ elems2 (v.slice 1 1) = [none] := by decide

end SpVerif
