import SpVerif.Model.Select
namespace SpVerif
open Select
/-- a successful `take` returns one slot per requested index -/
theorem C16_take_length (n : Nat) (fill : Bool) (idx : List Int) (ps : List (Option Nat))
    (h : takeSpec n fill idx = .ok ps) : ps.length = idx.length := by
  unfold takeSpec at h
  split at h
  · cases h
  · split at h
    · cases h
    · split at h
      · split at h
        · cases h
        · cases h; simp
      · cases h; simp
end SpVerif
