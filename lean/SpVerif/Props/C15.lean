import SpVerif.Lemmas.Area
/-!
# C15 — oriented() normalises ring direction without changing the shape

Theorems about `Geom.orientRings`, the abstract effect of `orient_polygons` on the rings of one polygon (ring 0 = shell,
the others holes; `flip = (is_ccw != expected_ccw) & (area != 0)` — the code as repaired by the fix for D12).
A ring is *well formed* when it is closed (first vertex = last) or has fewer than three stored vertices (then its coded area
is 0 and it is never touched).  Missing elements never reach this function (`oriented()` re-applies the validity mask).
-/
namespace SpVerif
open Geom

def WellFormed (r : List Pt) : Prop := r.length < 3 ∨ Closed r

/-- `oriented()` keeps the number of rings of every polygon -/
theorem C15_ring_count (rings : List (List Pt)) : (orientRings rings).length = rings.length := by
  cases rings <;> simp [orientRings]

/-- every ring keeps exactly its vertices, in the same order or reversed -/
theorem C15_vertices (rings : List (List Pt)) (i : Nat) (h : i < rings.length) :
    (orientRings rings).getD i [] = rings.getD i [] ∨ (orientRings rings).getD i [] = (rings.getD i []).reverse := by
  match rings, i with
  | shell :: holes, 0 =>
    simp only [orientRings, List.getD_cons_zero]
    split <;> simp
  | shell :: holes, (j+1) =>
    simp only [orientRings, List.getD_cons_succ]
    have hj : j < holes.length := by simpa using h
    simp only [List.getD_eq_getElem?_getD, List.getElem?_map, List.getElem?_eq_getElem hj, Option.map_some, Option.getD_some]
    split <;> simp

theorem area_reverse_wf (r : List Pt) (h : WellFormed r) : ringArea2 r.reverse = - ringArea2 r := by
  rcases h with h | h
  · rw [C14_degenerate_ring_zero r h, ringArea2]; simp [h]
  · exact ringArea2_eq_shoelace _ (closed_reverse r h) ▸ (ringArea2_eq_shoelace r h ▸ shoelace_reverse r)
where
  C14_degenerate_ring_zero (r : List Pt) (h : r.length < 3) : ringArea2 r = 0 := by simp [ringArea2, h]

/-- **orientation**: afterwards the shell has non-negative coded area (counter-clockwise when its area is non-zero) and every
hole non-positive area (clockwise when non-zero) -/
theorem C15_orientation (shell : List Pt) (holes : List (List Pt)) (hs : WellFormed shell) (hh : ∀ h ∈ holes, WellFormed h) :
    match orientRings (shell :: holes) with
    | s' :: hs' => 0 ≤ ringArea2 s' ∧ (ringArea2 shell ≠ 0 → 0 < ringArea2 s') ∧
                   ∀ h' ∈ hs', ringArea2 h' ≤ 0
    | [] => False := by
  simp only [orientRings]
  refine ⟨?_, ?_, ?_⟩
  · split
    · rw [area_reverse_wf shell hs]; omega
    · omega
  · intro hne
    split
    · rw [area_reverse_wf shell hs]; omega
    · omega
  · intro h' hm
    simp only [List.mem_map] at hm
    obtain ⟨h, hin, rfl⟩ := hm
    split
    · rw [area_reverse_wf h (hh h hin)]; omega
    · omega

theorem wf_reverse (r : List Pt) (h : WellFormed r) : WellFormed r.reverse := by
  rcases h with h | h
  · left; simpa using h
  · right; exact closed_reverse r h

/-- **idempotence**: orienting an oriented polygon changes nothing -/
theorem C15_idempotent (rings : List (List Pt)) (hw : ∀ r ∈ rings, WellFormed r) :
    orientRings (orientRings rings) = orientRings rings := by
  match rings with
  | [] => rfl
  | shell :: holes =>
    have hs := hw shell (by simp)
    simp only [orientRings]
    congr 1
    · by_cases h : ringArea2 shell < 0
      · simp only [h, if_true]
        have : ¬ ringArea2 shell.reverse < 0 := by rw [area_reverse_wf shell hs]; omega
        simp [this]
      · simp [h]
    · rw [List.map_map]
      apply List.map_congr_left
      intro r hr
      have hrw := hw r (by simp [hr])
      simp only [Function.comp]
      by_cases h : ringArea2 r > 0
      · simp only [h, if_true]
        have : ¬ ringArea2 r.reverse > 0 := by rw [area_reverse_wf r hrw]; omega
        simp [this]
      · simp [h]

/-- the magnitude of every ring's area is unchanged; for a polygon whose holes are wound opposite to its shell (either way
round) the total coded area keeps its magnitude and becomes non-negative as soon as the holes' total area does not exceed
the shell's (which holds for holes inside their shell) -/
theorem C15_area_magnitude (shell : List Pt) (holes : List (List Pt)) (hs : WellFormed shell)
    (hh : ∀ h ∈ holes, WellFormed h)
    (hcons : (0 ≤ ringArea2 shell ∧ ∀ h ∈ holes, ringArea2 h ≤ 0) ∨ (ringArea2 shell ≤ 0 ∧ ∀ h ∈ holes, 0 ≤ ringArea2 h)) :
    area2 (orientRings (shell :: holes)) = area2 (shell :: holes) ∨ area2 (orientRings (shell :: holes)) = - area2 (shell :: holes) := by
  have key : ∀ (hl : List (List Pt)), (∀ h ∈ hl, WellFormed h) →
      ((∀ h ∈ hl, ringArea2 h ≤ 0) → ((hl.map (fun h => if ringArea2 h > 0 then h.reverse else h)).map ringArea2).sum = (hl.map ringArea2).sum) ∧
      ((∀ h ∈ hl, 0 ≤ ringArea2 h) → ((hl.map (fun h => if ringArea2 h > 0 then h.reverse else h)).map ringArea2).sum = - (hl.map ringArea2).sum) := by
    intro hl
    induction hl with
    | nil => intro _; exact ⟨fun _ => rfl, fun _ => rfl⟩
    | cons x xs ih =>
      intro hwf
      obtain ⟨i1, i2⟩ := ih (fun h hm => hwf h (by simp [hm]))
      have hx := hwf x (by simp)
      constructor
      · intro hneg
        have hx0 := hneg x (by simp)
        have : ¬ ringArea2 x > 0 := by omega
        simp only [List.map_cons, List.sum_cons, this, if_false]
        rw [i1 (fun h hm => hneg h (by simp [hm]))]
      · intro hpos
        have hx0 := hpos x (by simp)
        simp only [List.map_cons, List.sum_cons]
        rw [i2 (fun h hm => hpos h (by simp [hm]))]
        by_cases hgt : ringArea2 x > 0
        · simp only [hgt, if_true]; rw [area_reverse_wf x hx]; omega
        · simp only [hgt, if_false]; omega
  obtain ⟨k1, k2⟩ := key holes hh
  rcases hcons with ⟨h0, hneg⟩ | ⟨h0, hpos⟩
  · left
    have : ¬ ringArea2 shell < 0 := by omega
    simp only [orientRings, area2, List.map_cons, List.sum_cons, this, if_false]
    rw [k1 hneg]
  · by_cases hz : ringArea2 shell < 0
    · right
      simp only [orientRings, area2, List.map_cons, List.sum_cons, hz, if_true]
      rw [k2 hpos, area_reverse_wf shell hs]; omega
    · right
      have h00 : ringArea2 shell = 0 := by omega
      simp only [orientRings, area2, List.map_cons, List.sum_cons, hz, if_false]
      rw [k2 hpos]; omega

/-! non-vacuity: clockwise shell with a counter-clockwise hole (consistently wound, "the other way round") -/
example : orientRings [[(0,0),(0,6),(6,6),(6,0),(0,0)], [(1,1),(3,1),(3,3),(1,3),(1,1)]]
    = [[(0,0),(6,0),(6,6),(0,6),(0,0)], [(1,1),(1,3),(3,3),(3,1),(1,1)]] := by decide

end SpVerif
