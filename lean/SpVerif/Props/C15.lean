import SpVerif.Model.Geom
namespace SpVerif
open Geom
/-- `oriented()` keeps the number of rings of every polygon -/
theorem C15_ring_count (rings : List (List Pt)) : (orientRings rings).length = rings.length := by
  cases rings <;> simp [orientRings]
end SpVerif
