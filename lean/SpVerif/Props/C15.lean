import SpVerif.Lemmas.Area
import SpVerif.Lemmas.Winding
import SpVerif.Lemmas.Reverse
/-!
# C15 — oriented() normalises ring direction without changing the shape

Theorems about `Geom.orientRings`, the abstract effect of `orient_polygons` on the rings of one polygon (ring 0 = shell,
the others holes; `flip = (is_ccw != expected_ccw) & (area != 0)` — the code as repaired by the fix for D12).
A ring is *well formed* when it is closed (first vertex = last) or has fewer than three stored vertices (then its coded area
is 0 and it is never touched).  Missing elements never reach this function (`oriented()` re-applies the validity mask).
-/
namespace SpVerif
open Geom

def WellFormed (r : List Pt) : Prop := r.length < 3 ∨ Closed r

/-- `oriented()` keeps the number of rings of every polygon -/
theorem C15_ring_count (rings : List (List Pt)) : (orientRings rings).length = rings.length := by
  cases rings <;> simp [orientRings]

/-- every ring keeps exactly its vertices, in the same order or reversed -/
theorem C15_vertices (rings : List (List Pt)) (i : Nat) (h : i < rings.length) :
    (orientRings rings).getD i [] = rings.getD i [] ∨ (orientRings rings).getD i [] = (rings.getD i []).reverse := by
  match rings, i with
  | shell :: holes, 0 =>
    simp only [orientRings, List.getD_cons_zero]
    split <;> simp
  | shell :: holes, (j+1) =>
    simp only [orientRings, List.getD_cons_succ]
    have hj : j < holes.length := by simpa using h
    simp only [List.getD_eq_getElem?_getD, List.getElem?_map, List.getElem?_eq_getElem hj, Option.map_some, Option.getD_some]
    split <;> simp

theorem area_reverse_wf (r : List Pt) (h : WellFormed r) : ringArea2 r.reverse = - ringArea2 r := by
  rcases h with h | h
  · rw [C14_degenerate_ring_zero r h, ringArea2]; simp [h]
  · exact ringArea2_eq_shoelace _ (closed_reverse r h) ▸ (ringArea2_eq_shoelace r h ▸ shoelace_reverse r)
where
  C14_degenerate_ring_zero (r : List Pt) (h : r.length < 3) : ringArea2 r = 0 := by simp [ringArea2, h]

/-- **orientation**: afterwards the shell has non-negative coded area (counter-clockwise when its area is non-zero) and every
hole non-positive area (clockwise when non-zero) -/
theorem C15_orientation (shell : List Pt) (holes : List (List Pt)) (hs : WellFormed shell) (hh : ∀ h ∈ holes, WellFormed h) :
    match orientRings (shell :: holes) with
    | s' :: hs' => 0 ≤ ringArea2 s' ∧ (ringArea2 shell ≠ 0 → 0 < ringArea2 s') ∧
                   ∀ h' ∈ hs', ringArea2 h' ≤ 0
    | [] => False := by
  simp only [orientRings]
  refine ⟨?_, ?_, ?_⟩
  · split
    · rw [area_reverse_wf shell hs]; omega
    · omega
  · intro hne
    split
    · rw [area_reverse_wf shell hs]; omega
    · omega
  · intro h' hm
    simp only [List.mem_map] at hm
    obtain ⟨h, hin, rfl⟩ := hm
    split
    · rw [area_reverse_wf h (hh h hin)]; omega
    · omega

theorem wf_reverse (r : List Pt) (h : WellFormed r) : WellFormed r.reverse := by
  rcases h with h | h
  · left; simpa using h
  · right; exact closed_reverse r h

/-- **idempotence**: orienting an oriented polygon changes nothing -/
theorem C15_idempotent (rings : List (List Pt)) (hw : ∀ r ∈ rings, WellFormed r) :
    orientRings (orientRings rings) = orientRings rings := by
  match rings with
  | [] => rfl
  | shell :: holes =>
    have hs := hw shell (by simp)
    simp only [orientRings]
    congr 1
    · by_cases h : ringArea2 shell < 0
      · simp only [h, if_true]
        have : ¬ ringArea2 shell.reverse < 0 := by rw [area_reverse_wf shell hs]; omega
        simp [this]
      · simp [h]
    · rw [List.map_map]
      apply List.map_congr_left
      intro r hr
      have hrw := hw r (by simp [hr])
      simp only [Function.comp]
      by_cases h : ringArea2 r > 0
      · simp only [h, if_true]
        have : ¬ ringArea2 r.reverse > 0 := by rw [area_reverse_wf r hrw]; omega
        simp [this]
      · simp [h]

/-- the magnitude of every ring's area is unchanged; for a polygon whose holes are wound opposite to its shell (either way
round) the total coded area keeps its magnitude and becomes non-negative as soon as the holes' total area does not exceed
the shell's (which holds for holes inside their shell) -/
theorem C15_area_magnitude (shell : List Pt) (holes : List (List Pt)) (hs : WellFormed shell)
    (hh : ∀ h ∈ holes, WellFormed h)
    (hcons : (0 ≤ ringArea2 shell ∧ ∀ h ∈ holes, ringArea2 h ≤ 0) ∨ (ringArea2 shell ≤ 0 ∧ ∀ h ∈ holes, 0 ≤ ringArea2 h)) :
    area2 (orientRings (shell :: holes)) = area2 (shell :: holes) ∨ area2 (orientRings (shell :: holes)) = - area2 (shell :: holes) := by
  have key : ∀ (hl : List (List Pt)), (∀ h ∈ hl, WellFormed h) →
      ((∀ h ∈ hl, ringArea2 h ≤ 0) → ((hl.map (fun h => if ringArea2 h > 0 then h.reverse else h)).map ringArea2).sum = (hl.map ringArea2).sum) ∧
      ((∀ h ∈ hl, 0 ≤ ringArea2 h) → ((hl.map (fun h => if ringArea2 h > 0 then h.reverse else h)).map ringArea2).sum = - (hl.map ringArea2).sum) := by
    intro hl
    induction hl with
    | nil => intro _; exact ⟨fun _ => rfl, fun _ => rfl⟩
    | cons x xs ih =>
      intro hwf
      obtain ⟨i1, i2⟩ := ih (fun h hm => hwf h (by simp [hm]))
      have hx := hwf x (by simp)
      constructor
      · intro hneg
        have hx0 := hneg x (by simp)
        have : ¬ ringArea2 x > 0 := by omega
        simp only [List.map_cons, List.sum_cons, this, if_false]
        rw [i1 (fun h hm => hneg h (by simp [hm]))]
      · intro hpos
        have hx0 := hpos x (by simp)
        simp only [List.map_cons, List.sum_cons]
        rw [i2 (fun h hm => hpos h (by simp [hm]))]
        by_cases hgt : ringArea2 x > 0
        · simp only [hgt, if_true]; rw [area_reverse_wf x hx]; omega
        · simp only [hgt, if_false]; omega
  obtain ⟨k1, k2⟩ := key holes hh
  rcases hcons with ⟨h0, hneg⟩ | ⟨h0, hpos⟩
  · left
    have : ¬ ringArea2 shell < 0 := by omega
    simp only [orientRings, area2, List.map_cons, List.sum_cons, this, if_false]
    rw [k1 hneg]
  · by_cases hz : ringArea2 shell < 0
    · right
      simp only [orientRings, area2, List.map_cons, List.sum_cons, hz, if_true]
      rw [k2 hpos, area_reverse_wf shell hs]; omega
    · right
      have h00 : ringArea2 shell = 0 := by omega
      simp only [orientRings, area2, List.map_cons, List.sum_cons, hz, if_false]
      rw [k2 hpos]; omega

theorem winding_sum (p : Pt) (rings : List (List Pt)) : winding p rings = (rings.map (ringWinding p)).sum := by
  unfold winding
  have : ∀ (acc : Int), rings.foldl (fun acc r => acc + ringWinding p r) acc = acc + (rings.map (ringWinding p)).sum := by
    induction rings with
    | nil => intro acc; simp
    | cons r rs ih => intro acc; simp only [List.foldl_cons, List.map_cons, List.sum_cons]; rw [ih]; omega
  rw [this]; omega

/-- **intersection results are unchanged** (point-in-polygon, hence `intersects` and `sjoin`): for a polygon whose holes are
wound opposite to its shell (either way round) and whose zero-area rings do not wind around `p`, the winding number about
every point is kept or negated as a whole, so `point_intersects_polygon` gives the same answer before and after -/
theorem C15_point_intersection_unchanged (p : Pt) (shell : List Pt) (holes : List (List Pt))
    (hcons : (0 ≤ ringArea2 shell ∧ ∀ h ∈ holes, ringArea2 h ≤ 0) ∨ (ringArea2 shell ≤ 0 ∧ ∀ h ∈ holes, 0 ≤ ringArea2 h))
    (hz : ∀ r ∈ shell :: holes, ringArea2 r = 0 → ringWinding p r = 0) :
    pointInRings p (orientRings (shell :: holes)) = pointInRings p (shell :: holes) := by
  rcases hcons with ⟨h0, hneg⟩ | ⟨h0, hpos⟩
  · -- already oriented: nothing is touched
    have e : orientRings (shell :: holes) = shell :: holes := by
      simp only [orientRings]
      have : ¬ ringArea2 shell < 0 := by omega
      simp only [this, if_false]
      congr 1
      conv => rhs; rw [← List.map_id holes]
      apply List.map_congr_left
      intro h hm
      have := hneg h hm
      have : ¬ ringArea2 h > 0 := by omega
      simp [this]
    rw [e]
  · -- everything with non-zero area is reversed: the winding number is negated as a whole
    have hw : winding p (orientRings (shell :: holes)) = - winding p (shell :: holes) := by
      rw [winding_sum, winding_sum]
      simp only [orientRings, List.map_cons, List.sum_cons, List.map_map]
      have hs : ringWinding p (if ringArea2 shell < 0 then shell.reverse else shell) = - ringWinding p shell := by
        by_cases hlt : ringArea2 shell < 0
        · simp only [hlt, if_true]; exact ringWinding_reverse p shell
        · simp only [hlt, if_false]
          have : ringWinding p shell = 0 := hz shell (by simp) (by omega)
          rw [this]; rfl
      rw [hs]
      have hh : ∀ (hl : List (List Pt)), (∀ h ∈ hl, 0 ≤ ringArea2 h) → (∀ h ∈ hl, ringArea2 h = 0 → ringWinding p h = 0) →
          (hl.map (ringWinding p ∘ fun h => if ringArea2 h > 0 then h.reverse else h)).sum = - (hl.map (ringWinding p)).sum := by
        intro hl
        induction hl with
        | nil => intro _ _; rfl
        | cons x xs ih =>
          intro hp hzz
          simp only [List.map_cons, List.sum_cons, Function.comp]
          have := ih (fun h hm => hp h (List.mem_cons_of_mem _ hm)) (fun h hm => hzz h (List.mem_cons_of_mem _ hm))
          rw [this]
          by_cases hgt : ringArea2 x > 0
          · simp only [hgt, if_true]; rw [ringWinding_reverse]; omega
          · simp only [hgt, if_false]
            have h0x := hp x (by simp)
            have : ringWinding p x = 0 := hzz x (by simp) (by omega)
            rw [this]; omega
      rw [hh holes hpos (fun h hm => hz h (List.mem_cons_of_mem _ hm))]; omega
    unfold pointInRings
    rw [hw]
    cases hc : winding p (shell :: holes) != 0 with
    | true => simp only [bne_iff_ne, ne_eq] at hc ⊢; omega
    | false => simp only [bne_eq_false_iff_eq] at hc ⊢; omega

theorem mem_flatten_map_reverse (rings : List (List Pt)) (p : Pt) :
    p ∈ (rings.map List.reverse).flatten ↔ p ∈ rings.flatten := by
  simp only [List.mem_flatten, List.mem_map]
  constructor
  · rintro ⟨l, ⟨r, hr, rfl⟩, hp⟩; exact ⟨r, hr, List.mem_reverse.mp hp⟩
  · rintro ⟨r, hr, hp⟩; exact ⟨r.reverse, ⟨r, hr, rfl⟩, List.mem_reverse.mpr hp⟩

/-- **box-intersection results are unchanged**: for a polygon with closed rings of non-zero area whose holes are wound opposite
to its shell (either way round) and lie within the shell's bounding box, `intersects_bounds` gives the same answer for the
oriented polygon, for every box of positive width and height -/
theorem C15_box_intersection_unchanged (bx : Box) (hx : bx.x0 ≠ bx.x1) (hy : bx.y0 ≠ bx.y1) (shell : List Pt)
    (holes : List (List Pt)) (hcl : ∀ r ∈ shell :: holes, Closed r) (hsh : bboxOf (shell :: holes).flatten = bboxOf shell)
    (hcons : (0 < ringArea2 shell ∧ ∀ h ∈ holes, ringArea2 h < 0) ∨ (ringArea2 shell < 0 ∧ ∀ h ∈ holes, 0 < ringArea2 h)) :
    polygonIB bx (orientRings (shell :: holes)) = polygonIB bx (shell :: holes) := by
  rcases hcons with ⟨h0, hneg⟩ | ⟨h0, hpos⟩
  · have e : orientRings (shell :: holes) = shell :: holes := by
      simp only [orientRings]
      have : ¬ ringArea2 shell < 0 := by omega
      simp only [this, if_false]
      congr 1
      conv => rhs; rw [← List.map_id holes]
      apply List.map_congr_left
      intro h hm
      have := hneg h hm
      have : ¬ ringArea2 h > 0 := by omega
      simp [this]
    rw [e]
  · have e : orientRings (shell :: holes) = shell.reverse :: holes.map List.reverse := by
      simp only [orientRings, h0, if_true]
      congr 1
      apply List.map_congr_left
      intro h hm
      have := hpos h hm
      simp [this]
    rw [e]
    have px : (orientBox bx).x0 < (orientBox bx).x1 ∧ (orientBox bx).y0 < (orientBox bx).y1 := by
      simp only [orientBox]; constructor <;> split <;> omega
    have hcl' : ∀ r ∈ shell.reverse :: holes.map List.reverse, Closed r := by
      intro r hr
      rcases List.mem_cons.mp hr with rfl | hr
      · exact closed_reverse shell (hcl shell (by simp))
      · obtain ⟨r0, hr0, rfl⟩ := List.mem_map.mp hr
        exact closed_reverse r0 (hcl r0 (List.mem_cons_of_mem _ hr0))
    have hsh' : bboxOf (shell.reverse :: holes.map List.reverse).flatten = bboxOf shell.reverse := by
      have e1 : bboxOf (shell.reverse :: holes.map List.reverse).flatten = bboxOf (shell :: holes).flatten := by
        apply bboxOf_congr
        intro p
        have := mem_flatten_map_reverse (shell :: holes) p
        simpa using this
      have e2 : bboxOf shell.reverse = bboxOf shell := bboxOf_congr _ _ (fun p => List.mem_reverse)
      rw [e1, e2, hsh]
    have i1 := polygonIBcore_iff (orientBox bx) px.1 px.2 shell.reverse (holes.map List.reverse) hcl' hsh'
    have i2 := polygonIBcore_iff (orientBox bx) px.1 px.2 shell holes hcl hsh
    have hpp : ∀ q, PolyPoint (shell.reverse :: holes.map List.reverse) q ↔ PolyPoint (shell :: holes) q := by
      intro q
      have := polyPoint_map_reverse (shell :: holes) q
      simpa using this
    unfold polygonIB
    rw [Bool.eq_iff_iff, i1, i2]
    constructor
    · rintro ⟨q, hq, hp⟩; exact ⟨q, hq, (hpp q).mp hp⟩
    · rintro ⟨q, hq, hp⟩; exact ⟨q, hq, (hpp q).mpr hp⟩

/-! non-vacuity: clockwise shell with a counter-clockwise hole (consistently wound, "the other way round") -/
example : orientRings [[(0,0),(0,6),(6,6),(6,0),(0,0)], [(1,1),(3,1),(3,3),(1,3),(1,1)]]
    = [[(0,0),(6,0),(6,6),(0,6),(0,0)], [(1,1),(1,3),(3,3),(3,1),(1,1)]] := by decide

end SpVerif
