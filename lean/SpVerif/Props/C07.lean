import SpVerif.Lemmas.Hilbert2Curve
import SpVerif.Lemmas.HilbertN
import SpVerif.Lemmas.HilbertLink
import SpVerif.Lemmas.HilbertOrigin
import SpVerif.Lemmas.HilbertLast
import SpVerif.Lemmas.HilbertOne
/-!
# C07 — the Hilbert curve mapping is a locality-preserving bijection

Property theorems only (helper lemmas live in `Lemmas/Hilbert2*.lean`).  They are about
`coord2`/`dist2`, the n = 2 word-level model of `coordinate_from_distance` /
`distance_from_coordinate` in `spatialpandas/spatialindex/hilbert_curve.py`
(`Model/Hilbert.lean`), for **every** order `p` (unbounded `Nat`; the code is int64).

For **every dimension n** (the list model `coordN`/`distN` of the same two routines) the two round trips, the ranges and the
bijection are proved as well (`C07_*_all_n`, lemmas in `Lemmas/HilbertN.lean`): every elementary step of the "undo excess work"
loops is an involution on word lists, Gray encode / decode are inverse, and the bit transposition is inverse to the
re-interleaving.  For n = 2 the list model is the pair model (`C07_list_model_is_pair_model`).  Adjacency, end points, refinement
and the identity with the classical recursion are proved for n = 2 only; for
n ∈ {1, 3} those clauses are compared with the implementation by the correspondence check.
-/
namespace SpVerif
open Hilbert

/-- distance → coordinates → distance is the identity -/
theorem C07_roundtrip_cd (p h : Nat) (hh : h < 4 ^ p) : dist2 p (coord2 p h) = h := by
  unfold dist2 coord2
  rw [redo_undo, grayEncode2_decode p _ (transpose2_bdd p h).2, untranspose2_transpose2 p h hh]

/-- coordinates → distance → coordinates is the identity -/
theorem C07_roundtrip_dc (p : Nat) (c : W2) (hc : c.1 < 2 ^ p ∧ c.2 < 2 ^ p) :
    coord2 p (dist2 p c) = c := by
  unfold dist2 coord2
  have h1 : Bdd p (redoLoop2 p c) := redoLoop2_bdd p p (Nat.le_refl _) hc
  rw [transpose2_untranspose2 p _ (grayEncode2_bdd h1), grayDecode2_encode p _ h1, undo_redo]

/-- coordinates stay on the `2^p × 2^p` grid, distances below `4^p` -/
theorem C07_range (p : Nat) :
    (∀ h, (coord2 p h).1 < 2 ^ p ∧ (coord2 p h).2 < 2 ^ p) ∧ (∀ c, dist2 p c < 4 ^ p) :=
  ⟨fun h => coord2_bdd p h, fun _ => untranspose2_lt p _⟩

/-- every cell of the grid is visited by exactly one distance in `[0, 4^p)` -/
theorem C07_bijection (p : Nat) (c : W2) (hc : c.1 < 2 ^ p ∧ c.2 < 2 ^ p) :
    ∃ h, h < 4 ^ p ∧ coord2 p h = c ∧ ∀ h', h' < 4 ^ p → coord2 p h' = c → h' = h := by
  refine ⟨dist2 p c, untranspose2_lt p _, C07_roundtrip_dc p c hc, ?_⟩
  intro h' hh' e
  rw [← e, C07_roundtrip_cd p h' hh']

/-- the word-level algorithm *is* the classical recursive Hilbert curve -/
theorem C07_classical_recursion (p h : Nat) (hh : h < 4 ^ p) : coord2 p h = hilbertRec p h :=
  coord2_eq_rec p h hh

/-- consecutive distances are grid neighbours (differ by one in exactly one coordinate) -/
theorem C07_adjacent (p h : Nat) (hh : h + 1 < 4 ^ p) :
    let a := coord2 p h
    let b := coord2 p (h + 1)
    (a.1 = b.1 ∧ (a.2 + 1 = b.2 ∨ b.2 + 1 = a.2)) ∨ (a.2 = b.2 ∧ (a.1 + 1 = b.1 ∨ b.1 + 1 = a.1)) :=
  coord2_adjacent p h hh

/-- the curve starts at `(0,0)` and ends at `(2^p - 1, 0)` -/
theorem C07_endpoints (p : Nat) : coord2 p 0 = (0, 0) ∧ coord2 p (4 ^ p - 1) = (2 ^ p - 1, 0) :=
  ⟨coord2_first p, coord2_last p⟩

/-- **the curve starts at the origin in every dimension**: distance 0 is the cell `(0, …, 0)`, for every `n` and `p` (and, by the round
trip, the origin has distance 0) -/
theorem C07_first_point_all_n (p n : Nat) : coordN p n 0 = List.replicate n 0 :=
  coordN_zero p n

/-- **end points in every dimension**: the last distance `2^(n·p) − 1` is the cell `(2^p − 1, 0, …, 0)` - the curve runs from the origin to the
far end of the first axis, for every `n ≥ 1` and `p ≥ 1` -/
theorem C07_endpoints_all_n (p n : Nat) (hp : 1 ≤ p) (hn : 1 ≤ n) :
    coordN p n 0 = List.replicate n 0 ∧ coordN p n (2 ^ (n * p) - 1) = (2 ^ p - 1) :: List.replicate (n - 1) 0 :=
  ⟨coordN_zero p n, coordN_last p n hp hn⟩

/-- **one dimension** (the R-tree on intervals): the curve is the identity - hence consecutive distances are neighbouring cells and the
order-`p+1` curve refines the order-`p` curve (`coord >>> 1` at distance `h` is the order-`p` coordinate at `h >>> 1`) -/
theorem C07_one_dimension (p h : Nat) (hh : h < 2 ^ p) :
    coordN p 1 h = [h] ∧ (h + 1 < 2 ^ p → coordN p 1 (h + 1) = [h + 1]) ∧
    (∀ h', h' < 2 ^ (p + 1) → (coordN (p + 1) 1 h').map (· >>> 1) = coordN p 1 (h' >>> 1)) := by
  refine ⟨coordN_one p h hh, fun h1 => coordN_one p (h + 1) h1, fun h' hh' => ?_⟩
  rw [coordN_one (p + 1) h' hh', coordN_one p (h' >>> 1) (by rw [Nat.shiftRight_eq_div_pow]; rw [Nat.pow_succ] at hh'; omega)]
  rfl

/-- successive orders refine each other: dropping the last two bits of the order-`p+1`
distance of a cell gives the order-`p` distance of its parent cell -/
theorem C07_refinement (p : Nat) (c : W2) (hc : c.1 < 2 ^ (p+1) ∧ c.2 < 2 ^ (p+1)) :
    dist2 (p+1) c / 4 = dist2 p (c.1 / 2, c.2 / 2) := by
  have hlt : dist2 (p+1) c < 4 ^ (p+1) := untranspose2_lt _ _
  have h1 := coord2_refine p (dist2 (p+1) c) hlt
  rw [C07_roundtrip_dc (p+1) c hc] at h1
  have h4 : dist2 (p+1) c / 4 < 4 ^ p := by rw [four_pow] at hlt; omega
  have := C07_roundtrip_cd p _ h4
  rw [← h1] at this
  exact this.symm

/-! non-vacuity: the hypotheses are met by concrete non-trivial cells -/
example : (27 : Nat) < 4 ^ 3 ∧ coord2 3 27 = (3, 6) ∧ dist2 3 (3, 6) = 27 := by decide
example : ((5, 6) : W2).1 < 2 ^ 3 ∧ ((5, 6) : W2).2 < 2 ^ 3 ∧ dist2 3 (5, 6) / 4 = dist2 2 (2, 3) := by decide

/-- **the routine written for every n, run with n = 2, is the pair model** the n = 2 theorems are about - so the classical
recursion, adjacency, end points and refinement hold for what `coordinates_from_distances(p, 2, ·)` computes -/
theorem C07_list_model_is_pair_model (p h : Nat) : coordN p 2 h = [(coord2 p h).1, (coord2 p h).2] :=
  coordN_two p h

/-- consecutive distances are grid neighbours, stated for the list model with n = 2 -/
theorem C07_adjacent_list_model (p h : Nat) (hh : h + 1 < 4 ^ p) :
    ∃ a0 a1 b0 b1, coordN p 2 h = [a0, a1] ∧ coordN p 2 (h + 1) = [b0, b1] ∧
      ((a0 = b0 ∧ (a1 + 1 = b1 ∨ b1 + 1 = a1)) ∨ (a1 = b1 ∧ (a0 + 1 = b0 ∨ b0 + 1 = a0))) :=
  ⟨_, _, _, _, coordN_two p h, coordN_two p (h + 1), coord2_adjacent p h hh⟩

/-! ### every dimension -/

/-- distance → coordinates → distance is the identity, for every order and every dimension -/
theorem C07_roundtrip_cd_all_n (p n h : Nat) (hn : 0 < n) (hh : h < 2 ^ (n * p)) : distN p (coordN p n h) = h :=
  distN_coordN p n h hn hh

/-- coordinates → distance → coordinates is the identity, for every order `p ≥ 1` and every dimension -/
theorem C07_roundtrip_dc_all_n (p : Nat) (hp : 1 ≤ p) (X : List Nat) (hn : 0 < X.length) (hX : ∀ x ∈ X, x < 2 ^ p) :
    coordN p X.length (distN p X) = X :=
  coordN_distN p hp X hn hX

/-- every distance is mapped to a cell of the `2^p`-per-side grid (one coordinate per dimension), every cell to a distance
below `2^(n p)` -/
theorem C07_range_all_n (p n h : Nat) (X : List Nat) :
    ((coordN p n h).length = n ∧ ∀ x ∈ coordN p n h, x < 2 ^ p) ∧ distN p X < 2 ^ (X.length * p) :=
  ⟨coordN_range p n h, distN_lt p X⟩

/-- **every cell of the grid is visited exactly once** by the distances `0 … 2^(n p) - 1`: the cell's distance is below
`2^(n p)`, is mapped to the cell, and no other distance below `2^(n p)` is -/
theorem C07_bijection_all_n (p : Nat) (hp : 1 ≤ p) (X : List Nat) (hn : 0 < X.length) (hX : ∀ x ∈ X, x < 2 ^ p) :
    distN p X < 2 ^ (X.length * p) ∧ coordN p X.length (distN p X) = X ∧
    ∀ h, h < 2 ^ (X.length * p) → coordN p X.length h = X → h = distN p X := by
  refine ⟨distN_lt p X, coordN_distN p hp X hn hX, ?_⟩
  intro h hh hc
  rw [← distN_coordN p X.length h hn hh, hc]

/-! non-vacuity: n = 3, p = 2 -/
example : coordN 2 3 45 = [3, 3, 3] ∧ distN 2 [3, 3, 3] = 45 := by decide

end SpVerif
