import SpVerif.Model.Hilbert
namespace SpVerif
open Hilbert
theorem C07_placeholder : coord2 1 0 = (0, 0) := by decide
end SpVerif
