import SpVerif.Lemmas.RTree
import SpVerif.Lemmas.RTreeIndex
import SpVerif.Lemmas.RTreeArr
import SpVerif.Lemmas.RTreeFill
/-!
# C03 — R-tree queries return exactly the intersecting / covered boxes

Theorems about the page-tree model `RTree` of `spatialindex/rtree.py`.  They hold for **every** tree shape (`PTree`) and in
particular for `buildTree ps sorted` with every page size `ps ≥ 1` and every arrangement `sorted` of the rows — the
Hilbert order for any `p` is one such arrangement, which is how independence of `p` is obtained.  Rows with undefined (NaN)
bounds are left out of the tree by `_build_hilbert_rtree` (the fix for D1), so they are never reported.
`WF`: a row's box has min ≤ max in every dimension (true of every bounding box).
-/
namespace SpVerif
open RTree

/-- **intersects** returns each row whose box overlaps the closed query box exactly once, and no other row -/
theorem C03_intersects_exact (d : Nat) (t : PTree) (q : NBox) (hw : ∀ r ∈ t.rows, WF d r.2) :
    (intersects d t q).Perm ((t.rows.filter (fun r => !outside d q r.2)).map (·.1)) := by
  obtain ⟨_, h2⟩ := query_spec d q t hw
  unfold intersects
  simp only
  rw [← List.map_append]
  exact List.Perm.map _ h2

theorem inside_imp_overlap {d : Nat} {q : NBox} {r : Row} (hw : WF d r.2) (h : inside d q r.2 = true) :
    (!outside d q r.2) = true := by simp [inside_not_outside hw h]

/-- **covers_overlaps** splits exactly that set into the rows fully inside the query box and those only partially inside -/
theorem C03_covers_overlaps_exact (d : Nat) (t : PTree) (q : NBox) (hw : ∀ r ∈ t.rows, WF d r.2) :
    (coversOverlaps d t q).1.Perm ((t.rows.filter (fun r => inside d q r.2)).map (·.1)) ∧
    (coversOverlaps d t q).2.Perm ((t.rows.filter (fun r => !outside d q r.2 && !inside d q r.2)).map (·.1)) := by
  obtain ⟨h1, h2⟩ := query_spec d q t hw
  have hsub : ∀ r ∈ (query d q t).2, WF d r.2 := by
    intro r hr
    have : r ∈ (query d q t).1 ++ overlapping d q (query d q t).2 ∨ True := Or.inr trivial
    -- rows in the maybe list are rows of the tree
    have hmem : ∀ (t : PTree), ∀ r ∈ (query d q t).2, r ∈ t.rows := by
      intro t
      induction t with
      | leaf rs =>
        intro r hr
        simp only [query] at hr
        split at hr
        · simp at hr
        · split at hr
          · simp at hr
          · split at hr
            · simp at hr
            · simpa [PTree.rows] using hr
      | node l r ihl ihr =>
        intro x hx
        simp only [query] at hx
        split at hx
        · simp at hx
        · split at hx
          · simp at hx
          · split at hx
            · simp at hx
            · simp only [List.mem_append] at hx
              rcases hx with hx | hx
              · simp [PTree.rows, ihl x hx]
              · simp [PTree.rows, ihr x hx]
    exact hw r (hmem t r hr)
  unfold coversOverlaps
  simp only
  constructor
  · rw [← List.map_append]
    apply List.Perm.map
    have hf := List.Perm.filter (fun r => inside d q r.2) h2
    simp only [overlapping, List.filter_append, List.filter_filter] at hf
    have e1 : (query d q t).1.filter (fun r => inside d q r.2) = (query d q t).1 := by
      rw [List.filter_eq_self]; exact h1
    have e2 : (query d q t).2.filter (fun a => inside d q a.2 && !outside d q a.2) = (query d q t).2.filter (fun r => inside d q r.2) := by
      apply List.filter_congr
      intro r hr
      cases hi : inside d q r.2 with
      | false => rfl
      | true => simp [inside_not_outside (hsub r hr) hi]
    have e3 : t.rows.filter (fun a => inside d q a.2 && !outside d q a.2) = t.rows.filter (fun r => inside d q r.2) := by
      apply List.filter_congr
      intro r hr
      cases hi : inside d q r.2 with
      | false => rfl
      | true => simp [inside_not_outside (hw r hr) hi]
    rw [e1, e2, e3] at hf
    exact hf
  · apply List.Perm.map
    have hf := List.Perm.filter (fun r => !inside d q r.2) h2
    simp only [overlapping, List.filter_append, List.filter_filter] at hf
    have e1 : (query d q t).1.filter (fun r => !inside d q r.2) = [] := by
      rw [List.filter_eq_nil_iff]; intro r hr; simp [h1 r hr]
    rw [e1, List.nil_append] at hf
    have e2 : (query d q t).2.filter (fun r => !(outside d q r.2 || inside d q r.2)) = (query d q t).2.filter (fun a => !inside d q a.2 && !outside d q a.2) := by
      apply List.filter_congr
      intro r _
      cases outside d q r.2 <;> cases inside d q r.2 <;> rfl
    have e3 : t.rows.filter (fun r => !outside d q r.2 && !inside d q r.2) = t.rows.filter (fun a => !inside d q a.2 && !outside d q a.2) := by
      apply List.filter_congr
      intro r _
      cases outside d q r.2 <;> cases inside d q r.2 <;> rfl
    rw [e2, e3]
    exact hf

/-- **the answer does not depend on the curve order `p` (any arrangement of the rows) or on the page size** -/
theorem C03_param_independent (d : Nat) (ps₁ ps₂ : Nat) (h₁ : 1 ≤ ps₁) (h₂ : 1 ≤ ps₂) (s₁ s₂ : List Row) (hp : s₁.Perm s₂)
    (hw : ∀ r ∈ s₁, WF d r.2) (q : NBox) :
    (intersects d (buildTree ps₁ s₁) q).Perm (intersects d (buildTree ps₂ s₂) q) := by
  have hw₂ : ∀ r ∈ s₂, WF d r.2 := fun r hr => hw r (hp.symm.subset hr)
  have a := C03_intersects_exact d (buildTree ps₁ s₁) q (by rw [buildTree_rows ps₁ h₁]; exact hw)
  have b := C03_intersects_exact d (buildTree ps₂ s₂) q (by rw [buildTree_rows ps₂ h₂]; exact hw₂)
  rw [buildTree_rows ps₁ h₁] at a
  rw [buildTree_rows ps₂ h₂] at b
  exact a.trans ((List.Perm.map _ (List.Perm.filter _ hp)).trans b.symm)

/-- **total_bounds** is NaN iff the tree holds no row; otherwise it contains every row's box -/
theorem C03_total_bounds (d : Nat) (t : PTree) :
    match totalBounds d t with
    | none => t.rows = []
    | some b => ∀ r ∈ t.rows, Sub d r.2 b := box_spec d t

/-- a tree without rows has an absent root: `total_bounds` is NaN -/
theorem C03_empty_total_bounds (d ps k : Nat) : totalBounds d (build ps k []) = none := by
  induction k with
  | zero => simp [totalBounds, build, PTree.box]
  | succ k ih => simp [totalBounds, build, PTree.box, unionOpt] at *; simp [ih]

/-! ### the array encoding of the tree (index arithmetic of `_NumbaRtree`) -/

/-- **index arithmetic of the array-encoded tree**: in a `bounds_tree` of `2·2^D − 1` rows the node at depth `t`, position `j` is row
`2^t − 1 + j`; its children are the nodes at depth `t+1`, positions `2j` and `2j+1`; `_start_index` / `_stop_index` give exactly the
row positions of the pages below it, `[j·2^(D−t)·ps, (j+1)·2^(D−t)·ps)`; and the leaf test `stop − start ≤ page_size` holds exactly
for the nodes of the last level (`page_size ≥ 1`) -/
theorem C03_index_arithmetic (D ps t j : Nat) (hps : 1 ≤ ps) (ht : t ≤ D) (hj : j < 2 ^ t) :
    let len := 2 * 2 ^ D - 1
    let node := 2 ^ t - 1 + j
    RTreeIndex.leftChild node = 2 ^ (t + 1) - 1 + 2 * j ∧ RTreeIndex.rightChild node = 2 ^ (t + 1) - 1 + (2 * j + 1) ∧
    RTreeIndex.startIndex len ps len node = j * 2 ^ (D - t) * ps ∧
    RTreeIndex.stopIndex len ps len node = (j + 1) * 2 ^ (D - t) * ps ∧
    (RTreeIndex.stopIndex len ps len node - RTreeIndex.startIndex len ps len node ≤ ps ↔ t = D) :=
  RTreeIndex.index_arithmetic D ps t j hps ht hj

/-- **the stack traversal over the array-encoded tree is the recursive query over the page tree**: `_maybe_intersects_ranges` as
coded (a stack of node indices, `_start_index` / `_stop_index`, the leaf test `stop − start ≤ page_size`, children pushed right then
left, a NaN row treated as a covered range beyond the data), run on a `bounds_tree` that holds the boxes of the sub-trees, returns
exactly the covered rows and the maybe-rows of `query` - so the exactness theorems above are about what the array code computes -/
theorem C03_array_traversal (d : Nat) (q : NBox) (a : RTreeArr.Arr) (hps : 1 ≤ a.ps) (hold : a.Holds d) :
    RTreeArr.loop d q a a.len [0] ([], []) = query d q (build a.ps a.D a.rows) :=
  RTreeArr.loop_eq_query d q a hps hold

/-- **the coded bottom-up pass fills `bounds_tree` with the boxes of the sub-trees**: the array `np.full((tree_length, 2n), nan)`
after the page loop (one leaf row per page, absent pages left NaN) and the layer loops of `_build_hilbert_rtree` as coded (children
read from the array being filled, a NaN child ignored, nothing written when both are NaN, `start` / `stop` moved by `_parent`) holds
in row `2^t − 1 + j` the box of the sub-tree at depth `t`, position `j` - for every number of rows, page size and dimension.
`fillL` is the model the driver runs and the correspondence compares with the real `bounds_tree` -/
theorem C03_bottom_up_pass (d ps : Nat) (rows : List Row) (hps : 1 ≤ ps) :
    (RTreeFill.fillL d ps rows).length = 2 * 2 ^ clog2 (numPages rows.length ps) - 1 ∧
    ({ D := clog2 (numPages rows.length ps), ps := ps, bt := fun i => (RTreeFill.fillL d ps rows).getD i none, rows := rows } :
      RTreeArr.Arr).Holds d :=
  ⟨RTreeFill.fillL_length d ps rows, RTreeFill.fillL_holds d ps rows hps⟩

/-- **end to end over the arrays**: the traversal as coded over the `bounds_tree` produced by the coded bottom-up pass returns the
covered rows and the maybe-rows of the recursive query over `buildTree` - the tree of the exactness theorems -/
theorem C03_array_index_end_to_end (d ps : Nat) (q : NBox) (rows : List Row) (hps : 1 ≤ ps) :
    let a : RTreeArr.Arr := { D := clog2 (numPages rows.length ps), ps := ps,
                              bt := fun i => (RTreeFill.fillL d ps rows).getD i none, rows := rows }
    RTreeArr.loop d q a a.len [0] ([], []) = query d q (buildTree ps rows) :=
  RTreeArr.loop_eq_query d q _ hps (RTreeFill.fillL_holds d ps rows hps)

/-- **the queries as the array code answers them are exact**: `intersects` / `covers_overlaps` computed by the coded traversal over the
`bounds_tree` of the coded bottom-up pass are the queries of the page-tree model - so `C03_intersects_exact` and
`C03_covers_overlaps_exact` speak about them: each qualifying row exactly once, no other, for every arrangement of the rows (every `p`),
every page size and dimension -/
theorem C03_array_queries (d ps : Nat) (q : NBox) (rows : List Row) (hps : 1 ≤ ps) :
    let a : RTreeArr.Arr := { D := clog2 (numPages rows.length ps), ps := ps,
                              bt := fun i => (RTreeFill.fillL d ps rows).getD i none, rows := rows }
    RTreeArr.intersectsArr d a q = intersects d (buildTree ps rows) q ∧
    RTreeArr.coversOverlapsArr d a q = coversOverlaps d (buildTree ps rows) q := by
  intro a
  have h : RTreeArr.loop d q a a.len [0] ([], []) = query d q (buildTree ps rows) := C03_array_index_end_to_end d ps q rows hps
  unfold RTreeArr.intersectsArr RTreeArr.coversOverlapsArr intersects coversOverlaps
  rw [h]
  exact ⟨rfl, rfl⟩

/-! non-vacuity: the coded pass on three rows, page size 1 (depth 2, one absent page): root, two inner nodes, three leaves, a NaN row -/
example : RTreeFill.boundsTreeCoded 2 1 [(0, [0,0,1,1]), (1, [2,2,3,3]), (2, [0,2,1,5])] =
    [some [0,0,3,5], some [0,0,3,3], some [0,2,1,5], some [0,0,1,1], some [2,2,3,3], some [0,2,1,5], none] := by decide

/-! non-vacuity: three well-formed 2-d rows, page size 1 (depth 2), a query touching a row edge -/
example : intersects 2 (buildTree 1 [(0, [0,0,1,1]), (1, [2,2,3,3]), (2, [0,2,1,5])]) [1,1,2,2] = [0, 1, 2] := by decide

end SpVerif
