import SpVerif.Model.RTree
namespace SpVerif
open RTree
/-- a tree without rows has an absent root: `total_bounds` is NaN -/
theorem C03_empty_total_bounds (d ps k : Nat) : totalBounds d (build ps k []) = none := by
  induction k with
  | zero => simp [totalBounds, build, PTree.box]
  | succ k ih => simp [totalBounds, build, PTree.box, unionOpt] at *; simp [ih]
end SpVerif
