import SpVerif.Model.Bounds
import SpVerif.Lemmas.IndexTotal
/-!
# C13 — bounds and total_bounds are the tight extents of the geometry

Theorems about the scan model `Bounds.axisRange` / `totalBounds` (`total_bounds_interleaved(_1d)`,
`bounds_interleaved`): per axis the result is exactly (min, max) over the finite coordinates, NaN iff there is none;
the total bounds are the NaN-ignoring union of the per-element rows (which is what the Dask fold, `GeoSeries` and the
index's `total_bounds` compute - not the root box of the tree, see the end of this file), so every row lies inside the total bounds.
-/
namespace SpVerif
open Bounds

/-- a non-finite coordinate never changes a range (it is skipped by `np.isfinite`) -/
theorem C13_nonfinite_skipped (r : Range) : r.add .nan = r ∧ r.add .pinf = r ∧ r.add .ninf = r := by
  cases r <;> simp [Range.add]

theorem union_none_right (r : Range) : r.union none = r := by cases r <;> rfl
theorem union_none_left (r : Range) : Range.union none r = r := by cases r <;> rfl

theorem union_assoc (a b c : Range) : (a.union b).union c = a.union (b.union c) := by
  cases a with
  | none => simp [union_none_left]
  | some x =>
    cases b with
    | none => simp [union_none_left, union_none_right]
    | some y =>
      cases c with
      | none => simp [union_none_right]
      | some z =>
        obtain ⟨a1, a2⟩ := x; obtain ⟨b1, b2⟩ := y; obtain ⟨c1, c2⟩ := z
        simp only [Range.union, Option.some.injEq, Prod.mk.injEq]
        constructor <;> omega

theorem add_eq_union (r : Range) (c : Coord) : r.add c = r.union (Range.add none c) := by
  cases c <;> cases r <;> simp [Range.add, Range.union]

theorem foldl_add (cs : List Coord) (acc : Range) : cs.foldl Range.add acc = acc.union (axisRange cs) := by
  induction cs generalizing acc with
  | nil => simp [axisRange, union_none_right]
  | cons c cs ih =>
    simp only [List.foldl_cons, axisRange]
    rw [ih, ih (Range.add none c), add_eq_union acc c, union_assoc]

/-- the scan is a monoid homomorphism: the range of a concatenation is the NaN-ignoring union of the ranges -/
theorem C13_range_append (xs ys : List Coord) : axisRange (xs ++ ys) = (axisRange xs).union (axisRange ys) := by
  unfold axisRange
  rw [List.foldl_append, foldl_add]
  rfl

theorem axisRange_cons (c : Coord) (cs : List Coord) : axisRange (c :: cs) = (Range.add none c).union (axisRange cs) := by
  have := C13_range_append [c] cs
  simpa [axisRange] using this

/-- **tightness per axis**: NaN iff no coordinate is finite; otherwise both ends are attained by finite coordinates of the
input and every finite coordinate lies between them -/
theorem C13_axis_tight (cs : List Coord) :
    match axisRange cs with
    | none => ∀ v, Coord.fin v ∉ cs
    | some (lo, hi) => Coord.fin lo ∈ cs ∧ Coord.fin hi ∈ cs ∧ ∀ v, Coord.fin v ∈ cs → lo ≤ v ∧ v ≤ hi := by
  induction cs with
  | nil => simp [axisRange]
  | cons c cs ih =>
    rw [axisRange_cons]
    cases hr : axisRange cs with
    | none =>
      rw [hr] at ih
      simp only [union_none_right]
      cases c with
      | fin v =>
        simp only [Range.add]
        refine ⟨by simp, by simp, ?_⟩
        intro w hw
        simp only [List.mem_cons, Coord.fin.injEq] at hw
        rcases hw with rfl | hw
        · omega
        · exact absurd hw (ih w)
      | nan => simp only [Range.add]; intro v hv; simp only [List.mem_cons] at hv; rcases hv with h | h; cases h; exact ih v h
      | pinf => simp only [Range.add]; intro v hv; simp only [List.mem_cons] at hv; rcases hv with h | h; cases h; exact ih v h
      | ninf => simp only [Range.add]; intro v hv; simp only [List.mem_cons] at hv; rcases hv with h | h; cases h; exact ih v h
    | some x =>
      obtain ⟨lo, hi⟩ := x
      rw [hr] at ih
      simp only at ih
      obtain ⟨hlo, hhi, hall⟩ := ih
      cases c with
      | fin v =>
        simp only [Range.add, Range.union]
        refine ⟨?_, ?_, ?_⟩
        · by_cases h : v ≤ lo
          · rw [Int.min_eq_left h]; simp
          · rw [Int.min_eq_right (by omega)]; simp [hlo]
        · by_cases h : hi ≤ v
          · rw [Int.max_eq_left h]; simp
          · rw [Int.max_eq_right (by omega)]; simp [hhi]
        · intro w hw
          simp only [List.mem_cons, Coord.fin.injEq] at hw
          rcases hw with rfl | hw
          · omega
          · have := hall w hw; omega
      | nan =>
        simp only [Range.add, union_none_left]
        exact ⟨by simp [hlo], by simp [hhi], fun w hw => hall w (by simpa using hw)⟩
      | pinf =>
        simp only [Range.add, union_none_left]
        exact ⟨by simp [hlo], by simp [hhi], fun w hw => hall w (by simpa using hw)⟩
      | ninf =>
        simp only [Range.add, union_none_left]
        exact ⟨by simp [hlo], by simp [hhi], fun w hw => hall w (by simpa using hw)⟩

/-- a missing element, or one without vertices, has the all-NaN row -/
theorem C13_inert_row : totalBounds [] = Row.empty := rfl

/-- **total_bounds is the NaN-ignoring union of the rows**: for the vertices of two groups of elements (and, by
induction, of any partitioning into elements / partitions / pages) -/
theorem C13_total_is_union_of_rows (vs ws : List (Coord × Coord)) :
    totalBounds (vs ++ ws) = (totalBounds vs).union (totalBounds ws) := by
  simp only [totalBounds, Row.union, List.map_append, C13_range_append]

/-- the fold over any list of element rows (what `DaskGeoSeries.total_bounds`, `np.nanmin/nanmax` over partition bounds,
and `HilbertRtree.total_bounds` (see `C13_index_total_bounds`) compute) equals the bounds of all vertices together -/
theorem C13_fold_of_rows (els : List (List (Coord × Coord))) :
    (els.map totalBounds).foldl Row.union Row.empty = totalBounds els.flatten := by
  have gen : ∀ (acc : List (Coord × Coord)), (els.map totalBounds).foldl Row.union (totalBounds acc) = totalBounds (acc ++ els.flatten) := by
    induction els with
    | nil => intro acc; simp
    | cons e es ih =>
      intro acc
      simp only [List.map_cons, List.foldl_cons, List.flatten_cons]
      rw [← C13_total_is_union_of_rows, ih, List.append_assoc]
  have := gen []
  simpa [C13_inert_row] using this

/-- every row lies inside the total bounds: per axis, a defined row range is contained in the (then defined) total range -/
theorem C13_row_inside_total (xs ys zs : List Coord) (lo hi : Int) (h : axisRange ys = some (lo, hi)) :
    ∃ tlo thi, axisRange (xs ++ ys ++ zs) = some (tlo, thi) ∧ tlo ≤ lo ∧ hi ≤ thi := by
  rw [C13_range_append, C13_range_append, h]
  cases axisRange xs with
  | none =>
    cases axisRange zs with
    | none => exact ⟨lo, hi, rfl, by omega, by omega⟩
    | some z => obtain ⟨a, b⟩ := z; exact ⟨min lo a, max hi b, rfl, by omega, by omega⟩
  | some x =>
    obtain ⟨c, d⟩ := x
    cases axisRange zs with
    | none => exact ⟨min c lo, max d hi, rfl, by omega, by omega⟩
    | some z => obtain ⟨a, b⟩ := z; exact ⟨min (min c lo) a, max (max d hi) b, rfl, by omega, by omega⟩

/-- **the spatial index reports the total bounds** (`HilbertRtree.total_bounds` as coded after D41: per column over all rows,
NaN ignored): it equals the bounds of all vertices together, whatever rows are undefined on one axis or on both -/
theorem C13_index_total_bounds (els : List (List (Coord × Coord))) :
    indexTotal (els.map totalBounds) = totalBounds els.flatten :=
  C13_fold_of_rows els

/-- the root box of the tree (the union of the rows that are *in* the tree) is that total only when no row is undefined on one axis
alone - which is why the root box cannot stand in for the total bounds (D41) -/
theorem C13_root_box_without_half_defined_rows (rows : List Row) (h : ∀ r ∈ rows, r.defined = true ∨ r = Row.empty) :
    rootBox rows = indexTotal rows :=
  rootBox_gen rows h Row.empty

/-! the hypothesis is needed (the input of D41): an element with x undefined and y in 5..7, next to the box (1,1)-(2,2) -/
example : rootBox [⟨none, some (5, 7)⟩, ⟨some (1, 2), some (1, 2)⟩] = ⟨some (1, 2), some (1, 2)⟩ ∧
    indexTotal [⟨none, some (5, 7)⟩, ⟨some (1, 2), some (1, 2)⟩] = ⟨some (1, 2), some (1, 7)⟩ := by decide
example : ∀ r ∈ [(⟨none, none⟩ : Row), ⟨some (1, 2), some (1, 2)⟩], r.defined = true ∨ r = Row.empty := by decide

/-! non-vacuity: a line with a NaN and an infinite coordinate -/
example : totalBounds [(.fin 1, .fin 2), (.nan, .fin 4), (.fin 5, .ninf)] = ⟨some (1, 5), some (2, 4)⟩ := by decide

end SpVerif
