import SpVerif.Model.Bounds
namespace SpVerif
open Bounds
/-- a non-finite coordinate never changes a range (it is skipped by `np.isfinite`) -/
theorem C13_nonfinite_skipped (r : Range) : r.add .nan = r ∧ r.add .pinf = r ∧ r.add .ninf = r := by
  cases r <;> simp [Range.add]
end SpVerif
