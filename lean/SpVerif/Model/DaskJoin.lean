import SpVerif.Model.Join
/-!
# Layer D (part 2) — `sjoin` with a Dask frame on the left (`tools/sjoin.py::_sjoin_dask_pandas`). Core Lean only.

Every left partition is joined on its own with the right rows whose boxes the right frame's spatial index reports for the
partition's bounds (`right_df.iloc[right_inds]`: a row selection, labels - here positions - are kept); for `how='inner'` a
partition without any candidate is skipped; the results are concatenated in partition order.  `keep P j` says that right row `j`
is among the candidates of partition `P`.
-/
namespace SpVerif.DaskJoin
open SpVerif.Geom SpVerif.Frames SpVerif.Join

/-- `pairs` against the right rows kept by `k` -/
def pairsK (left : List (Option Pt)) (right : List (Option Elem)) (k : Nat → Bool) : List (Nat × Nat) :=
  ((List.range right.length).filter k).flatMap (fun j =>
    ((List.range left.length).filter (fun i => hit (left.getD i none) (right.getD j none))).map (fun i => (i, j)))

/-- `_sjoin_pandas_pandas(df, right_df.iloc[right_inds], how)`; `how='right'` is rejected for a Dask frame -/
def joinK (how : How) (left : List (Option Pt)) (right : List (Option Elem)) (k : Nat → Bool) : List (Option Nat × Option Nat) :=
  let ps := pairsK left right k
  match how with
  | .inner => ps.map (fun (i, j) => (some i, some j))
  | .left =>
    (List.range left.length).flatMap (fun i =>
      let m := ps.filter (fun p => p.1 == i)
      if m.isEmpty then [(some i, none)] else m.map (fun (i, j) => (some i, some j)))
  | .right => []

/-- a row of a partition's result, seen in the concatenated frame: the left position moves by the rows before the partition -/
def shift (off : Nat) (r : Option Nat × Option Nat) : Option Nat × Option Nat := (r.1.map (· + off), r.2)

/-- `from_delayed([sjoin(partition, right.iloc[candidates]) …])` -/
def daskJoin (how : How) (right : List (Option Elem)) (keep : List (Option Pt) → Nat → Bool) :
    Nat → List (List (Option Pt)) → List (Option Nat × Option Nat)
  | _, [] => []
  | off, P :: rest => (joinK how P right (keep P)).map (shift off) ++ daskJoin how right keep (off + P.length) rest

/-! ### the candidate filters as coded (boxes from `bounds`, overlap = the R-tree's `not outside` test, C03) -/

/-- a left row's box: the point itself (`none` = NaN row of a missing point, not in the index) -/
def ptBox : Option Pt → Option RTree.NBox
  | none => none
  | some p => some [p.1, p.2, p.1, p.2]

/-- `sindex.intersects(shape_bounds)` on the left frame: rows whose box overlaps the right shape's bounds -/
def cand (left : List (Option Pt)) (bj : RTree.NBox) : List Nat :=
  (List.range left.length).filter (fun i => match ptBox (left.getD i none) with
    | none => false
    | some b => !RTree.outside 2 bj b)

/-- the pair table as `_sjoin_pandas_pandas` computes it: right rows with NaN bounds are skipped, candidates from the index,
then the exact predicate on the candidates -/
def pairsIdx (left : List (Option Pt)) (right : List (Option Elem)) : List (Nat × Nat) :=
  (List.range right.length).flatMap (fun j =>
    match elemBounds (right.getD j none) with
    | none => []
    | some bj => ((cand left bj).filter (fun i => hit (left.getD i none) (right.getD j none))).map (fun i => (i, j)))

/-- bounds of a partition of points (`partition_bounds` row; `none` = NaN) -/
def partBounds (P : List (Option Pt)) : Option RTree.NBox :=
  P.foldl (fun acc p => RTree.unionOpt 2 acc (ptBox p)) none

/-- `right_sindex.intersects(partition bounds)`: right rows whose box overlaps the partition's bounds -/
def keepOverlap (right : List (Option Elem)) (P : List (Option Pt)) (j : Nat) : Bool :=
  match partBounds P, elemBounds (right.getD j none) with
  | some B, some bj => !RTree.outside 2 B bj
  | _, _ => false

end SpVerif.DaskJoin
