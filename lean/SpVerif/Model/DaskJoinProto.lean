import SpVerif.Model.FramesProto
import SpVerif.Model.DaskJoin
/-! Line protocol for the Dask `sjoin` model. Core Lean only. -/
namespace SpVerif.DaskJoinProto
open SpVerif.Proto SpVerif.Geom SpVerif.Frames SpVerif.GeomProto SpVerif.FramesProto SpVerif.Join SpVerif.JoinProto SpVerif.DaskJoin

/-- `dsjoin <how> [ [left points of partition 0] … ] <kind> <right shapes>` →
`[ rows of the Dask join ] [ candidates (right positions) of every partition ] [ pair table from the index prefilter ]` -/
def run : List V → Option String
  | [.w "dsjoin", .w how, .l parts, .w kind, .l shapes] => do
    let ps ← parts.mapM (fun p => p.list? >>= (·.mapM optPt?))
    let r ← shapes.mapM (elem? kind)
    let h ← match how with
      | "inner" => some How.inner | "left" => some How.left | _ => none
    let rows := daskJoin h r (keepOverlap r) 0 ps
    let cands := ps.map (fun P => (List.range r.length).filter (keepOverlap r P))
    let tbl := pairsIdx ps.flatten r
    pure ((V.l (rows.map (fun (a, b) => V.l [showOpt a, showOpt b]))).show ++ " " ++ (V.l (cands.map ofNats)).show ++ " " ++
          (V.l (tbl.map (fun (a, b) => ofNats [a, b]))).show)
  | _ => none

end SpVerif.DaskJoinProto
