/-!
# Layer A — abstract geometry over exact integer coordinates

Core Lean only.  Every function follows the numba kernel it models step by step (same early
exits, same comparison operators); the docstring names the code.

* `spatialpandas/geometry/_algorithms/intersection.py`
* `spatialpandas/geometry/_algorithms/orientation.py`
* `spatialpandas/geometry/_algorithms/measures.py`
* `spatialpandas/geometry/_algorithms/bounds.py` (finite coordinates; the NaN-aware version is `Model/Bounds.lean`)
* `spatialpandas/geometry/point.py` (`_perform_intersects_*`)

Coordinates are `Int`: the properties quantify over exactly representable coordinates and every
predicate is a sign of a homogeneous polynomial or a comparison (DESIGN §2).
-/
namespace SpVerif.Geom

abbrev Pt := Int × Int

structure Box where
  x0 : Int
  y0 : Int
  x1 : Int
  y1 : Int
  deriving Repr, DecidableEq

/-- "Orient rectangle": `if x1 < x0: swap; if y1 < y0: swap` -/
def orientBox (b : Box) : Box :=
  { x0 := if b.x1 < b.x0 then b.x1 else b.x0
    x1 := if b.x1 < b.x0 then b.x0 else b.x1
    y0 := if b.y1 < b.y0 then b.y1 else b.y0
    y1 := if b.y1 < b.y0 then b.y0 else b.y1 }

/-- `total_bounds_interleaved` on finite coordinates; `none` is the all-NaN result for no vertices -/
def bboxOf : List Pt → Option Box
  | [] => none
  | p :: ps =>
    match bboxOf ps with
    | none => some ⟨p.1, p.2, p.1, p.2⟩
    | some b => some ⟨min p.1 b.x0, min p.2 b.y0, max p.1 b.x1, max p.2 b.y1⟩

/-- `x0 <= x <= x1 and y0 <= y <= y1` -/
def inBox (b : Box) (p : Pt) : Bool :=
  decide (b.x0 ≤ p.1) && decide (p.1 ≤ b.x1) && decide (b.y0 ≤ p.2) && decide (p.2 ≤ b.y1)

/-- consecutive vertex pairs of one line / ring: `for j in range(start, stop - 2, 2)` -/
def segs : List Pt → List (Pt × Pt)
  | a :: b :: rest => (a, b) :: segs (b :: rest)
  | _ => []

/-- `triangle_orientation` -/
def triOrient (a b c : Pt) : Int :=
  let v := (b.1 - a.1) * (c.2 - a.2) - (b.2 - a.2) * (c.1 - a.1)
  if v > 0 then 1 else if v < 0 then -1 else 0

/-- `segments_intersect_1d` -/
def seg1d (a0 a1 b0 b1 : Int) : Bool :=
  decide (max (min a0 a1) (min b0 b1) ≤ min (max a0 a1) (max b0 b1))

/-- `segments_intersect(a0, a1, b0, b1)` branch for branch -/
def segmentsIntersect (a0 a1 b0 b1 : Pt) : Bool :=
  if !seg1d a0.1 a1.1 b0.1 b1.1 then false
  else if !seg1d a0.2 a1.2 b0.2 b1.2 then false
  else
    let aZero := a0 == a1
    let bZero := b0 == b1
    if aZero && !bZero && (a0 == b0 || a0 == b1) then true
    else if bZero && !aZero && (b0 == a0 || b0 == a1) then true
    else if aZero || bZero then false
    else
      let b0o := triOrient a0 a1 b0
      let b1o := triOrient a0 a1 b1
      if b0o == 0 && b1o == 0 then true
      else if b0o == b1o then false
      else
        let a0o := triOrient b0 b1 a0
        let a1o := triOrient b0 b1 a1
        if a0o == 0 && a1o == 0 then true
        else if a0o == a1o then false
        else true

/-- the four "segment against top / bottom / left / right" tests of the kernels -/
def segBoxEdges (b : Box) (s : Pt × Pt) : Bool :=
  segmentsIntersect s.1 s.2 (b.x0, b.y1) (b.x1, b.y1) ||
  segmentsIntersect s.1 s.2 (b.x0, b.y0) (b.x1, b.y0) ||
  segmentsIntersect s.1 s.2 (b.x0, b.y0) (b.x0, b.y1) ||
  segmentsIntersect s.1 s.2 (b.x1, b.y0) (b.x1, b.y1)

/-- bbox-outside test: `bounds[0] > x1 or bounds[1] > y1 or bounds[2] < x0 or bounds[3] < y0` -/
def bboxOutside (bb b : Box) : Bool :=
  decide (bb.x0 > b.x1) || decide (bb.y0 > b.y1) || decide (bb.x1 < b.x0) || decide (bb.y1 < b.y0)

/-- projection shortcut: bbox inside the box on the x axis or on the y axis -/
def bboxProjInside (bb b : Box) : Bool :=
  (decide (bb.x0 ≥ b.x0) && decide (bb.x1 ≤ b.x1)) || (decide (bb.y0 ≥ b.y0) && decide (bb.y1 ≤ b.y1))

/-- `_perform_line_intersect_bounds` for one line, box already oriented -/
def lineIBcore (b : Box) (l : List Pt) : Bool :=
  match bboxOf l with
  | none => false
  | some bb =>
    if bboxOutside bb b then false
    else if bboxProjInside bb b then true
    else if l.any (inBox b) then true
    else (segs l).any (segBoxEdges b)

def zeroAreaBox (b : Box) : Bool := b.x0 == b.x1 || b.y0 == b.y1

/-- one element of `lines_intersect_bounds` (line, ring) -/
def lineIB (bx : Box) (l : List Pt) : Bool :=
  let b := orientBox bx
  if zeroAreaBox b then false else lineIBcore b l

/-- one element of `multilines_intersect_bounds` -/
def multilineIB (bx : Box) (ls : List (List Pt)) : Bool :=
  let b := orientBox bx
  if zeroAreaBox b then false else ls.any (lineIBcore b)

/-- `x0 <= x <= x1 and y0 <= y <= y1` for one point; `Point.intersects_bounds` / `PointArray` -/
def pointIB (bx : Box) (p : Pt) : Bool := inBox (orientBox bx) p

/-- one element of `multipoints_intersect_bounds` -/
def multipointIB (bx : Box) (ps : List Pt) : Bool := ps.any (inBox (orientBox bx))

/-! ### winding number, `point_intersects_polygon` -/

/-- contribution of the directed edge `a → b` to the winding number at `p`, as coded -/
def edgeContrib (p a b : Pt) : Int :=
  if b.2 == a.2 then 0
  else
    let asc : Int := if b.2 < a.2 then -1 else 1
    let lo : Pt := if b.2 < a.2 then b else a
    let hi : Pt := if b.2 < a.2 then a else b
    if decide (lo.2 ≥ p.2) || decide (hi.2 < p.2) || (decide (lo.1 < p.1) && decide (hi.1 < p.1)) then 0
    else if decide (lo.1 ≥ p.1) && decide (hi.1 ≥ p.1) then asc
    else
      let axb := (lo.1 - p.1) * (hi.2 - p.2) - (lo.2 - p.2) * (hi.1 - p.1)
      -- `axb > 0 or (axb == 0 and ascending)`: `ascending` is ±1, always truthy
      if decide (axb > 0) || decide (axb = 0) then asc else 0

def ringWinding (p : Pt) (r : List Pt) : Int :=
  (segs r).foldl (fun acc s => acc + edgeContrib p s.1 s.2) 0

def winding (p : Pt) (rings : List (List Pt)) : Int :=
  rings.foldl (fun acc r => acc + ringWinding p r) 0

/-- `point_intersects_polygon(x, y, values, ring offsets)` -/
def pointInRings (p : Pt) (rings : List (List Pt)) : Bool := winding p rings != 0

/-- `_perform_polygon_intersect_bounds` for one polygon (list of rings), box already oriented -/
def polygonIBcore (b : Box) (rings : List (List Pt)) : Bool :=
  let verts := rings.flatten
  match bboxOf verts with
  | none => false
  | some bb =>
    if bboxOutside bb b then false
    else if bboxProjInside bb b then true
    else if verts.any (inBox b) then true
    else if rings.any (fun r => (segs r).any (segBoxEdges b)) then true
    else pointInRings (b.x0, b.y0) rings || pointInRings (b.x1, b.y0) rings ||
         pointInRings (b.x1, b.y1) rings || pointInRings (b.x0, b.y1) rings

/-- one element of `polygons_intersect_bounds` (no zero-area shortcut in this kernel) -/
def polygonIB (bx : Box) (rings : List (List Pt)) : Bool := polygonIBcore (orientBox bx) rings

/-- one element of `multipolygons_intersect_bounds` -/
def multipolygonIB (bx : Box) (parts : List (List (List Pt))) : Bool :=
  parts.any (polygonIBcore (orientBox bx))

/-! ### point versus shape (`point.py`) -/

/-- `segment_intersects_point` -/
def segPoint (p : Pt) (s : Pt × Pt) : Bool :=
  if decide (p.1 < min s.1.1 s.2.1) || decide (p.1 > max s.1.1 s.2.1) then false
  else if decide (p.2 < min s.1.2 s.2.2) || decide (p.2 > max s.1.2 s.2.2) then false
  else
    let sx := s.2.1 - s.1.1
    let sy := s.2.2 - s.1.2
    let px := p.1 - s.1.1
    let py := p.2 - s.1.2
    sx * py - sy * px == 0

/-- one line of `_perform_intersects_line` -/
def pointLine (p : Pt) (l : List Pt) : Bool :=
  match bboxOf l with
  | none => false
  | some bb =>
    if decide (p.1 < bb.x0) || decide (p.2 < bb.y0) || decide (p.1 > bb.x1) || decide (p.2 > bb.y1) then false
    else l.any (· == p) || (segs l).any (segPoint p)

def pointMultiLine (p : Pt) (ls : List (List Pt)) : Bool := ls.any (pointLine p)
def pointPoint (p q : Pt) : Bool := p == q
def pointMultiPoint (p : Pt) (qs : List Pt) : Bool := qs.any (· == p)
def pointPolygon (p : Pt) (rings : List (List Pt)) : Bool := pointInRings p rings
/-- a multipolygon's `buffer_inner_offsets` are the ring offsets of all parts together -/
def pointMultiPolygon (p : Pt) (parts : List (List (List Pt))) : Bool := pointInRings p parts.flatten

/-! ### measures (`measures.py`), doubled / squared so that everything stays in `Int` -/

/-- `Σ_k x_{k+1} (y_{k+2} - y_k)`: the main loop of `compute_area` -/
def midSum : List Pt → Int
  | a :: b :: c :: rest => b.1 * (c.2 - a.2) + midSum (b :: c :: rest)
  | _ => 0

/-- twice the value `compute_area` adds for one ring: skip rings with < 3 vertices
(`poly_length < 6`), main loop, wrap-around term `x_0 (y_1 - y_{m-2})` -/
def ringArea2 (r : List Pt) : Int :=
  if r.length < 3 then 0
  else midSum r + (r.getD 0 (0, 0)).1 * ((r.getD 1 (0, 0)).2 - (r.getD (r.length - 2) (0, 0)).2)

/-- twice `compute_area(values, ring offsets)` -/
def area2 (rings : List (List Pt)) : Int := (rings.map ringArea2).sum

/-- squared lengths of the segments `compute_line_length` adds up, in order; a vertex with a
non-finite coordinate is `none` and every segment touching it is skipped -/
def segSquares : List (Option Pt) → List Int
  | some a :: some b :: rest =>
    ((b.1 - a.1) * (b.1 - a.1) + (b.2 - a.2) * (b.2 - a.2)) :: segSquares (some b :: rest)
  | _ :: b :: rest => segSquares (b :: rest)
  | _ => []

def lengthSquares (lines : List (List (Option Pt))) : List Int := (lines.map segSquares).flatten

/-! ### orientation (`orient_polygons`) -/

/-- rings of one polygon after `orient_polygons`: ring 0 is expected counter-clockwise
(`area >= 0`), the others clockwise; a ring of non-zero area whose direction differs is reversed
(`flip = (is_ccw != expected_ccw) & (area != 0)`) -/
def orientRings : List (List Pt) → List (List Pt)
  | [] => []
  | shell :: holes =>
    (if ringArea2 shell < 0 then shell.reverse else shell) ::
      holes.map (fun h => if ringArea2 h > 0 then h.reverse else h)

end SpVerif.Geom
