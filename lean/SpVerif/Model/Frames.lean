import SpVerif.Model.Geom
import SpVerif.Model.RTree
/-!
# Layer F (part 1) — coordinate indexing `.cx` (`geometry/base.py: _BaseCoordinateIndexer, _CoordinateIndexer`)

Core Lean only.  Rows are identified by their position; Series / DataFrame wrappers carry index labels and
other columns along unchanged (`iloc` / boolean mask on the parent), which the correspondence observes.
-/
namespace SpVerif.Frames
open SpVerif.Geom SpVerif.RTree

/-- a geometry element of any kind (`none` = missing) -/
inductive Elem where
  | point (p : Pt)
  | multipoint (ps : List Pt)
  | line (l : List Pt)
  | multiline (ls : List (List Pt))
  | polygon (rings : List (List Pt))
  | multipolygon (parts : List (List (List Pt)))
  deriving Repr

/-- the element's box test (C01) -/
def elemIB (b : Box) : Option Elem → Bool
  | none => false
  | some (.point p) => pointIB b p
  | some (.multipoint ps) => multipointIB b ps
  | some (.line l) => lineIB b l
  | some (.multiline ls) => multilineIB b ls
  | some (.polygon rs) => polygonIB b rs
  | some (.multipolygon ps) => multipolygonIB b ps

def elemVerts : Elem → List Pt
  | .point p => [p]
  | .multipoint ps => ps
  | .line l => l
  | .multiline ls => ls.flatten
  | .polygon rs => rs.flatten
  | .multipolygon ps => ps.flatten.flatten

/-- the element's row of `bounds` (`none` = NaN row: missing or without vertices) -/
def elemBounds : Option Elem → Option NBox
  | none => none
  | some e => (bboxOf (elemVerts e)).map (fun b => [b.x0, b.y0, b.x1, b.y1])

/-- `_get_bounds`: omitted slice ends are replaced by the total bounds, inverted ends are swapped -/
def getBounds (xs0 xs1 ys0 ys1 : Option Int) (total : Box) : Box :=
  let x0 := xs0.getD total.x0
  let y0 := ys0.getD total.y0
  let x1 := xs1.getD total.x1
  let y1 := ys1.getD total.y1
  { x0 := if x1 < x0 then x1 else x0, x1 := if x1 < x0 then x0 else x1,
    y0 := if y1 < y0 then y1 else y0, y1 := if y1 < y0 then y0 else y1 }

/-- `.cx` without a spatial index: boolean mask of `intersects_bounds`, rows in original order -/
def cxMask (b : Box) (els : List (Option Elem)) : List Nat :=
  ((List.range els.length).zip els).filterMap (fun (i, e) => if elemIB b e then some i else none)

def insertSorted (x : Nat) : List Nat → List Nat
  | [] => [x]
  | y :: ys => if x ≤ y then x :: y :: ys else y :: insertSorted x ys

def sortNat (xs : List Nat) : List Nat := xs.foldr insertSorted []

/-- rows of the bounds array that have bounds, with their position (rows without bounds are not indexed) -/
def validRows (els : List (Option Elem)) : List Row :=
  ((List.range els.length).zip els).filterMap (fun (i, e) => (elemBounds e).map (fun bb => (i, bb)))

/-- the indexed path on a given tree: `np.sort(concatenate([covers, overlaps[intersects_bounds(box, overlaps)]]))` -/
def cxFromTree (t : PTree) (b : Box) (els : List (Option Elem)) : List Nat :=
  let co := coversOverlaps 2 t [b.x0, b.y0, b.x1, b.y1]
  sortNat (co.1 ++ co.2.filter (fun i => elemIB b (els.getD i none)))

/-- `.cx` with a spatial index built with page size `ps` on the valid rows permuted by `perm` (empty = as they come) -/
def cxIndexed (ps : Nat) (perm : List Nat) (b : Box) (els : List (Option Elem)) : List Nat :=
  let rows := validRows els
  let sorted : List Row := if perm.isEmpty then rows else perm.filterMap (fun k => rows.find? (fun r => r.1 == k))
  cxFromTree (buildTree ps sorted) b els

end SpVerif.Frames
