import SpVerif.Model.Proto
import SpVerif.Model.Geom
import SpVerif.Model.Bounds
/-! Decoding of geometry values of the line protocol and the geometry operations of the driver. -/
namespace SpVerif.GeomProto
open SpVerif.Proto SpVerif.Geom SpVerif.Bounds

def coord? : V → Option Coord
  | .i n => some (.fin n)
  | .nan => some .nan
  | .pinf => some .pinf
  | .ninf => some .ninf
  | _ => none

/-- flat interleaved list → integer vertices (fails on odd length or non-finite values) -/
def pts? : List V → Option (List Pt)
  | [] => some []
  | .i x :: .i y :: rest => (pts? rest).map (fun r => (x, y) :: r)
  | _ => none

def cpts? : List V → Option (List (Coord × Coord))
  | [] => some []
  | a :: b :: rest => do
    let x ← coord? a
    let y ← coord? b
    let r ← cpts? rest
    pure ((x, y) :: r)
  | _ => none

/-- vertices for the length kernel: a vertex with a non-finite coordinate is `none` -/
def opts? : List V → Option (List (Option Pt))
  | [] => some []
  | a :: b :: rest => do
    let x ← coord? a
    let y ← coord? b
    let r ← opts? rest
    match x, y with
    | .fin u, .fin v => pure (some (u, v) :: r)
    | _, _ => pure (none :: r)
  | _ => none

def line? (v : V) : Option (List Pt) := v.list? >>= pts?
def rings? (v : V) : Option (List (List Pt)) := v.list? >>= fun xs => xs.mapM line?
def parts? (v : V) : Option (List (List (List Pt))) := v.list? >>= fun xs => xs.mapM rings?

def box? : V → Option Box
  | .l [.i a, .i b, .i c, .i d] => some ⟨a, b, c, d⟩
  | _ => none

def pt? : V → Option Pt
  | .l [.i a, .i b] => some (a, b)
  | _ => none

/-- per element: `N` (missing) gives `dflt`, otherwise decode and apply -/
def mapEl {α β} (dec : V → Option α) (f : α → β) (dflt : β) (els : List V) : Option (List β) :=
  els.mapM (fun e => match e with
    | .none => some dflt
    | e => (dec e).map f)

/-- `ib <kind> <box> <array>` -/
def opIB (kind : String) (b : Box) (els : List V) : Option (List Bool) :=
  match kind with
  | "point" => mapEl pt? (pointIB b) false els
  | "multipoint" => mapEl line? (multipointIB b) false els
  | "line" => mapEl line? (lineIB b) false els
  | "ring" => mapEl line? (lineIB b) false els
  | "multiline" => mapEl rings? (multilineIB b) false els
  | "polygon" => mapEl rings? (polygonIB b) false els
  | "multipolygon" => mapEl parts? (multipolygonIB b) false els
  | _ => none

/-- `pis <kind> <shape> <points>`: each point of the array against one shape -/
def opPIS (kind : String) (shape : V) (points : List V) : Option (List Bool) :=
  match kind with
  | "point" => do let q ← pt? shape; mapEl pt? (fun p => pointPoint p q) false points
  | "multipoint" => do let qs ← line? shape; mapEl pt? (fun p => pointMultiPoint p qs) false points
  | "line" => do let l ← line? shape; mapEl pt? (fun p => pointLine p l) false points
  | "ring" => do let l ← line? shape; mapEl pt? (fun p => pointLine p l) false points
  | "multiline" => do let ls ← rings? shape; mapEl pt? (fun p => pointMultiLine p ls) false points
  | "polygon" => do let rs ← rings? shape; mapEl pt? (fun p => pointPolygon p rs) false points
  | "multipolygon" => do let ps ← parts? shape; mapEl pt? (fun p => pointMultiPolygon p ps) false points
  | _ => none

def cline? (v : V) : Option (List (Coord × Coord)) := v.list? >>= cpts?
def crings? (v : V) : Option (List (Coord × Coord)) :=
  v.list? >>= fun xs => (xs.mapM cline?).map List.flatten
def cparts? (v : V) : Option (List (Coord × Coord)) :=
  v.list? >>= fun xs => (xs.mapM crings?).map List.flatten

/-- all vertices of one element, whatever the nesting -/
def cverts? (kind : String) (v : V) : Option (List (Coord × Coord)) :=
  match kind with
  | "point" | "multipoint" | "line" | "ring" => cline? v
  | "multiline" | "polygon" => crings? v
  | "multipolygon" => cparts? v
  | _ => none

def showRange : Range → List V
  | none => [V.nan, V.nan]
  | some (a, b) => [V.i a, V.i b]

def showRow (r : Row) : V :=
  match showRange r.x, showRange r.y with
  | [a, b], [c, d] => V.l [a, c, b, d]
  | _, _ => V.l []

/-- `bounds <kind> <array>` → `[ rows… ] total` -/
def opBounds (kind : String) (els : List V) : Option (V × V) := do
  let rows ← els.mapM (fun e => match e with
    | .none => some Row.empty
    | e => (cverts? kind e).map totalBounds)
  let verts ← els.mapM (fun e => match e with
    | .none => some []
    | e => cverts? kind e)
  pure (V.l (rows.map showRow), showRow (totalBounds verts.flatten))

def oline? (v : V) : Option (List (Option Pt)) := v.list? >>= opts?
def olines? (v : V) : Option (List (List (Option Pt))) := v.list? >>= fun xs => xs.mapM oline?
def oparts? (v : V) : Option (List (List (Option Pt))) :=
  v.list? >>= fun xs => (xs.mapM olines?).map List.flatten

/-- `lensq <kind> <array>`: per element the squared segment lengths in summation order -/
def opLenSq (kind : String) (els : List V) : Option (List V) :=
  els.mapM (fun e => match e with
    | .none => some V.none
    | e =>
      match kind with
      | "line" | "ring" => (oline? e).map (fun l => ofInts (segSquares l))
      | "multiline" | "polygon" => (olines? e).map (fun ls => ofInts (lengthSquares ls))
      | "multipolygon" => (oparts? e).map (fun ls => ofInts (lengthSquares ls))
      | _ => none)

/-- `area2 <kind> <array>`: twice the coded area per element -/
def opArea2 (kind : String) (els : List V) : Option (List V) :=
  els.mapM (fun e => match e with
    | .none => some V.none
    | e =>
      match kind with
      | "polygon" => (rings? e).map (fun rs => V.i (area2 rs))
      | "multipolygon" => (parts? e).map (fun ps => V.i (area2 ps.flatten))
      | _ => none)

def showLine (l : List Pt) : V := V.l (l.flatMap (fun p => [V.i p.1, V.i p.2]))
def showRings (rs : List (List Pt)) : V := V.l (rs.map showLine)

/-- `orient <kind> <array>` -/
def opOrient (kind : String) (els : List V) : Option (List V) :=
  els.mapM (fun e => match e with
    | .none => some V.none
    | e =>
      match kind with
      | "polygon" => (rings? e).map (fun rs => showRings (orientRings rs))
      | "multipolygon" => (parts? e).map (fun ps => V.l (ps.map (fun rs => showRings (orientRings rs))))
      | _ => none)

def bools (bs : List Bool) : String := (V.l (bs.map ofBool)).show

def run : List V → Option String
  | [.w "ib", .w kind, bx, .l els] => do
    let b ← box? bx
    (opIB kind b els).map bools
  | [.w "ibm", .w kind, .l bxs, .l els] => do
    let bs ← bxs.mapM box?
    let rows ← bs.mapM (fun b => opIB kind b els)
    pure (V.l (rows.map (fun r => V.l (r.map ofBool)))).show
  | [.w "pism", .w kind, .l shapes, .l points] => do
    let rows ← shapes.mapM (fun sh => opPIS kind sh points)
    pure (V.l (rows.map (fun r => V.l (r.map ofBool)))).show
  | [.w "pis", .w kind, shape, .l points] => (opPIS kind shape points).map bools
  | [.w "bounds", .w kind, .l els] => (opBounds kind els).map (fun (r, t) => r.show ++ " " ++ t.show)
  | [.w "lensq", .w kind, .l els] => (opLenSq kind els).map (fun vs => (V.l vs).show)
  | [.w "area2", .w kind, .l els] => (opArea2 kind els).map (fun vs => (V.l vs).show)
  | [.w "orient", .w kind, .l els] => (opOrient kind els).map (fun vs => (V.l vs).show)
  | _ => none

end SpVerif.GeomProto
