/-!
# Line protocol values (driver ⇄ harness). Core Lean only.

A line is a space separated token list: integers, `nan`, `inf`, `-inf`, `N` (missing),
`[` … `]` nested lists, and bare words (operation names, kinds).
-/
namespace SpVerif.Proto

inductive V where
  | i (n : Int)
  | nan | pinf | ninf
  | none
  | l (xs : List V)
  | w (s : String)
  deriving Repr, BEq, Inhabited

partial def parseToks : List String → List V → Option (List V × List String)
  | [], acc => some (acc.reverse, [])
  | "]" :: rest, acc => some (acc.reverse, "]" :: rest)
  | "[" :: rest, acc =>
    match parseToks rest [] with
    | some (xs, "]" :: rest') => parseToks rest' (V.l xs :: acc)
    | _ => Option.none
  | "nan" :: rest, acc => parseToks rest (V.nan :: acc)
  | "inf" :: rest, acc => parseToks rest (V.pinf :: acc)
  | "-inf" :: rest, acc => parseToks rest (V.ninf :: acc)
  | "N" :: rest, acc => parseToks rest (V.none :: acc)
  | t :: rest, acc =>
    match t.toInt? with
    | some n => parseToks rest (V.i n :: acc)
    | Option.none => parseToks rest (V.w t :: acc)

def parseLine (s : String) : Option (List V) :=
  let toks := (s.splitOn " ").filter (fun t => t ≠ "")
  match parseToks toks [] with
  | some (vs, []) => some vs
  | _ => Option.none

partial def V.show : V → String
  | .i n => toString n
  | .nan => "nan" | .pinf => "inf" | .ninf => "-inf"
  | .none => "N"
  | .w s => s
  | .l xs => "[ " ++ String.intercalate " " (xs.map V.show) ++ (if xs.isEmpty then "]" else " ]")

def V.nat? : V → Option Nat
  | .i n => if n ≥ 0 then some n.toNat else Option.none
  | _ => Option.none

def V.int? : V → Option Int
  | .i n => some n
  | _ => Option.none

def V.list? : V → Option (List V)
  | .l xs => some xs
  | _ => Option.none

def nats? (vs : List V) : Option (List Nat) := vs.mapM V.nat?
def ints? (vs : List V) : Option (List Int) := vs.mapM V.int?

def ofNats (xs : List Nat) : V := V.l (xs.map (fun n => V.i (Int.ofNat n)))
def ofInts (xs : List Int) : V := V.l (xs.map V.i)
def ofBool (b : Bool) : V := V.i (if b then 1 else 0)

end SpVerif.Proto
