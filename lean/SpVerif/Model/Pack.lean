import SpVerif.Model.Proto
/-!
# Hilbert packing (`dask.py: pack_partitions`). Core Lean only.

`set_index('hilbert_distance')` followed by `repartition` is modelled as: sort all rows by key (stable), cut the
sorted sequence into the requested number of consecutive groups at *any* cut points (Dask's choice of divisions
from quantiles is a parameter: the theorems hold for every choice).
-/
namespace SpVerif.Pack

abbrev KRow := Nat × Nat   -- (Hilbert distance, row id)

def sortRows (rows : List KRow) : List KRow := rows.mergeSort (fun a b => a.1 ≤ b.1)

/-- cut a list at the given (non-decreasing) positions -/
def cutAt : List Nat → Nat → List α → List (List α)
  | [], _, xs => [xs]
  | c :: cs, off, xs => xs.take (c - off) :: cutAt cs c (xs.drop (c - off))

/-- packed partitions for the cut points `cuts` (length = npartitions - 1) -/
def pack (cuts : List Nat) (rows : List KRow) : List (List KRow) := cutAt cuts 0 (sortRows rows)

open SpVerif.Proto in
/-- `pack <cuts> <keys>`: rows are `(key, position)`; output the partitions' keys -/
def run : List V → Option String
  | [.w "pack", .l cuts, .l keys] => do
    let cs ← nats? cuts
    let ks ← nats? keys
    let rows := ks.zip (List.range ks.length)
    pure (V.l ((pack cs rows).map (fun p => V.l (p.map (fun r => V.l [V.i r.1, V.i r.2]))))).show
  | _ => none

end SpVerif.Pack
