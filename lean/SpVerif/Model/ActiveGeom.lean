import SpVerif.Model.Proto
/-!
# Layer F (part 4) — the active geometry column (`geodataframe.py`, `dask.py`). Core Lean only.

Specification machine: a frame is its ordered columns (name, is-geometry), the active geometry name and its
flavour (geo / plain).  The listed operations are transitions; `init` is the three-way resolution rule of
`GeoDataFrame.__init__`.
-/
namespace SpVerif.ActiveGeom
open SpVerif.Proto

structure Frame where
  cols : List (String × Bool)
  active : Option String
  deriving Repr, DecidableEq

def geomCols (f : Frame) : List String := (f.cols.filter (·.2)).map (·.1)

/-- flavour: a frame with at least one geometry column is a GeoDataFrame, otherwise a plain DataFrame -/
def isGeo (f : Frame) : Bool := !(geomCols f).isEmpty

/-- `GeoDataFrame.__init__` resolution: explicit `geometry=`, else inherited valid active column, else first geometry column -/
def init (cols : List (String × Bool)) (explicit inherited : Option String) : Option Frame :=
  let gs := (cols.filter (·.2)).map (·.1)
  match gs with
  | [] => none                                   -- ValueError: no geometry column
  | first :: _ =>
    match explicit with
    | some g => if gs.contains g then some ⟨cols, some g⟩ else none   -- set_geometry validation
    | none =>
      match inherited with
      | some g => if gs.contains g then some ⟨cols, some g⟩ else some ⟨cols, some first⟩
      | none => some ⟨cols, some first⟩

inductive Op where
  | rows                        -- iloc / loc / boolean mask / sort / copy / cx / pickle / concat of agreeing frames / Dask round trip
  | subset (keep : List String) -- column subset
  | setGeometry (g : String)
  deriving Repr

/-- one operation; `none` = the operation raises (invalid `set_geometry`) -/
def step (f : Frame) : Op → Option Frame
  | .rows => some f
  | .subset keep =>
    let cols := f.cols.filter (fun c => keep.contains c.1)
    let gs := (cols.filter (·.2)).map (·.1)
    match f.active with
    | some a => if gs.contains a then some ⟨cols, some a⟩ else some ⟨cols, none⟩
    | none => some ⟨cols, none⟩
  | .setGeometry g => if (geomCols f).contains g then some ⟨f.cols, some g⟩ else none

def Inv (f : Frame) : Prop := ∀ a, f.active = some a → a ∈ geomCols f

def run : List V → Option String
  | [.w "ag", .l cols, act, .l ops] => do
    let cs ← cols.mapM (fun c => match c with
      | .l [.w n, .i g] => some (n, g != 0)
      | _ => none)
    let a ← match act with
      | .w n => some (some n) | .none => some none | _ => none
    let f0 : Frame := ⟨cs, a⟩
    let res := ops.foldl (fun (acc : Option (Option Frame)) o =>
      match acc with
      | some (some f) =>
        (match o with
          | .l [.w "rows"] => some (step f .rows)
          | .l (.w "subset" :: ks) => (ks.mapM (fun (k : V) => match k with | V.w n => some n | _ => none)).map (fun ns => step f (.subset ns))
          | .l [.w "set_geometry", .w g] => some (step f (.setGeometry g))
          | _ => none)
      | other => other) (some (some f0))
    match res with
    | some (some f) => some ((if isGeo f then "geo" else "plain") ++ " " ++ (match f.active with | some x => x | none => "N"))
    | some none => some "ValueError"
    | none => none
  | _ => none

end SpVerif.ActiveGeom
