import SpVerif.Model.Frames
/-!
# Layer F (part 3) — a Dask geo frame as a list of partitions (`spatialpandas/dask.py`). Core Lean only.

A partition is a list of rows (elements); the frame represents the concatenation.  `partition_bounds` is the
per-partition total bounds (`none` = NaN: a partition without any row that has bounds), `total_bounds` the
NaN-ignoring fold, `cx` keeps the partitions whose bounds overlap the box (partition-level R-tree, exact by C03)
and filters every kept partition with the pandas `.cx` (C04).
-/
namespace SpVerif.Dask
open SpVerif.Geom SpVerif.Frames SpVerif.RTree

abbrev Part := List (Option Elem)

/-- total bounds of a list of rows: NaN-ignoring union of the rows' bounds -/
def totalBounds (els : List (Option Elem)) : Option NBox :=
  els.foldl (fun acc e => unionOpt 2 acc (elemBounds e)) none

/-- `partition_bounds`: one row per partition -/
def partitionBounds (parts : List Part) : List (Option NBox) := parts.map totalBounds

/-- `DaskGeoSeries.total_bounds`: `nanmin` / `nanmax` over the partition bounds -/
def daskTotalBounds (parts : List Part) : Option NBox :=
  (partitionBounds parts).foldl (unionOpt 2) none

def boxOverlaps (q : NBox) : Option NBox → Bool
  | none => false
  | some b => !outside 2 q b

/-- `cx_partitions`: indices of the partitions whose recorded bounds overlap the closed box -/
def cxPartitions (b : Box) (parts : List Part) : List Nat :=
  ((List.range parts.length).zip (partitionBounds parts)).filterMap
    (fun (i, pb) => if boxOverlaps [b.x0, b.y0, b.x1, b.y1] pb then some i else none)

/-- `cx`: every kept partition filtered by the pandas `.cx`; result as (partition, position in partition) -/
def daskCx (b : Box) (parts : List Part) : List (Nat × Nat) :=
  (cxPartitions b parts).flatMap (fun i => (cxMask b (parts.getD i [])).map (fun j => (i, j)))

/-- the same rows addressed in the concatenation -/
def globalPos (parts : List Part) (ij : Nat × Nat) : Nat :=
  ((parts.take ij.1).map List.length).sum + ij.2

end SpVerif.Dask
