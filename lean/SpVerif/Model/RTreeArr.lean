import SpVerif.Model.RTree
import SpVerif.Model.RTreeIndex
/-!
# Layer T (part 3) — the array-encoded tree and its stack traversal (`_NumbaRtree._maybe_intersects_ranges`). Core Lean only.

`loop` is the traversal as coded: a stack of node indices into `bounds_tree`, `_start_index` / `_stop_index` for the row range of a
node, the leaf test `stop − start ≤ page_size`, children pushed right then left, a NaN row (absent page) treated as "inside" with a
range beyond the data.  `sub a t j` is the sub-tree of the page tree at depth `t`, position `j`; `boundsTree` lists the boxes the
bottom-up pass of `_build_hilbert_rtree` stores, in heap order.
-/
namespace SpVerif.RTreeArr
open RTree RTreeIndex SpVerif.Proto

structure Arr where
  D : Nat
  ps : Nat
  bt : Nat → Option NBox
  rows : List Row

def Arr.len (a : Arr) : Nat := 2 * 2 ^ a.D - 1

/-- `keys[start:stop]` together with their boxes -/
def Arr.slice (a : Arr) (s e : Nat) : List Row := (a.rows.drop s).take (e - s)

/-- `_maybe_intersects_ranges`, the ranges already expanded to rows; `fuel` bounds the number of pops -/
def loop (d : Nat) (q : NBox) (a : Arr) : Nat → List Nat → List Row × List Row → List Row × List Row
  | 0, _, acc => acc
  | _ + 1, [], acc => acc
  | fuel + 1, node :: rest, acc =>
    let s := startIndex a.len a.ps a.len node
    let e := stopIndex a.len a.ps a.len node
    match a.bt node with
    | none => loop d q a fuel rest (acc.1 ++ a.slice s e, acc.2)
    | some b =>
      if outside d q b then loop d q a fuel rest acc
      else if inside d q b then loop d q a fuel rest (acc.1 ++ a.slice s e, acc.2)
      else if e - s ≤ a.ps then loop d q a fuel rest (acc.1, acc.2 ++ a.slice s e)
      else loop d q a fuel (leftChild node :: rightChild node :: rest) acc

/-- `_NumbaRtree.intersects` over the arrays: covered ranges, then the rows of the maybe-ranges tested one by one -/
def intersectsArr (d : Nat) (a : Arr) (q : NBox) : List Nat :=
  let r := loop d q a a.len [0] ([], [])
  r.1.map (·.1) ++ (r.2.filter (fun row => !outside d q row.2)).map (·.1)

/-- `_NumbaRtree.covers_overlaps` over the arrays -/
def coversOverlapsArr (d : Nat) (a : Arr) (q : NBox) : List Nat × List Nat :=
  let r := loop d q a a.len [0] ([], [])
  (r.1.map (·.1) ++ (r.2.filter (fun row => inside d q row.2)).map (·.1),
   (r.2.filter (fun row => !(outside d q row.2 || inside d q row.2))).map (·.1))

/-- the sub-tree at depth `t`, position `j` of the page tree over `rows` -/
def sub (a : Arr) (t j : Nat) : PTree := build a.ps (a.D - t) (a.rows.drop (j * 2 ^ (a.D - t) * a.ps))

/-- depth and position of heap node `k` -/
def depthPos (k : Nat) : Nat × Nat := (Nat.log2 (k + 1), k + 1 - 2 ^ Nat.log2 (k + 1))

/-- the rows of `bounds_tree` for sorted rows and page size `ps` -/
def boundsTree (d ps : Nat) (sorted : List Row) : List (Option NBox) :=
  let D := clog2 (numPages sorted.length ps)
  let a : Arr := { D := D, ps := ps, bt := fun _ => none, rows := sorted }
  (List.range (2 * 2 ^ D - 1)).map (fun k => (sub a (depthPos k).1 (depthPos k).2).box d)

/-- `btree <d> <page_size> [[key box…]…]` → the rows of `bounds_tree` (`N` = NaN row) -/
def run : List V → Option String
  | [.w "btree", .i d, .i ps, .l rows] => do
    if d < 1 ∨ ps < 1 then none else
    let rs ← rows.mapM (fun r => match r with
      | .l (.i k :: box) => (ints? box).map (fun b => ((k.toNat, b) : Row))
      | _ => none)
    if rs.isEmpty then some "[ ]" else
    some (V.l ((boundsTree d.toNat ps.toNat rs).map (fun b => match b with | none => V.none | some x => ofInts x))).show
  | _ => none

end SpVerif.RTreeArr
