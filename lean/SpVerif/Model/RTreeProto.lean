import SpVerif.Model.Proto
import SpVerif.Model.RTree
namespace SpVerif.RTreeProto
open SpVerif.Proto SpVerif.RTree

/-- a row of the bounds array: all integers, or containing NaN (then it is left out of the tree) -/
def row? : V → Option (Option NBox)
  | .l xs => match ints? xs with
    | some b => some (some b)
    | none => if xs.all (fun x => match x with | .i _ | .nan => true | _ => false) then some none else none
  | _ => none

def sortNat (xs : List Nat) : List Nat := (xs.toArray.qsort (· < ·)).toList

/-- `rtree <d> <ps> <rows> <keys> <queries>`; `keys` is the permutation of the *valid* row indices
used by the implementation (or `[ ]` for the identity); output per query:
`[ intersects ] [ covers ] [ overlaps ]` sorted, and the total bounds first -/
def run : List V → Option String
  | [.w "rtree", .i d, .i ps, .l rows, .l keys, .l queries] => do
    let rs ← rows.mapM row?
    let ks ← nats? keys
    let qs ← queries.mapM (fun q => q.list? >>= ints?)
    if d < 1 ∨ ps < 1 then none else
    let d := d.toNat
    let ps := ps.toNat
    let indexed : List (Nat × Option NBox) := (List.range rs.length).zip rs
    let valid : List Row := indexed.filterMap (fun (i, b) => b.map (fun x => (i, x)))
    let sorted : List Row ←
      if ks.isEmpty then some valid
      else ks.mapM (fun k => (valid.find? (fun r => r.1 == k)))
    let t := buildTree ps sorted
    let tb : V := match totalBounds d t with
      | none => V.l ((List.replicate (2 * d) V.nan))
      | some b => ofInts b
    let outs := qs.map (fun q =>
      let i := sortNat (intersects d t q)
      let co := coversOverlaps d t q
      V.l [ofNats i, ofNats (sortNat co.1), ofNats (sortNat co.2)])
    pure (tb.show ++ " " ++ (V.l outs).show)
  | _ => none

end SpVerif.RTreeProto
