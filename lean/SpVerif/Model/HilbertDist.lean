import SpVerif.Model.Hilbert
/-!
# Hilbert distance of a bounding box (`geometry/base.py: hilbert_distance`,
`spatialindex/rtree.py: _distances_from_bounds`, `utils.py: _data2coord`). Core Lean only.

Exact-arithmetic reference: coordinates are integers, the centre of a box is carried doubled
(`mid2 = lo + hi`), and `_data2coord`'s `((v - lo) * (n / width)).astype(int64)` is the truncation toward
zero of the exact quotient.  The float computation agrees with it whenever `n / width` and the product are exact
(width a power of two, magnitudes below 2^53) — the regime in which the correspondence compares for equality.
-/
namespace SpVerif.HilbertDist
open SpVerif.Hilbert

/-- `_data2coord` for one value given doubled (`v2 = 2 v`): scale, truncate toward zero, clip to `[0, n-1]` -/
def data2coord (v2 lo width n : Int) : Int :=
  let c := Int.tdiv ((v2 - 2 * lo) * n) (2 * width)
  if c < 0 then 0 else if c > n - 1 then n - 1 else c

/-- "Expand zero width bounds": a degenerate extent is widened by 1 -/
def widen (lo hi : Int) : Int × Int := if lo = hi then (lo, hi + 1) else (lo, hi)

/-- the grid cell of a box centre in the `2^p × 2^p` grid spanning `total = (x0, y0, x1, y1)` -/
def cellOf (total : Int × Int × Int × Int) (p : Nat) (box : Int × Int × Int × Int) : Nat × Nat :=
  let (tx0, ty0, tx1, ty1) := total
  let (bx0, by0, bx1, by1) := box
  let wx := widen tx0 tx1
  let wy := widen ty0 ty1
  let n : Int := 2 ^ p
  ((data2coord (bx0 + bx1) wx.1 (wx.2 - wx.1) n).toNat, (data2coord (by0 + by1) wy.1 (wy.2 - wy.1) n).toNat)

/-- `hilbert_distance(total_bounds, p)` of one element with bounds `box` -/
def hilbertDistance (total : Int × Int × Int × Int) (p : Nat) (box : Int × Int × Int × Int) : Nat :=
  dist2 p (cellOf total p box)

end SpVerif.HilbertDist
