import SpVerif.Model.Proto
/-!
# Layer P — what spatialpandas itself contributes to a parquet round trip (`io/parquet.py`, `GeometryDtype`).
Core Lean only.  Byte-level encoding/decoding is pyarrow's and pandas' (trusted base, continuously compared).
-/
namespace SpVerif.Parquet
open SpVerif.Proto

def subtypes : List String := ["float64", "float32", "int64", "int32", "int16"]

/-- `GeometryDtype.__str__`: `"<kind>[<subtype>]"` -/
def printDtype (kind subtype : String) : String := kind ++ "[" ++ subtype ++ "]"

def isWordChar (c : Char) : Bool := c.isAlphanum || c == '_'

/-- `cls.construct_from_string(string)` for the class whose `_geometry_name` is `kind`: lower-case, must start
with the name, then either the bare name (subtype float64) or `^kind\[(\w+)\]$` -/
def parseWith (kind str : String) : Option String :=
  let s := str.toLower.toList
  let k := kind.toLower.toList
  if !k.isPrefixOf s then none
  else if s == k then some "float64"
  else
    let rest := s.drop k.length
    match rest with
    | '[' :: tl =>
      if tl.getLast? == some ']' then
        let inner := tl.dropLast
        if !inner.isEmpty && inner.all isWordChar then some (String.ofList inner) else none
      else none
    | _ => none

/-- pandas' registry lookup: the first registered dtype class that accepts the string -/
def parseDtype (kinds : List String) (str : String) : Option (String × String) :=
  kinds.findSome? (fun k => (parseWith k str).map (fun s => (k, s)))

/-- `read_parquet(columns=...)`: index columns that exist as columns and were not requested are prepended -/
def project (indexCols allCols requested : List String) : List String :=
  (indexCols.filter (fun c => !requested.contains c && allCols.contains c)) ++ requested

/-- a path component after `natural_sort_key`'s split into text and number tokens -/
inductive Tok where
  | text (s : String)
  | num (n : Nat)
  deriving Repr, DecidableEq

def Tok.le : Tok → Tok → Bool
  | .num a, .num b => a ≤ b
  | .text a, .text b => a ≤ b
  | .num _, .text _ => true
  | .text _, .num _ => false

def keyLe : List Tok → List Tok → Bool
  | [], _ => true
  | _ :: _, [] => false
  | a :: as, b :: bs => if a == b then keyLe as bs else Tok.le a b

/-- tokens of `part.<i>.parquet` -/
def partKey (i : Nat) : List Tok := [.text "part.", .num i, .text ".parquet"]

/-- `read_parquet_dask(bounds=box)`: a partition is kept iff its recorded extent overlaps the (oriented) box -/
def keepPartition (box : Int × Int × Int × Int) (pb : Option (Int × Int × Int × Int)) : Bool :=
  match pb with
  | none => true       -- NaN bounds (a partition of inert rows only): every comparison is False, so `~(False | …)` keeps it
  | some (x0, y0, x1, y1) =>
    let (bx0, by0, bx1, by1) := box
    !(decide (x1 < bx0) || decide (y1 < by0) || decide (x0 > bx1) || decide (y0 > by1))

def run : List V → Option String
  | [.w "dtype", .l kinds, .w str] => do
    let ks ← kinds.mapM (fun (k : V) => match k with | V.w n => some n | _ => none)
    match parseDtype ks str with
    | some (k, s) => some (k ++ " " ++ s)
    | none => some "TypeError"
  | [.w "project", .l idx, .l all, .l req] => do
    let f := fun (xs : List V) => xs.mapM (fun (k : V) => match k with | V.w n => some n | V.i n => some (toString n) | _ => none)
    let a ← f idx; let b ← f all; let c ← f req
    pure (V.l ((project a b c).map V.w)).show
  | [.w "prune", .l [.i a, .i b, .i c, .i d], .l rows] => do
    let rs ← rows.mapM (fun (r : V) => match r with
      | V.l [V.i x0, V.i y0, V.i x1, V.i y1] => some (some (x0, y0, x1, y1))
      | V.l [V.nan, V.nan, V.nan, V.nan] => some none
      | _ => none)
    -- "Make sure x0 < x1", "Make sure y0 < y1"
    let box := (min a c, min b d, max a c, max b d)
    let kept := ((List.range rs.length).zip rs).filterMap (fun (i, pb) => if keepPartition box pb then some i else none)
    pure (ofNats kept).show
  | _ => none

end SpVerif.Parquet
