/-!
# Layer T — Hilbert R-tree (`spatialpandas/spatialindex/rtree.py`). Core Lean only.

A row is `(key, box)`: `key` the row's position in the input, `box` a list of `2d` integers
(`d` minima, then `d` maxima).  Rows with an undefined (NaN) coordinate are left out of the tree
by `_build_hilbert_rtree`, so they do not occur here.  The rows arrive already permuted by the
Hilbert sort (`sorted_bounds`, `keys`); **the permutation is a parameter** — the theorems hold for
every permutation, which is how independence of the curve order `p` is obtained.

The implicit array-encoded binary tree of the code (`bounds_tree`, `_start_index`, `_stop_index`,
the `stop - start <= page_size` leaf test, padded absent pages) is modelled as the page tree it
encodes; that the array arithmetic indeed encodes this tree is validated by the correspondence
check (ragged last page, `page_size` 1, n-1, n, n+1, non powers of two), not proved.
-/
namespace SpVerif.RTree

abbrev NBox := List Int
abbrev Row := Nat × NBox

/-- minimum / maximum of box `b` in dimension `k` (`b[k]`, `b[d + k]`) -/
def lo (b : NBox) (k : Nat) : Int := b.getD k 0
def hi (d : Nat) (b : NBox) (k : Nat) : Int := b.getD (d + k) 0

/-- union of two boxes: `min` on the minima, `max` on the maxima -/
def unionBox (d : Nat) (a b : NBox) : NBox :=
  (List.range d).map (fun k => min (lo a k) (lo b k)) ++ (List.range d).map (fun k => max (hi d a k) (hi d b k))

/-- NaN-aware union as in the bottom-up pass: an absent child (NaN in column 0) is ignored -/
def unionOpt (d : Nat) : Option NBox → Option NBox → Option NBox
  | none, r => r
  | l, none => l
  | some a, some b => some (unionBox d a b)

/-- `query[n+d] < node[d] or query[d] > node[n+d]` for some dimension -/
def outside (d : Nat) (q b : NBox) : Bool :=
  (List.range d).any (fun k => decide (hi d q k < lo b k) || decide (lo q k > hi d b k))

/-- not (`node[d] < query[d] or node[n+d] > query[n+d]` for some dimension) -/
def inside (d : Nat) (q b : NBox) : Bool :=
  (List.range d).all (fun k => !(decide (lo b k < lo q k) || decide (hi d b k > hi d q k)))

inductive PTree where
  | leaf (rows : List Row)
  | node (l r : PTree)
  deriving Repr

def PTree.rows : PTree → List Row
  | .leaf rs => rs
  | .node l r => l.rows ++ r.rows

/-- the box stored for a node in `bounds_tree` (`none` = the NaN row of an absent page) -/
def PTree.box (d : Nat) : PTree → Option NBox
  | .leaf rs => rs.foldl (fun acc r => unionOpt d acc (some r.2)) none
  | .node l r => unionOpt d (l.box d) (r.box d)

/-- `2^depth` pages of `ps` rows each, left to right; pages beyond the data are empty -/
def build (ps : Nat) : Nat → List Row → PTree
  | 0, rs => .leaf (rs.take ps)
  | (k+1), rs => .node (build ps k (rs.take (2 ^ k * ps))) (build ps k (rs.drop (2 ^ k * ps)))

/-- `ceil(log2 m)` -/
def clog2 (m : Nat) : Nat := if m ≤ 1 then 0 else Nat.log2 (m - 1) + 1

def numPages (n ps : Nat) : Nat := (n + ps - 1) / ps

/-- the tree `_build_hilbert_rtree` lays out for `sorted` rows and `page_size = ps ≥ 1` -/
def buildTree (ps : Nat) (sorted : List Row) : PTree :=
  build ps (clog2 (numPages sorted.length ps)) sorted

/-- `_maybe_intersects_ranges`: rows of fully covered nodes, and rows of partially overlapped
leaves (to be tested one by one). An absent node (NaN) passes the `inside` test with a range
beyond the data, which contributes nothing. -/
def query (d : Nat) (q : NBox) : PTree → List Row × List Row
  | .leaf rs =>
    match (PTree.leaf rs).box d with
    | none => ([], [])
    | some b => if outside d q b then ([], []) else if inside d q b then (rs, []) else ([], rs)
  | .node l r =>
    match (PTree.node l r).box d with
    | none => ([], [])
    | some b =>
      if outside d q b then ([], [])
      else if inside d q b then ((PTree.node l r).rows, [])
      else
        let a := query d q l
        let c := query d q r
        (a.1 ++ c.1, a.2 ++ c.2)

/-- `_NumbaRtree.intersects` (keys, in result order) -/
def intersects (d : Nat) (t : PTree) (q : NBox) : List Nat :=
  let r := query d q t
  r.1.map (·.1) ++ (r.2.filter (fun row => !outside d q row.2)).map (·.1)

/-- `_NumbaRtree.covers_overlaps` -/
def coversOverlaps (d : Nat) (t : PTree) (q : NBox) : List Nat × List Nat :=
  let r := query d q t
  (r.1.map (·.1) ++ (r.2.filter (fun row => inside d q row.2)).map (·.1),
   (r.2.filter (fun row => !(outside d q row.2 || inside d q row.2))).map (·.1))

/-- `total_bounds`: the root box -/
def totalBounds (d : Nat) (t : PTree) : Option NBox := t.box d

end SpVerif.RTree
