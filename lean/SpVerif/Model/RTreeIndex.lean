import SpVerif.Model.Proto
/-!
# Layer T (part 2) — index arithmetic of the array-encoded binary tree (`_NumbaRtree` in `spatialindex/rtree.py`). Core Lean only.

`bounds_tree` has `len = 2·2^D − 1` rows: node `k` has children `2k+1`, `2k+2`; the leaves (one per page, padded to a power of
two) start at `leaf_start = (len + 1) // 2 − 1`.  `_start_index` / `_stop_index` walk to the left-most / right-most leaf below a
node and return the range of row positions it covers; a node is treated as a leaf when `stop − start ≤ page_size`.
-/
namespace SpVerif.RTreeIndex
open SpVerif.Proto

def leftChild (k : Nat) : Nat := 2 * k + 1
def rightChild (k : Nat) : Nat := 2 * k + 2
def leafStart (len : Nat) : Nat := (len + 1) / 2 - 1

/-- `_start_index(node)`; `fuel` bounds the `while True` loop (the depth of the tree suffices) -/
def startIndex (len ps : Nat) : Nat → Nat → Nat
  | 0, node => (node - leafStart len) * ps
  | fuel + 1, node =>
    if leftChild node ≥ len then (node - leafStart len) * ps else startIndex len ps fuel (leftChild node)

/-- `_stop_index(node)` -/
def stopIndex (len ps : Nat) : Nat → Nat → Nat
  | 0, node => (node - leafStart len + 1) * ps
  | fuel + 1, node =>
    if rightChild node ≥ len then (node - leafStart len + 1) * ps else stopIndex len ps fuel (rightChild node)

/-- `rtidx <len> <page_size>` → for every node its `(start, stop)` -/
def run : List V → Option String
  | [.w "rtidx", .i len, .i ps] =>
    if len < 1 ∨ ps < 1 then none else
    let l := len.toNat
    some (V.l ((List.range l).map (fun k => ofNats [startIndex l ps.toNat l k, stopIndex l ps.toNat l k]))).show
  | _ => none

end SpVerif.RTreeIndex
