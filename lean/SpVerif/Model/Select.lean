import SpVerif.Model.Proto
/-!
# Request validation of `GeometryArray.take` / integer `__getitem__` (`geometry/base.py`). Core Lean only.

`takeSpec n allowFill idx` follows `take` step by step and returns the selected source positions
(`none` = a fill slot) or the error kind pandas expects.
-/
namespace SpVerif.Select
open SpVerif.Proto

inductive Err where
  | indexError | valueError
  deriving Repr, DecidableEq

def takeSpec (n : Nat) (allowFill : Bool) (idx : List Int) : Except Err (List (Option Nat)) :=
  -- "cannot do a non-empty take from an empty axes"
  if n = 0 ∧ idx ≠ [] ∧ (!allowFill ∨ idx.any (· ≥ 0)) then .error .indexError
  -- `invalid_mask = indices >= len(self)`, and `indices < -len(self)` without fill
  else if idx.any (fun i => i ≥ (n : Int) || (!allowFill && i < -(n : Int))) then .error .indexError
  else if allowFill then
    if idx.any (· < -1) then .error .valueError
    else .ok (idx.map (fun (i : Int) => if i < 0 then none else some i.toNat))
  else .ok (idx.map (fun (i : Int) => if i < 0 then some (i + (n : Int)).toNat else some i.toNat))

/-- `arr[i]` for an integer `i` -/
def getItemSpec (n : Nat) (i : Int) : Except Err Nat :=
  if i < -(n : Int) ∨ i ≥ (n : Int) then .error .indexError
  else .ok (if i < 0 then (i + (n : Int)).toNat else i.toNat)

def showErr : Err → String
  | .indexError => "IndexError"
  | .valueError => "ValueError"

def run : List V → Option String
  | [.w "take", .i n, .i fill, .l idx] => do
    let is ← ints? idx
    if n < 0 then none else
    match takeSpec n.toNat (fill != 0) is with
    | .error e => some (showErr e)
    | .ok ps => some (V.l (ps.map (fun p => match p with | none => V.none | some k => V.i k))).show
  | [.w "getitem", .i n, .i i] =>
    if n < 0 then none else
    match getItemSpec n.toNat i with
    | .error e => some (showErr e)
    | .ok k => some (toString k)
  | _ => none

end SpVerif.Select
