/-!
# NaN-aware bounds (`_algorithms/bounds.py`). Core Lean only.

`Coord` carries the non-finite float values; `isfinite` is `fin _`.  A bounds row is a pair of
optional ranges (x and y are treated independently by the code): `none` = `(nan, nan)`.
-/
namespace SpVerif.Bounds

inductive Coord where
  | fin (v : Int)
  | nan | pinf | ninf
  deriving Repr, DecidableEq, Inhabited

abbrev Range := Option (Int × Int)

/-- one step of the scan: `if np.isfinite(v): vmin = min(vmin, v); vmax = max(vmax, v)` -/
def Range.add (r : Range) (c : Coord) : Range :=
  match c, r with
  | .fin v, none => some (v, v)
  | .fin v, some (lo, hi) => some (min lo v, max hi v)
  | _, r => r

/-- `total_bounds_interleaved_1d` over one axis (the infinite start values are replaced by `nan` at the end) -/
def axisRange (cs : List Coord) : Range := cs.foldl Range.add none

structure Row where
  x : Range
  y : Range
  deriving Repr, DecidableEq

/-- `total_bounds_interleaved(values)` on interleaved vertices -/
def totalBounds (vs : List (Coord × Coord)) : Row :=
  { x := axisRange (vs.map (·.1)), y := axisRange (vs.map (·.2)) }

/-- NaN-ignoring union of two rows (`np.nanmin` / `np.nanmax` of partition bounds; R-tree node union) -/
def Range.union : Range → Range → Range
  | none, r => r
  | r, none => r
  | some (a, b), some (c, d) => some (min a c, max b d)

def Row.union (r s : Row) : Row := { x := r.x.union s.x, y := r.y.union s.y }

def Row.empty : Row := { x := none, y := none }

end SpVerif.Bounds
