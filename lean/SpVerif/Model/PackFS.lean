import SpVerif.Model.Proto
/-!
# Layer S (part 1) — renumbering of the non-empty output partitions (`dask.py: pack_partitions_to_parquet`,
"Handle empty partitions").  Core Lean only.

`input_paths` are the indices of the non-empty output partitions in increasing order, `output_paths` the first
`m` indices; `move_retry(p1, p2)` is executed for every pair with `p1 != p2`, **in this order**.
The filesystem state is the list of occupied part indices with their content `(index, content)`.
-/
namespace SpVerif.PackFS

abbrev St := List (Nat × Nat)

/-- `move_retry(p1, p2)`: `if filesystem.exists(p1): filesystem.move(p1, p2)` — whatever is at `p2` is overwritten -/
def applyMove (s : St) (m : Nat × Nat) : St :=
  if s.any (fun e => e.1 == m.1) then
    (s.filter (fun e => e.1 == m.1)).map (fun e => (m.2, e.2)) ++ s.filter (fun e => e.1 != m.1 && e.1 != m.2)
  else s

def initial (nonEmpty : List Nat) : St := nonEmpty.map (fun i => (i, i))

/-- `for p1, p2 in zip(input_paths, output_paths): if p1 != p2: move_retry(p1, p2)`; `j` is the next output index -/
def compactFrom : Nat → List Nat → St → St
  | _, [], s => s
  | j, i :: rest, s => compactFrom (j + 1) rest (if i != j then applyMove s (i, j) else s)

def compact (nonEmpty : List Nat) : St := compactFrom 0 nonEmpty (initial nonEmpty)

/-- the sequence of moves `(source, target)` the loop performs -/
def moves (nonEmpty : List Nat) : List (Nat × Nat) :=
  (nonEmpty.zip (List.range nonEmpty.length)).filter (fun p => p.1 != p.2)

/-- run the moves in a given order (what independent tasks may do) -/
def compactIn (order : List (Nat × Nat)) (nonEmpty : List Nat) : St := order.foldl applyMove (initial nonEmpty)

open SpVerif.Proto in
/-- `packfs [non-empty output partitions]` → the moves in order, and the final occupancy `(index, original partition)` -/
def run : List V → Option String
  | [.w "packfs", .l ne] => do
    let xs ← nats? ne
    let mv := V.l ((moves xs).map (fun m => V.l [V.i m.1, V.i m.2]))
    let fin := V.l ((compact xs).map (fun e => V.l [V.i e.1, V.i e.2]))
    pure (V.l [mv, fin]).show
  | _ => none

end SpVerif.PackFS
