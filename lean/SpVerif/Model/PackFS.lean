/-!
# Layer S (part 1) — renumbering of the non-empty output partitions (`dask.py: pack_partitions_to_parquet`,
"Handle empty partitions").  Core Lean only.

`input_paths` are the indices of the non-empty output partitions in increasing order, `output_paths` the first
`m` indices; `move_retry(p1, p2)` is executed for every pair with `p1 != p2`, **in this order**.
The filesystem state is the list of occupied part indices with their content.
-/
namespace SpVerif.PackFS

/-- the sequence of moves `(source, target)` -/
def moves (nonEmpty : List Nat) : List (Nat × Nat) :=
  (nonEmpty.zip (List.range nonEmpty.length)).filter (fun p => p.1 != p.2)

/-- state: occupied indices with their content (the original index) -/
abbrev St := List (Nat × Nat)

/-- `move_retry(p1, p2)`: if `p1` exists, move it onto `p2` (a file already at `p2` is overwritten) -/
def applyMove (s : St) (m : Nat × Nat) : St :=
  match s.find? (fun e => e.1 == m.1) with
  | none => s
  | some e => (m.2, e.2) :: (s.filter (fun x => x.1 != m.1 && x.1 != m.2))

def initial (nonEmpty : List Nat) : St := nonEmpty.map (fun i => (i, i))

def compact (nonEmpty : List Nat) : St := (moves nonEmpty).foldl applyMove (initial nonEmpty)

/-- run the same moves in another order (what independent tasks may do) -/
def compactIn (order : List (Nat × Nat)) (nonEmpty : List Nat) : St := order.foldl applyMove (initial nonEmpty)

end SpVerif.PackFS
