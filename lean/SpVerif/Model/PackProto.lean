import SpVerif.Model.PackFS
/-!
# Layer S (part 2) — the filesystem protocol of `pack_partitions_to_parquet`, fault-free. Core Lean only.

What exists under the dataset path and in the temporary area, phase by phase, as the code creates and removes it:

1. `overwrite=True`: `rm_retry(path)` removes whatever was at the path (a prior dataset of any size);
2. scaffolding: for every output partition a placeholder directory `part.i.parquet` in the dataset and a temporary directory
   (the placeholder itself with the default `tempdir_format`, an external directory otherwise; with `{uuid}` below a fresh parent);
3. one sub-part file per (output partition, input partition) that has rows (tasks, any order: distinct files);
4. one concatenation task per output partition, in **any order**: remove its temporary directory and its placeholder, then -
   unless the partition is empty - write the part file `part.i.parquet`;
5. remove the `{uuid}` parent;
6. renumber the part files of the non-empty partitions to `0 … m-1` (`PackFS.compactFrom`, the coded sequence of moves);
7. write `_metadata` and `_common_metadata`.
-/
namespace SpVerif.PackProto
open SpVerif.PackFS

inductive Mode where
  | inside | outsideUuid | outsidePlain
  deriving DecidableEq, Repr

structure Tree where
  placeholders : List Nat          -- directories `<path>/part.i.parquet`
  tmpDirs : List Nat               -- external temporary directories
  subs : List (Nat × Nat)          -- sub-part files `(output partition, input partition)`
  files : St                       -- part files `(index, original output partition)`
  uuidDir : Bool
  metaF : Bool
  cmetaF : Bool
  stale : List Nat                 -- entries of a prior dataset at the path
  deriving Repr, DecidableEq

def empty : Tree := ⟨[], [], [], [], false, false, false, []⟩

/-- `rm_retry(path)` -/
def overwriteRm (m : Mode) (t : Tree) : Tree :=
  { t with placeholders := [], files := [], metaF := false, cmetaF := false, stale := [],
           subs := if m = .inside then [] else t.subs }

def scaffold (m : Mode) (n : Nat) (t : Tree) : Tree :=
  { t with placeholders := t.placeholders ++ List.range n,
           tmpDirs := if m = .inside then t.tmpDirs else t.tmpDirs ++ List.range n,
           uuidDir := t.uuidDir || (m == .outsideUuid) }

/-- `cells i j = true` when input partition `j` has rows for output partition `i` -/
def writeSubs (n nIn : Nat) (cells : Nat → Nat → Bool) (t : Tree) : Tree :=
  { t with subs := t.subs ++ ((List.range n).flatMap (fun i => ((List.range nIn).filter (cells i)).map (fun j => (i, j)))) }

def nonEmptyPart (nIn : Nat) (cells : Nat → Nat → Bool) (i : Nat) : Bool := (List.range nIn).any (cells i)

/-- `concat_parts` for output partition `i` -/
def concat (nIn : Nat) (cells : Nat → Nat → Bool) (t : Tree) (i : Nat) : Tree :=
  { t with tmpDirs := t.tmpDirs.filter (· != i),
           subs := t.subs.filter (·.1 != i),
           placeholders := t.placeholders.filter (· != i),
           files := if nonEmptyPart nIn cells i then t.files ++ [(i, i)] else t.files }

def cleanup (t : Tree) : Tree := { t with uuidDir := false }

def nonEmptyList (n nIn : Nat) (cells : Nat → Nat → Bool) : List Nat := (List.range n).filter (nonEmptyPart nIn cells)

def renumber (n nIn : Nat) (cells : Nat → Nat → Bool) (t : Tree) : Tree :=
  { t with files := compactFrom 0 (nonEmptyList n nIn cells) t.files }

def metadata (t : Tree) : Tree := { t with metaF := true, cmetaF := true }

/-- the whole fault-free run; `order` is the order in which the concatenation tasks happen to run -/
def run (m : Mode) (overwrite : Bool) (n nIn : Nat) (cells : Nat → Nat → Bool) (order : List Nat) (t₀ : Tree) : Tree :=
  let t1 := if overwrite then overwriteRm m t₀ else t₀
  let t2 := scaffold m n t1
  let t3 := writeSubs n nIn cells t2
  let t4 := order.foldl (concat nIn cells) t3
  let t5 := cleanup t4
  let t6 := renumber n nIn cells t5
  metadata t6

open SpVerif.Proto in
/-- `packproto <mode 0|1|2> <overwrite 0|1> <n> <nIn> [[cells of output partition 0] …] [order] <prior part files>` → the final tree -/
def runOp : List V → Option String
  | [.w "packproto", .i m, .i ow, .i n, .i nIn, .l cells, .l order, .i prior] => do
    let mode ← match m with | 0 => some Mode.inside | 1 => some Mode.outsideUuid | 2 => some Mode.outsidePlain | _ => none
    let cs ← cells.mapM (fun r => r.list? >>= nats?)
    let ord ← nats? order
    if n < 0 ∨ nIn < 0 ∨ prior < 0 then none else
    let f : Nat → Nat → Bool := fun i j => ((cs.getD i []).getD j 0) != 0
    let t₀ : Tree := if prior = 0 then empty else
      { empty with files := (List.range prior.toNat).map (fun k => (k, 1000 + k)), metaF := true, cmetaF := true }
    let t := run mode (ow != 0) n.toNat nIn.toNat f ord t₀
    pure (V.l [ofNats t.placeholders, ofNats t.tmpDirs, V.l (t.subs.map (fun s => ofNats [s.1, s.2])),
               V.l (t.files.map (fun e => ofNats [e.1, e.2])), ofBool t.uuidDir, ofBool t.metaF, ofBool t.cmetaF, ofNats t.stale]).show
  | _ => none

end SpVerif.PackProto
