import SpVerif.Model.Frames
/-!
# Layer F (part 2) — spatial join (`tools/sjoin.py`). Core Lean only.

Rows are identified by position.  The candidate loop of the code queries the left frame's spatial index with
every right shape's bounds and keeps the candidates for which the exact predicate holds; by C03 the candidates
are a superset of the rows whose box overlaps, so the pair table is `{(i, j) | hit i j}`.  The three merge
chains are modelled by their relational meaning (pandas' `merge` is part of the trusted base): the result is the
multiset of `(left?, right?)` position pairs; column values, suffixes and index labels are functions of these.
-/
namespace SpVerif.Join
open SpVerif.Geom SpVerif.Frames

/-- the exact predicate of the join: point `p` against shape `s` (`Geom.point*`), false for a missing side -/
def hit (p : Option Pt) (s : Option Elem) : Bool :=
  match p, s with
  | some p, some (.point q) => pointPoint p q
  | some p, some (.multipoint qs) => pointMultiPoint p qs
  | some p, some (.line l) => pointLine p l
  | some p, some (.multiline ls) => pointMultiLine p ls
  | some p, some (.polygon rs) => pointPolygon p rs
  | some p, some (.multipolygon ps) => pointMultiPolygon p ps
  | _, _ => false

/-- the `(_key_left, _key_right)` table: right rows in order, matching left rows in order -/
def pairs (left : List (Option Pt)) (right : List (Option Elem)) : List (Nat × Nat) :=
  (List.range right.length).flatMap (fun j =>
    ((List.range left.length).filter (fun i => hit (left.getD i none) (right.getD j none))).map (fun i => (i, j)))

inductive How where
  | inner | left | right
  deriving DecidableEq, Repr

/-- result rows as `(left position?, right position?)` -/
def join (how : How) (left : List (Option Pt)) (right : List (Option Elem)) : List (Option Nat × Option Nat) :=
  let ps := pairs left right
  match how with
  | .inner => ps.map (fun (i, j) => (some i, some j))
  | .left =>
    (List.range left.length).flatMap (fun i =>
      let m := ps.filter (fun p => p.1 == i)
      if m.isEmpty then [(some i, none)] else m.map (fun (i, j) => (some i, some j)))
  | .right =>
    (List.range right.length).flatMap (fun j =>
      let m := ps.filter (fun p => p.2 == j)
      if m.isEmpty then [(none, some j)] else m.map (fun (i, j) => (some i, some j)))

end SpVerif.Join
