import SpVerif.Model.GeomProto
import SpVerif.Model.Frames
import SpVerif.Model.Join
import SpVerif.Model.HilbertDist
import SpVerif.Model.Dask
namespace SpVerif.FramesProto
open SpVerif.Proto SpVerif.Geom SpVerif.Frames SpVerif.GeomProto

def elem? (kind : String) (v : V) : Option (Option Elem) :=
  match v with
  | .none => some none
  | v =>
    match kind with
    | "point" => (pt? v).map (fun p => some (.point p))
    | "multipoint" => (line? v).map (fun p => some (.multipoint p))
    | "line" | "ring" => (line? v).map (fun p => some (.line p))
    | "multiline" => (rings? v).map (fun p => some (.multiline p))
    | "polygon" => (rings? v).map (fun p => some (.polygon p))
    | "multipolygon" => (parts? v).map (fun p => some (.multipolygon p))
    | _ => none

def optInt? : V → Option (Option Int)
  | .none => some none
  | .i n => some (some n)
  | _ => none

/-- `cx <kind> <xs0> <xs1> <ys0> <ys1> <total box> <ps> <perm> <array>`: slice ends (`N` = omitted),
total bounds used for omitted ends, index configuration (`ps = 0`: no index).
Output: `box positions` -/
def run : List V → Option String
  | [.w "cx", .w kind, a, b, c, d, tb, .i ps, .l perm, .l els] => do
    let xs0 ← optInt? a
    let xs1 ← optInt? b
    let ys0 ← optInt? c
    let ys1 ← optInt? d
    let total ← box? tb
    let pm ← nats? perm
    let es ← els.mapM (elem? kind)
    let bx := getBounds xs0 xs1 ys0 ys1 total
    let m := cxMask bx es
    let r := if ps ≤ 0 then m else cxIndexed ps.toNat pm bx es
    pure ((ofInts [bx.x0, bx.y0, bx.x1, bx.y1]).show ++ " " ++ (ofNats r).show ++ " " ++ (ofNats m).show)
  | _ => none

end SpVerif.FramesProto

namespace SpVerif.JoinProto
open SpVerif.Proto SpVerif.Geom SpVerif.Frames SpVerif.GeomProto SpVerif.FramesProto SpVerif.Join

def optPt? : V → Option (Option Pt)
  | .none => some none
  | v => (pt? v).map some

def showOpt : Option Nat → V
  | none => V.none
  | some k => V.i k

/-- `sjoin <how> <left points> <kind> <right shapes>` → `[ [ i j ] … ]` (`N` = unmatched side) -/
def run : List V → Option String
  | [.w "sjoin", .w how, .l lpts, .w kind, .l shapes] => do
    let l ← lpts.mapM optPt?
    let r ← shapes.mapM (elem? kind)
    let h ← match how with
      | "inner" => some How.inner | "left" => some How.left | "right" => some How.right | _ => none
    pure (V.l ((join h l r).map (fun (a, b) => V.l [showOpt a, showOpt b]))).show
  | _ => none

end SpVerif.JoinProto

namespace SpVerif.HDistProto
open SpVerif.Proto SpVerif.HilbertDist

def quad? : V → Option (Int × Int × Int × Int)
  | .l [.i a, .i b, .i c, .i d] => some (a, b, c, d)
  | _ => none

/-- `hdist <p> <total> <rows>` → per row `[ cx cy dist ]` (`N` for a NaN row) -/
def run : List V → Option String
  | [.w "hdist", .i p, tb, .l rows] => do
    let t ← quad? tb
    if p < 1 then none else
    let outs ← rows.mapM (fun r => match r with
      | .none => some V.none
      | r => (quad? r).map (fun b =>
          let c := cellOf t p.toNat b
          ofNats [c.1, c.2, hilbertDistance t p.toNat b]))
    pure (V.l outs).show
  | _ => none

end SpVerif.HDistProto

namespace SpVerif.DaskProto
open SpVerif.Proto SpVerif.Geom SpVerif.Frames SpVerif.GeomProto SpVerif.FramesProto SpVerif.Dask

def showBox : Option RTree.NBox → V
  | none => V.l [V.nan, V.nan, V.nan, V.nan]
  | some b => ofInts b

/-- `dask <kind> <box> <partitions>` → `total partition_bounds cx_partitions cx_rows(global positions) pandas_cx` -/
def run : List V → Option String
  | [.w "dask", .w kind, bx, .l parts] => do
    let b ← box? bx
    let ps ← parts.mapM (fun p => p.list? >>= fun els => els.mapM (elem? kind))
    let rows := (daskCx b ps).map (globalPos ps)
    let pandas := cxMask b ps.flatten
    pure ((showBox (daskTotalBounds ps)).show ++ " " ++ (V.l ((partitionBounds ps).map showBox)).show ++ " " ++
          (ofNats (cxPartitions b ps)).show ++ " " ++ (ofNats rows).show ++ " " ++ (ofNats pandas).show)
  | _ => none

end SpVerif.DaskProto
