import SpVerif.Model.Proto
/-!
# The Arrow buffer layer under the list-backed geometry arrays (`geometry/baselist.py`, `basefixed.py`). Core Lean only.

A geometry array is a *view* of shared buffers: an array offset and length, one offsets buffer per nesting level
(outermost first), a validity bitmap and one flat value buffer.  A slice keeps every buffer and only moves `off`/`len`.
`_ListArrayBufferMixin` gives the kernels their inputs:

* `buffer_offsets`  – the first offsets buffer cut to `[off, off+len]`, the others whole,
* `buffer_values`   – the whole value buffer,
* `buffer_outer_offsets`, `buffer_inner_offsets`, `flat_values` – derived from those by index composition.

`elems1/2/3` say what the *elements* of a view are (depth 1: multipoint, line, ring; depth 2: multiline, polygon;
depth 3: multipolygon).  Everything is total: an offsets read past the end of a buffer gives 0 (`rd`); the theorems are
stated under the well-formedness the Arrow format guarantees (offsets non-decreasing).
-/
namespace SpVerif.Arrow
open SpVerif.Proto

/-- `l[s:e]` -/
def sl {α} (l : List α) (s e : Nat) : List α := (l.drop s).take (e - s)

/-- read one entry of an offsets buffer -/
def rd (o : List Nat) (i : Nat) : Nat := o.getD i 0

/-- `s, s+1, …, e-1` -/
def rng (s e : Nat) : List Nat := (List.range (e - s)).map (· + s)

/-- the children `[s, e)` of a level whose entries are runs of values -/
def elem1 (vals : List Int) (s e : Nat) : List Int := sl vals s e

/-- the children `[s, e)` of a level whose entries are lists of runs (`o` = offsets of the next level) -/
def elem2 (vals : List Int) (o : List Nat) (s e : Nat) : List (List Int) :=
  (rng s e).map (fun k => elem1 vals (rd o k) (rd o (k + 1)))

def elem3 (vals : List Int) (o1 o2 : List Nat) (s e : Nat) : List (List (List Int)) :=
  (rng s e).map (fun k => elem2 vals o2 (rd o1 k) (rd o1 (k + 1)))

/-- a view of shared buffers -/
structure View where
  off : Nat
  len : Nat
  offs : List (List Nat)
  vals : List Int
  valid : List Bool
  deriving Repr

/-- pyarrow's `slice(s, n)`: same buffers, moved window -/
def View.slice (v : View) (s n : Nat) : View := { v with off := v.off + s, len := n }

def View.isValid (v : View) (i : Nat) : Bool := v.valid.getD (v.off + i) true

/-- the element stored at absolute position `j` of the buffers (`none` = missing) -/
def cell1 (valid : List Bool) (vals : List Int) (o0 : List Nat) (j : Nat) : Option (List Int) :=
  if valid.getD j true then some (elem1 vals (rd o0 j) (rd o0 (j + 1))) else none

def cell2 (valid : List Bool) (vals : List Int) (o0 o1 : List Nat) (j : Nat) : Option (List (List Int)) :=
  if valid.getD j true then some (elem2 vals o1 (rd o0 j) (rd o0 (j + 1))) else none

def cell3 (valid : List Bool) (vals : List Int) (o0 o1 o2 : List Nat) (j : Nat) : Option (List (List (List Int))) :=
  if valid.getD j true then some (elem3 vals o1 o2 (rd o0 j) (rd o0 (j + 1))) else none

/-- the elements of a depth-1 view: the cells `off … off+len-1` -/
def elems1 (v : View) : List (Option (List Int)) :=
  match v.offs with
  | [o0] => (List.range v.len).map (fun i => cell1 v.valid v.vals o0 (v.off + i))
  | _ => []

def elems2 (v : View) : List (Option (List (List Int))) :=
  match v.offs with
  | [o0, o1] => (List.range v.len).map (fun i => cell2 v.valid v.vals o0 o1 (v.off + i))
  | _ => []

def elems3 (v : View) : List (Option (List (List (List Int)))) :=
  match v.offs with
  | [o0, o1, o2] => (List.range v.len).map (fun i => cell3 v.valid v.vals o0 o1 o2 (v.off + i))
  | _ => []

/-! ### what `_ListArrayBufferMixin` hands to the kernels -/

/-- `buffer_offsets`: first level cut to the window, the rest unchanged -/
def bufferOffsets (v : View) : List (List Nat) :=
  match v.offs with
  | [] => []
  | o0 :: rest => sl o0 v.off (v.off + v.len + 1) :: rest

/-- `offsets[flat_offsets]` (numpy fancy indexing) -/
def gather (o : List Nat) (idx : List Nat) : List Nat := idx.map (rd o)

/-- `buffer_outer_offsets` -/
def outerOffsets (v : View) : List Nat :=
  match bufferOffsets v with
  | [] => []
  | b0 :: rest => rest.foldl (fun flat o => gather o flat) b0

/-- `start, stop` pushed through the given levels -/
def thru (levels : List (List Nat)) (x : Nat) : Nat := levels.foldl (fun x o => rd o x) x

/-- `flat_values` (in units of single values) -/
def flatValues (v : View) : List Int :=
  match bufferOffsets v with
  | [] => []
  | b0 :: rest => sl v.vals (thru rest (rd b0 0)) (thru rest (rd b0 (b0.length - 1)))

/-- `buffer_inner_offsets` -/
def innerOffsets (v : View) : List Nat :=
  match bufferOffsets v with
  | [] => []
  | b0 :: rest =>
    let last := (b0 :: rest).getLastD []
    let mid := (b0 :: rest).dropLast.drop 1
    let start := thru mid (rd b0 0)
    let stop := thru mid (rd b0 (b0.length - 1))
    sl last start (stop + 1)

/-! ### fixed-width arrays (points): `GeometryFixedArray.flat_values` -/

/-- element `i` of a fixed-width view of width `w` -/
def fixedElem (vals : List Int) (w off i : Nat) : List Int := sl vals (w * (off + i)) (w * (off + i) + w)

/-- `flat_values`: `buffer_values[w*off : w*(off+len)]` -/
def fixedFlat (vals : List Int) (w off len : Nat) : List Int := sl vals (w * off) (w * (off + len))

/-! ### line protocol -/

def showOpt {α} (f : α → V) : Option α → V
  | none => V.none
  | some a => f a

def natLists? (vs : List V) : Option (List (List Nat)) := vs.mapM (fun v => v.list? >>= nats?)

def bools? (vs : List V) : Option (List Bool) := vs.mapM (fun v => match v with | .i 0 => some false | .i 1 => some true | _ => none)

/-- `arrow <depth> <off> <len> [offsets buffers] [values] [validity]` → elements, buffer_offsets[0], outer offsets, flat values,
inner offsets -/
def run : List V → Option String
  | [.w "arrow", .i d, .i off, .i len, .l offs, .l vals, .l valid] => do
    let os ← natLists? offs
    let vs ← ints? vals
    let bs ← bools? valid
    if off < 0 ∨ len < 0 then none else
    let v : View := { off := off.toNat, len := len.toNat, offs := os, vals := vs, valid := bs }
    if os.length ≠ d.toNat then none else
    let els ← match d with
      | 1 => some (V.l ((elems1 v).map (showOpt ofInts)))
      | 2 => some (V.l ((elems2 v).map (showOpt (fun e => V.l (e.map ofInts)))))
      | 3 => some (V.l ((elems3 v).map (showOpt (fun e => V.l (e.map (fun r => V.l (r.map ofInts)))))))
      | _ => none
    some (V.l [els, ofNats ((bufferOffsets v).headD []), ofNats (outerOffsets v), ofInts (flatValues v), ofNats (innerOffsets v)]).show
  | [.w "arrowfixed", .i w, .i off, .i len, .l vals] => do
    let vs ← ints? vals
    if w < 1 ∨ off < 0 ∨ len < 0 then none else
    some (V.l [V.l ((List.range len.toNat).map (fun i => ofInts (fixedElem vs w.toNat off.toNat i))),
               ofInts (fixedFlat vs w.toNat off.toNat len.toNat)]).show
  | _ => none

end SpVerif.Arrow
