import SpVerif.Model.RTreeArr
/-!
# Layer T (part 4) — the bottom-up pass of `_build_hilbert_rtree` that fills `bounds_tree`, as coded. Core Lean only.

`bounds_tree` starts as all-NaN rows (`none`).  The page loop writes one leaf row per page (`leaf_start + page`, column-wise minima and
maxima of the page's rows).  The layer loop runs from `layer = tree_depth − 1` down to `0`; in a layer it visits the nodes
`start … stop` in order, reads the rows of the two children **from the array being filled** and writes the union (a NaN child is
ignored; when both are NaN nothing is written), then moves `start`, `stop` to their parents.
-/
namespace SpVerif.RTreeFill
open RTree RTreeIndex RTreeArr SpVerif.Proto

abbrev BT := Nat → Option NBox

/-- `bounds_tree[k, :] = v` -/
def setAt (bt : BT) (k : Nat) (v : Option NBox) : BT := fun i => if i = k then v else bt i

/-- `_parent` -/
def parent (k : Nat) : Nat := (k - 1) / 2

/-- `[min of column d …] + [max of column d + n …]` over the rows of one page -/
def pageBox (d : Nat) (rs : List Row) : Option NBox := (PTree.leaf rs).box d

/-- `for page in range(num_pages): bounds_tree[leaf_start + page, :] = …` -/
def fillLeaves (d ps : Nat) (rows : List Row) (leafStart np : Nat) (bt : BT) : BT :=
  (List.range np).foldl (fun bt page => setAt bt (leafStart + page) (pageBox d ((rows.drop (page * ps)).take ps))) bt

/-- the body of the node loop -/
def fillNode (d : Nat) (bt : BT) (node : Nat) : BT :=
  match bt (leftChild node), bt (rightChild node) with
  | some l, some r => setAt bt node (some (unionBox d l r))
  | some l, none => setAt bt node (some l)
  | none, some r => setAt bt node (some r)
  | none, none => bt

/-- `for node in range(start, stop + 1)` -/
def fillLayer (d : Nat) (bt : BT) (start stop : Nat) : BT :=
  (List.range (stop + 1 - start)).foldl (fun bt i => fillNode d bt (start + i)) bt

/-- `while layer >= 0` (`layers` = number of layers still to do) -/
def fillUp (d : Nat) : Nat → Nat → Nat → BT → BT
  | 0, _, _, bt => bt
  | l + 1, s, e, bt => fillUp d l (parent s) (parent e) (fillLayer d bt s e)

/-- the array `_build_hilbert_rtree` returns for `sorted` rows (non-empty) and `page_size = ps` -/
def fill (d ps : Nat) (rows : List Row) : BT :=
  let np := numPages rows.length ps
  let D := clog2 np
  let len := 2 * 2 ^ D - 1
  let leafStart := len - 2 ^ D
  let bt := fillLeaves d ps rows leafStart np (fun _ => none)
  fillUp d D (parent leafStart) (parent (len - 1)) bt

/-! ### the same pass on the array itself (a list of rows that is updated in place) - what the driver runs -/

/-- the page loop on the array -/
def fillLeavesL (d ps : Nat) (rows : List Row) (leafStart np : Nat) (bt : List (Option NBox)) : List (Option NBox) :=
  (List.range np).foldl (fun bt page => bt.set (leafStart + page) (pageBox d ((rows.drop (page * ps)).take ps))) bt

/-- the body of the node loop on the array -/
def fillNodeL (d : Nat) (bt : List (Option NBox)) (node : Nat) : List (Option NBox) :=
  match bt.getD (leftChild node) none, bt.getD (rightChild node) none with
  | some l, some r => bt.set node (some (unionBox d l r))
  | some l, none => bt.set node (some l)
  | none, some r => bt.set node (some r)
  | none, none => bt

def fillLayerL (d : Nat) (bt : List (Option NBox)) (start stop : Nat) : List (Option NBox) :=
  (List.range (stop + 1 - start)).foldl (fun bt i => fillNodeL d bt (start + i)) bt

def fillUpL (d : Nat) : Nat → Nat → Nat → List (Option NBox) → List (Option NBox)
  | 0, _, _, bt => bt
  | l + 1, s, e, bt => fillUpL d l (parent s) (parent e) (fillLayerL d bt s e)

/-- `bounds_tree` as `_build_hilbert_rtree` leaves it: `np.full((tree_length, 2n), nan)`, the page loop, the layer loops -/
def fillL (d ps : Nat) (rows : List Row) : List (Option NBox) :=
  let np := numPages rows.length ps
  let D := clog2 np
  let len := 2 * 2 ^ D - 1
  let leafStart := len - 2 ^ D
  let bt := fillLeavesL d ps rows leafStart np (List.replicate len none)
  fillUpL d D (parent leafStart) (parent (len - 1)) bt

/-- the rows of `bounds_tree` as the coded pass produces them -/
def boundsTreeCoded (d ps : Nat) (sorted : List Row) : List (Option NBox) := fillL d ps sorted

/-- `btreec <d> <page_size> [[key box…]…]` → the rows of `bounds_tree` by the coded pass (`N` = NaN row) -/
def run : List V → Option String
  | [.w "btreec", .i d, .i ps, .l rows] => do
    if d < 1 ∨ ps < 1 then none else
    let rs ← rows.mapM (fun r => match r with
      | .l (.i k :: box) => (ints? box).map (fun b => ((k.toNat, b) : Row))
      | _ => none)
    if rs.isEmpty then some "[ ]" else
    some (V.l ((boundsTreeCoded d.toNat ps.toNat rs).map (fun b => match b with | none => V.none | some x => ofInts x))).show
  | _ => none

end SpVerif.RTreeFill
