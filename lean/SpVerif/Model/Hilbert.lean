/-!
# Layer H — Hilbert curve, word-level model of `spatialpandas/spatialindex/hilbert_curve.py`

Core Lean only (no Mathlib): this file is linked into the compiled driver.

`coordN p n h`  models `coordinate_from_distance(p, n, h)`  (general n, lists of words)
`distN  p X`    models `distance_from_coordinate(p, X)`     (general n)

The n = 2 specialisation on pairs (`coord2`, `dist2`) is what the C07 theorems are
stated about; `coordN_two` / `distN_two` (in `Lemmas/HilbertN2`) tie the two together.
Sizes are unbounded `Nat`; the code is int64 (np ≤ 62), see DESIGN §2.
-/
namespace SpVerif.Hilbert

/-! ## general n, as coded -/

/-- the number whose bit `e` is `f e` for `e < k` and which has no other bit set -/
def bitsum (k : Nat) (f : Nat → Bool) : Nat :=
  (List.range k).foldl (fun acc e => acc + (if f e then 2 ^ e else 0)) 0

/-- bit `j` (from the LSB) of word `i` of `_hilbert_integer_to_transpose(p, h, n)`:
`h_bits[i::n]` read MSB-first is bit `n*j + (n-1-i)` of `h`. -/
def transposeWord (p n i h : Nat) : Nat := bitsum p (fun j => h.testBit (n * j + (n - 1 - i)))

def toTranspose (p n h : Nat) : List Nat :=
  (List.range n).map (fun i => transposeWord p n i h)

/-- `_transpose_to_hilbert_integer(p, X)`: the bit string `concat[n*i + j] = bins[j][i]` (MSB first) read as an integer, i.e.
bit `e` of the result is bit `e / n` of word `n - 1 - e % n`. -/
def fromTranspose (p : Nat) (X : List Nat) : Nat :=
  let n := X.length
  bitsum (n * p) (fun e => (X.getD (n - 1 - e % n) 0).testBit (e / n))

/-- one `(Q = 2^q, i)` iteration of the "undo excess work" loops (identical in both routines) -/
def step (q i : Nat) (X : List Nat) : List Nat :=
  let P := 2 ^ q - 1
  if (X.getD i 0).testBit q then
    X.set 0 (X.getD 0 0 ^^^ P)
  else
    let t := (X.getD 0 0 ^^^ X.getD i 0) &&& P
    let X1 := X.set 0 (X.getD 0 0 ^^^ t)
    X1.set i (X1.getD i 0 ^^^ t)

/-- `t = X[n-1] >> 1; for i in n-1..1: X[i] ^= X[i-1]; X[0] ^= t` -/
def grayDecodeN (X : List Nat) : List Nat :=
  let n := X.length
  let t := X.getD (n - 1) 0 >>> 1
  (List.range n).map (fun i => if i = 0 then X.getD 0 0 ^^^ t else X.getD i 0 ^^^ X.getD (i - 1) 0)

/-- decode loop: `Q = 2, 4, …, 2^(p-1)`; inner `i = n-1 … 0` -/
def undoLoopN (n : Nat) : Nat → List Nat → List Nat
  | 0, X => X
  | 1, X => X
  | (p+2), X =>
    let Y := undoLoopN n (p+1) X
    (List.range n).reverse.foldl (fun Z i => step (p+1) i Z) Y

def coordN (p n h : Nat) : List Nat :=
  undoLoopN n p (grayDecodeN (toTranspose p n h))

/-- encode loop: `Q = 2^(p-1), …, 2`; inner `i = 0 … n-1` -/
def redoLoopN (n : Nat) : Nat → List Nat → List Nat
  | 0, X => X
  | 1, X => X
  | (p+2), X =>
    redoLoopN n (p+1) ((List.range n).foldl (fun Z i => step (p+1) i Z) X)

/-- `for i in 1..n-1: X[i] ^= X[i-1]` (ascending, cumulative) -/
def prefixXor : Nat → List Nat → List Nat
  | _, [] => []
  | acc, x :: xs => (x ^^^ acc) :: prefixXor (x ^^^ acc) xs

/-- `t = 0; Q = M; while Q > 1: if y & Q: t ^= Q-1; Q >>= 1` with `M = 2^q` -/
def tLoop : Nat → Nat → Nat → Nat
  | 0, t, _ => t
  | (q+1), t, y => tLoop q (if y.testBit (q+1) then t ^^^ (2 ^ (q+1) - 1) else t) y

def grayEncodeN (p : Nat) (X : List Nat) : List Nat :=
  let Y := prefixXor 0 X
  let t := tLoop (p - 1) 0 (Y.getD (Y.length - 1) 0)
  Y.map (fun y => y ^^^ t)

def distN (p : Nat) (X : List Nat) : Nat :=
  fromTranspose p (grayEncodeN p (redoLoopN X.length p X))

/-! ## n = 2 on pairs -/

abbrev W2 := Nat × Nat

/-- de-interleave: word 0 gets the odd bits of `h`, word 1 the even bits (p digits) -/
def transpose2 : Nat → Nat → W2
  | 0, _ => (0, 0)
  | (p+1), h =>
    let r := transpose2 p (h / 4)
    (2 * r.1 + (h / 2) % 2, 2 * r.2 + h % 2)

def untranspose2 : Nat → W2 → Nat
  | 0, _ => 0
  | (p+1), x => 4 * untranspose2 p (x.1 / 2, x.2 / 2) + 2 * (x.1 % 2) + x.2 % 2

def grayDecode2 (x : W2) : W2 := (x.1 ^^^ (x.2 >>> 1), x.2 ^^^ x.1)

/-- `i = 1` iteration at bit q -/
def stepA (q : Nat) (x : W2) : W2 :=
  if x.2.testBit q then (x.1 ^^^ (2 ^ q - 1), x.2)
  else
    let t := (x.1 ^^^ x.2) &&& (2 ^ q - 1)
    (x.1 ^^^ t, x.2 ^^^ t)

/-- `i = 0` iteration at bit q (the exchange branch has `t = 0`) -/
def stepB (q : Nat) (x : W2) : W2 :=
  if x.1.testBit q then (x.1 ^^^ (2 ^ q - 1), x.2) else x

def undoLoop2 : Nat → W2 → W2
  | 0, x => x
  | 1, x => x
  | (p+2), x => stepB (p+1) (stepA (p+1) (undoLoop2 (p+1) x))

def redoLoop2 : Nat → W2 → W2
  | 0, x => x
  | 1, x => x
  | (p+2), x => redoLoop2 (p+1) (stepA (p+1) (stepB (p+1) x))

def grayEncode2 (p : Nat) (x : W2) : W2 :=
  let y := x.2 ^^^ x.1
  let t := tLoop (p - 1) 0 y
  (x.1 ^^^ t, y ^^^ t)

def coord2 (p h : Nat) : W2 := undoLoop2 p (grayDecode2 (transpose2 p h))
def dist2 (p : Nat) (c : W2) : Nat := untranspose2 p (grayEncode2 p (redoLoop2 p c))

end SpVerif.Hilbert

namespace SpVerif.Hilbert

/-! ## reference: the classical quadrant recursion (specification side of C07, n = 2) -/

/-- place the order-`p` sub-curve `c` into quadrant `d` of the order-`p+1` square:
`0`: lower-left, transposed; `1`: upper-left; `2`: upper-right; `3`: lower-right, anti-transposed -/
def quad (p d : Nat) (c : W2) : W2 :=
  match d with
  | 0 => (c.2, c.1)
  | 1 => (c.1, 2 ^ p + c.2)
  | 2 => (2 ^ p + c.1, 2 ^ p + c.2)
  | _ => (2 ^ p + (2 ^ p - 1 - c.2), 2 ^ p - 1 - c.1)

def hilbertRec : Nat → Nat → W2
  | 0, _ => (0, 0)
  | (p+1), h => quad p (h / 4 ^ p) (hilbertRec p (h % 4 ^ p))

end SpVerif.Hilbert
