import SpVerif.Model.Hilbert
import SpVerif.Model.Proto
import SpVerif.Props.C07
