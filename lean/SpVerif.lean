import SpVerif.Model.Hilbert
import SpVerif.Model.Proto
import SpVerif.Props.C07
import SpVerif.Model.GeomProto
import SpVerif.Props.C01
import SpVerif.Props.C02
