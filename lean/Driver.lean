import SpVerif.Model.Proto
import SpVerif.Model.Hilbert
import SpVerif.Model.GeomProto
import SpVerif.Model.RTreeProto
import SpVerif.Model.Select
import SpVerif.Model.FramesProto
import SpVerif.Model.Pack
import SpVerif.Model.ActiveGeom
import SpVerif.Model.Parquet
import SpVerif.Model.Arrow
import SpVerif.Model.PackFS
import SpVerif.Model.PackProto
import SpVerif.Model.RTreeIndex
import SpVerif.Model.RTreeArr
import SpVerif.Model.RTreeFill
import SpVerif.Model.DaskJoinProto
/-! Line-protocol driver: one operation per input line, one canonical output line each.
Unknown or malformed operations print `bad-op` (never a default). -/
open SpVerif SpVerif.Proto

def runOp : List V → Option String
  | [V.w "h2c", V.i p, V.i n, V.i h] =>
    if p ≥ 1 ∧ n ≥ 1 ∧ h ≥ 0 then
      some (ofNats (Hilbert.coordN p.toNat n.toNat h.toNat)).show
    else Option.none
  | [V.w "c2h", V.i p, V.l cs] =>
    match nats? cs with
    | some X => if p ≥ 1 ∧ X ≠ [] then some (toString (Hilbert.distN p.toNat X)) else Option.none
    | Option.none => Option.none
  | [V.w "h2c2", V.i p, V.i h] =>
    if p ≥ 1 ∧ h ≥ 0 then
      let c := Hilbert.coord2 p.toNat h.toNat
      some (ofNats [c.1, c.2]).show
    else Option.none
  | [V.w "c2h2", V.i p, V.i a, V.i b] =>
    if p ≥ 1 ∧ a ≥ 0 ∧ b ≥ 0 then some (toString (Hilbert.dist2 p.toNat (a.toNat, b.toNat)))
    else Option.none
  | vs => (GeomProto.run vs).orElse (fun _ => RTreeProto.run vs) |>.orElse (fun _ => Select.run vs) |>.orElse (fun _ => FramesProto.run vs) |>.orElse (fun _ => JoinProto.run vs) |>.orElse (fun _ => HDistProto.run vs) |>.orElse (fun _ => DaskProto.run vs) |>.orElse (fun _ => Pack.run vs) |>.orElse (fun _ => ActiveGeom.run vs) |>.orElse (fun _ => Parquet.run vs) |>.orElse (fun _ => Arrow.run vs) |>.orElse (fun _ => PackFS.run vs) |>.orElse (fun _ => PackProto.runOp vs) |>.orElse (fun _ => RTreeIndex.run vs) |>.orElse (fun _ => RTreeArr.run vs) |>.orElse (fun _ => RTreeFill.run vs) |>.orElse (fun _ => DaskJoinProto.run vs)

partial def loop (hin : IO.FS.Stream) (hout : IO.FS.Stream) : IO Unit := do
  let line ← hin.getLine
  if line.isEmpty then return ()
  let out := match parseLine line.trimAscii.toString with
    | some vs => (runOp vs).getD "bad-op"
    | Option.none => "bad-op"
  hout.putStrLn out
  loop hin hout

def main : IO Unit := do
  let hin ← IO.getStdin
  let hout ← IO.getStdout
  loop hin hout
  hout.flush
