#!/bin/bash
# run_round2.sh [tier] : apply every round-2 seeded change (/tmp/wt2/<id>.patch) to /repo in turn, run the correspondence half of
# the property's own check, undo it; prints one line per seed
tier=${1:-quick}
cd /verif
for c in $(seq -f "C%02g" 1 20); do
  git -C /repo diff --quiet || { echo "/repo not clean"; exit 2; }
  git -C /repo apply ${WT:-/tmp/wt2}/$c.patch || { echo "$c: patch does not apply"; continue; }
  out=$(timeout 3000 tools/cases_only.py $c $tier 2>&1 | grep -v conda | grep "^$c \|^VIOL\|^TIE\|^KNOWN" | cut -c1-260)
  git -C /repo checkout -- .
  echo "== $c: $(echo "$out" | head -1 | sed 's/drift=.*//')"
  echo "$out" | grep "^VIOL\|^TIE" | head -2
done
