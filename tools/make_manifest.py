#!/usr/bin/env python3
"""Regenerates /verif/MANIFEST.json from the table below (kept here so the manifest stays
valid and complete: every property of properties.jsonl is either claimed or listed under
not_applicable with a reason)."""
import json
import os

HERE = os.path.dirname(os.path.dirname(os.path.abspath(__file__)))

CLAIMED = {
    "C07": dict(
        text=("Lean theorems about the word-level model of hilbert_curve.py: for every dimension n and every order p the two round trips, the "
              "ranges, 'every cell visited exactly once' and the two end points (Props/C07.lean, *_all_n); n = 1 is the identity; for n = 2 in addition adjacency, refinement and "
              "the identity with the classical Hilbert recursion. Tied to the code by an exhaustive (n*p <= 14 quick / 20 thorough) plus sampled "
              "(all p up to 62/n) correspondence of both entry points, and the property's relations checked directly on the implementation."),
        note=("Trusted: Lean kernel; axioms ⊆ {propext, Classical.choice, Quot.sound} audited per run; the hand-written model "
              "(tied by correspondence only); int64 overflow not modelled (Nat); adjacency / refinement for n >= 3 are covered by "
              "the executable model and correspondence, not by a theorem."),
        technique="Lean 4 proof (loop involutions on word lists, Gray code, bit transposition) + model/implementation correspondence",
        design="I.2 C07, II §3 C07"),
}


def _c(text, note, technique, design, category="proof"):
    return dict(text=text, note=note, technique=technique, design=design, category=category)

STD_NOTE = ("Trusted: Lean kernel; axioms ⊆ {propext, Classical.choice, Quot.sound} audited per run; the hand-written model is tied to /repo "
            "only by the correspondence (generators bound what it sees; distribution in the evidence); python harness and exact oracles; "
            "numba/pyarrow/pandas/Dask are exercised, not modelled. ")

CLAIMED.update({
    "C01": _c("Lean model of every *_intersect_bounds kernel (Model/Geom.lean) with the theorems of Props/C01.lean, tied to the code by an "
              "exhaustive small-grid correspondence (every line <=3 vertices, all grid triangles, shells with holes, multi-part shapes x every "
              "integer box, all forms: array / inds / scalar / GeoSeries / sliced, five subtypes) plus seeded random shapes, and an independent "
              "exact-rational oracle compared with the model on a share of the cases.",
              STD_NOTE + "Proved exact (iff, over rational points) for every kind incl. polygon and multipolygon (closed rings, holes within the shell's "
              "bounding box; polygon point set = ring points and points of non-zero winding number; the corner winding test is justified by the "
              "formalised constancy of the winding number on boxes that miss the ring). Reading 'non-zero winding number' as 'inside' is C02. "
              "One known finding (D35: float32 storage, long edges computed in single precision; D44 is its point-versus-shape face under C02) is listed in known_findings.json.",
              "Lean 4 proof about the kernel model + model/implementation/oracle correspondence", "I.2 C01, II §3 C01"),
    "C02": _c("Lean model of point-vs-shape intersects (Geom.point*, the winding loop as coded) with the theorems of Props/C02.lean; "
              "correspondence over every shape of the grid families x every grid point (rays through vertices, points on edges), a missing and an "
              "all-NaN point, array / inds / scalar / GeoSeries forms, plus seeded random shapes and the same families scaled by powers of two; on-ring points "
              "compared for form agreement only. One known finding (D44: float32 points against a float32 line, cross product in single precision) is listed in known_findings.json.",
              STD_NOTE + "Proved exact (iff) for point, multipoint, line, multiline; for polygons: the edge rule (closed form and geometric reading), "
              "antisymmetry under reversal, zero outside the bounding box, constancy along segments and on boxes that miss the ring, jump by the "
              "edge's direction across one edge, +-1 strictly inside / 0 strictly outside a triangle, 0 everywhere for a degenerate triangle, the fan "
              "decomposition of every ring (unconditional) and hence, off the boundaries of its fan triangles, winding number = signed number of fan "
              "triangles covering the point, and the shell-minus-holes decision logic. That for a simple ring this signed cover is +-1 exactly on the "
              "bounded component (polygonal Jordan theorem) is not proved, so the polygon clause is partial (DESIGN I.2, I.7).",
              "Lean 4 proof about the winding-number model + correspondence with exact oracle", "I.2 C02, II §3 C02"),
    "C03": _c("Lean page-tree model of the Hilbert R-tree (Model/RTree.lean) proved for every permutation of the rows (so for every p) and every "
              "page size; correspondence: exhaustive d=1 (n<=3, endpoints 0..3 or NaN, every page size and query), small exhaustive d=2, seeded "
              "trees up to n=2000 with ties, NaN rows, pickled and re-queried instances; results collected before comparison.",
              STD_NOTE + "The array encoding is covered too: index arithmetic (closed forms of _start_index / _stop_index, leaf test) and the stack traversal "
              "over bounds_tree are proved equal to the recursive query, and the coded bottom-up pass (page loop, layer loops) is proved to fill bounds_tree "
              "with the sub-tree boxes; the ties compare the real index functions and the real bounds_tree rows with the recursive description and with "
              "the coded pass.",
              "Lean 4 proof by induction over the page tree + correspondence", "I.2 C03, II §3 C03"),
    "C13": _c("Lean model of the NaN-aware bounds scans (Model/Bounds.lean) with the theorems of Props/C13.lean; correspondence for all kinds x "
              "subtypes, missing / empty / non-finite coordinates, derived arrays with non-zero offsets, GeoSeries / Dask / spatial-index wrappers.",
              STD_NOTE, "Lean 4 proof about the scan model + correspondence", "I.2 C13, II §3 C13"),
    "C14": _c("Lean model of compute_area / compute_line_length (doubled areas, squared segment lengths, all in Int) with the theorems of "
              "Props/C14.lean; correspondence compares areas exactly, lengths as the same fold of square roots, boundary ring by ring, scalar vs "
              "array, translation, missing -> NaN, for all kinds / subtypes / derived arrays.",
              STD_NOTE + "sqrt and float addition are applied by the harness in the model's order (IEEE), not interpreted in Lean.",
              "Lean 4 proof about the measure model + correspondence", "I.2 C14, II §3 C14"),
    "C15": _c("Lean model of orient_polygons on abstract rings (Geom.orientRings) with the theorems of Props/C15.lean; correspondence over every "
              "combination of ring directions, degenerate rings, slices, multi-part elements; idempotence, input untouched, valid-polygon clauses "
              "checked directly on the implementation.",
              STD_NOTE, "Lean 4 proof about the orientation model + correspondence", "I.2 C15, II §3 C15"),
    "C16": _c("Two Lean layers with the theorems of Props/C16.lean: request validation (Select.takeSpec / getItemSpec: which positions take and "
              "arr[i] select, which error they raise) and the Arrow buffer layer (Model/Arrow.lean: a derived array is a window on shared buffers; "
              "elements of a slice = slice of the elements; what _ListArrayBufferMixin hands a kernel for element i is element i for any window and "
              "buffer layout, depth 1-3; flat_values, buffer_inner_offsets, fixed-width arrays). Tie: random derivation histories; after every step "
              "elements, mask and every derived quantity against the same selection of the source, and the raw Arrow buffers of the derived array are "
              "fed to the model whose elements / offsets / flat values must equal the implementation's.",
              STD_NOTE + "pyarrow's own slice / take / concat_arrays / pickling produce the buffers; they are observed (their output is what the model "
              "is fed), not modelled.",
              "Lean 4 proof about request validation and the Arrow buffer layer + stateful model-based correspondence on raw buffers", "I.2 C16, II §3 C16"),
})

CLAIMED.update({
    "C04": _c("Lean model of _get_bounds and of both .cx paths (mask path; indexed path = R-tree covers ∪ filtered overlaps, sorted) with the "
              "theorems of Props/C04.lean; correspondence over array / GeoSeries / GeoDataFrame, 20 slice-end patterns, no index and indexes of page "
              "size 1/2/3/512 built before or after a first query; the model is run with the implementation's own key permutation.",
              STD_NOTE, "Lean 4 proof (cx = filter; index path = mask path from C03 + C01) + correspondence", "I.2 C04, II §3 C04"),
    "C05": _c("Lean model of the spatial join (pair table from the exact predicate, join shape per how) with the theorems of Props/C05.lean; "
              "correspondence compares complete result rows (columns, suffixes, index labels) as multisets for left point frames with duplicates / "
              "missing points / four index kinds and right frames of every kind incl. missing geometries and empty frames.",
              STD_NOTE + "The index prefilter (candidates by box overlap) is proved to lose no pair (rings closed). pandas.merge is modelled relationally "
              "(trusted base).", "Lean 4 proof about the join model + correspondence", "I.2 C05, II §3 C05"),
    "C06": _c("Lean partition model (partition bounds, NaN-ignoring total bounds, cx over kept partitions) with the theorems of Props/C06.lean; "
              "correspondence: every Dask operation against the same operation on the concatenation of the partitions for seven provenances, plus "
              "partition_bounds / cx / sjoin rows and per-partition sjoin candidates against the Lean model.",
              STD_NOTE + "The Dask sjoin (per-partition join with pruned right rows) is proved equal to the join of the concatenation (left: row for row; "
              "inner: as a multiset). Dask graph construction/execution, meta inference, from_delayed are exercised, not modelled. One known finding (D31: "
              "in-place assignment of a geometry column keeps stale partition bounds) is listed in known_findings.json.",
              "Lean 4 proof about the partition model + Dask-vs-pandas correspondence", "I.2 C06, II §3 C06"),
    "C08": _c("Lean exact-arithmetic reference for hilbert_distance (cell of the bbox centre, clip, degenerate extents) with the theorems of "
              "Props/C08.lean; equality with the reference where the scaling arithmetic is exact (power-of-two extents, also far from the origin), "
              "range / independence / argument-unmodified clauses for arbitrary floats and every argument type.",
              STD_NOTE + "Float rounding of the scaling outside the exact regime is not interpreted.", "Lean 4 proof about the reference cell + correspondence", "I.2 C08, II §3 C08"),
    "C09": _c("Lean packing model (stable sort by key, any cut points) with the theorems of Props/C09.lean; correspondence: multiset of complete rows, "
              "index = Hilbert distance of the active geometry w.r.t. whole-frame bounds, monotonicity, partition count, independence of the input "
              "partitioning, and the model run with the cut points Dask chose.",
              STD_NOTE + "Dask's shuffle / quantile divisions are the unmodelled runtime; one known finding (D16) is listed in known_findings.json.",
              "Lean 4 proof about the packing model + correspondence", "I.2 C09, II §3 C09"),
    "C10": _c("The real function on the local filesystem through a logging fsspec wrapper: whole directory tree, returned frame and independent read "
              "for three tempdir modes x empty output partitions x prior datasets; Lean model of the renumbering moves (Props/C10.lean).",
              STD_NOTE + "The fault-free protocol is modelled on the directory tree (Model/PackProto.lean) and proved to end, for every number of "
              "partitions, pattern of empty cells, temp-dir mode, prior dataset with overwrite and every order of the concatenation tasks, with "
              "exactly the part files 0..m-1 and the two metadata files (C10_final_tree); the harness reads cells, task order and moves off the "
              "call log and compares the model's moves and final tree with the real ones. Parquet encoding and read-back are pyarrow's (observed).",
              "Lean 4 proof about the filesystem protocol (final tree, renumbering) + trace correspondence on the real filesystem", "I.2 C10, II §3 C10"),
    "C11": _c("Lean model of what spatialpandas contributes (dtype-name printer/parser over the registry regenerated from the source, column "
              "projection) with the theorems of Props/C11.lean; real round trips for all kinds / subtypes / index kinds / derived arrays / partitions / "
              "projections / lists and globs, with equal-valued frames of different subtype alive in the process.",
              STD_NOTE + "Partial by nature: byte-level fidelity of pyarrow / pandas is observed, not proved.",
              "Lean 4 proof (decide over the regenerated registry) + round-trip correspondence", "I.2 C11, II §3 C11"),
    "C12": _c("Lean model of partition pruning and natural part order (Props/C12.lean); correspondence: recorded vs true per-partition bounds for both "
              "writers, 1..16 partitions, every geometry column, list / reversed list / glob of datasets, pruning vs the model, no intersecting row lost, "
              "bounds after pruning.", STD_NOTE, "Lean 4 proof about pruning + correspondence", "I.2 C12, II §3 C12"),
    "C17": _c("Metamorphic correspondence for every operation named in the property (inert rows inserted first / last / whole page / every position / "
              "all rows / whole Dask partition / scattered) on top of the inertness corollaries of Props/C17.lean.",
              STD_NOTE, "Lean 4 corollaries of the C01/C03/C04/C05/C13 models + metamorphic correspondence", "I.2 C17, II §3 C17"),
    "C18": _c("Lean: every parallel loop found in the source (table regenerated per run) stores only to result[loop variable] and has no reduction "
              "(decide), renumbering moves are order dependent (negative witness); runtime: schedule sampling over numba threads, client threads on a "
              "shared un-indexed object, Dask schedulers, pack_partitions_to_parquet with filesystem delays.",
              STD_NOTE + "Partial by nature: memory-model effects, GIL release points and the Dask scheduler are not in any model; sampling supports, it does not prove.",
              "Lean 4 proof over the regenerated write-set table + schedule sampling", "I.2 C18, II §3 C18"),
    "C19": _c("Fault-injecting fsspec filesystem: one fault at every call position (OSError everywhere; FileNotFoundError sampled in quick, everywhere in "
              "thorough; stale listing at every ls; partial write at every open), default and external temp dir, with empty output partitions; thorough adds all kinds everywhere, pairs and "
              "bursts beyond the retry budget; outcome must be 'raised' (then a fault-free overwrite run reproduces the dataset) or an identical dataset. "
              "Lean (Props/C19.lean): the retry combinator (a restartable body under any fault schedule raises or ends where the fault-free run ends), "
              "restartability of the guarded move and of the write step.",
              STD_NOTE + "Partial: a theorem over the whole protocol is not built - the whole run is covered by the exhaustive single-fault enumeration "
              "(every call position, stale listing at every ls, partial write at every open); faults are injected at every wrapped fsspec method "
              "including those fsspec calls on itself; crash semantics below fsspec are not modelled.",
              "Lean 4 proof of the retry combinator and step restartability + exhaustive single-fault enumeration on the real code", "I.2 C19, II §3 C19", category="proof"),
    "C20": _c("Lean specification machine for the active geometry (init resolution, set_geometry validation, row operations, column subsets) with the "
              "theorems of Props/C20.lean; correspondence over random operation sequences on pandas and Dask frames (per-partition active column, "
              "held-partition histories), spatial operations against the explicitly selected column.",
              STD_NOTE + "pandas' __finalize__ routing is observed, not modelled.", "Lean 4 proof about the specification machine + correspondence", "I.2 C20, II §3 C20"),
})

PENDING_REASON = "check not built yet in this round (planned, see DESIGN.md §8); not claimed"


def main():
    props = [json.loads(l) for l in open(os.path.join(HERE, "properties.jsonl"))]
    checks, na = [], []
    for p in props:
        pid = p["id"]
        if pid in CLAIMED:
            c = CLAIMED[pid]
            checks.append(dict(
                property_id=pid,
                quick_cmd=f"./check {pid} --tier quick",
                thorough_cmd=f"./check {pid} --tier thorough",
                evidence_file=f"/verif/evidence/{pid}.json",
                replay_cmd_template=f"./check {pid} --replay {{path}}",
                engine="lean4+correspondence",
                level_claimed=dict(category=c.get("category", "proof"), text=c["text"], design_ref=c["design"]),
                level_note=c["note"],
                technique=c["technique"],
            ))
        else:
            na.append(dict(property_id=pid, reason=NA.get(pid, PENDING_REASON)))
    man = dict(
        version=1,
        setup_cmd="PYTHONPATH=harness /venv/bin/python -m spv.gen_tables && cd lean && lake build SpVerif driver",
        hooks=dict(
            guard="HOLOVIZ_SPATIALPANDAS_VERIF",
            enable="no hooks are compiled in: checks drive /repo through its public API (editable install, /venv/bin/python); the guard variable is reserved and set by ./check",
            baseline_off_cmd="cd /repo && env -u HOLOVIZ_SPATIALPANDAS_VERIF /venv/bin/python -m pytest -ra -q -p no:cacheprovider --timeout=900 --continue-on-collection-errors",
            source_commits=[],
            add_only=True,
        ),
        engines=[dict(
            name="lean4+correspondence", path="lean/ harness/ check",
            serves_properties=sorted(CLAIMED),
            kind_free_text=("Lean 4 model + theorems (lake project lean/SpVerif, Mathlib-free model compiled into a line-protocol driver) "
                            "and a Python harness that runs the model's executable definitions and the real implementation on the same inputs"))],
        checks=checks,
        notes="See DESIGN.md. known_findings.json lists genuine defects recorded rather than repaired, and the ones repaired by fix: commits.",
        not_applicable=na,
    )
    with open(os.path.join(HERE, "MANIFEST.json"), "w") as fh:
        json.dump(man, fh, indent=1)
    print(f"claimed {len(checks)}, not claimed {len(na)}")


NA = {}

if __name__ == "__main__":
    main()
