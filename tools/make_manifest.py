#!/usr/bin/env python3
"""Regenerates /verif/MANIFEST.json from the table below (kept here so the manifest stays
valid and complete: every property of properties.jsonl is either claimed or listed under
not_applicable with a reason)."""
import json
import os

HERE = os.path.dirname(os.path.dirname(os.path.abspath(__file__)))

CLAIMED = {
    "C07": dict(
        text=("Lean theorems about the word-level model of hilbert_curve.py (n = 2: round trips, range, bijection; see "
              "Props/C07.lean for exactly what is proved and what is still _partial), tied to the code by an exhaustive "
              "(n*p <= 14 quick / 20 thorough) plus sampled (all p up to 62/n) correspondence of both entry points, and the "
              "property's relations (round trip, adjacency, refinement, end points) checked directly on the implementation."),
        note=("Trusted: Lean kernel; axioms ⊆ {propext, Classical.choice, Quot.sound} audited per run; the hand-written model "
              "(tied by correspondence only); int64 overflow not modelled (Nat); n ∈ {1,3} covered by the general executable "
              "model and correspondence, theorems are for n = 2."),
        technique="Lean 4 proof (induction over the loops; involution steps) + model/implementation correspondence",
        design="§3 C07"),
}


def _c(text, note, technique, design, category="proof"):
    return dict(text=text, note=note, technique=technique, design=design, category=category)

STD_NOTE = ("Trusted: Lean kernel; axioms ⊆ {propext, Classical.choice, Quot.sound} audited per run; the hand-written model is tied to /repo "
            "only by the correspondence (generators bound what it sees; distribution in the evidence); python harness and exact oracles; "
            "numba/pyarrow/pandas/Dask are exercised, not modelled. ")

CLAIMED.update({
    "C01": _c("Lean model of every *_intersect_bounds kernel (Model/Geom.lean) with the theorems of Props/C01.lean, tied to the code by an "
              "exhaustive small-grid correspondence (every line <=3 vertices, all grid triangles, shells with holes, multi-part shapes x every "
              "integer box, all forms: array / inds / scalar / GeoSeries / sliced, five subtypes) plus seeded random shapes, and an independent "
              "exact-rational oracle compared with the model on a share of the cases.",
              STD_NOTE + "What is proved vs. still open is listed theorem by theorem in the evidence and in DESIGN.md §3 C01.",
              "Lean 4 proof about the kernel model + model/implementation/oracle correspondence", "§3 C01"),
    "C02": _c("Lean model of point-vs-shape intersects (Geom.point*, the winding loop as coded) with the theorems of Props/C02.lean; "
              "correspondence over every shape of the grid families x every grid point (rays through vertices, points on edges), a missing and an "
              "all-NaN point, array / inds / scalar / GeoSeries forms, plus seeded random shapes; on-ring points compared for form agreement only.",
              STD_NOTE + "The topological step from the proved winding facts to 'inside' is a paper argument (DESIGN §5).",
              "Lean 4 proof about the winding-number model + correspondence with exact oracle", "§3 C02"),
    "C03": _c("Lean page-tree model of the Hilbert R-tree (Model/RTree.lean) proved for every permutation of the rows (so for every p) and every "
              "page size; correspondence: exhaustive d=1 (n<=3, endpoints 0..3 or NaN, every page size and query), small exhaustive d=2, seeded "
              "trees up to n=2000 with ties, NaN rows, pickled and re-queried instances; results collected before comparison.",
              STD_NOTE + "The array encoding of the tree (index arithmetic) is validated by the correspondence, not proved.",
              "Lean 4 proof by induction over the page tree + correspondence", "§3 C03"),
    "C13": _c("Lean model of the NaN-aware bounds scans (Model/Bounds.lean) with the theorems of Props/C13.lean; correspondence for all kinds x "
              "subtypes, missing / empty / non-finite coordinates, derived arrays with non-zero offsets, GeoSeries / Dask / spatial-index wrappers.",
              STD_NOTE, "Lean 4 proof about the scan model + correspondence", "§3 C13"),
    "C14": _c("Lean model of compute_area / compute_line_length (doubled areas, squared segment lengths, all in Int) with the theorems of "
              "Props/C14.lean; correspondence compares areas exactly, lengths as the same fold of square roots, boundary ring by ring, scalar vs "
              "array, translation, missing -> NaN, for all kinds / subtypes / derived arrays.",
              STD_NOTE + "sqrt and float addition are applied by the harness in the model's order (IEEE), not interpreted in Lean.",
              "Lean 4 proof about the measure model + correspondence", "§3 C14"),
    "C15": _c("Lean model of orient_polygons on abstract rings (Geom.orientRings) with the theorems of Props/C15.lean; correspondence over every "
              "combination of ring directions, degenerate rings, slices, multi-part elements; idempotence, input untouched, valid-polygon clauses "
              "checked directly on the implementation.",
              STD_NOTE, "Lean 4 proof about the orientation model + correspondence", "§3 C15"),
    "C16": _c("Stateful model-based correspondence: random derivation histories with every quantity compared against the same selection of the "
              "source's; request validation compared with the Lean spec Select.takeSpec/getItemSpec (theorems in Props/C16.lean).",
              STD_NOTE + "pyarrow slice/take/concat are specified by their effect on the decoded elements and validated at run time; the Arrow "
              "buffer layer is not yet modelled in Lean, so the proof part covers request validation only (partial).",
              "Lean 4 spec of selection validation + stateful model-based correspondence", "§3 C16"),
})

PENDING_REASON = "check not built yet in this round (planned, see DESIGN.md §8); not claimed"


def main():
    props = [json.loads(l) for l in open(os.path.join(HERE, "properties.jsonl"))]
    checks, na = [], []
    for p in props:
        pid = p["id"]
        if pid in CLAIMED:
            c = CLAIMED[pid]
            checks.append(dict(
                property_id=pid,
                quick_cmd=f"./check {pid} --tier quick",
                thorough_cmd=f"./check {pid} --tier thorough",
                evidence_file=f"/verif/evidence/{pid}.json",
                replay_cmd_template=f"./check {pid} --replay {{path}}",
                engine="lean4+correspondence",
                level_claimed=dict(category=c.get("category", "proof"), text=c["text"], design_ref=c["design"]),
                level_note=c["note"],
                technique=c["technique"],
            ))
        else:
            na.append(dict(property_id=pid, reason=NA.get(pid, PENDING_REASON)))
    man = dict(
        version=1,
        setup_cmd="PYTHONPATH=harness /venv/bin/python -m spv.gen_tables && cd lean && lake build SpVerif driver",
        hooks=dict(
            guard="HOLOVIZ_SPATIALPANDAS_VERIF",
            enable="no hooks are compiled in: checks drive /repo through its public API (editable install, /venv/bin/python); the guard variable is reserved and set by ./check",
            baseline_off_cmd="cd /repo && env -u HOLOVIZ_SPATIALPANDAS_VERIF /venv/bin/python -m pytest -ra -q -p no:cacheprovider --timeout=900 --continue-on-collection-errors",
            source_commits=[],
            add_only=True,
        ),
        engines=[dict(
            name="lean4+correspondence", path="lean/ harness/ check",
            serves_properties=sorted(CLAIMED),
            kind_free_text=("Lean 4 model + theorems (lake project lean/SpVerif, Mathlib-free model compiled into a line-protocol driver) "
                            "and a Python harness that runs the model's executable definitions and the real implementation on the same inputs"))],
        checks=checks,
        notes="See DESIGN.md. known_findings.json lists genuine defects recorded rather than repaired, and the ones repaired by fix: commits.",
        not_applicable=na,
    )
    with open(os.path.join(HERE, "MANIFEST.json"), "w") as fh:
        json.dump(man, fh, indent=1)
    print(f"claimed {len(checks)}, not claimed {len(na)}")


NA = {}

if __name__ == "__main__":
    main()
