#!/usr/bin/env python3
"""Regenerates /verif/MANIFEST.json from the table below (kept here so the manifest stays
valid and complete: every property of properties.jsonl is either claimed or listed under
not_applicable with a reason)."""
import json
import os

HERE = os.path.dirname(os.path.dirname(os.path.abspath(__file__)))

CLAIMED = {
    "C07": dict(
        text=("Lean theorems about the word-level model of hilbert_curve.py (n = 2: round trips, range, bijection; see "
              "Props/C07.lean for exactly what is proved and what is still _partial), tied to the code by an exhaustive "
              "(n*p <= 14 quick / 20 thorough) plus sampled (all p up to 62/n) correspondence of both entry points, and the "
              "property's relations (round trip, adjacency, refinement, end points) checked directly on the implementation."),
        note=("Trusted: Lean kernel; axioms ⊆ {propext, Classical.choice, Quot.sound} audited per run; the hand-written model "
              "(tied by correspondence only); int64 overflow not modelled (Nat); n ∈ {1,3} covered by the general executable "
              "model and correspondence, theorems are for n = 2."),
        technique="Lean 4 proof (induction over the loops; involution steps) + model/implementation correspondence",
        design="§3 C07"),
}

PENDING_REASON = "check not built yet in this round (planned, see DESIGN.md §8); not claimed"


def main():
    props = [json.loads(l) for l in open(os.path.join(HERE, "properties.jsonl"))]
    checks, na = [], []
    for p in props:
        pid = p["id"]
        if pid in CLAIMED:
            c = CLAIMED[pid]
            checks.append(dict(
                property_id=pid,
                quick_cmd=f"./check {pid} --tier quick",
                thorough_cmd=f"./check {pid} --tier thorough",
                evidence_file=f"/verif/evidence/{pid}.json",
                replay_cmd_template=f"./check {pid} --replay {{path}}",
                engine="lean4+correspondence",
                level_claimed=dict(category=c.get("category", "proof"), text=c["text"], design_ref=c["design"]),
                level_note=c["note"],
                technique=c["technique"],
            ))
        else:
            na.append(dict(property_id=pid, reason=NA.get(pid, PENDING_REASON)))
    man = dict(
        version=1,
        setup_cmd="cd lean && lake build SpVerif driver",
        hooks=dict(
            guard="HOLOVIZ_SPATIALPANDAS_VERIF",
            enable="no hooks are compiled in: checks drive /repo through its public API (editable install, /venv/bin/python); the guard variable is reserved and set by ./check",
            baseline_off_cmd="cd /repo && env -u HOLOVIZ_SPATIALPANDAS_VERIF /venv/bin/python -m pytest -ra -q -p no:cacheprovider --timeout=900 --continue-on-collection-errors",
            source_commits=[],
            add_only=True,
        ),
        engines=[dict(
            name="lean4+correspondence", path="lean/ harness/ check",
            serves_properties=sorted(CLAIMED),
            kind_free_text=("Lean 4 model + theorems (lake project lean/SpVerif, Mathlib-free model compiled into a line-protocol driver) "
                            "and a Python harness that runs the model's executable definitions and the real implementation on the same inputs"))],
        checks=checks,
        notes="See DESIGN.md. known_findings.json lists genuine defects recorded rather than repaired, and the ones repaired by fix: commits.",
        not_applicable=na,
    )
    with open(os.path.join(HERE, "MANIFEST.json"), "w") as fh:
        json.dump(man, fh, indent=1)
    print(f"claimed {len(checks)}, not claimed {len(na)}")


NA = {}

if __name__ == "__main__":
    main()
