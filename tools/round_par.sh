#!/bin/bash
# round_par.sh <wtdir> [jobs]: run every <wtdir>/Cxx.patch against its own check in scratch worktrees of /repo HEAD
wt=$1; jobs=${2:-5}
cd /verif
for j in $(seq 1 $jobs); do
  git -C /repo worktree add --detach ${SW:-/tmp/sw}$j HEAD -q 2>/dev/null
  (
    for c in $(seq -f "C%02g" 1 20 | awk -v j=$j -v n=$jobs 'NR % n == j % n'); do
      git -C ${SW:-/tmp/sw}$j checkout -q -- . ; git -C ${SW:-/tmp/sw}$j apply $wt/$c.patch || { echo "== $c: patch does not apply"; continue; }
      out=$(NUMBA_NUM_THREADS=3 PYTHONPATH=${SW:-/tmp/sw}$j timeout 3000 tools/cases_only.py $c quick 2>&1 | grep -v conda | grep "^$c \|^VIOL\|^TIE\|^KNOWN" | cut -c1-260)
      git -C ${SW:-/tmp/sw}$j checkout -q -- .
      echo "== $c: $(echo "$out" | head -1 | sed 's/drift=.*//') :: $(echo "$out" | grep "^VIOL\|^TIE" | head -1 | cut -c1-150)"
    done
  ) &
done
wait
for j in $(seq 1 $jobs); do git -C /repo worktree remove --force ${SW:-/tmp/sw}$j; done; git -C /repo worktree prune
