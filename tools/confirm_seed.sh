#!/bin/bash
# confirm a seeded change in its scratch worktree: demo fails with it / passes without it, and the
# existing test suite result is unchanged (495 passed, the same 17 failures).  usage: [WT=/tmp/wt2] confirm_seed.sh Cxx
id=$1; base=${WT:-/tmp/wt}; wt=$base/$id; out=$base/$id.confirm
cd $wt || exit 2
{
git diff -- spatialpandas > $base/$id.patch
echo "== patch lines: $(wc -l < $base/$id.patch)"
echo "== demo WITH change"; timeout 600 /venv/bin/python demo_$id.py 2>&1 | grep -v conda | tail -3; echo "exit=${PIPESTATUS[0]}"
git apply -R $base/$id.patch
echo "== demo WITHOUT change"; timeout 600 /venv/bin/python demo_$id.py 2>&1 | grep -v conda | tail -3; echo "exit=${PIPESTATUS[0]}"
git apply $base/$id.patch
echo "== test suite WITH change"
timeout 1500 /venv/bin/python -m pytest -q -p no:cacheprovider --timeout=900 --continue-on-collection-errors --deselect demo_$id.py 2>&1 | grep -v conda | tail -1
} > $out 2>&1
cat $out
