#!/venv/bin/python
"""Developer aid (not a registered check): run only the correspondence / search half of a check (`run_cases`), without the
Lean build and audit, and print violation signatures and broken ties.  Usage: cases_only.py Cxx [quick|thorough]"""
import importlib
import json
import os
import sys
import time

sys.path.insert(0, os.path.join(os.path.dirname(os.path.abspath(__file__)), "..", "harness"))
os.environ.setdefault("HOLOVIZ_SPATIALPANDAS_VERIF", "1")
from spv import common  # noqa: E402

prop = sys.argv[1]
tier = sys.argv[2] if len(sys.argv) > 2 else "quick"
mod = importlib.import_module("spv." + prop.lower())
chk = common.Check(prop, tier)
t0 = time.time()
if common.import_impl(chk):
    mod.run_cases(chk, tier)
known = {(k["property"], k["signature"]) for k in common.load_known() if k.get("status") == "known"}
sigs = {}
for v in chk.violations:
    sigs.setdefault(v[0], []).append(v[-1])
print(f"{prop} {tier} seed={common.seed()} evaluations={chk.evaluations} nontrivial={len(chk.nontrivial)} wall={time.time() - t0:.0f}s "
      f"violations={len(chk.violations)} signatures={len(sigs)} ties={len(chk.broken_tie)} drift={ {k: v['count'] for k, v in chk.drift.items()} }")
for s, reps in sigs.items():
    print(("KNOWN " if (prop, s) in known else "VIOL ") + s, len(reps), json.dumps(reps[0], default=str)[:700])
for t in chk.broken_tie[:5]:
    print("TIE", t[:1200])
