#!/usr/bin/env python3
"""seed_prompts.py <round-dir> <prompt-dir> : write one prompt per property for a fresh sub-agent that is to produce a seeded
change (it is told the property text, its own scratch worktree <round-dir>/Cxx and, in one line each, where the earlier kept
seeds of that property were made - nothing from /verif)."""
import json, os, sys
wt, out = sys.argv[1], sys.argv[2]
os.makedirs(out, exist_ok=True)
props = {json.loads(l)['id']: json.loads(l) for l in open('/verif/properties.jsonl')}
def used(c):
    res = []
    for sid in sorted(d for d in os.listdir('/verif/seeded') if d == c or (d.startswith(c) and len(d) == 4)):
        p = open(f'/verif/seeded/{sid}/patch.diff').read()
        files = sorted({l[6:] for l in p.splitlines() if l.startswith('+++ b/')})
        m = json.load(open(f'/verif/seeded/{sid}/meta.json'))
        res.append(', '.join(files) + ' — ' + m.get('needs_to_manifest', '')[:160])
    return res
for c, pr in props.items():
    u = used(c)
    earlier = "\n".join(f"  ({i + 1}) {x}" for i, x in enumerate(u))
    t = f"""You are helping to evaluate a verification effort by producing a *seeded defect* (a mutant) for an open-source Python library, holoviz/spatialpandas (Pandas/Dask extension arrays for vector geometry, numba kernels, Hilbert R-tree, parquet I/O).

Your private scratch git worktree of the repository is at: {wt}/{c}
Work ONLY inside that directory (never touch /repo or /verif, and do not read /verif). Python to use: /venv/bin/python (has pandas, dask, pyarrow, numba; NO shapely/geopandas). When you run python with the current directory = your worktree, `import spatialpandas` imports YOUR worktree copy (check `spatialpandas.__file__`). There is no network. Other jobs share this machine: prefix every python/pytest command with `NUMBA_NUM_THREADS=2` and never use pkill/killall (kill only PIDs you started).

The semantic property your change must break:

  id: {c}
  title: {pr['title']}
  statement: {pr['statement']}
  quantified over: {pr['quantifier']['text']}

TASK. Make ONE small, realistic source change under {wt}/{c}/spatialpandas/ (not in tests) — the kind of bug a maintainer could plausibly introduce in a refactor or "optimisation" — such that:
  1. the package still imports and the existing test suite result is unchanged. Run it from your worktree with:
       cd {wt}/{c} && /venv/bin/python -m pytest -q -p no:cacheprovider --timeout=900 --continue-on-collection-errors --color=no 2>&1 | tail -5
     17 tests fail ALREADY on the unmodified tree (fillna/len/size/readonly/rank_missing ExtensionArray tests) and 495 pass; your change must keep exactly that: 495 passed, same 17 failed. The suite takes ~1-3 minutes; the geometry/dask/parquet test modules are skipped or error at collection because shapely/geopandas/hypothesis-strategies are missing, that is expected.
  2. the property above is violated by the changed code, but NOT in a way ordinary use would expose at once: it should need something specific to manifest — an unusual input (tie, degenerate box, NaN/missing row, ragged last page, sliced array with non-zero buffer offset, >10 partitions, particular p, …), a multi-step sequence of operations, a particular interleaving or fault at a particular point, or two cooperating sites that each look fine alone. Typical simple inputs must still give right answers.
  3. you provide a demonstration: a small standalone script {wt}/{c}/demo_{c}.py that exits 0 (prints PASS) on the unmodified code and exits 1 (prints FAIL and what went wrong) on your changed code. It must use only the public API of spatialpandas plus numpy/pandas/dask/pyarrow, be deterministic, and run in under ~60 s. Put its body under `if __name__ == "__main__":` (the repo's pytest configuration imports every .py file). Verify BOTH outcomes yourself (use `git diff -- spatialpandas > patch.diff; git apply -R patch.diff; …; git apply patch.diff` — do NOT use `git stash`: the stash is shared with other worktrees of this repository).

NOTE: {len(u)} other engineers have already seeded defects for this property:
{earlier}
Choose a DIFFERENT mechanism and a different function from all of them, ideally a clause of the property statement or a corner of the quantified domain that none of them touches (read the statement again clause by clause and pick the least obvious one).

STYLE OF DEFECT for this round: prefer one of (a) state carried across calls (a cached attribute, memoised spatial index or bounds, an object reused after an operation, a second call on the same object or path), (b) default versus explicit arguments (the behaviour must be the same when a default is spelled out, a keyword is passed positionally, a label is a non-string, a path is a different-but-equivalent spelling), (c) ordering / stability assumptions (already sorted input, duplicates, exact ties, reversed input, a single distinct value), (d) a numeric representation corner (float32 storage, negative zero, +-inf, subnormal widths, values at 2**24 / 2**53, empty or length-1 buffers) - whichever fits the property and has not been used by the earlier seeds.

SIDE OBSERVATIONS: while exploring, if you notice that the UNMODIFIED code already violates the property statement on some input or operation sequence (i.e. a pre-existing bug, not your mutant), record it in NOTES.md under a heading "Side observations on the unmodified tree" with a minimal reproducer (a few lines of Python and the observed vs expected output). Do not fix it and do not build your mutant on it.

DELIVERABLES (all inside {wt}/{c}):
  - patch.diff  : `git diff -- spatialpandas` of your change (source only, not the demo)
  - demo_{c}.py : the demonstration
  - NOTES.md    : 5-15 lines: what the change is, why it breaks the property, what exactly is needed for it to manifest, the commands you ran and their results (test suite counts before/after, demo before/after).
Leave the worktree with your change APPLIED. Do not commit. Keep the diff minimal (ideally < 15 changed lines). Do not add new dependencies. Do not change tests. Do not make the change guarded by environment variables or otherwise artificial-looking.

Report back (final message): the one-paragraph description of the mutant, and whether all three requirements were verified."""
    open(f'{out}/{c}.txt', 'w').write(t)
print("ok")
