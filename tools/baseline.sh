#!/bin/bash
# run the repository's pinned suite with the guard OFF and print the summary line (expect 495 passed, 17 failed)
cd /repo && env -u HOLOVIZ_SPATIALPANDAS_VERIF /venv/bin/python -m pytest -q -p no:cacheprovider --timeout=900 --continue-on-collection-errors 2>&1 | grep -v conda | tail -1 | sed 's/\x1b\[[0-9;]*m//g'
