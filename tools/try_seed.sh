#!/bin/bash
# try_seed.sh <wtdir> <Cxx> [tier]: run the cases of Cxx against the sub-agent's worktree <wtdir>/Cxx (change applied there)
cd /verif; NUMBA_NUM_THREADS=${SEED_THREADS:-4} PYTHONPATH=$1/$2 tools/cases_only.py $2 ${3:-quick} 2>&1 | grep -v conda | grep "^$2 \|^VIOL\|^TIE" | cut -c1-${CUT:-220} | head -${HEAD:-5}
