#!/bin/bash
# run_all_seeded_par.sh [tier] [jobs] : like run_all_seeded.sh, but in <jobs> scratch worktrees of /repo's HEAD (outside /repo and
# /verif, removed afterwards) so that /repo itself is never touched; each job is limited to SEED_THREADS (3) numba threads - more
# jobs than cores / threads makes the numba-parallel kernels crawl; the cases import spatialpandas from the worktree (PYTHONPATH)
tier=${1:-quick}; jobs=${2:-4}
cd /verif
ls -d seeded/*/ | xargs -n1 basename > /tmp/seedlist.$$
for j in $(seq 1 $jobs); do
  git -C /repo worktree add --detach /tmp/sw$j HEAD -q 2>/dev/null
  awk -v j=$j -v n=$jobs 'NR % n == j % n' /tmp/seedlist.$$ > /tmp/seedlist.$$.$j
  (
    while read sid; do
      d=seeded/$sid
      prop=$(python3 -c "import json;print(json.load(open('$d/meta.json'))['property'])")
      if python3 -c "import json,sys;sys.exit(0 if json.load(open('$d/meta.json')).get('obsolete') else 1)"; then echo "$sid obsolete (see meta.json)"; continue; fi
      git -C /tmp/sw$j checkout -q -- . ; git -C /tmp/sw$j apply /verif/$d/patch.diff || { echo "$sid: patch does not apply"; continue; }
      out=$(NUMBA_NUM_THREADS=${SEED_THREADS:-3} PYTHONPATH=/tmp/sw$j timeout 3000 tools/cases_only.py $prop $tier 2>&1 | grep -v conda | grep "^$prop \|^VIOL\|^TIE\|^KNOWN")
      git -C /tmp/sw$j checkout -q -- .
      nv=$(echo "$out" | grep -c "^VIOL\|^TIE")
      echo "$sid check=$prop new-violation-signatures=$nv $(echo "$out" | grep "^VIOL\|^TIE" | head -1 | cut -c1-110)"
    done < /tmp/seedlist.$$.$j
  ) &
done
wait
for j in $(seq 1 $jobs); do git -C /repo worktree remove --force /tmp/sw$j; rm -f /tmp/seedlist.$$.$j; done
git -C /repo worktree prune; rm -f /tmp/seedlist.$$
