#!/bin/bash
# run every claimed check (quick tier, VERIF_SEED from the environment or 0) one after the other; summary on stdout
cd /verif
for c in $(python3 -c "import json; print(' '.join(x['property_id'] for x in json.load(open('MANIFEST.json'))['checks']))" 2>/dev/null); do
  s=$(date +%s); out=$(./check $c --tier ${1:-quick} 2>&1 | grep -v conda); rc=$?
  echo "$c rc=$rc $(( $(date +%s) - s ))s violations=$(echo "$out" | grep -c '^VIOLATION') known=$(echo "$out" | grep -c '^KNOWN-FINDING')"
done
