#!/bin/bash
# run every claimed check (tier $1 = quick|thorough, VERIF_SEED from the environment or 0) one after the other; one summary line each:
# exit code of the check, seconds, VIOLATION / KNOWN-FINDING lines.  Do not edit anything under lean/ while this runs.
cd /verif
for c in $(python3 -c "import json; print(' '.join(x['property_id'] for x in json.load(open('MANIFEST.json'))['checks']))" 2>/dev/null); do
  s=$(date +%s)
  ./check $c --tier ${1:-quick} > /tmp/run_all_$c.out 2>&1; rc=$?
  echo "$c rc=$rc $(( $(date +%s) - s ))s violations=$(grep -c '^VIOLATION' /tmp/run_all_$c.out) known=$(grep -c '^KNOWN-FINDING' /tmp/run_all_$c.out) $(grep -m1 '^VIOLATION' /tmp/run_all_$c.out)"
  rm -f /tmp/run_all_$c.out
done
