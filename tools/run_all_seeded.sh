#!/bin/bash
# run_all_seeded.sh [tier] [glob of seed ids, default all] : apply every kept seeded change (/verif/seeded/*/patch.diff) to /repo in turn, run the correspondence half
# of the property's own check (tools/cases_only.py), undo it; one line per seed: number of violations that are not known findings
tier=${1:-quick}; pat=${2:-*}
cd /verif
for d in seeded/$pat/; do
  sid=$(basename $d)
  prop=$(python3 -c "import json;print(json.load(open('$d/meta.json'))['property'])")
  if python3 -c "import json,sys;sys.exit(0 if json.load(open('$d/meta.json')).get('obsolete') else 1)"; then echo "$sid obsolete (see meta.json)"; continue; fi
  git -C /repo diff --quiet || { echo "/repo not clean"; exit 2; }
  git -C /repo apply /verif/$d/patch.diff || { echo "$sid: patch does not apply"; continue; }
  out=$(timeout 3000 tools/cases_only.py $prop $tier 2>&1 | grep -v conda | grep "^$prop \|^VIOL\|^TIE\|^KNOWN")
  git -C /repo checkout -- .
  nv=$(echo "$out" | grep -c "^VIOL\|^TIE")
  echo "$sid check=$prop new-violation-signatures=$nv $(echo "$out" | grep "^VIOL\|^TIE" | head -1 | cut -c1-110)"
done
