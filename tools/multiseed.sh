#!/bin/bash
# multiseed.sh "<seeds>" <Cxx>... : run the quick checks for several VERIF_SEED values (in parallel), list alarms
seeds=$1; shift
cd /verif
for s in $seeds; do for c in "$@"; do echo "$s $c"; done; done | xargs -P 6 -L 1 bash -c 'out=$(VERIF_SEED=$0 ./check $1 2>&1 | grep -v conda); rc=$?; n=$(echo "$out" | grep -c "^VIOLATION"); k=$(echo "$out" | grep -c "^KNOWN-FINDING"); echo "seed=$0 $1 violations=$n known=$k $(echo "$out" | grep -m1 "^VIOLATION")"'
