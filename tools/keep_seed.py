#!/usr/bin/env python3
"""keep_seed.py <seed-id> <property> "<needs>" : copy a confirmed seeded change from its scratch worktree
(/tmp/wt/<seed-id>) into /verif/seeded/<seed-id>/ with meta.json"""
import json, os, shutil, sys
sid, prop, needs = sys.argv[1], sys.argv[2], sys.argv[3]
base = os.environ.get("WT", "/tmp/wt")
suffix = os.environ.get("SEED_SUFFIX", "")          # e.g. "b" for a second seeded change of the same property
wt = f"{base}/{sid}"
conf = open(f"{base}/{sid}.confirm").read()
ok = ("exit=1" in conf.split("== demo WITHOUT")[0]) and ("exit=0" in conf.split("== demo WITHOUT")[1]) and "495 passed" in conf and "17 failed" in conf
if not ok:
    print("NOT CONFIRMED:\n" + conf); sys.exit(1)
dst = f"/verif/seeded/{sid}{suffix}"
os.makedirs(dst, exist_ok=True)
shutil.copy(f"{base}/{sid}.patch", f"{dst}/patch.diff")
demo = [f for f in os.listdir(wt) if f.startswith("demo_") and f.endswith(".py")][0]
shutil.copy(f"{wt}/{demo}", f"{dst}/{demo}")
if os.path.exists(f"{wt}/NOTES.md"):
    shutil.copy(f"{wt}/NOTES.md", f"{dst}/NOTES.md")
meta = dict(id=sid + suffix, property=prop, needs_to_manifest=needs,
            confirmed=dict(how="tools/confirm_seed.sh in the scratch worktree: demo exits 1 with the change and 0 without; "
                               "existing suite 495 passed / same 17 failures with the change",
                           transcript=conf.replace("\x1b", "")))
json.dump(meta, open(f"{dst}/meta.json", "w"), indent=1)
print("kept", dst)
