#!/bin/bash
# run_seeded.sh <seed-id> <Cxx> [<Cyy> ...] : apply the seeded change to /repo, run the given checks (quick), undo it
sid=$1; shift
cd /verif
git -C /repo diff --quiet || { echo "/repo not clean"; exit 2; }
git -C /repo apply /verif/seeded/$sid/patch.diff || exit 2
for c in "$@"; do
  out=$(./check $c --tier quick 2>&1 | grep -v conda); rc=$?
  echo "seed=$sid check=$c -> $(echo "$out" | grep -c '^VIOLATION') violation line(s); $(echo "$out" | grep '^VIOLATION' | head -2 | tr '\n' ' ')"
done
git -C /repo checkout -- .
