/-! Spike: the "undo excess work" loops of hilbert_curve.py (n = 2) and their inverse. Core Lean only. -/
namespace SPH

abbrev W2 := Nat × Nat

/-- `i = 1` operation at bit q (Q = 2^q, P = Q-1), as coded in both routines -/
def stepA (q : Nat) (x : W2) : W2 :=
  if x.2 &&& 2 ^ q != 0 then (x.1 ^^^ (2 ^ q - 1), x.2)
  else
    let t := (x.1 ^^^ x.2) &&& (2 ^ q - 1)
    (x.1 ^^^ t, x.2 ^^^ t)

/-- `i = 0` operation at bit q: the exchange branch computes t = (X0^X0)&P = 0 -/
def stepB (q : Nat) (x : W2) : W2 :=
  if x.1 &&& 2 ^ q != 0 then (x.1 ^^^ (2 ^ q - 1), x.2)
  else
    let t := (x.1 ^^^ x.1) &&& (2 ^ q - 1)
    ((x.1 ^^^ t) ^^^ t, x.2)

/-- decode loop: Q = 2,4,…,2^(p-1); inner i = 1 then i = 0 -/
def undoLoop : Nat → W2 → W2
  | 0, x => x
  | 1, x => x
  | (p+2), x => let y := undoLoop (p+1) x; stepB (p+1) (stepA (p+1) y)

/-- encode loop: Q = 2^(p-1),…,2; inner i = 0 then i = 1 -/
def redoLoop : Nat → W2 → W2
  | 0, x => x
  | 1, x => x
  | (p+2), x => redoLoop (p+1) (stepA (p+1) (stepB (p+1) x))

theorem and_two_pow_ne_zero_iff (a q : Nat) : (a &&& 2 ^ q != 0) = a.testBit q := by
  have h : a &&& 2 ^ q = if a.testBit q then 2 ^ q else 0 := by
    apply Nat.eq_of_testBit_eq
    intro i
    by_cases hq : a.testBit q
    · simp only [hq, if_true, Nat.testBit_and, Nat.testBit_two_pow]
      by_cases hi : q = i
      · subst hi; simp [hq]
      · simp [hi]
    · simp only [hq, Nat.testBit_and, Nat.testBit_two_pow]
      by_cases hi : q = i
      · subst hi; simp [hq]
      · simp [hi]
  rw [h]
  by_cases hq : a.testBit q
  · have : 2 ^ q ≠ 0 := Nat.pos_iff_ne_zero.mp (Nat.two_pow_pos q)
    simp [hq, this]
  · simp [hq]

theorem testBit_xor_mask (a q : Nat) : (a ^^^ (2 ^ q - 1)).testBit q = a.testBit q := by
  simp [Nat.testBit_xor, Nat.testBit_two_pow_sub_one]

theorem testBit_xor_masked (a b q : Nat) : (a ^^^ (b &&& (2 ^ q - 1))).testBit q = a.testBit q := by
  simp [Nat.testBit_xor, Nat.testBit_and, Nat.testBit_two_pow_sub_one]

theorem xor_xor_cancel (a b : Nat) : a ^^^ b ^^^ b = a := by
  rw [Nat.xor_assoc, Nat.xor_self, Nat.xor_zero]

theorem stepA_invol (q : Nat) (x : W2) : stepA q (stepA q x) = x := by
  obtain ⟨a, b⟩ := x
  unfold stepA
  simp only [and_two_pow_ne_zero_iff]
  by_cases hb : b.testBit q
  · simp [hb, xor_xor_cancel]
  · have h2 : (b ^^^ ((a ^^^ b) &&& (2 ^ q - 1))).testBit q = false := by
      rw [testBit_xor_masked]; simpa using hb
    simp only [hb, Bool.false_eq_true, if_false, h2]
    have ht : ((a ^^^ ((a ^^^ b) &&& (2 ^ q - 1))) ^^^ (b ^^^ ((a ^^^ b) &&& (2 ^ q - 1))))
        = a ^^^ b := by
      apply Nat.eq_of_testBit_eq; intro i
      simp only [Nat.testBit_xor, Nat.testBit_and]
      cases a.testBit i <;> cases b.testBit i <;> cases (2 ^ q - 1).testBit i <;> rfl
    rw [ht, xor_xor_cancel, xor_xor_cancel]

theorem stepB_invol (q : Nat) (x : W2) : stepB q (stepB q x) = x := by
  obtain ⟨a, b⟩ := x
  unfold stepB
  simp only [and_two_pow_ne_zero_iff]
  by_cases ha : a.testBit q
  · simp [ha, testBit_xor_mask, xor_xor_cancel]
  · simp [ha, Nat.xor_self]

theorem redo_undo (p : Nat) (x : W2) : redoLoop p (undoLoop p x) = x := by
  induction p using Nat.strongRecOn generalizing x with
  | _ p ih =>
    match p with
    | 0 => rfl
    | 1 => rfl
    | (p+2) =>
      simp only [undoLoop, redoLoop, stepB_invol, stepA_invol]
      exact ih (p+1) (by omega) x

theorem undo_redo (p : Nat) (x : W2) : undoLoop p (redoLoop p x) = x := by
  induction p using Nat.strongRecOn generalizing x with
  | _ p ih =>
    match p with
    | 0 => rfl
    | 1 => rfl
    | (p+2) =>
      simp only [undoLoop, redoLoop]
      rw [ih (p+1) (by omega), stepA_invol, stepB_invol]

end SPH
#print axioms SPH.redo_undo
#print axioms SPH.undo_redo
