/-! Spike: Gray decode / encode of hilbert_curve.py for n = 2. Core Lean only. -/
namespace SPG

abbrev W2 := Nat × Nat

/-- `t = X[1] >> 1; X[1] ^= X[0]; X[0] ^= t` -/
def grayDecode (x : W2) : W2 := let t := x.2 >>> 1; (x.1 ^^^ t, x.2 ^^^ x.1)

/-- `Q = 2^q; while Q > 1: if y & Q: t ^= Q-1; Q >>= 1` -/
def tLoop : Nat → Nat → Nat → Nat
  | 0, t, _ => t
  | (q+1), t, y => tLoop q (if y &&& 2 ^ (q+1) != 0 then t ^^^ (2 ^ (q+1) - 1) else t) y

/-- `X[1] ^= X[0]; t = …; X[0] ^= t; X[1] ^= t` with M = 2^(p-1) -/
def grayEncode (p : Nat) (x : W2) : W2 :=
  let y := x.2 ^^^ x.1
  let t := tLoop (p - 1) 0 y
  (x.1 ^^^ t, y ^^^ t)

/-- xor of y's bits k with j < k ≤ q -/
def xorBits (y j : Nat) : Nat → Bool
  | 0 => false
  | (q+1) => (decide (j < q+1) && y.testBit (q+1)) ^^ xorBits y j q

theorem and_two_pow_ne_zero_iff (a q : Nat) : (a &&& 2 ^ q != 0) = a.testBit q := by
  have h : a &&& 2 ^ q = if a.testBit q then 2 ^ q else 0 := by
    apply Nat.eq_of_testBit_eq
    intro i
    by_cases hq : a.testBit q
    · simp only [hq, if_true, Nat.testBit_and, Nat.testBit_two_pow]
      by_cases hi : q = i
      · subst hi; simp [hq]
      · simp [hi]
    · simp only [hq, Nat.testBit_and, Nat.testBit_two_pow]
      by_cases hi : q = i
      · subst hi; simp [hq]
      · simp [hi]
  rw [h]
  by_cases hq : a.testBit q
  · simp [hq]
  · simp [hq]

theorem tLoop_testBit (q t y j : Nat) :
    (tLoop q t y).testBit j = (t.testBit j ^^ xorBits y j q) := by
  induction q generalizing t with
  | zero => simp [tLoop, xorBits]
  | succ q ih =>
    simp only [tLoop, xorBits, and_two_pow_ne_zero_iff]
    rw [ih]
    by_cases hy : y.testBit (q+1)
    · simp only [hy, if_true, Nat.testBit_xor, Nat.testBit_two_pow_sub_one, Bool.and_true]
      cases t.testBit j <;> cases decide (j < q + 1) <;> cases xorBits y j q <;> rfl
    · simp [hy]

/-- telescoping: xor over k in (j, q] of (x_k xor x_{k+1}) -/
theorem xorBits_gray (x j q : Nat) :
    xorBits (x ^^^ (x >>> 1)) j q = (decide (j < q) && (x.testBit (j+1) ^^ x.testBit (q+1))) := by
  induction q with
  | zero => simp [xorBits]
  | succ q ih =>
    simp only [xorBits, ih, Nat.testBit_xor, Nat.testBit_shiftRight]
    by_cases h1 : j < q
    · have h2 : j < q + 1 := by omega
      simp only [h1, h2, decide_true, Bool.true_and]
      rw [show 1 + (q + 1) = q + 1 + 1 by omega]
      cases x.testBit (j+1) <;> cases x.testBit (q+1) <;> cases x.testBit (q+1+1) <;> rfl
    · by_cases h3 : j = q
      · subst h3
        simp only [Nat.lt_irrefl, decide_false, Bool.false_and, Bool.xor_false, Nat.lt_succ_self,
          decide_true, Bool.true_and]
        rw [show 1 + (j + 1) = j + 1 + 1 by omega]
      · have h2 : ¬ j < q + 1 := by omega
        simp [h1, h2]

theorem encode_decode (p : Nat) (x : W2) (h : x.2 < 2 ^ p) : grayEncode p (grayDecode x) = x := by
  obtain ⟨a, b⟩ := x
  simp only at h
  unfold grayEncode grayDecode
  simp only
  have hy : (b ^^^ a) ^^^ (a ^^^ b >>> 1) = b ^^^ (b >>> 1) := by
    apply Nat.eq_of_testBit_eq; intro i
    simp only [Nat.testBit_xor]
    cases b.testBit i <;> cases a.testBit i <;> cases (b >>> 1).testBit i <;> rfl
  rw [hy]
  have ht : tLoop (p - 1) 0 (b ^^^ (b >>> 1)) = b >>> 1 := by
    apply Nat.eq_of_testBit_eq; intro j
    rw [tLoop_testBit, xorBits_gray, Nat.zero_testBit, Bool.false_xor, Nat.testBit_shiftRight]
    have hb : ∀ k, p ≤ k → b.testBit k = false := by
      intro k hk
      apply Nat.testBit_lt_two_pow
      calc b < 2 ^ p := h
        _ ≤ 2 ^ k := Nat.pow_le_pow_right (by omega) hk
    by_cases hj : j < p - 1
    · have h1 : b.testBit (p - 1 + 1) = false := hb _ (by omega)
      have h2 : 1 + j = j + 1 := by omega
      simp [hj, h1, h2]
    · have h1 : b.testBit (1 + j) = false := hb _ (by omega)
      simp [hj, h1]
  rw [ht]
  congr 1
  · rw [Nat.xor_assoc, Nat.xor_self, Nat.xor_zero]
  · rw [Nat.xor_assoc, Nat.xor_self, Nat.xor_zero]

end SPG
#print axioms SPG.encode_decode
