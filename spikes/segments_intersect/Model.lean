/-! Model of `segments_intersect` (intersection.py:63-119), core Lean only. -/
namespace SP

def triOrient (ax ay bx by_ cx cy : Int) : Int :=
  let v := (bx - ax) * (cy - ay) - (by_ - ay) * (cx - ax)
  if v > 0 then 1 else if v < 0 then -1 else 0

def seg1d (a0 a1 b0 b1 : Int) : Bool :=
  decide (max (min a0 a1) (min b0 b1) ≤ min (max a0 a1) (max b0 b1))

def segmentsIntersect (ax0 ay0 ax1 ay1 bx0 by0 bx1 by1 : Int) : Bool :=
  if !seg1d ax0 ax1 bx0 bx1 then false
  else if !seg1d ay0 ay1 by0 by1 then false
  else
    let aZero := ax0 == ax1 && ay0 == ay1
    let bZero := bx0 == bx1 && by0 == by1
    if aZero && !bZero && ((ax0 == bx0 && ay0 == by0) || (ax0 == bx1 && ay0 == by1)) then true
    else if bZero && !aZero && ((bx0 == ax0 && by0 == ay0) || (bx0 == ax1 && by0 == ay1)) then true
    else if aZero || bZero then false
    else
      let b0o := triOrient ax0 ay0 ax1 ay1 bx0 by0
      let b1o := triOrient ax0 ay0 ax1 ay1 bx1 by1
      if b0o == 0 && b1o == 0 then true
      else if b0o == b1o then false
      else
        let a0o := triOrient bx0 by0 bx1 by1 ax0 ay0
        let a1o := triOrient bx0 by0 bx1 by1 ax1 ay1
        if a0o == 0 && a1o == 0 then true
        else if a0o == a1o then false
        else true

end SP
