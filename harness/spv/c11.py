"""C11 — parquet round trips are lossless for every geometry type.

to_parquet/read_parquet and DaskGeoDataFrame.to_parquet/read_parquet_dask for all kinds x subtypes x arrays with missing /
empty elements, sliced and concatenated arrays, several geometry columns, index kinds, compression, 1..12 partitions,
column projections, lists / globs of datasets; the dtype-name parser and the column projection against the Lean model
`Parquet.parseDtype` / `project`.  Equal-valued frames of different subtype are kept alive in the same process."""
import glob as _glob
import json
import os
import shutil
import tempfile

import numpy as np
import pandas as pd

from . import common, geo
from .common import Check, drive, tok, untok

PROP = "C11"
KEEP_ALIVE = []   # Dask collections deliberately kept alive (expression / token caches must not confuse frames)


def canon_el(e):
    if e is None:
        return None
    if isinstance(e, list):
        return [canon_el(x) for x in e]
    e = float(e)
    return "nan" if e != e else e


def frame_signature(df):
    """everything the property promises to preserve"""
    from spatialpandas import GeoDataFrame
    sig = {"type": type(df).__name__, "columns": [str(c) for c in df.columns], "index_name": str(df.index.name),
           "index": [str(x) for x in df.index],
           "dtypes": {str(c): str(df[c].dtype) for c in df.columns if hasattr(df[c].dtype, "subtype")}}
    for c in df.columns:
        if hasattr(df[c].dtype, "subtype"):
            sig["col:" + str(c)] = canon_el(geo.to_elements(df[c].array))
        else:
            sig["col:" + str(c)] = [None if (isinstance(v, float) and v != v) else (float(v) if isinstance(v, (int, float, np.integer, np.floating)) else str(v))
                                    for v in df[c]]
    return sig


def make_frame(r, n, kinds, subtypes, index_kind, derive):
    from spatialpandas import GeoDataFrame
    data = {"a": list(range(n)), "s": [f"t{i}" for i in range(n)]}
    for j, (kind, st) in enumerate(zip(kinds, subtypes)):
        els = geo.structured_elements(kind, r, n, mag=20)
        els = [e for e in els]
        if not st.startswith("float"):
            els = [e if e is None or (all(isinstance(c, int) for v in geo.verts_of(kind, e) for c in v) and not (kind == "point" and e[0] != e[0])) else None for e in els]
        # nested-empty elements cannot be represented as scalars (GeoSeries construction iterates): keep top-level empties only
        from .c14 import nested_empty
        els = [None if (e is not None and nested_empty(kind, e)) else e for e in els]
        arr = geo.make_array(kind, els, st)
        if derive == "sliced":
            arr = geo.make_array(kind, [els[0]] + els, st)[1:]
        elif derive == "concat":
            h = n // 2
            cls = type(arr)
            arr = cls._concat_same_type([geo.make_array(kind, els[:h], st), geo.make_array(kind, els[h:], st)])
        data[f"g{j}_{kind}"] = arr
    idx = {"default": None, "named": pd.Index([10 * i for i in range(n)], name="key"), "unnamed": pd.Index([f"r{i}" for i in range(n)]),
           "nonunique": pd.Index([i % 3 for i in range(n)], name="grp"),
           "named_index": pd.Index([7 * i + 1 for i in range(n)], name="index"), "named_level": pd.Index([f"k{i}" for i in range(n)], name="level_0"),
           "hilbert": pd.Index(sorted(r.randint(0, 1000) for _ in range(n)), name="hilbert_distance")}[index_kind]
    return GeoDataFrame(data, index=idx)


def compare(chk, what, before, after, rep):
    a, b = frame_signature(before), frame_signature(after)
    if a == b:
        return True
    diff = [k for k in a if a.get(k) != b.get(k)] + [k for k in b if k not in a]
    key = diff[0]
    cls = ("subtype-or-kind-changed" if key == "dtypes" else "geometry-elements-changed" if key.startswith("col:g") else
           "frame-type-changed" if key == "type" else "index-changed" if key.startswith("index") else "columns-changed" if key == "columns" else "values-changed")
    chk.violation(f"parquet/{what}/{cls}", dict(rep, differs=diff[:4], before={k: a.get(k) for k in diff[:2]}, after={k: b.get(k) for k in diff[:2]}))
    return False


def dtype_parser(chk, r):
    """construct_from_string / registry lookup against the Lean model, over the registry read from the source"""
    from spatialpandas.geometry import base  # noqa: F401
    kinds = ["line", "multiline", "multipoint", "multipolygon", "point", "polygon", "ring"]
    cases = []
    for k in kinds:
        for st in geo.SUBTYPES:
            cases += [f"{k}[{st}]", f"{k.upper()}[{st}]", f"{k.title()}[{st.title()}]"]
        cases += [k, k + "[]", k + "[float64", k + "float64]", k + "[float 64]", "x" + k + "[float64]", k + "string[float64]"]
    cases += ["geometry[float64]", "linestring", "", "[float64]", "point[float64][float64]"]
    outs = drive(["dtype %s %s" % (tok(kinds), c) if c and " " not in c else "dtype [ ] zzz" for c in cases])
    for c, o in zip(cases, outs):
        if not c or " " in c:
            continue
        try:
            dt = pd.api.types.pandas_dtype(c)
            got = "TypeError" if not hasattr(dt, "subtype") else f"{dt._geometry_name} {dt.subtype.name}"
        except Exception as e:  # noqa: BLE001
            got = "TypeError"
        chk.evaluated()
        if c.startswith("geometry"):
            continue
        if got != o and not (o != "TypeError" and got == "TypeError" and o.split()[1] not in geo.SUBTYPES + ["uint8", "float16"]):
            chk.violation("dtype-name/parse-differs-from-model", dict(api="pandas_dtype", string=c, impl=got, model=o))
        chk.count("dtype-strings")
    # print/parse round trip on live arrays
    for k in kinds:
        for st in geo.SUBTYPES:
            arr = geo.make_array(k, [], st)
            name = str(arr.dtype)
            back = pd.api.types.pandas_dtype(name)
            if name != f"{k}[{st}]" or back != arr.dtype:
                chk.violation("dtype-name/print-parse-roundtrip", dict(kind=k, subtype=st, printed=name, parsed=str(back)))


def rewritten_datasets(chk, r, tmp):
    """the same path / the same glob read again after what is stored there has changed: the second read returns what is there now"""
    import dask.dataframe as dd
    from spatialpandas.io import read_parquet, read_parquet_dask, to_parquet
    rep = dict(api="parquet round trip", layout="path or glob read, rewritten, read again")
    try:
        path = os.path.join(tmp, "rewritten.parq")
        for step, (n, npart) in enumerate(((6, 2), (15, 5), (9, 3), (20, 7))):
            df = make_frame(r, n, ["line"], ["float64"], "named", "plain")
            dd.from_pandas(df, npartitions=npart).to_parquet(path, overwrite=True)
            back = read_parquet_dask(path).compute()
            chk.evaluated(n)
            if not compare(chk, "dask-rewritten-path", df, back, dict(rep, step=step, rows=n, partitions=npart)):
                return
        gdir = os.path.join(tmp, "globbed")
        os.makedirs(gdir)
        frames = []
        for step in range(3):
            df = make_frame(r, 4 + step, ["point"], ["float64"], "default", "plain")
            frames.append(df)
            dd.from_pandas(df, npartitions=2).to_parquet(os.path.join(gdir, f"d{step}.parq"))
            back = read_parquet_dask(os.path.join(gdir, "d*.parq")).compute()
            want = pd.concat(frames)
            chk.evaluated(len(want))
            if [int(x) for x in back["a"]] != [int(x) for x in want["a"]] or len(back) != len(want):
                chk.violation("parquet/dask-glob-read-again/rows-differ", dict(rep, step=step, got=[int(x) for x in back["a"]], expected=[int(x) for x in want["a"]])); return
        # dataset names are the user's: one that contains the name of a metadata file is still a dataset
        ndir = os.path.join(tmp, "named")
        os.makedirs(ndir)
        parts_, names_ = [], ("a.parq", "b_metadata.parq", "c_common_metadata_v2.parq")
        for j, nm in enumerate(names_):
            df = make_frame(r, 3 + j, ["point"], ["float64"], "default", "plain")
            df["a"] = [100 * j + i for i in range(len(df))]
            parts_.append(df)
            dd.from_pandas(df, npartitions=1 + j % 2).to_parquet(os.path.join(ndir, nm))
        want = [int(x) for d_ in parts_ for x in d_["a"]]
        for how, arg in (("glob", os.path.join(ndir, "*.parq")), ("list", [os.path.join(ndir, nm) for nm in names_])):
            back = read_parquet_dask(arg).compute()
            chk.evaluated(len(want))
            if [int(x) for x in back["a"]] != want:
                chk.violation(f"parquet/dask-{how}-of-datasets/dataset-dropped-or-reordered", dict(rep, names=list(names_), got=[int(x) for x in back["a"]], expected=want)); return
        # a list that names a dataset twice, and a glob that matches a dataset the list already names: concatenated as listed
        pa_, pb_ = os.path.join(ndir, names_[0]), os.path.join(ndir, names_[1])
        a_rows, b_rows = [int(x) for x in parts_[0]["a"]], [int(x) for x in parts_[1]["a"]]
        for arg, want2 in (([pa_, pb_, pa_], a_rows + b_rows + a_rows), ([pb_, pb_], b_rows + b_rows), ([pb_, os.path.join(ndir, "[ab]*.parq")], b_rows + a_rows + b_rows)):
            back = read_parquet_dask(arg).compute()
            chk.evaluated(len(want2))
            if [int(x) for x in back["a"]] != want2:
                chk.violation("parquet/dask-list-of-datasets/repeated-dataset-not-repeated", dict(rep, paths=[os.path.basename(x) for x in arg], got=[int(x) for x in back["a"]], expected=want2)); return
        ppath = os.path.join(tmp, "rewritten_pandas.parq")
        for step, n in enumerate((5, 11, 3)):
            df = make_frame(r, n, ["polygon"], ["float64"], "unnamed", "plain")
            to_parquet(df, ppath)
            chk.evaluated(n)
            if not compare(chk, "pandas-rewritten-path", df, read_parquet(ppath), dict(rep, step=step, rows=n)):
                return
    except Exception as e:  # noqa: BLE001
        chk.violation(f"parquet/read-again-raises-{common.err_kind(e)}", dict(rep, error=repr(e)[:300]))
    chk.count("rewritten-and-read-again")


def run_cases(chk, tier):
    import dask
    import dask.dataframe as dd
    from spatialpandas.io import read_parquet, read_parquet_dask, to_parquet
    dask.config.set(scheduler="synchronous")
    r = common.rng(PROP)
    dtype_parser(chk, r)
    tmp = tempfile.mkdtemp(prefix="spv_c11_")
    rewritten_datasets(chk, r, tmp)
    rounds = 21 if tier == "quick" else 250
    try:
        for k in range(rounds):
            kinds = [geo.KINDS[k % 7]] + ([geo.KINDS[(k + 3) % 7]] if k % 2 else [])
            # the same values in two different subtypes: both frames stay alive
            st_pair = [("float64", "float32"), ("int32", "int64"), ("float32", "float64"), ("int16", "int32"), ("int64", "float64")][k % 5]
            n = r.randint(1, 9) if k % 6 else 12
            index_kind = ("default", "named", "unnamed", "nonunique", "hilbert", "named_index", "named_level")[k % 7]
            derive = ("plain", "sliced", "concat")[k % 3]
            comp = ("snappy", "gzip", None)[k % 3]
            state = r.getstate()
            frames = []
            for st in st_pair:
                r.setstate(state)
                frames.append(make_frame(r, n, kinds, [st] * len(kinds), index_kind, derive))
            for fi, df in enumerate(frames):
                rep = dict(api="parquet round trip", kinds=kinds, subtype=st_pair[fi], n=n, index_kind=index_kind, derive=derive, compression=comp)
                chk.evaluated(n)
                try:
                    # pandas path
                    p1 = os.path.join(tmp, f"p{k}_{fi}.parq")
                    to_parquet(df, p1, compression=comp)
                    back = read_parquet(p1)
                    compare(chk, "pandas", df, back, rep)
                    # column projection
                    req = r.sample(list(df.columns), r.randint(1, len(df.columns)))
                    if any(c.startswith("g") for c in req):
                        proj = read_parquet(p1, columns=req)
                        idx_cols = [df.index.name] if df.index.name else []
                        want = untok(drive(["project %s %s %s" % (tok(idx_cols), tok(list(df.columns) + idx_cols), tok(req))])[0])
                        want = [c for c in want if c not in idx_cols]
                        if [str(c) for c in proj.columns] != want or [str(x) for x in proj.index] != [str(x) for x in df.index]:
                            chk.violation("parquet/projection/columns-or-index-differ", dict(rep, requested=req, got=[str(c) for c in proj.columns], model=want))
                        chk.count("projection")
                    # Dask path, 1..12 partitions
                    npart = r.choice((1, 2, 3)) if n < 12 else 12
                    ddf = dd.from_pandas(df, npartitions=min(npart, max(1, n)))
                    KEEP_ALIVE.append(ddf)
                    gd = lambda f_: [str(t) for t in f_.dtypes if hasattr(t, "subtype")]  # noqa: E731
                    if gd(ddf) != gd(df):
                        chk.violation("parquet/dask-from_pandas/subtype-or-kind-changed",
                                      dict(rep, pandas=gd(df), dask=gd(ddf),
                                           note="an equal-valued frame of another subtype is alive in this process"))
                    p2 = os.path.join(tmp, f"d{k}_{fi}.parq")
                    ddf.to_parquet(p2, compression=comp)
                    rd = read_parquet_dask(p2)
                    got = rd.compute()
                    from spatialpandas import GeoDataFrame
                    if not isinstance(got, GeoDataFrame) and any(hasattr(t, "subtype") for t in got.dtypes):
                        got = GeoDataFrame(got)
                    if index_kind == "default":
                        got = got.reset_index(drop=True) if list(got.index) != list(df.index) and sorted(got.index) == list(df.index) else got
                    ref = ddf.compute()          # the frame the Dask collection represents (from_pandas sorts by index)
                    if not isinstance(ref, GeoDataFrame):
                        ref = GeoDataFrame(ref)
                    compare(chk, "dask", ref, got, rep)
                    chk.nontriv(hash((k, fi)))
                    chk.count("roundtrip:" + derive); chk.count("index:" + index_kind); chk.count("partitions:" + ("12" if npart == 12 else "<=3"))
                    # several datasets through a list and a glob come back concatenated in path order
                    if k % 4 == 0 and fi == 0:
                        pa_, pb_ = os.path.join(tmp, f"multi{k}", "zone_b.parq"), os.path.join(tmp, f"multi{k}", "zone_a.parq")
                        os.makedirs(os.path.dirname(pa_), exist_ok=True)
                        ddf.to_parquet(pa_); dd.from_pandas(df.assign(a=df["a"] + 100), npartitions=1).to_parquet(pb_)
                        both = read_parquet_dask([pa_, pb_]).compute()
                        ra = list(ddf.compute()["a"])
                        if list(both["a"]) != ra + [x + 100 for x in ra]:
                            chk.violation("parquet/list-of-datasets/not-in-path-order", dict(rep, got=list(both["a"])[:12]))
                        gl = read_parquet_dask(os.path.join(tmp, f"multi{k}", "zone_*.parq")).compute()
                        if len(gl) != 2 * n:
                            chk.violation("parquet/glob-of-datasets/rows-lost", dict(rep, got=len(gl)))
                        chk.count("multi-dataset")
                except Exception as e:  # noqa: BLE001
                    import traceback
                    chk.violation(f"parquet/raises-{common.err_kind(e)}", dict(rep, error=repr(e)[:300], where=traceback.format_exc()[-500:]))
                for p in _glob.glob(os.path.join(tmp, "*")):
                    shutil.rmtree(p, ignore_errors=True) if os.path.isdir(p) else os.remove(p)
            if k < 3:
                chk.sample(dict(kinds=kinds, subtypes=list(st_pair), n=n, index_kind=index_kind, derive=derive, compression=comp), cap=5)
    finally:
        shutil.rmtree(tmp, ignore_errors=True)


def main(tier):
    chk = Check(PROP, tier)
    proof = common.proof_side(PROP, leanchecker=(tier == "thorough"))
    if common.import_impl(chk):
        try:
            run_cases(chk, tier)
        except Exception:  # noqa: BLE001
            import traceback
            chk.tie_broken("correspondence C11: implementation could not be driven: " + traceback.format_exc()[-1500:])
    chk.extra["rule"] = ("frames with 1-2 geometry columns of every kind x subtype pairs (equal values, both alive) x index kind x {plain, sliced, "
                         "concatenated} arrays x compression x partitions (1..3, 12) x column projections x list / glob of datasets; every dtype "
                         "string of the registry (case variants, malformed) against the Lean parser; distinct by (case, subtype)")
    chk.assumptions += ["byte-level fidelity of pyarrow / pandas is observed, not proved"]
    return chk.finish(proof, level="proof")


def replay(path):
    import sys
    return common.generic_replay(sys.modules[__name__], path)
