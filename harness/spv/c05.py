"""C05 — spatial join returns exactly the intersecting (left, right) pairs.

sjoin(left points, right shapes, how) against the Lean model `Join.join` (pair table from the exact predicate
`Join.hit`, join shape per `how`); column values, suffixes and index labels are derived from the model's
(left position, right position) rows and compared as a multiset of complete rows."""
import json
import math

import numpy as np
import pandas as pd

from . import common, geo
from .common import Check, drive, tok, untok

PROP = "C05"


def canon(v):
    if v is None:
        return "nan"
    if isinstance(v, (float, np.floating)):
        return "nan" if math.isnan(v) else float(v)
    if isinstance(v, (int, np.integer)):
        return float(v)
    if v is pd.NA or v is pd.NaT:
        return "nan"
    return str(v)


def canon_geom(g):
    if g is None or (isinstance(g, float) and math.isnan(g)):
        return "nan"
    data = g.flat_values.tolist() if hasattr(g, "flat_values") and not hasattr(g, "listarray") else g.data.as_py()
    return json.dumps(_f(data))


def _f(e):
    if e is None:
        return None
    if isinstance(e, list):
        return [_f(x) for x in e]
    return float(e)


def model_join(how, lpts, kind, shapes):
    out = drive(["sjoin %s %s %s %s" % (how, tok(lpts), kind, tok(shapes))])[0]
    if out == "bad-op":
        raise RuntimeError("driver rejected sjoin")
    res = untok(out)
    return [tuple(x) for x in res]


def build_frames(r, lpts, kind, shapes, index_kind, clash):
    from spatialpandas import GeoDataFrame
    nl, nr = len(lpts), len(shapes)
    larr = geo.make_array("point", lpts, "float64")
    rarr = geo.make_array(kind, shapes, "float64")
    lidx = {"default": list(range(nl)), "named": list(range(100, 100 + nl)), "nonunique": [i % 2 for i in range(nl)],
            "string": [f"L{i}" for i in range(nl)]}[index_kind]
    ridx = [f"R{j}" for j in range(nr)] if index_kind in ("string", "named") else list(range(10, 10 + nr))
    lcols = {"lv": [float(i) for i in range(nl)], "geometry": larr}
    rcols = {"rv": [f"v{j}" for j in range(nr)], "geometry": rarr}
    if clash:
        lcols["name"] = [f"ln{i}" for i in range(nl)]
        rcols["name"] = [f"rn{j}" for j in range(nr)]
    ldf = GeoDataFrame(lcols, index=pd.Index(lidx, name=("lid" if index_kind == "named" else None)))
    rdf = GeoDataFrame(rcols, index=pd.Index(ridx, name=("rid" if index_kind == "named" else None)))
    # half of the time the frames are contiguous row slices of larger frames (geometry arrays with a non-zero buffer offset): what
    # lies before and behind the window must not matter
    if r.random() < 0.5 and nr:
        def windowed(cols, idx, name, kind_, els, front):
            filler = [e for e in els if e is not None and geo.verts_of(kind_, e)] or [els[0]]
            pad_f = [filler[(3 * i + 1) % len(filler)] for i in range(front)]
            pad_b = [filler[(5 * i + 2) % len(filler)] for i in range(2)]
            big = {}
            for c, v in cols.items():
                if c == "geometry":
                    big[c] = geo.make_array(kind_, pad_f + list(els) + pad_b, "float64")
                else:
                    big[c] = [v[0]] * front + list(v) + [v[0]] * 2
            bidx = [idx[0]] * front + list(idx) + [idx[0]] * 2
            return GeoDataFrame(big, index=pd.Index(bidx, name=name)).iloc[front:front + len(els)]
        rdf = windowed(rcols, ridx, ("rid" if index_kind == "named" else None), kind, shapes, r.choice((1, 2, 3)))
        if nl:
            ldf = windowed(lcols, lidx, ("lid" if index_kind == "named" else None), "point", lpts, r.choice((0, 1, 2)))
    return ldf, rdf, lidx, ridx


def expected_rows(how, rows, lpts, shapes, lidx, ridx, clash, lsuf, rsuf):
    exp = []
    for i, j in rows:
        d = {}
        if how in ("inner", "left"):
            d["__index__"] = canon(lidx[i])
            d["lv"] = canon(float(i))
            d["geometry"] = "nan" if lpts[i] is None else json.dumps(_f(lpts[i]))
            d["index_" + rsuf] = canon(None if j is None else ridx[j])
            d["rv"] = canon(None if j is None else f"v{j}")
            if clash:
                d["name_" + lsuf] = canon(f"ln{i}")
                d["name_" + rsuf] = canon(None if j is None else f"rn{j}")
        else:
            d["__index__"] = canon(ridx[j])
            d["rv"] = canon(f"v{j}")
            d["geometry"] = "nan" if shapes[j] is None else json.dumps(_f(shapes[j]))
            d["index_" + lsuf] = canon(None if i is None else lidx[i])
            d["lv"] = canon(None if i is None else float(i))
            if clash:
                d["name_" + lsuf] = canon(None if i is None else f"ln{i}")
                d["name_" + rsuf] = canon(f"rn{j}")
        exp.append(d)
    return exp


def got_rows(res):
    out = []
    geom_cols = [c for c in res.columns if "geometry" in str(c)]
    for lab, (_, row) in zip(res.index, res.iterrows()):
        d = {"__index__": canon(lab)}
        for c in res.columns:
            d[str(c)] = canon_geom(row[c]) if c in geom_cols else canon(row[c])
        out.append(d)
    return out


def key(d):
    return json.dumps(d, sort_keys=True)


def run_case(chk, r, lpts, kind, shapes, how, index_kind, clash, tag):
    from spatialpandas import sjoin, GeoDataFrame
    lsuf, rsuf = ("left", "right") if r.random() < 0.7 else ("a", "b")
    rep = dict(api="sjoin", how=how, left_points=lpts, kind=kind, right_shapes=shapes, index_kind=index_kind, clash=clash,
               lsuffix=lsuf, rsuffix=rsuf)
    sz = len(lpts) + len(shapes)
    try:
        ldf, rdf, lidx, ridx = build_frames(r, lpts, kind, shapes, index_kind, clash)
    except Exception as e:  # noqa: BLE001
        raise RuntimeError("harness could not build frames: " + repr(e))
    cls = ("missing-left/" if any(p is None for p in lpts) else "") + ("missing-right/" if any(s is None for s in shapes) else "") + \
          ("empty-left/" if not lpts else "") + ("empty-right/" if not shapes else "")
    before = (str(ldf.index.name), str(rdf.index.name), list(map(str, ldf.columns)), list(map(str, rdf.columns)), list(map(str, ldf.index)), list(map(str, rdf.index)))
    try:
        res = sjoin(ldf, rdf, how=how, lsuffix=lsuf, rsuffix=rsuf)
        # the same frames joined again (a caller looping over `how`): the first call must not have left anything behind in them
        how2 = {"inner": "right", "left": "inner", "right": "left"}[how]
        res2 = sjoin(ldf, rdf, how=how2, lsuffix=lsuf, rsuffix=rsuf)
    except Exception as e:  # noqa: BLE001
        chk.violation(f"sjoin/{how}/raises-{common.err_kind(e)}/{cls or 'regular'}", dict(rep, error=repr(e)[:300]), size=sz)
        return
    after = (str(ldf.index.name), str(rdf.index.name), list(map(str, ldf.columns)), list(map(str, rdf.columns)), list(map(str, ldf.index)), list(map(str, rdf.index)))
    if after != before:
        chk.violation(f"sjoin/{how}/input-frame-modified", dict(rep, before=[before[0], before[1]], after=[after[0], after[1]]), size=sz)
        return
    want_name2 = ("lid" if how2 != "right" else "rid") if index_kind == "named" else None
    if res2.index.name != want_name2 and len(res2.index.names) == 1:
        chk.violation(f"sjoin/{how2}/index-name-lost/second-call-on-the-same-frames", dict(rep, got=str(res2.index.name), expected=str(want_name2)), size=sz)
        return
    rows = model_join(how, lpts, kind, shapes)
    chk.evaluated(max(1, len(rows)))
    exp = expected_rows(how, rows, lpts, shapes, lidx, ridx, clash, lsuf, rsuf)
    got = got_rows(res)
    if not isinstance(res, GeoDataFrame):
        chk.violation(f"sjoin/{how}/result-not-geo", dict(rep, got=type(res).__name__), size=sz)
    ek, gk = sorted(key(d) for d in exp), sorted(key(d) for d in got)
    if ek != gk:
        es, gs = set(ek), set(gk)
        if len(got) != len(exp) and {k for k in gk} == {k for k in ek}:
            what = "pair-duplicated" if len(got) > len(exp) else "pair-missing"
        elif [sorted(d) for d in exp][:1] != [sorted(d) for d in got][:1] and exp and got:
            what = "columns-differ"
        elif gs < es or len(got) < len(exp):
            what = "rows-missing"
        elif es < gs or len(got) > len(exp):
            what = "extra-rows"
        else:
            what = "rows-differ"
        chk.violation(f"sjoin/{how}/{what}/{cls or 'regular'}", dict(rep, impl=got[:12], expected=exp[:12], n_impl=len(got), n_expected=len(exp)), size=sz)
    want_name = ("lid" if how != "right" else "rid") if index_kind == "named" else None
    if res.index.name != want_name and len(res.index.names) == 1:
        chk.violation(f"sjoin/{how}/index-name-lost", dict(rep, got=str(res.index.name), expected=str(want_name)), size=sz)
    matched = sum(1 for i, j in rows if i is not None and j is not None)
    if matched or cls:
        chk.nontriv(hash((tag, how, json.dumps(lpts), json.dumps(shapes), index_kind, clash)))
    chk.count(f"how:{how}"); chk.count(f"kind:{kind}"); chk.count("index:" + index_kind)
    chk.count("matched-pairs", matched); chk.count("unmatched-rows", len(rows) - matched)
    if cls:
        chk.count("class:" + cls.rstrip("/"))


def dask_left_frame_arguments(chk, r, tier):
    """a Dask left frame: the result - column names and their order, index name, rows - is that of the pandas join with the same
    arguments, whether the suffixes are left at their defaults, spelled out, or chosen by the caller; what the lazy frame declares
    is what its partitions hold"""
    import dask
    import dask.dataframe as dd
    from spatialpandas import GeoDataFrame, sjoin
    shapes = [[[0, 0, 7, 0, 7, 7, 0, 7, 0, 0]], [[5, 5, 13, 5, 13, 13, 5, 13, 5, 5]], [[20, 20, 22, 20, 22, 22, 20, 20]]]
    for k, how in enumerate(("inner", "left") * (1 if tier == "quick" else 3)):
        lpts = [[r.randint(0, 14), r.randint(0, 14)] for _ in range(9)]
        ldf = GeoDataFrame({"pts": geo.make_array("point", lpts, "float64"), "v": list(range(9)), "only_l": [f"l{i}" for i in range(9)]},
                           index=pd.Index(range(100, 109), name=("lid" if k % 2 else None)))
        rdf = GeoDataFrame({"shape": geo.make_array("polygon", shapes, "float64"), "v": [10, 11, 12], "only_r": ["a", "b", "c"]})
        for suf in ({}, dict(lsuffix="left", rsuffix="right"), dict(lsuffix="pt", rsuffix="poly"), dict(rsuffix="shp")):
            rep = dict(api="sjoin", how=how, left="DaskGeoDataFrame", left_points=lpts, kind="polygon", right_shapes=shapes, **suf)
            try:
                want = sjoin(ldf, rdf, how=how, **suf)
                lazy = sjoin(dd.from_pandas(ldf, npartitions=3), rdf, how=how, **suf)
                got = lazy.compute(scheduler="synchronous")
                chk.evaluated(len(got))
                if list(got.columns) != list(want.columns) or list(lazy.columns) != list(want.columns) or got.index.name != want.index.name:
                    chk.violation(f"sjoin/{how}/dask-left-frame-column-names-differ-from-pandas/{'default' if not suf else 'explicit'}-suffixes",
                                  dict(rep, declared=[str(c) for c in lazy.columns], computed=[str(c) for c in got.columns],
                                       pandas=[str(c) for c in want.columns], index_names=[str(got.index.name), str(want.index.name)]), size=9)
                    continue
                rows = lambda f: sorted(json.dumps([str(i)] + [str(x) for x in row], default=str) for i, row in zip(f.index, f.drop(columns=["pts"]).values.tolist()))  # noqa: E731
                if rows(got) != rows(want):
                    chk.violation(f"sjoin/{how}/dask-left-frame-rows-differ-from-pandas", dict(rep, got=rows(got)[:6], pandas=rows(want)[:6]), size=9)
            except Exception as e:  # noqa: BLE001
                chk.violation(f"sjoin/{how}/dask-left-frame-raises-{common.err_kind(e)}", dict(rep, error=repr(e)[:300]), size=9)
    chk.count("dask-left-frame-arguments")


def run_cases(chk, tier):
    r = common.rng(PROP)
    from .c02 import families
    fam = families(tier)
    dask_left_frame_arguments(chk, r, tier)
    n_cases = 50 if tier == "quick" else 500
    kinds = ["point", "multipoint", "line", "multiline", "polygon", "multipolygon"]
    for k in range(n_cases):
        kind = kinds[k % len(kinds)]
        shapes_pool, pts_pool = fam[kind]
        nr = r.choice((0, 1, 2, 3, 4))
        shapes = [r.choice(shapes_pool) for _ in range(nr)]
        if kind in ("polygon", "multipolygon") and nr >= 2 and r.random() < 0.5:
            shapes[1] = shapes[0]                       # overlapping shapes: one point matches many
        nl = r.choice((0, 1, 3, 5, 6))
        # points that match: vertices of the shapes, plus grid points; for polygons avoid ring points
        cand = list(pts_pool)
        lpts = []
        for _ in range(nl):
            for _try in range(20):
                p = r.choice(cand)
                if kind in ("polygon", "multipolygon") and any(geo.oracle_pis(kind, s, p) == "on-ring" for s in shapes if s):
                    continue
                lpts.append(list(p)); break
        if lpts and r.random() < 0.4:
            lpts.append(list(lpts[0]))                  # duplicate point
        if lpts and r.random() < 0.35:
            lpts.insert(r.randrange(len(lpts) + 1), None)   # missing point
        if shapes and r.random() < 0.25:
            shapes.insert(r.randrange(len(shapes) + 1), None)   # missing right geometry
        how = ("inner", "left", "right")[k % 3]
        index_kind = ("default", "named", "nonunique", "string")[(k // 3) % 4]
        run_case(chk, r, lpts, kind, shapes, how, index_kind, clash=(k % 2 == 0), tag="grid")
        if k < 4:
            chk.sample(dict(how=how, left_points=lpts, kind=kind, right_shapes=shapes, index_kind=index_kind), cap=6)
    # two overlapping rectangles, every pattern of {in both, in the first only, in the second only, in neither} over 4 (thorough: 5) left
    # rows: duplicates and gaps in the matched positions in every combination
    import itertools
    rects = [[[0, 0, 10, 0, 10, 10, 0, 10, 0, 0]], [[4, 4, 14, 4, 14, 14, 4, 14, 4, 4]]]
    where = {"both": lambda i: [5 + i, 6], "first": lambda i: [1, 1 + i], "second": lambda i: [12, 11 + (i % 3)], "neither": lambda i: [20 + i, 20]}
    for k, pat in enumerate(itertools.product(("both", "first", "second", "neither"), repeat=4 if tier == "quick" else 5)):
        lpts = [where[w](i) for i, w in enumerate(pat)]
        run_case(chk, r, lpts, "polygon", rects, ("inner", "inner", "left", "right")[k % 4], ("default", "string")[k % 2], clash=False, tag="patterns")
    chk.count("match-patterns")
    # frames that hold another geometry column in front of the active one: the join is made on the active columns and the result
    # carries the geometry of the side it keeps (pandas and, with its description agreeing with its partitions, Dask)
    import dask
    import dask.dataframe as dd
    from spatialpandas import GeoDataFrame, sjoin
    for k, how in enumerate(("inner", "left", "right", "inner", "left")):
        lpts = [[r.randint(0, 12), r.randint(0, 12)] for _ in range(6)]
        decoy = [[50 + i, 50] for i in range(6)]
        shapes = [[[0, 0, 7, 0, 7, 7, 0, 7, 0, 0]], [[5, 5, 13, 5, 13, 13, 5, 13, 5, 5]]]
        far = [[[90, 90, 95, 90, 95, 95, 90, 90]], [[80, 80, 85, 80, 85, 85, 80, 80]]]
        ldf = GeoDataFrame({"aux": geo.make_array("point", decoy, "float64"), "pts": geo.make_array("point", lpts, "float64"), "lv": list(range(6))}).set_geometry("pts")
        rdf = GeoDataFrame({"aux2": geo.make_array("polygon", far, "float64"), "shape": geo.make_array("polygon", shapes, "float64"), "rv": [10, 11]}).set_geometry("shape")
        rep = dict(api="sjoin", how=how, left_points=lpts, kind="polygon", right_shapes=shapes, layout="another geometry column in front of the active one")
        want_active = "shape" if how == "right" else "pts"
        want_pairs = sorted(str((None if i is None else i, None if j is None else 10 + j)) for i, j in model_join(how, lpts, "polygon", shapes))

        def pairs_of(res):
            return sorted(str((None if pd.isna(a) else int(a), None if pd.isna(b) else int(b))) for a, b in zip(res["lv"], res["rv"]))
        try:
            res = sjoin(ldf, rdf, how=how)
            chk.evaluated(len(res))
            if type(res).__name__ != "GeoDataFrame" or res.geometry.name != want_active:
                chk.violation(f"sjoin/{how}/result-geometry-is-not-the-joined-column", dict(rep, got=str(getattr(res, "_geometry", None)), expected=want_active), size=6)
            elif pairs_of(res) != want_pairs:
                chk.violation(f"sjoin/{how}/rows-differ/other-geometry-columns", dict(rep, got=pairs_of(res), expected=want_pairs), size=6)
            if how != "right":
                dres = sjoin(dd.from_pandas(ldf, npartitions=2), rdf, how=how)
                per = [getattr(p_, "_geometry", None) for p_ in dask.compute(*dres.to_delayed(), scheduler="synchronous")]
                comp = dres.compute(scheduler="synchronous")
                if dres.geometry.name != want_active or any(p_ != want_active for p_ in per) or comp.geometry.name != want_active or \
                        pairs_of(comp) != want_pairs:
                    chk.violation(f"sjoin/{how}/dask-result-description-and-partitions-disagree", dict(rep, description=dres.geometry.name, partitions=per,
                                                                                                    computed=comp.geometry.name), size=6)
        except Exception as e:  # noqa: BLE001
            chk.violation(f"sjoin/{how}/raises-{common.err_kind(e)}/other-geometry-columns", dict(rep, error=repr(e)[:300]), size=6)
        chk.count("other-geometry-columns")
    # a right join where the left frame holds a (non-active) geometry column named like the right frame's active one: both get a
    # suffix, the result carries the right frame's
    for k in range(2):
        lpts = [[r.randint(0, 12), r.randint(0, 12)] for _ in range(5)]
        shapes = [[[0, 0, 7, 0, 7, 7, 0, 7, 0, 0]], [[5, 5, 13, 5, 13, 13, 5, 13, 5, 5]]]
        ldf = GeoDataFrame({"shape": geo.make_array("line", [[i, 0, i, 1] for i in range(5)], "float64"), "pts": geo.make_array("point", lpts, "float64"),
                            "lv": list(range(5))}).set_geometry("pts")
        rdf = GeoDataFrame({"shape": geo.make_array("polygon", shapes, "float64"), "rv": [10, 11]})
        rep = dict(api="sjoin", how="right", left_points=lpts, kind="polygon", right_shapes=shapes, layout="left frame has a geometry column named like the right frame's active one")
        try:
            res = sjoin(ldf, rdf, how="right", lsuffix="l", rsuffix="r")
            chk.evaluated(len(res))
            act = res.geometry.name
            if act != "shape_r" or str(res.geometry.dtype).split("[")[0] != "polygon":
                chk.violation("sjoin/right/result-geometry-is-not-the-joined-column/suffixed", dict(rep, got=str(act), dtype=str(res.geometry.dtype), expected="shape_r (polygon)"), size=5)
        except Exception as e:  # noqa: BLE001
            chk.violation(f"sjoin/right/raises-{common.err_kind(e)}/suffixed-geometry", dict(rep, error=repr(e)[:300]), size=5)
    # a Dask left frame with a partition of missing points only: 'left' keeps those rows (unmatched), 'inner' has none of them
    for how in ("left", "inner"):
        lpts = [[2, 2], [6, 6], [20, 20], None, None, None, [12, 12], [3, 9], [30, 1]]
        shapes = [[[0, 0, 7, 0, 7, 7, 0, 7, 0, 0]], [[5, 5, 13, 5, 13, 13, 5, 13, 5, 5]]]
        rep = dict(api="sjoin", how=how, left_points=lpts, kind="polygon", right_shapes=shapes, layout="Dask left frame, 3 partitions, the middle one all missing")
        try:
            ldf = GeoDataFrame({"lv": list(range(9)), "geometry": geo.make_array("point", lpts, "float64")})
            rdf = GeoDataFrame({"rv": [10, 11], "geometry": geo.make_array("polygon", shapes, "float64")})
            comp = sjoin(dd.from_pandas(ldf, npartitions=3), rdf, how=how).compute(scheduler="synchronous")
            got = sorted(str((int(a), None if pd.isna(b) else int(b))) for a, b in zip(comp["lv"], comp["rv"]))
            want = sorted(str((i, None if j is None else 10 + j)) for i, j in model_join(how, lpts, "polygon", shapes))
            chk.evaluated(len(comp))
            if got != want:
                chk.violation(f"sjoin/{how}/dask-rows-differ/all-missing-partition", dict(rep, got=got, expected=want), size=9)
        except Exception as e:  # noqa: BLE001
            chk.violation(f"sjoin/{how}/raises-{common.err_kind(e)}/dask-all-missing-partition", dict(rep, error=repr(e)[:300]), size=9)
    chk.count("dask-all-missing-partition")
    # single-precision points joined with double-precision shapes whose sides single precision cannot represent (odd coordinates
    # around 2^24; points at even ones, one unit inside or outside a side): the shape is compared as stored
    B = 2 ** 24
    for k in range(4 if tier == "quick" else 30):
        x0, y0 = B + 1 + 2 * r.randint(0, 3), B + 3 + 2 * r.randint(0, 3)
        x1, y1 = x0 + 2 * r.randint(4, 9), y0 + 2 * r.randint(4, 9)
        shapes = [[[x0, y0, x1, y0, x1, y1, x0, y1, x0, y0]], [[x0 + 4, y0 + 4, x1 + 6, y0 + 4, x1 + 6, y1 + 6, x0 + 4, y1 + 6, x0 + 4, y0 + 4]]]
        lpts = [[x0 + 1, y0 + 1], [x0 + 5, y0 + 1], [x0 + 1, y0 + 5], [x1 - 1, y1 - 1], [x0 - 1, y0 + 3], [x0 + 3, y0 - 1], [x1 + 1, y1 - 3], [x1 + 5, y1 + 5]]
        for how in ("inner", "left"):
            rep = dict(api="sjoin", how=how, left_points=lpts, kind="polygon", right_shapes=shapes, layout="float32 points, float64 shapes")
            try:
                ldf = GeoDataFrame({"lv": list(range(len(lpts))), "geometry": geo.make_array("point", lpts, "float32")})
                rdf = GeoDataFrame({"rv": [10, 11], "geometry": geo.make_array("polygon", shapes, "float64")})
                res = sjoin(ldf, rdf, how=how)
                got = sorted(str((None if pd.isna(a) else int(a), None if pd.isna(b) else int(b))) for a, b in zip(res["lv"], res["rv"]))
                want = sorted(str((i, None if j is None else 10 + j)) for i, j in model_join(how, lpts, "polygon", shapes))
                chk.evaluated(len(res))
                if got != want:
                    chk.violation(f"sjoin/{how}/rows-differ/mixed-precision", dict(rep, got=got, expected=want), size=len(lpts))
            except Exception as e:  # noqa: BLE001
                chk.violation(f"sjoin/{how}/raises-{common.err_kind(e)}/mixed-precision", dict(rep, error=repr(e)[:300]), size=len(lpts))
        chk.count("mixed-precision")
    # name clash with the generated index columns must be rejected
    from spatialpandas import GeoDataFrame, sjoin
    l = GeoDataFrame({"index_right": [1.0], "geometry": geo.make_array("point", [[0, 0]], "float64")})
    rr = GeoDataFrame({"geometry": geo.make_array("point", [[0, 0]], "float64")})
    try:
        sjoin(l, rr); got = "ok"
    except Exception as e:  # noqa: BLE001
        got = common.err_kind(e)
    if got != "ValueError":
        chk.violation("sjoin/index-column-name-clash-not-rejected", dict(api="sjoin", got=got))
    chk.count("error-cases")


def main(tier):
    chk = Check(PROP, tier)
    proof = common.proof_side(PROP, leanchecker=(tier == "thorough"))
    if common.import_impl(chk):
        try:
            run_cases(chk, tier)
        except Exception:  # noqa: BLE001
            import traceback
            chk.tie_broken("correspondence C05: implementation could not be driven: " + traceback.format_exc()[-1500:])
    chk.extra["rule"] = ("left frames of <= 7 grid points (duplicates, a missing point, off-ring by construction) x right frames of <= 5 shapes of every "
                         "kind from the C02 families (overlapping polygons, a missing geometry, empty frames) x how x index kind (default, named, "
                         "non-unique, string) x clashing column names x suffixes; rows compared as a multiset of complete rows; non-trivial = at least "
                         "one matched pair or an inert row present")
    chk.assumptions += ["pandas.merge semantics are trusted (modelled relationally)"]
    return chk.finish(proof)


def replay(path):
    rep = json.load(open(path))
    from spatialpandas import sjoin
    r = common.rng("replay")
    ldf, rdf, lidx, ridx = build_frames(r, rep["left_points"], rep["kind"], rep["right_shapes"], rep["index_kind"], rep["clash"])
    try:
        res = sjoin(ldf, rdf, how=rep["how"], lsuffix=rep["lsuffix"], rsuffix=rep["rsuffix"])
        print(res)
    except Exception as e:  # noqa: BLE001
        print("raises", repr(e)); return 1
    print("model rows:", model_join(rep["how"], rep["left_points"], rep["kind"], rep["right_shapes"]))
    return 0
