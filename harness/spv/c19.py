"""C19 — transient filesystem faults never yield a silently wrong packed dataset.

pack_partitions_to_parquet with a fault-injecting fsspec filesystem (`packfs.WrapFS`) and a small retry budget: a dry
run counts the K filesystem calls, then one fault (OSError / FileNotFoundError before the effect, stale listing, partial
write) is injected at each position (all positions for OSError in the base configuration; a seeded sample elsewhere; pairs
and repeats beyond the budget in the thorough tier).  Every run must either raise or leave a dataset identical to the
fault-free one (files, rows, _metadata, stored bounds, no leftovers); after an aborted run a fault-free repeat with
overwrite=True must give the fault-free dataset."""
import json
import os
import shutil
import tempfile

import numpy as np

from . import common, geo, packfs
from .common import Check

PROP = "C19"
RETRY = dict(wait_fixed=1, stop_max_attempt_number=3)


def make_frame(r, n, dup):
    from spatialpandas import GeoDataFrame
    if dup:
        base = [[4 * i, 3 * i] for i in range(3)]
        pts = [list(base[i % 3]) for i in range(n)]
    else:
        pts = [[(7 * i) % 61, (11 * i) % 59] for i in range(n)]
    return GeoDataFrame({"a": list(range(n)), "geometry": geo.make_array("point", pts, "float64")})


def snapshot(work, path):
    """everything observable about the dataset: tree, rows per part file, _metadata summary, stored bounds"""
    import pyarrow.parquet as pq
    from spatialpandas.io import read_parquet
    snap = {"tree": [f"{k}:{p}" for k, p in packfs.tree(work) if p not in ("scratch_u", "scratch_p")]}
    parts = sorted(p for k, p in packfs.tree(path) if k == "f" and p.startswith("part."))
    rows = {}
    for p in parts:
        try:
            rows[p] = packfs.rows_of(read_parquet(os.path.join(path, p)))
        except Exception as e:  # noqa: BLE001
            rows[p] = "unreadable:" + common.err_kind(e)
    snap["rows"] = rows
    try:
        md = pq.read_metadata(os.path.join(path, "_metadata"))
        snap["_metadata"] = dict(num_rows=md.num_rows, num_row_groups=md.num_row_groups)
    except Exception as e:  # noqa: BLE001
        snap["_metadata"] = "unreadable:" + common.err_kind(e)
    try:
        cm = pq.read_metadata(os.path.join(path, "_common_metadata"))
        snap["bounds"] = json.loads(cm.metadata[b"spatialpandas"].decode())
    except Exception as e:  # noqa: BLE001
        snap["bounds"] = "unreadable:" + common.err_kind(e)
    return snap


def one_run(df, in_parts, npart, mode, plan, root, overwrite_after_abort=True, only=None):
    import dask.dataframe as dd
    work = os.path.join(root, f"w{abs(hash(json.dumps(sorted(plan.items())))) % 10**9}_{mode}")
    shutil.rmtree(work, ignore_errors=True)
    os.makedirs(os.path.join(work, "scratch_u")); os.makedirs(os.path.join(work, "scratch_p"))
    path = os.path.join(work, "out.parq")
    fs = packfs.WrapFS(plan=plan, only=only)
    ddf = dd.from_pandas(df, npartitions=in_parts)
    tf = packfs.tempdir_format(mode, work)
    res = dict(calls=0)
    try:
        ddf.pack_partitions_to_parquet(path, filesystem=fs, npartitions=npart, p=6, tempdir_format=tf, _retry_args=RETRY)
        res["outcome"] = "returned"
    except Exception as e:  # noqa: BLE001
        res["outcome"] = "raised:" + common.err_kind(e)
    res["calls"] = len(fs.calls)
    res["fired"] = fs.fired
    res["log"] = fs.calls
    res["snap"] = snapshot(work, path) if res["outcome"] == "returned" else None
    if res["outcome"] != "returned" and overwrite_after_abort:
        fs2 = packfs.WrapFS()
        try:
            ddf.pack_partitions_to_parquet(path, filesystem=fs2, npartitions=npart, p=6, tempdir_format=tf, _retry_args=RETRY, overwrite=True)
            res["rerun"] = snapshot(work, path)
        except Exception as e:  # noqa: BLE001
            res["rerun"] = "raised:" + common.err_kind(e) + ":" + repr(e)[:120]
    shutil.rmtree(work, ignore_errors=True)
    return res


def strip(snap, dataset_only=False):
    """the observable state; for the re-run after an aborted run only the dataset itself is claimed (the aborted run's own
    temporary directory, e.g. under a {uuid} name the repeat cannot know, is outside the claim)"""
    if snap is None or isinstance(snap, str):
        return snap
    s = dict(snap)
    s["tree"] = [t for t in snap["tree"] if (not dataset_only) or t.split(":", 1)[1].startswith("out.parq")]
    return s


def sweep(chk, r, root, df, in_parts, npart, mode, kinds, positions, tag):
    base = one_run(df, in_parts, npart, mode, {}, root)
    K = base["calls"]
    if base["outcome"] != "returned":
        chk.violation(f"faults/fault-free-run-raises/{mode}", dict(api="pack_partitions_to_parquet", mode=mode, outcome=base["outcome"])); return
    ref = strip(base["snap"])
    rep0 = dict(api="pack_partitions_to_parquet", rows=len(df), duplicate_points=len({tuple(b) for b in df["geometry"].array.bounds.tolist()}) < len(df),
                input_partitions=in_parts, npartitions=npart, tempdir=mode, calls=K, retry=RETRY)
    pos_list = list(range(1, K + 1)) if positions == "all" else sorted(r.sample(range(1, K + 1), min(K, positions)))
    n_ls = sum(1 for c in base["log"] if c[0] == "ls"); n_open = sum(1 for c in base["log"] if c[0] == "open")
    outcomes = {"returned-identical": 0, "raised": 0}
    for kind in kinds:
        # the order of the calls differs from run to run (dask orders tasks by their random keys), so a stale listing is
        # planned as "the j-th ls" and a partial write as "the j-th open", for every j
        keys = [("ls", j) for j in range(1, n_ls + 1)] if kind.startswith("stale") else [("open", j) for j in range(1, n_open + 1)] if kind == "partial" else pos_list
        if kind.startswith("stale"):
            # by path rather than by call number: every listed directory gets the stale listing once, whatever the task order
            keys = [("ls", "@" + b) for b in sorted({os.path.basename(c[1].rstrip("/")) for c in base["log"] if c[0] == "ls"})]
        if "@" in kind:
            # "fnf@rm": the fault at the j-th call of that method, for every j
            kind, meth = kind.split("@")
            keys = [(meth, j) for j in range(1, sum(1 for c in base["log"] if c[0] == meth) + 1)]
        for k in keys:
            name = k[0] if isinstance(k, tuple) else base["log"][k - 1][0]
            res = one_run(df, in_parts, npart, mode, {k: kind}, root)
            chk.evaluated()
            rep = dict(rep0, fault=dict(position=list(k) if isinstance(k, tuple) else k, kind=kind), fired=[list(x) for x in res["fired"]])
            # the call the fault actually hit in this run
            where = (res["fired"][0][1] if res["fired"] else name) + ":"
            name = where.split(":")[0]
            if res["outcome"] == "returned":
                got = strip(res["snap"])
                if got != ref:
                    diff = [key for key in ref if got.get(key) != ref[key]]
                    chk.violation(f"faults/returns-with-different-dataset/{diff[0]}/{kind}@{where.split(':')[0]}",
                                  dict(rep, differs=diff, got={d: got.get(d) for d in diff[:2]}, expected={d: ref[d] for d in diff[:2]}))
                else:
                    outcomes["returned-identical"] += 1
            else:
                outcomes["raised"] += 1
                rr = res.get("rerun")
                ref_ds = strip(base["snap"], dataset_only=True)
                if isinstance(rr, str) or strip(rr, dataset_only=True) != ref_ds:
                    diff = "raised" if isinstance(rr, str) else [key for key in ref_ds if strip(rr, True).get(key) != ref_ds[key]][0]
                    chk.violation(f"faults/rerun-after-abort-differs/{diff}/{kind}@{where.split(':')[0]}", dict(rep, rerun=rr if isinstance(rr, str) else {diff: rr.get(diff)}))
            if res["fired"]:
                chk.nontriv(hash((tag, mode, kind, k)))
            chk.count(f"{kind}@{name}")
    chk.count(f"outcome:returned-identical:{mode}", outcomes["returned-identical"]); chk.count(f"outcome:raised:{mode}", outcomes["raised"])
    chk.sample(dict(tempdir=mode, rows=len(df), input_partitions=in_parts, npartitions=npart, filesystem_calls=K, fault_kinds=list(kinds),
                    positions=("all" if positions == "all" else len(pos_list)), outcomes=outcomes), cap=6)
    return K, base


def aborted_then_rerun(chk, r, root, df, in_parts, npart, mode, methods, tag):
    """a fault that persists beyond the retry budget (three consecutive calls of one method fail) aborts the run; whatever it left behind -
    in the dataset directory and in a fixed external temporary area - a repeat with overwrite=True produces the fault-free dataset"""
    base = one_run(df, in_parts, npart, mode, {}, root)
    if base["outcome"] != "returned":
        chk.violation(f"faults/fault-free-run-raises/{mode}", dict(api="pack_partitions_to_parquet", mode=mode, outcome=base["outcome"])); return
    ref, ref_ds = strip(base["snap"]), strip(base["snap"], dataset_only=True)
    rep0 = dict(api="pack_partitions_to_parquet", rows=len(df), input_partitions=in_parts, npartitions=npart, tempdir=mode, retry=RETRY)
    aborted = 0
    for meth in methods:
        n_m = sum(1 for c in base["log"] if c[0] == meth)
        for j in range(1, n_m + 1, 1 if n_m <= 12 else 2):
            plan = {(meth, j): "oserror", (meth, j + 1): "oserror", (meth, j + 2): "oserror"}
            res = one_run(df, in_parts, npart, mode, plan, root)
            chk.evaluated()
            rep = dict(rep0, fault=dict(position=[meth, j], kind="oserror x3"), fired=[list(x) for x in res["fired"]])
            if res["outcome"] == "returned":
                if strip(res["snap"]) != ref:
                    got = strip(res["snap"])
                    diff = [key for key in ref if got.get(key) != ref[key]]
                    chk.violation(f"faults/returns-with-different-dataset/{diff[0]}/oserror-burst@{meth}", dict(rep, differs=diff))
            else:
                aborted += 1
                rr = res.get("rerun")
                if isinstance(rr, str) or strip(rr, dataset_only=True) != ref_ds:
                    what = "raised" if isinstance(rr, str) else [key for key in ref_ds if strip(rr, True).get(key) != ref_ds[key]][0]
                    chk.violation(f"faults/rerun-after-abort-differs/{what}/oserror-burst@{meth}", dict(rep, rerun=rr if isinstance(rr, str) else {what: rr.get(what)}))
            if res["fired"]:
                chk.nontriv(hash((tag, mode, meth, j)))
    chk.count(f"aborted-then-rerun:{mode}", aborted)


def run_cases(chk, tier):
    import dask
    dask.config.set(scheduler="synchronous")
    r = common.rng(PROP)
    root = tempfile.mkdtemp(prefix="spv_c19_")
    try:
        df = make_frame(r, 8, dup=False)
        # base configuration: every position, OSError; the other kinds wherever they apply
        sweep(chk, r, root, df, 2, 3, "inside", ["oserror"], "all", "base")
        sweep(chk, r, root, df, 2, 3, "inside", ["fnf", "stale", "stale-last", "stale-first", "partial"], "all", "base-kinds")
        # empty output partitions + external temp dir
        dfd = make_frame(r, 9, dup=True)
        sweep(chk, r, root, dfd, 2, 5, "outside-uuid", ["oserror"], "all", "empties")
        # a removal / move / listing / existence test that transiently reports "no such file", at every call of these methods
        # (with an external temporary area nothing else removes the same path a second time)
        sweep(chk, r, root, dfd, 2, 5, "outside-uuid", ["fnf@rm", "fnf@mv", "fnf@ls", "fnf@exists"], "all", "empties-fnf")
        sweep(chk, r, root, df, 2, 3, "outside-plain", ["fnf@rm", "fnf@mv"], "all", "plain-fnf")
        # runs that abort (a fault outlasting the retries), then the repeat with overwrite=True; fixed external temporary area included
        aborted_then_rerun(chk, r, root, df, 2, 3, "outside-plain", ("rm", "open", "makedirs", "mv"), "abort-plain")
        aborted_then_rerun(chk, r, root, df, 2, 3, "inside", ("rm", "open"), "abort-inside")
        if tier != "quick":
            sweep(chk, r, root, dfd, 2, 5, "outside-plain", ["oserror", "fnf", "stale", "partial"], "all", "empties-plain")
            # pairs of faults and repeats up to / beyond the retry budget
            base = one_run(df, 2, 3, "inside", {}, root)
            K = base["calls"]
            ref = strip(base["snap"])
            for _ in range(150):
                a = r.randint(1, K)
                plan = {a: "oserror", r.randint(1, K): r.choice(("oserror", "fnf"))} if r.random() < 0.5 else {a + i: "oserror" for i in range(r.choice((2, 3, 4)))}
                res = one_run(df, 2, 3, "inside", plan, root)
                chk.evaluated()
                if res["outcome"] == "returned" and strip(res["snap"]) != ref:
                    chk.violation("faults/returns-with-different-dataset/multi-fault", dict(api="pack_partitions_to_parquet", plan=plan))
                if res["outcome"] != "returned" and (isinstance(res.get("rerun"), str) or strip(res["rerun"], True) != strip(base["snap"], True)):
                    chk.violation("faults/rerun-after-abort-differs/multi-fault", dict(api="pack_partitions_to_parquet", plan=plan))
                chk.count("multi-fault")
    finally:
        shutil.rmtree(root, ignore_errors=True)


def main(tier):
    chk = Check(PROP, tier)
    proof = common.proof_side(PROP, leanchecker=(tier == "thorough"))
    if common.import_impl(chk):
        try:
            run_cases(chk, tier)
        except Exception:  # noqa: BLE001
            import traceback
            chk.tie_broken("correspondence C19: implementation could not be driven: " + traceback.format_exc()[-1500:])
    chk.extra["rule"] = ("single transient fault at every filesystem call position of a run (OSError: all positions; FileNotFoundError / stale listing / "
                         "partial write: where applicable, sampled in quick), default and external temp dir, with and without empty output partitions; "
                         "thorough adds every kind at every position, pairs and bursts up to beyond the retry budget; outcome must be 'raised' (then a "
                         "fault-free overwrite run must reproduce the fault-free dataset) or a dataset identical to the fault-free one; non-trivial = "
                         "the fault actually fired; retry budget 3 attempts")
    chk.assumptions += ["faults are injected at the fsspec call boundary (crash semantics below it are not modelled)", "synchronous scheduler"]
    return chk.finish(proof, level="proof")


def replay(path):
    """re-run the recorded configuration with the recorded fault (the order of the filesystem calls varies from run to run, so the
    fault is tried a few times and at the neighbouring positions); exit 1 when a run returns normally with a different dataset"""
    import dask
    rep = json.load(open(path))
    print(json.dumps({k: rep[k] for k in rep if k not in ("got", "expected")})[:1500])
    if "fault" not in rep:
        return 0
    dask.config.set(scheduler="synchronous")
    r = common.rng(PROP)
    df = make_frame(r, rep["rows"], dup=rep.get("duplicate_points", rep["rows"] == 9))
    root = tempfile.mkdtemp(prefix="spv_c19_replay_")
    try:
        base = one_run(df, rep["input_partitions"], rep["npartitions"], rep["tempdir"], {}, root)
        ref = strip(base["snap"])
        pos, kind = rep["fault"]["position"], rep["fault"]["kind"]
        keys = [tuple(pos)] * 3 if isinstance(pos, list) else [pos, pos, pos - 1, pos + 1, pos - 2, pos + 2]
        for k in keys:
            res = one_run(df, rep["input_partitions"], rep["npartitions"], rep["tempdir"], {k: kind}, root)
            same = res["outcome"] != "returned" or strip(res["snap"]) == ref
            print(json.dumps(dict(plan=[k, kind], fired=[list(x) for x in res["fired"]], outcome=res["outcome"], identical_or_raised=same)))
            if not same:
                got = strip(res["snap"])
                print(json.dumps({d: dict(got=got[d], expected=ref[d]) for d in ref if got.get(d) != ref[d]})[:2000])
                return 1
    finally:
        shutil.rmtree(root, ignore_errors=True)
    return 0
