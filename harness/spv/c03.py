"""C03 — R-tree queries return exactly the intersecting / covered boxes.

HilbertRtree (intersects, covers_overlaps, total_bounds; fresh, re-queried and pickled instances) against the
Lean page-tree model `RTree.*` run with the implementation's own key permutation and page size, and against a
numpy brute force.  All results of one tree are collected before any is compared (results must not alias)."""
import itertools
import json
import pickle

import numpy as np

from . import common
from .common import Check, drive, tok, untok

PROP = "C03"
NAN = float("nan")


def boxes_1d(vals):
    return [[a, b] for a in vals for b in vals if a <= b]


def boxes_nd(vals, d):
    one = boxes_1d(vals)
    out = []
    for combo in itertools.product(one, repeat=d):
        out.append([c[0] for c in combo] + [c[1] for c in combo])
    return out


def brute(rows, q, d):
    inter, cov, ovl = [], [], []
    for i, r in enumerate(rows):
        if any(x != x for x in r):
            continue
        o = all(q[k] <= r[d + k] and r[k] <= q[d + k] for k in range(d))
        c = all(q[k] <= r[k] and r[d + k] <= q[d + k] for k in range(d))
        if o:
            inter.append(i)
            (cov if c else ovl).append(i)
    return inter, cov, ovl


def run_tree(chk, rows, d, p, ps, queries, tag, with_pickle=False):
    from spatialpandas.spatialindex import HilbertRtree
    n = len(rows)
    b = np.asarray(rows, dtype=np.float64).reshape(n, 2 * d)
    rep = dict(api="HilbertRtree", d=d, p=p, page_size=ps, rows=rows)
    has_nan = any(any(x != x for x in r) for r in rows)
    cls = ("nan-row" if has_nan else "finite") + ("/" + ("empty" if n == 0 else "ragged" if n % max(ps, 1) else "full"))
    try:
        rt = HilbertRtree(b, p=p, page_size=ps)
        if with_pickle:
            rt.intersects(tuple(queries[0]))
            rt = pickle.loads(pickle.dumps(rt))
        res_i = [rt.intersects(tuple(q)) for q in queries]
        res_c = [rt.covers_overlaps(tuple(q)) for q in queries]
        res_i2 = [rt.intersects(tuple(q)) for q in queries[:3]]
        tb = list(rt.total_bounds)
    except Exception as e:  # noqa: BLE001
        chk.violation(f"rtree/raises-{common.err_kind(e)}/{cls}", dict(rep, error=repr(e)[:300]), size=n)
        return
    keys = []
    try:
        k = [int(x) for x in rt._keys]
        valid = [i for i, r in enumerate(rows) if not any(x != x for x in r)]
        if sorted(k) == valid:
            keys = k
    except Exception:  # noqa: BLE001
        keys = []
    line = "rtree %d %d %s %s %s" % (d, max(1, ps), tok(rows), tok(keys), tok(queries))
    out = drive([line])[0]
    if out == "bad-op":
        raise RuntimeError("driver rejected: " + line[:300])
    mtb, mres = untok(out)
    chk.evaluated(len(queries))
    fix = lambda r: ["nan" if (isinstance(x, float) and x != x) else int(x) for x in r]  # noqa: E731
    if n and fix(tb) != fix(mtb):
        chk.violation(f"rtree/total_bounds-differs/{cls}", dict(rep, impl=fix(tb), model=fix(mtb)), size=n)
    if n == 0 and not all(x != x for x in tb):
        chk.violation("rtree/total_bounds-not-nan/empty", dict(rep, impl=fix(tb)), size=0)
    depth = 0 if n <= max(ps, 1) else 1
    for qi, q in enumerate(queries):
        mi, mc, mo = mres[qi]
        gi = sorted(int(x) for x in res_i[qi])
        gc = sorted(int(x) for x in res_c[qi][0])
        go = sorted(int(x) for x in res_c[qi][1])
        bi, bc, bo = brute(rows, q, d)
        if (mi, mc, mo) != (bi, bc, bo):
            chk.tie_broken(f"R-tree model disagrees with brute force: rows={rows} ps={ps} q={q} model={(mi, mc, mo)} brute={(bi, bc, bo)}")
            return
        tie = any(q[k] == r[d + k] or q[d + k] == r[k] or q[k] == r[k] or q[d + k] == r[d + k]
                  for r in rows if not any(x != x for x in r) for k in range(d))
        if depth or tie or has_nan:
            chk.nontriv(hash((tag, json.dumps(rows), p, ps, tuple(q))))
        if gi != mi:
            what = "nan-row-reported" if any(any(x != x for x in rows[i]) for i in gi if i < n) else \
                ("row-twice" if len(set(gi)) != len(gi) else ("row-missing" if set(mi) - set(gi) else "extra-row"))
            chk.violation(f"rtree/intersects/{what}/{cls}", dict(rep, query=q, impl=gi, model=mi), size=n)
        if gc != mc or go != mo:
            what = "nan-row-reported" if any(any(x != x for x in rows[i]) for i in gc + go if i < n) else "wrong-split"
            chk.violation(f"rtree/covers_overlaps/{what}/{cls}", dict(rep, query=q, impl_covers=gc, impl_overlaps=go,
                                                                     model_covers=mc, model_overlaps=mo), size=n)
        if qi < 3 and sorted(int(x) for x in res_i2[qi]) != gi:
            chk.violation(f"rtree/intersects/repeat-differs/{cls}", dict(rep, query=q), size=n)
    chk.count(f"d={d}", len(queries)); chk.count("class:" + cls, len(queries))
    chk.count("ps=" + ("1" if ps <= 1 else "n" if ps == n else "<n" if ps < n else ">n"), len(queries))


def index_arithmetic(chk, tier):
    """tie of `Model/RTreeIndex.lean` (C03_index_arithmetic) to the code: `_start_index` / `_stop_index` of the real `_NumbaRtree` for every
    node of trees of every shape (row counts around the powers of two, ragged last page) against the model"""
    from spatialpandas.spatialindex import HilbertRtree
    sizes = list(range(1, 20)) + [31, 32, 33, 63, 64, 65] + ([127, 128, 129, 1023, 1025] if tier != "quick" else [])
    for n in sizes:
        for ps in (1, 2, 3, 5, 16, 512):
            rows = [[i % 7, i % 5, i % 7 + 1, i % 5 + 2] for i in range(n)]
            try:
                rt = HilbertRtree(np.asarray(rows, dtype=np.float64), page_size=ps)
                nr = rt.numba_rtree
                length = int(nr._bounds_tree.shape[0])
                impl = [[int(nr._start_index(k)), int(nr._stop_index(k))] for k in range(length)]
            except Exception as e:  # noqa: BLE001
                chk.violation(f"rtree/raises-{common.err_kind(e)}/index-arithmetic", dict(api="HilbertRtree", n=n, page_size=ps, error=repr(e)[:300]), size=n)
                return
            model = untok(drive([f"rtidx {length} {ps}"])[0])
            chk.evaluated(length)
            if model != impl:
                chk.tie_broken(f"correspondence C03 index arithmetic (Model/RTreeIndex.lean vs _NumbaRtree._start_index/_stop_index): "
                               f"n={n} page_size={ps} tree_length={length} impl={impl[:8]} model={str(model)[:120]}")
                return
            chk.count("index-arithmetic-trees")


def bounds_tree_tie(chk, tier, r):
    """tie of the hypothesis `Arr.Holds` of C03_array_traversal: the rows of the real `bounds_tree` (NaN row = absent page) are the boxes
    of the sub-trees of the page tree over the implementation's own sorted rows, in heap order"""
    from spatialpandas.spatialindex import HilbertRtree
    for k in range(60 if tier == "quick" else 600):
        d = r.choice((1, 2, 2, 3))
        n = r.choice((1, 2, 3, 4, 5, 7, 8, 9, 16, 17, 33))
        ps = r.choice((1, 2, 3, 4, 512))
        rows = []
        for _ in range(n):
            lo = [r.randint(0, 9) for _ in range(d)]
            rows.append(lo + [x + r.choice((0, 1, 3)) for x in lo])
        if r.random() < 0.3:
            rows[r.randrange(n)] = [NAN] * (2 * d)
        try:
            rt = HilbertRtree(np.asarray(rows, dtype=np.float64).reshape(n, 2 * d), p=r.choice((1, 5, 10)), page_size=ps)
        except Exception as e:  # noqa: BLE001
            chk.violation(f"rtree/raises-{common.err_kind(e)}/{'nan-row' if any(x != x for row in rows for x in row) else 'finite'}/bounds-tree",
                          dict(api="HilbertRtree", d=d, page_size=ps, rows=rows, error=repr(e)[:300]), size=n)
            continue
        keys = [int(x) for x in rt._keys]
        sb = np.asarray(rt._sorted_bounds)
        if not keys:
            continue
        if np.isnan(sb).any():
            chk.violation("rtree/nan-row-kept-in-the-tree/bounds-tree", dict(api="HilbertRtree", d=d, page_size=ps, rows=rows, sorted_bounds=str(sb.tolist())[:300]), size=n)
            continue
        srt = "[ " + " ".join("[ %d %s ]" % (kk, " ".join(str(int(v)) for v in sb[i])) for i, kk in enumerate(keys)) + " ]"
        outs = drive([f"btree {d} {ps} {srt}", f"btreec {d} {ps} {srt}"])
        model, coded = untok(outs[0]), untok(outs[1])
        impl = [None if np.isnan(row[0]) else [int(v) for v in row] for row in np.asarray(rt._bounds_tree)]
        chk.evaluated(len(impl))
        if model != impl:
            chk.tie_broken(f"correspondence C03 bounds_tree (Model/RTreeArr.lean boundsTree vs _build_hilbert_rtree): d={d} page_size={ps} rows={rows} "
                           f"impl={impl[:6]} model={str(model)[:200]}")
            return
        if coded != impl:
            chk.tie_broken(f"correspondence C03 bounds_tree, coded bottom-up pass (Model/RTreeFill.lean fill vs _build_hilbert_rtree): d={d} page_size={ps} "
                           f"rows={rows} impl={impl[:6]} model={str(coded)[:200]}")
            return
        chk.count("bounds_tree-compared")


def array_level(chk, tier, r):
    """the index as users reach it: `arr.sindex` / `GeoSeries.sindex` / `build_sindex(...)` of geometry arrays with missing and empty
    elements at any position - the rows reported must be positions in the array, exactly those whose bounds overlap / are covered"""
    from . import geo
    from spatialpandas import GeoSeries
    for k in range(40 if tier == "quick" else 400):
        kind = r.choice(("point", "line", "multipoint", "polygon"))
        n = r.randint(1, 9)
        els = geo.structured_elements(kind, r, n, mag=9)
        for _ in range(r.choice((0, 1, 2))):
            els[r.randrange(len(els))] = None if r.random() < 0.6 or kind == "point" else []
        arr = geo.make_array(kind, els, "float64")
        bnds = np.asarray(arr.bounds).reshape(len(els), 4).tolist()
        ps = r.choice((1, 2, 3, 512))
        how = k % 3
        try:
            if how == 0:
                arr.build_sindex(page_size=ps)
                idx = arr.sindex
            elif how == 1:
                s = GeoSeries(arr).build_sindex(page_size=ps)
                idx = s.sindex
            else:
                idx = arr.sindex
            qs = [[r.randint(-10, 5), r.randint(-10, 5)] for _ in range(6)]
            qs = [q + [q[0] + r.choice((0, 3, 9, 25)), q[1] + r.choice((0, 3, 9, 25))] for q in qs] + [[-50, -50, 50, 50]]
            # queries without a bound on some side: half planes, strips, everything
            inf = float("inf")
            qs += [[-inf, -inf, inf, inf], [-inf, r.randint(-5, 5), r.randint(-5, 5), inf], [r.randint(-5, 5), -inf, inf, r.randint(-5, 5)],
                   [-inf, -inf, r.randint(-5, 5), r.randint(-5, 5)]]
            for q in qs:
                gi = sorted(int(x) for x in idx.intersects(tuple(q)))
                co = idx.covers_overlaps(tuple(q))
                gc, go = sorted(int(x) for x in co[0]), sorted(int(x) for x in co[1])
                bi, bc, bo = brute(bnds, q, 2)
                chk.evaluated()
                if (gi, gc, go) != (bi, bc, bo):
                    what = "intersects" if gi != bi else "covers_overlaps"
                    chk.violation(f"rtree/array-level/{what}-differs/{'with-missing' if any(e is None or e == [] for e in els) else 'all-valid'}",
                                  dict(api=("GeometryArray.sindex", "GeoSeries.sindex", "GeometryArray.sindex (default)")[how], kind=kind, elements=els,
                                       page_size=ps, query=q, impl=dict(intersects=gi, covers=gc, overlaps=go),
                                       expected=dict(intersects=bi, covers=bc, overlaps=bo)), size=len(els))
                    break
            chk.count("array-level-index:" + ("missing" if any(e is None or e == [] for e in els) else "valid"))
            # an array derived from one that already has an index answers for its own rows
            for dname, f in (("[::-1]", lambda a: a[::-1]), ("[:]", lambda a: a[:]), ("[::2]", lambda a: a[::2]), ("[1:]", lambda a: a[1:]))[: (4 if k % 2 else 1)]:
                sub = f(arr)
                pos = eval("list(range(len(els)))" + dname)
                sb = [bnds[i] for i in pos]
                for q in qs[:5] + qs[6:8]:
                    gi = sorted(int(x) for x in sub.sindex.intersects(tuple(q)))
                    co = sub.sindex.covers_overlaps(tuple(q))
                    bi, bc, bo = brute(sb, q, 2)
                    chk.evaluated()
                    if (gi, sorted(int(x) for x in co[0]), sorted(int(x) for x in co[1])) != (bi, bc, bo):
                        chk.violation(f"rtree/array-level/derived-from-an-indexed-array/{dname}",
                                      dict(api="GeometryArray.sindex", kind=kind, elements=els, derivation=dname, page_size=ps, query=q,
                                           impl=gi, expected=bi), size=len(els))
                        break
        except Exception as e:  # noqa: BLE001
            chk.violation(f"rtree/array-level/raises-{common.err_kind(e)}", dict(api="sindex", kind=kind, elements=els, error=repr(e)[:300]), size=len(els))


def run_cases(chk, tier):
    r = common.rng(PROP)
    index_arithmetic(chk, tier)
    bounds_tree_tie(chk, tier, r)
    array_level(chk, tier, r)
    # d = 1 exhaustive
    vals = (0, 1, 2, 3)
    opts = boxes_1d(vals) + [[NAN, NAN]]
    qs1 = boxes_1d((-1, 0, 1, 2, 3, 4))
    nmax = 3 if tier == "quick" else 4
    trees = 0
    for n in range(0, nmax + 1):
        for rows in itertools.product(opts, repeat=n):
            rows = [list(x) for x in rows]
            pss = sorted({1, 2, 3, max(1, n - 1), n + 1, 512}) if n else [1, 512]
            if tier == "quick" and n == 3:
                pss = r.sample(pss, 2)
            for ps in pss:
                run_tree(chk, rows, 1, r.choice((1, 2, 5, 10, 31)), ps, qs1 if n <= 2 or tier != "quick" else r.sample(qs1, 8),
                         "d1", with_pickle=(trees % 97 == 0))
                trees += 1
    chk.sample(dict(scope="d=1 exhaustive", n_max=nmax, endpoints=list(vals), nan_rows=True, trees=trees), cap=10)
    # d = 2 exhaustive small
    opts2 = boxes_nd((0, 1, 2), 2) + [[NAN] * 4]
    qs2 = boxes_nd((-1, 0, 1, 2, 3), 2)
    t2 = 0
    for n in (1, 2):
        for rows in itertools.product(opts2, repeat=n):
            if tier == "quick" and n == 2 and r.random() > 0.25:
                continue
            rows = [list(x) for x in rows]
            run_tree(chk, rows, 2, r.choice((1, 2, 5, 10, 31)), r.choice((1, 2, 3, 512)), r.sample(qs2, 12), "d2")
            t2 += 1
    chk.sample(dict(scope="d=2 small exhaustive", trees=t2), cap=10)
    # sampled larger trees with many ties
    rounds = 120 if tier == "quick" else 1500
    for k in range(rounds):
        d = r.choice((1, 2, 2, 3))
        n = r.choice((1, 2, 3, 5, 8, 13, 21, 40)) if k % 10 else r.choice((200, 700, 2000) if tier != "quick" else (200, 600))
        span = r.choice((3, 6, 30))
        style = r.choice(("mixed", "identical", "points", "nan-heavy", "mixed"))
        rows = []
        base = [r.randint(0, span) for _ in range(d)]
        for _ in range(n):
            if style == "identical":
                lo = list(base); hi = list(base)
            else:
                lo = [r.randint(0, span) for _ in range(d)]
                hi = [x + (0 if style == "points" else r.choice((0, 0, 1, 2, span))) for x in lo]
            rows.append(lo + hi)
            if r.random() < (0.5 if style == "nan-heavy" else 0.07):
                rows[-1] = [NAN] * (2 * d)
        ps = r.choice([1, 2, 3, max(1, n - 1), n, n + 1, 7, 512])
        p = r.choice((1, 2, 5, 10, 31))
        queries = []
        for _ in range(12 if n < 100 else 30):
            lo = [r.randint(-1, span + 1) for _ in range(d)]
            hi = [x + r.choice((0, 0, 1, 2, span, 2 * span)) for x in lo]
            queries.append(lo + hi)
        queries.append([-5] * d + [3 * span + 5] * d)      # covers everything
        queries.append([span + 20] * d + [span + 30] * d)  # disjoint from everything
        run_tree(chk, rows, d, p, ps, queries, "sampled", with_pickle=(k % 11 == 0))
        if k < 3:
            chk.sample(dict(scope="sampled", d=d, n=n, p=p, page_size=ps, rows=rows[:6], queries=queries[:3]), cap=10)


def main(tier):
    chk = Check(PROP, tier)
    proof = common.proof_side(PROP, leanchecker=(tier == "thorough"))
    if common.import_impl(chk):
        try:
            run_cases(chk, tier)
        except Exception:  # noqa: BLE001
            import traceback
            chk.tie_broken("correspondence C03: implementation could not be driven: " + traceback.format_exc()[-1500:])
    chk.extra["rule"] = ("d=1: every row list of length <= 3 (4 thorough) with integer endpoints in 0..3 or NaN x page sizes x every query on -1..4; "
                         "d=2: every list of <= 2 boxes on {0,1,2}^2 or NaN (sampled in quick); seeded larger trees (n <= 2000, d in 1..3, duplicates, "
                         "points, identical rows, NaN-heavy); non-trivial = tree depth >= 1, or a tie with a query edge, or a NaN row; distinct by "
                         "(rows, p, page_size, query)")
    return chk.finish(proof)


def replay(path):
    rep = json.load(open(path))
    from spatialpandas.spatialindex import HilbertRtree
    rows, d, q = rep["rows"], rep["d"], rep.get("query")
    rt = HilbertRtree(np.asarray(rows, dtype=np.float64).reshape(len(rows), 2 * d), p=rep["p"], page_size=rep["page_size"])
    out = dict(total_bounds=[str(x) for x in rt.total_bounds])
    rc = 0
    if q:
        gi = sorted(int(x) for x in rt.intersects(tuple(q)))
        bi, bc, bo = brute(rows, q, d)
        co = rt.covers_overlaps(tuple(q))
        out.update(impl=gi, expected=bi, impl_covers=sorted(int(x) for x in co[0]), expected_covers=bc)
        rc = 0 if gi == bi and out["impl_covers"] == bc else 1
    print(json.dumps(out)); return rc
