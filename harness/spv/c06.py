"""C06 — a Dask geo frame answers exactly like the pandas frame it represents.

For frames of every kind, partitionings (incl. empty / all-missing partitions) and provenances (from_pandas, row
filtering, set_geometry, pack_partitions, to_parquet -> read_parquet_dask with/without geometry= and bounds=):
cx, cx_partitions, bounds, total_bounds, area, length, intersects_bounds and sjoin on the Dask frame against the same
operation on the concatenation of its partitions (same active geometry), and partition_bounds / total_bounds /
cx_partitions / cx against the Lean partition model `Dask.*`."""
import json
import math
import os
import shutil
import tempfile

import numpy as np
import pandas as pd

from . import common, geo
from .common import Check, drive, tok, untok

PROP = "C06"


def f(x):
    x = float(x)
    return "nan" if math.isnan(x) else x


def rows_of(df, geom_cols):
    out = []
    for lab, (_, row) in zip(df.index, df.iterrows()):
        d = {"__index__": str(lab)}
        for c in df.columns:
            if c in geom_cols:
                v = row[c]
                d[c] = "null" if v is None or (isinstance(v, float) and math.isnan(v)) else json.dumps(
                    [float(x) for x in v.flat_values] if not hasattr(v, "listarray") else _fl(v.data.as_py()))
            else:
                v = row[c]
                d[c] = "nan" if (isinstance(v, float) and math.isnan(v)) else (float(v) if isinstance(v, (int, float, np.integer, np.floating)) else str(v))
        out.append(json.dumps(d, sort_keys=True))
    return out


def _ints(e):
    if isinstance(e, list):
        return [_ints(x) for x in e]
    return int(e)


def _fl(e):
    if isinstance(e, list):
        return [_fl(x) for x in e]
    return None if e is None else float(e)


def partitions_of(ddf):
    import dask
    return list(dask.compute(*ddf.to_delayed(), scheduler="synchronous"))


def represented(ddf):
    """the pandas frame a Dask frame represents: concatenation of its partitions, same active geometry"""
    from spatialpandas import GeoDataFrame
    parts = partitions_of(ddf)
    active = ddf._meta.geometry.name
    pdf = pd.concat([pd.DataFrame(p) for p in parts]) if parts else pd.DataFrame(ddf._meta)
    g = GeoDataFrame(pdf)
    return g.set_geometry(active), parts, active


def model_dask(kind, box, parts_els):
    out = drive(["dask %s %s %s" % (kind, tok([int(b) for b in box]), tok(parts_els))])[0]
    if out == "bad-op":
        raise RuntimeError("driver rejected dask op")
    total, pbounds, cxparts, cxrows, pandas_rows = untok(out)
    return total, pbounds, cxparts, cxrows, pandas_rows


def nanrow(r):
    return ["nan" if (isinstance(x, float) and x != x) else x for x in r]


def compare_ops(chk, r, ddf, kind_of_active, prov, rep, boxes, right=None, source=None):
    from spatialpandas import sjoin
    pdf, parts, active = represented(ddf)
    geom_cols = [c for c in pdf.columns if hasattr(pdf[c].dtype, "subtype")]
    rep = dict(rep, provenance=prov, partition_sizes=[len(p) for p in parts], active=active)
    if source is not None:
        # the partitions must hold the rows of the pandas frame the Dask frame was built from (and of no other live frame)
        src_cols = [c for c in source.columns if hasattr(source[c].dtype, "subtype")]
        if rows_of(pdf, geom_cols) != rows_of(source, src_cols):
            chk.violation(f"dask/partitions-are-not-the-rows-of-the-source-frame/{prov.split('(')[0]}",
                          dict(rep, dask=rows_of(pdf, geom_cols)[:4], source=rows_of(source, src_cols)[:4]))
            return
    n = len(pdf)
    chk.evaluated(max(1, n))
    sig = lambda what: f"dask/{what}/{prov.split('(')[0]}"  # noqa: E731
    try:
        # element-wise maps
        b1 = ddf.geometry.bounds.compute(); b0 = pdf.geometry.bounds
        if [[f(c) for c in row] for row in b1.values.tolist()] != [[f(c) for c in row] for row in b0.values.tolist()] or list(b1.index) != list(b0.index):
            chk.violation(sig("bounds-differ"), rep); return
        for name in ("area", "length"):
            v1 = getattr(ddf.geometry, name).compute(); v0 = getattr(pdf.geometry, name)
            if [f(x) for x in v1.values] != [f(x) for x in v0.values] or list(v1.index) != list(v0.index):
                chk.violation(sig(f"{name}-differs"), rep); return
        t1 = [f(x) for x in ddf.geometry.total_bounds]; t0 = [f(x) for x in pdf.geometry.total_bounds]
        if t1 != t0:
            chk.violation(sig("total_bounds-differs"), dict(rep, dask=t1, pandas=t0)); return
        chk.count("op:elementwise+total")
        # every geometry column selected as a series answers like the pandas column (cached partition bounds must still apply)
        for c in geom_cols:
            gs1, gs0 = ddf[c], pdf[c]
            tc1 = [f(x) for x in gs1.total_bounds]; tc0 = [f(x) for x in gs0.total_bounds]
            if tc1 != tc0:
                chk.violation(sig("column-total_bounds-differs/" + ("active" if c == active else "other-geometry-column")),
                              dict(rep, column=c, dask=tc1, pandas=tc0)); return
            pb = gs1.partition_bounds
            want = [[f(x) for x in p[c].total_bounds] for p in parts]
            if [[f(x) for x in row] for row in pb.values.tolist()] != want:
                chk.violation(sig("column-partition_bounds-differ/" + ("active" if c == active else "other-geometry-column")),
                              dict(rep, column=c, dask=pb.values.tolist(), true=want)); return
            for box in boxes[:2]:
                s1 = gs1.cx[box[0]:box[2], box[1]:box[3]].compute(); s0 = gs0.cx[box[0]:box[2], box[1]:box[3]]
                if list(s1.index) != list(s0.index):
                    chk.violation(sig("column-cx-differs/" + ("active" if c == active else "other-geometry-column")),
                                  dict(rep, column=c, box=list(box), dask=list(s1.index), pandas=list(s0.index))); return
        chk.count("op:per-column-series", len(geom_cols))
        # partition model
        active_els = [geo.to_elements(p[active].array) for p in parts]
        exact = all(all(isinstance(c, (int, float)) and float(c) == int(c) for v in geo.verts_of(kind_of_active, e) for c in v) for pe in active_els for e in pe)
        for box in boxes:
            ib1 = ddf.geometry.intersects_bounds(box).compute(); ib0 = pdf.geometry.intersects_bounds(box)
            if list(ib1.values) != list(ib0.values):
                chk.violation(sig("intersects_bounds-differs"), dict(rep, box=list(box))); return
            c1 = ddf.cx[box[0]:box[2], box[1]:box[3]].compute()
            c0 = pdf.cx[box[0]:box[2], box[1]:box[3]]
            r1, r0 = rows_of(c1, geom_cols), rows_of(c0, geom_cols)
            if r1 != r0:
                inert = any(json.loads(x)[active] == "null" for x in r1)
                what = "cx-selects-inert-row" if inert else ("cx-rows-missing" if set(r0) - set(r1) else ("cx-extra-rows" if set(r1) - set(r0) else "cx-order-differs"))
                chk.violation(sig(what), dict(rep, box=list(box), dask=r1[:8], pandas=r0[:8])); return
            cp = ddf.cx_partitions[box[0]:box[2], box[1]:box[3]]
            cpr = rows_of(cp.compute(), geom_cols)
            if not set(r0) <= set(cpr):
                chk.violation(sig("cx_partitions-loses-row"), dict(rep, box=list(box))); return
            whole = [rows_of(p, geom_cols) for p in parts]
            if cpr and not any(cpr == [x for pi in combo for x in whole[pi]] for combo in _subsets(len(parts))):
                chk.violation(sig("cx_partitions-not-whole-partitions"), dict(rep, box=list(box))); return
            if exact and kind_of_active:
                total, pbounds, cxparts, cxrows, prow = model_dask(kind_of_active, box, [[_fl(e) for e in pe] for pe in active_els])
                if cxrows != prow:
                    chk.tie_broken(f"model: daskCx != cxMask of the concatenation for {rep}"); return
                all_rows = rows_of(pdf, geom_cols)
                if [all_rows[i] for i in cxrows] != r1:
                    chk.violation(sig("cx-differs-from-model"), dict(rep, box=list(box), model_rows=cxrows, dask=r1[:8])); return
                pb = ddf.geometry.partition_bounds
                got_pb = [nanrow([f(c) if f(c) == "nan" else int(c) for c in row]) for row in pb.values.tolist()]
                if got_pb != [nanrow(x) for x in pbounds]:
                    chk.violation(sig("partition_bounds-differ-from-model"), dict(rep, impl=got_pb, model=pbounds)); return
                chk.count("model:partition-level")
            chk.nontriv(hash((prov, json.dumps(rep.get("elements"), default=str), tuple(box), tuple(len(p) for p in parts))))
        chk.count("op:cx+cx_partitions", len(boxes))
        if right is not None and kind_of_active == "point":
            for how in ("inner", "left"):
                j1 = sjoin(ddf, right, how=how).compute()
                j0 = sjoin(pdf, right, how=how)
                g = [c for c in j0.columns if hasattr(j0[c].dtype, "subtype")]
                if sorted(rows_of(j1, g)) != sorted(rows_of(j0, g)):
                    chk.violation(sig(f"sjoin-{how}-differs"), dict(rep, dask=sorted(rows_of(j1, g))[:6], pandas=sorted(rows_of(j0, g))[:6])); return
                chk.count("op:sjoin-" + how)
                # the Lean model of the Dask join (`DaskJoin.daskJoin` with `keepOverlap`): its rows and, for every partition with
                # bounds, its candidate set must be the implementation's
                lparts = [[None if e is None else [int(c) for c in e] for e in geo.to_elements(p[active].array)] for p in parts]
                rshapes = geo.to_elements(right.geometry.array)
                rkind = str(right.geometry.dtype).split("[")[0]
                if exact and all(float(c) == int(c) for e in rshapes if e is not None for v in geo.verts_of(rkind, e) for c in v):
                    out = drive([f"dsjoin {how} {tok(lparts)} {rkind} {tok([_fl(e) if e is None else _ints(e) for e in rshapes])}"])[0]
                    if out == "bad-op":
                        chk.tie_broken(f"correspondence C06 dask sjoin: model rejects dsjoin for {rep}"); return
                    mrows, mcands, mtbl = untok(out)
                    llab, rlab = [str(x) for x in pdf.index], [x for x in right.index]
                    mpairs = sorted((llab[a], "nan" if b is None else str(rlab[b])) for a, b in mrows)
                    ipairs = sorted((str(a), "nan" if (isinstance(b, float) and math.isnan(b)) else str(int(b))) for a, b in zip(j1.index, j1["index_right"]))
                    if mpairs != ipairs:
                        chk.violation(sig(f"sjoin-{how}-differs-from-model"), dict(rep, model=mpairs[:10], dask=ipairs[:10])); return
                    if sorted(tuple(x) for x in mtbl) != sorted((a, b) for a, b in mrows if b is not None):
                        chk.tie_broken(f"model: pair table from the index prefilter != matched rows of the Dask join for {rep}"); return
                    pbv = ddf.geometry.partition_bounds.values
                    for pi in range(len(parts)):
                        if any(math.isnan(float(x)) for x in pbv[pi]):
                            continue           # NaN query box: whatever the index returns is irrelevant (no row of the partition can match)
                        real = sorted(int(x) for x in right.geometry.sindex.intersects(pbv[pi]))
                        if real != sorted(mcands[pi]):
                            # the joined rows were found right above: which right rows a partition is joined with is internal
                            chk.tie_broken(f"correspondence C06 dask sjoin candidates (DaskJoin.keepOverlap vs right_sindex.intersects): partition={pi} "
                                           f"impl={real} model={mcands[pi]} for {str(rep)[:300]}"); return
                    chk.count("model:dask-sjoin-" + how)
    except Exception as e:  # noqa: BLE001
        import traceback
        chk.violation(sig(f"raises-{common.err_kind(e)}"), dict(rep, error=repr(e)[:300], where=traceback.format_exc()[-600:]))
    chk.count("provenance:" + prov.split("(")[0])


def twin_elements(kind, els):
    """elements with the same flat coordinates and the same number of parts per element, split differently one level down
    (multiline: where a part ends; polygon: where a ring ends; multipolygon: which polygon a ring belongs to)"""
    import copy
    if kind not in ("multiline", "polygon", "multipolygon"):
        return None
    out = copy.deepcopy(els)
    if kind in ("multiline", "polygon"):
        for e in out:
            if e is not None and len(e) >= 2 and len(e[0]) >= 6:
                e[1][:0] = e[0][-2:]; del e[0][-2:]
                return out
        out.append([[0, 0, 1, 0, 2, 0], [2, 5, 3, 5, 4, 5]] if kind == "multiline" else [[0, 0, 6, 0, 6, 6, 0, 6, 0, 0], [1, 1, 1, 2, 2, 2, 1, 1]])
        els.append([[0, 0, 1, 0], [2, 0, 2, 5, 3, 5, 4, 5]] if kind == "multiline" else [[0, 0, 6, 0, 6, 6, 0, 6], [0, 0, 1, 1, 1, 2, 2, 2, 1, 1]])
        return out
    if kind == "multipolygon":
        for e in out:
            if e is not None and len(e) >= 2 and len(e[0]) >= 2:
                e[1].insert(0, e[0].pop())
                return out
        a, b, c = [0, 0, 6, 0, 6, 6, 0, 6, 0, 0], [1, 1, 1, 2, 2, 2, 1, 1], [7, 7, 9, 7, 9, 9, 7, 7]
        out.append([[a, b], [c]]); els.append([[a], [b, c]])
        return out
    return None


def _subsets(k):
    import itertools
    for m in range(1, k + 1):
        for c in itertools.combinations(range(k), m):
            yield c


def parent_after_derived(chk, r, tier):
    """a frame keeps answering like the pandas frame it represents after frames derived from it (another active geometry, a row
    filter) have been built and computed - also when its partitions are concrete objects held in its graph (persist, from_delayed)"""
    import dask
    import dask.dataframe as dd
    from dask import delayed
    from spatialpandas import GeoDataFrame, sjoin
    n = 18
    for k in range(1 if tier == "quick" else 4):
        pa_ = [[r.randint(0, 10), r.randint(0, 10)] for _ in range(n)]
        pb_ = [[r.randint(20, 30), r.randint(20, 30)] for _ in range(n)]
        df = GeoDataFrame({"v": list(range(n)), "a": geo.make_array("point", pa_, "float64"), "b": geo.make_array("point", pb_, "float64")}).set_geometry("a")
        right = GeoDataFrame({"rv": [0, 1], "geometry": geo.make_array("polygon", [[[0, 0, 6, 0, 6, 6, 0, 6, 0, 0]], [[4, 4, 11, 4, 11, 11, 4, 11, 4, 4]]], "float64")})
        want_cx = sorted(int(x) for x in df.cx[2:8, 1:9]["v"])
        jp = sjoin(df, right, how="inner")
        want_join = sorted((int(a), int(b)) for a, b in zip(jp["v"], jp["rv"]))
        for how in ("from_pandas", "persist", "from_delayed"):
            rep = dict(api="DaskGeoDataFrame", provenance=how, points_a=pa_, points_b=pb_, then="set_geometry('b') and a row filter were built and computed")
            try:
                ddf = dd.from_pandas(df, npartitions=3)
                if how == "persist":
                    ddf = ddf.persist()
                elif how == "from_delayed":
                    ddf = dd.from_delayed([delayed(p_) for p_ in dask.compute(*ddf.to_delayed())], meta=ddf._meta)
                d2 = ddf.set_geometry("b")
                d2.cx[20:26, 20:26].compute(); d2.compute(); len(d2.geometry.total_bounds)
                ddf[ddf.v < 7].compute()
                chk.evaluated(n)
                got_cx = sorted(int(x) for x in ddf.cx[2:8, 1:9].compute()["v"])
                jd = sjoin(ddf, right, how="inner").compute()
                got_join = sorted((int(a), int(b)) for a, b in zip(jd["v"], jd["rv"]))
                act = ddf.compute().geometry.name
                if got_cx != want_cx or got_join != want_join or act != "a":
                    what = "cx" if got_cx != want_cx else "sjoin" if got_join != want_join else "active-geometry"
                    chk.violation(f"dask/parent-answers-differently-after-a-derived-frame-was-computed/{what}/{how}",
                                  dict(rep, cx=[got_cx, want_cx], sjoin=[got_join[:8], want_join[:8]], active=str(act)))
            except Exception as e:  # noqa: BLE001
                chk.violation(f"dask/parent-after-derived-raises-{common.err_kind(e)}/{how}", dict(rep, error=repr(e)[:300]))
    chk.count("parent-after-derived")


def run_cases(chk, tier):
    import dask
    import dask.dataframe as dd
    from spatialpandas import GeoDataFrame
    from spatialpandas.io import read_parquet_dask
    from .c01 import random_family
    dask.config.set(scheduler="synchronous")
    r = common.rng(PROP)
    rounds = 3 if tier == "quick" else 25
    tmp_root = tempfile.mkdtemp(prefix="spv_c06_")
    parent_after_derived(chk, common.rng(PROP + "-parent"), tier)
    try:
        for kind in geo.KINDS:
            for k in range(rounds):
                n = r.randint(3, 10)
                els = random_family(kind, r, n, 8)
                for _ in range(r.choice((0, 1, 2))):
                    els[r.randrange(n)] = None
                pts = [[r.randint(-2, 9), r.randint(-2, 9)] for _ in range(n)]
                if r.random() < 0.5:
                    pts[r.randrange(n)] = None
                df = GeoDataFrame({"v": list(range(n)), "shape": geo.make_array(kind, els, "float64"),
                                   "pts": geo.make_array("point", pts, "float64")}, index=[f"i{j}" for j in range(n)])
                right = GeoDataFrame({"rv": [0, 1], "geometry": geo.make_array("polygon", [[[0, 0, 5, 0, 5, 5, 0, 5, 0, 0]], [[3, 3, 9, 3, 9, 9, 3, 9, 3, 3]]], "float64")})
                boxes = [(0, 0, 5, 5), (-100, -100, 100, 100), (r.randint(-3, 4), r.randint(-3, 4), r.randint(5, 9), r.randint(5, 9)), (50, 50, 60, 60)]
                rep = dict(api="DaskGeoDataFrame", kind=kind, elements=els, points=pts)
                npart = r.randint(1, min(n, 6))
                ddf = dd.from_pandas(df, npartitions=npart)
                compare_ops(chk, r, ddf, kind, f"from_pandas({npart})", rep, boxes, source=df)
                # a second live frame with the same coordinates split differently one level down (two versions of a data set)
                els_a = list(els)
                els_b = twin_elements(kind, els_a)
                if els_b is not None:
                    others = {"v": list(range(len(els_a))), "pts": geo.make_array("point", (pts + [[0, 0]])[:len(els_a)], "float64")}
                    df_a = GeoDataFrame(dict({"shape": geo.make_array(kind, els_a, "float64")}, **others))
                    df_b = GeoDataFrame(dict({"shape": geo.make_array(kind, els_b, "float64")}, **others))
                    dd_a, dd_b = dd.from_pandas(df_a, npartitions=npart), dd.from_pandas(df_b, npartitions=npart)
                    compare_ops(chk, r, dd_a, kind, f"from_pandas({npart}), twin alive", dict(rep, elements=els_a), boxes[:2], source=df_a)
                    compare_ops(chk, r, dd_b, kind, f"from_pandas({npart}), twin alive", dict(rep, elements=els_b), boxes[:2], source=df_b)
                    chk.count("twin-frames")
                # row filtering: empty partitions; all-missing partitions
                m = r.choice((2, 3))
                compare_ops(chk, r, ddf[ddf.v % m != 0], kind, "filter", rep, boxes[:2])
                # set_geometry: the other geometry column becomes active
                compare_ops(chk, r, ddf.set_geometry("pts"), "point", "set_geometry", rep, boxes[:2], right=right)
                if k % 2 == 0:
                    try:
                        packed = ddf.pack_partitions(npartitions=min(3, n), p=6)
                        ok = True
                    except Exception:  # noqa: BLE001  (Dask cannot split when all keys are equal: nothing is claimed)
                        ok = False
                    if ok:
                        compare_ops(chk, r, packed, kind, "pack_partitions", rep, boxes[:2])
                # parquet round trip
                path = os.path.join(tmp_root, f"{kind}_{k}.parq")
                ddf.to_parquet(path)
                compare_ops(chk, r, read_parquet_dask(path), kind, "read_parquet_dask", rep, boxes[:3])
                compare_ops(chk, r, read_parquet_dask(path, geometry="pts"), "point", "read_parquet_dask(geometry=)", rep, boxes[:2], right=right)
                b = boxes[2]
                compare_ops(chk, r, read_parquet_dask(path, bounds=b), kind, "read_parquet_dask(bounds=)", rep, boxes[:3])
                shutil.rmtree(path, ignore_errors=True)
                if k == 0:
                    chk.sample(dict(kind=kind, elements=els[:3], npartitions=npart), cap=7)
        # a frame that has answered spatial questions, then its geometry column is replaced in place by other coordinates
        # (D31, recorded as a known finding: the partition extents cached on the object describe the old coordinates)
        for kind in ("point",):
            n = 12
            old_pts = [[i, i] for i in range(n)]
            new_pts = [[100 + i, i] for i in range(n)]
            d_ = dd.from_pandas(GeoDataFrame({"shape": geo.make_array("point", old_pts, "float64"), "v": list(range(n))}), npartitions=3)
            o_ = dd.from_pandas(GeoDataFrame({"shape": geo.make_array("point", new_pts, "float64"), "v": list(range(n))}), npartitions=3)
            rep = dict(api="DaskGeoDataFrame", kind=kind, elements=old_pts, assigned=new_pts, provenance="ddf['shape'] = other['shape'] after a spatial query")
            try:
                d_.cx[0:3, 0:3].compute()
                d_["shape"] = o_["shape"]
                got = sorted(int(x) for x in d_.cx[100:103, 0:3].compute().index)
                tb = [f(x) for x in d_.geometry.total_bounds]
                if got != [0, 1, 2, 3] or tb != [100, 0, 111, 11]:
                    chk.violation("dask/in-place-column-assignment-keeps-stale-partition-bounds", dict(rep, cx=got, expected=[0, 1, 2, 3], total_bounds=tb))
            except Exception as e:  # noqa: BLE001
                chk.violation("dask/in-place-column-assignment-keeps-stale-partition-bounds", dict(rep, error=repr(e)[:200]))
            chk.count("in-place-assignment")
        # more than ten partitions through parquet (partition labels "10", "11" sort before "2" as text)
        for kind in ("point", "line") if tier == "quick" else geo.KINDS:
            n = 26
            els = random_family(kind, r, n, 8) if kind != "point" else [[(7 * i) % 23 - 5, (11 * i) % 19 - 4] for i in range(n)]
            if kind != "point":
                # spread the elements so that partitions have distinct extents
                def shift(e, dx):
                    if isinstance(e, list) and e and not isinstance(e[0], list):
                        return [c + (dx if i % 2 == 0 else 0) for i, c in enumerate(e)]
                    return None if e is None else [shift(x, dx) for x in e]
                els = [shift(e, 20 * (i // 2)) for i, e in enumerate(els)]
            pts = [[(5 * i) % 17, (3 * i) % 13] for i in range(n)]
            df = GeoDataFrame({"v": list(range(n)), "shape": geo.make_array(kind, els, "float64"),
                               "pts": geo.make_array("point", pts, "float64")}, index=[f"i{j}" for j in range(n)])
            right = GeoDataFrame({"rv": [0, 1], "geometry": geo.make_array("polygon", [[[0, 0, 5, 0, 5, 5, 0, 5, 0, 0]], [[3, 3, 9, 3, 9, 9, 3, 9, 3, 3]]], "float64")})
            rep = dict(api="DaskGeoDataFrame", kind=kind, elements=els, points=pts)
            path = os.path.join(tmp_root, f"{kind}_many.parq")
            dd.from_pandas(df, npartitions=13).to_parquet(path)
            boxes = [(0, 0, 5, 5), (-100, -100, 1000, 100), (40, -10, 90, 10), (200, -10, 260, 10)]
            compare_ops(chk, r, read_parquet_dask(path), kind, "read_parquet_dask, 13 partitions", rep, boxes)
            compare_ops(chk, r, read_parquet_dask(path, geometry="pts"), "point", "read_parquet_dask(geometry=), 13 partitions", rep, boxes[:2], right=right)
            compare_ops(chk, r, read_parquet_dask(path, bounds=boxes[2]), kind, "read_parquet_dask(bounds=), 13 partitions", rep, boxes)
            shutil.rmtree(path, ignore_errors=True)
            chk.count("many-partitions")
    finally:
        shutil.rmtree(tmp_root, ignore_errors=True)


def main(tier):
    chk = Check(PROP, tier)
    proof = common.proof_side(PROP, leanchecker=(tier == "thorough"))
    if common.import_impl(chk):
        try:
            run_cases(chk, tier)
        except Exception:  # noqa: BLE001
            import traceback
            chk.tie_broken("correspondence C06: implementation could not be driven: " + traceback.format_exc()[-1500:])
    chk.extra["rule"] = ("frames of 3..10 rows of every kind with a second (point) geometry column and missing rows x provenance {from_pandas(k), row "
                         "filter, set_geometry, pack_partitions, to_parquet -> read_parquet_dask plain / geometry= / bounds=} x boxes; every operation "
                         "compared with the same operation on the concatenation of the partitions; partition_bounds and cx against the Lean partition "
                         "model; distinct by (provenance, elements, box, partition sizes); synchronous scheduler")
    chk.assumptions += ["Dask graph construction / execution, meta inference and from_delayed are exercised, not modelled"]
    return chk.finish(proof)


def replay(path):
    import sys
    return common.generic_replay(sys.modules[__name__], path)
