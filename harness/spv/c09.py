"""C09 — pack_partitions keeps every row and orders rows along the Hilbert curve.

DaskGeoDataFrame.pack_partitions(npartitions, p) for frames with two geometry columns (either active), every input
partitioning (incl. sorted input, empty partitions, coalesced partitions) against: the multiset of complete input rows,
the Hilbert distance of each row's active geometry w.r.t. the whole frame's bounds (pandas-level hilbert_distance,
itself tied to the Lean reference by C08; in the exact regime also directly the Lean `hdist`), monotonicity within and
across partitions, the requested partition count, and the Lean packing model `Pack.pack` run with the cut points Dask
chose (rows = sorted rows cut at those points)."""
import json
import os
import math

import numpy as np
import pandas as pd

from . import common, geo
from .common import Check, drive, tok, untok

PROP = "C09"
_TMP = []


def row_key(row, cols, geom_cols):
    d = {}
    for c in cols:
        v = row[c]
        if c in geom_cols:
            d[c] = "null" if v is None or (isinstance(v, float) and math.isnan(v)) else json.dumps(
                [float(x) for x in v.flat_values] if not hasattr(v, "listarray") else v.data.as_py())
        else:
            d[c] = float(v) if isinstance(v, (int, float, np.integer, np.floating)) else str(v)
    return json.dumps(d, sort_keys=True)


def run_case(chk, r, kind, els, pts, active, in_parts, npart, p, tag, coalesce=False, pruned_read=False, shuffle=None):
    import dask
    import dask.dataframe as dd
    from spatialpandas import GeoDataFrame
    n = len(els)
    df = GeoDataFrame({"v": list(range(n)), "s": [f"t{i % 3}" for i in range(n)], "geometry": geo.make_array(kind, els, "float64"),
                       "anchor": geo.make_array("point", pts, "float64")}).set_geometry(active)
    rep = dict(api="pack_partitions", kind=kind, elements=els, points=pts, active=active, input_partitions=in_parts, npartitions=npart, p=p,
               coalesced=coalesce, pruned_read=pruned_read, shuffle=shuffle)
    ddf = dd.from_pandas(df, npartitions=in_parts)
    if coalesce and in_parts > 1:
        ddf = ddf.repartition(npartitions=max(1, in_parts // 2))
    if pruned_read:
        # the frame to pack is what read_parquet_dask(bounds=...) loads of a larger dataset: a partition far away is on disk but pruned;
        # the frame's own total bounds (not the dataset's) define the curve
        import shutil
        import tempfile
        from spatialpandas.io import read_parquet_dask
        far = GeoDataFrame({"v": [900, 901], "s": ["far", "far"], "geometry": geo.make_array(kind, [els[0], els[0]], "float64"),
                            "anchor": geo.make_array("point", [[5000, 5000], [5008, 5008]], "float64")}).set_geometry(active)
        if kind == "point":
            far["geometry"] = geo.make_array("point", [[5000, 5000], [5008, 5008]], "float64")
        tmpd = tempfile.mkdtemp(prefix="spv_c09_")
        _TMP.append(tmpd)               # the loaded frame reads from it lazily: removed at the end of run_cases
        try:
            path = os.path.join(tmpd, "ds.parq")
            big = dd.concat([ddf, dd.from_pandas(far, npartitions=1)])
            big.to_parquet(path)
            rd = read_parquet_dask(path, geometry=active, bounds=(-100, -100, 100, 100) if pts[0] is None or abs(pts[0][0]) < 1000 else
                                   (2 ** 20 - 100, -(2 ** 21) - 100, 2 ** 20 + 100, -(2 ** 21) + 100))
            loaded = rd.compute()
            if sorted(loaded["v"]) != list(range(n)) or active != "anchor":
                return None            # the box did not separate the two groups (shapes near the far partition): not this scenario
            df = GeoDataFrame(loaded).set_geometry(active)
            ddf = rd
        finally:
            pass
    try:
        packed = ddf.pack_partitions(npartitions=npart, p=p) if shuffle is None else ddf.pack_partitions(npartitions=npart, p=p, shuffle=shuffle)
        parts = list(dask.compute(*packed.to_delayed(), scheduler="synchronous"))
        from spatialpandas import GeoDataFrame as _G
        if any(not isinstance(p_, _G) or getattr(p_, "_geometry", None) != active for p_ in parts):
            chk.violation(f"pack_partitions/result-is-not-a-geo-frame-with-the-active-column/shuffle={shuffle or 'default'}",
                          dict(rep, partition_types=[type(p_).__name__ for p_ in parts], partition_active=[str(getattr(p_, "_geometry", None)) for p_ in parts]), size=n)
            return
    except Exception as e:  # noqa: BLE001
        distinct = len(set(int(x) for x in df[active].array.hilbert_distance(p=p)))
        if distinct < npart or "divisions" in repr(e).lower() or "unique" in repr(e).lower():
            chk.count("skipped: Dask cannot split (fewer distinct distances than partitions)")
            return
        chk.violation(f"pack_partitions/raises-{common.err_kind(e)}/{'coalesced' if coalesce else 'plain'}", dict(rep, error=repr(e)[:300]), size=n)
        return
    chk.evaluated(n)
    geom_cols = ["geometry", "anchor"]
    cols = ["v", "s", "geometry", "anchor"]
    tb = list(df[active].array.total_bounds)
    want_h = [int(x) for x in df[active].array.hilbert_distance(total_bounds=tb, p=p)]
    want = sorted((h, row_key(row, cols, geom_cols)) for h, (_, row) in zip(want_h, df.iterrows()))
    got = []
    for part in parts:
        got.append([(int(h), row_key(row, cols, geom_cols)) for h, (_, row) in zip(part.index, part.iterrows())])
    flat = [x for part in got for x in part]
    if sorted(x[1] for x in flat) != sorted(x[1] for x in want):
        what = "rows-lost" if len(flat) < len(want) else ("rows-duplicated" if len(flat) > len(want) else "rows-altered")
        chk.violation(f"pack_partitions/{what}", dict(rep, n_in=len(want), n_out=len(flat)), size=n); return
    if sorted(flat) != want:
        chk.violation(f"pack_partitions/index-is-not-the-hilbert-distance-of-the-active-geometry/{'coalesced' if coalesce else 'plain'}",
                      dict(rep, impl=sorted(flat)[:6], expected=want[:6]), size=n); return
    keys = [x[0] for x in flat]
    if keys != sorted(keys):
        chk.violation("pack_partitions/not-sorted-within-or-across-partitions", dict(rep, keys=keys), size=n); return
    if len(parts) != npart or packed.npartitions != npart:
        dup = len(set(want_h)) < len(want_h)
        fewer = len(parts) < npart
        small = dup or n < 12
        cls = ("fewer-partitions/duplicate-distances-or-fewer-than-12-rows" if (fewer and small) else
               ("fewer-partitions/12-or-more-rows-with-distinct-distances" if fewer else "more-partitions"))
        chk.violation(f"pack_partitions/wrong-partition-count/{cls}", dict(rep, got=len(parts), distances=sorted(want_h)), size=n)
        if not (fewer and small):
            return
    if packed.index.name != "hilbert_distance":
        chk.violation("pack_partitions/index-name", dict(rep, got=str(packed.index.name)), size=n); return
    if any(k < 0 or k >= 4 ** p for k in keys):
        chk.violation("pack_partitions/index-outside-the-curve-range", dict(rep, keys=[k for k in keys if k < 0 or k >= 4 ** p][:6], p=p), size=n); return
    # the Lean packing model with Dask's cut points
    cuts = list(np.cumsum([len(p_) for p_ in got])[:-1])
    out = drive(["pack %s %s" % (tok([int(c) for c in cuts]), tok(want_h))])[0]
    model = untok(out)
    if not isinstance(model, list):
        chk.tie_broken(f"correspondence C09: packing model rejects {str(out)[:80]} for cuts={cuts} keys={want_h[:8]}"); return
    model_keys = [[k for k, _ in part] for part in model] if model else []
    if model_keys != [[k for k, _ in part] for part in got]:
        chk.violation("pack_partitions/partition-contents-differ-from-model", dict(rep, impl=[[k for k, _ in part] for part in got], model=model_keys), size=n); return
    # whole-frame model in the exact regime
    w, h = tb[2] - tb[0], tb[3] - tb[1]
    if all(float(v).is_integer() for v in tb) and all(v == 0 or (int(v) & (int(v) - 1)) == 0 for v in (w, h)) and active == "anchor":
        rows = [None if q is None else [q[0], q[1], q[0], q[1]] for q in pts]
        m = untok(drive(["hdist %d %s %s" % (p, tok([int(v) for v in tb]), tok(rows))])[0])
        mh = [x[2] for x in m if x is not None]
        ih = [hh for hh, q in zip(want_h, pts) if q is not None]
        if mh != ih:
            chk.violation("pack_partitions/distance-differs-from-lean-reference", dict(rep, impl=ih, model=mh), size=n); return
        chk.count("lean-reference-distances")
    if packed._meta.geometry.name != active:
        chk.violation("pack_partitions/active-geometry-changed", dict(rep, got=packed._meta.geometry.name), size=n); return
    # packing what was packed before (another curve order): again indexed by the distances for the requested p, nothing left over
    if r.random() < 0.4:
        p2 = p + 2 if p <= 18 else p - 3
        try:
            re_parts = list(dask.compute(*packed.pack_partitions(npartitions=npart, p=p2).to_delayed(), scheduler="synchronous"))
        except Exception as e:  # noqa: BLE001
            if "divisions" in repr(e).lower() or "unique" in repr(e).lower():
                re_parts = None
            else:
                chk.violation(f"pack_partitions/repack-raises-{common.err_kind(e)}", dict(rep, p2=p2, error=repr(e)[:300]), size=n); return
        if re_parts is not None:
            want2 = sorted((int(h2), row_key(row, cols, geom_cols)) for h2, (_, row) in
                           zip(df[active].array.hilbert_distance(total_bounds=tb, p=p2), df.iterrows()))
            extra = sorted({c for part in re_parts for c in part.columns} - set(cols))
            got2 = sorted((int(h2), row_key(row, cols, geom_cols)) for part in re_parts for h2, (_, row) in zip(part.index, part.iterrows()))
            if got2 != want2 or extra:
                chk.violation("pack_partitions/repacking-a-packed-frame-keeps-the-old-index", dict(rep, p2=p2, extra_columns=extra, impl=got2[:5], expected=want2[:5]), size=n); return
            chk.count("repacked")
    chk.nontriv(hash((tag, kind, json.dumps(els), active, in_parts, npart, p, coalesce)))
    chk.count(f"npartitions={npart}"); chk.count("active:" + active); chk.count("coalesced" if coalesce else "plain")
    return sorted(flat)


def run_cases(chk, tier):
    import shutil
    try:
        _run_cases(chk, tier)
    finally:
        while _TMP:
            shutil.rmtree(_TMP.pop(), ignore_errors=True)


def derived_frames(chk, r, tier):
    """frames derived from a frame that has already answered spatial questions (its partition bounds and index are memoised), or that
    was packed before: the index of the packed result is the Hilbert distance of each row's active geometry against the total bounds
    of the frame that is packed, for the p that is asked"""
    import dask
    import dask.dataframe as dd
    from spatialpandas import GeoDataFrame
    dask.config.set(scheduler="synchronous")
    n = 60
    for k in range(2 if tier == "quick" else 8):
        pts = [[r.randint(0, 64), r.randint(0, 64)] for _ in range(n)]
        pts2 = [[r.randint(100, 140), r.randint(-30, 30)] for _ in range(n)]
        df = GeoDataFrame({"a": list(range(n)), "flag": [p_[0] < 24 and p_[1] < 40 for p_ in pts], "g1": geo.make_array("point", pts, "float64"),
                           "g2": geo.make_array("point", pts2, "float64")}).set_geometry("g1")

        def want(frame, col, p):
            arr = frame[col].array
            return sorted(zip((int(x) for x in arr.hilbert_distance(total_bounds=arr.total_bounds, p=p)), (int(a) for a in frame["a"])))

        def got(packed):
            res = packed.compute()
            return sorted(zip((int(x) for x in res.index), (int(a) for a in res["a"])))
        scen = []
        try:
            ddf = dd.from_pandas(df, npartitions=3)
            ddf.partition_sindex
            ddf.cx[0:10, 0:10].compute()
            scen.append(("row-selection-after-a-spatial-lookup", ddf[ddf.flag].pack_partitions(npartitions=2, p=6), want(df[df.flag], "g1", 6)))
            scen.append(("column-selection-after-a-spatial-lookup", ddf[["a", "g1"]].pack_partitions(npartitions=2, p=6), want(df, "g1", 6)))
            first = dd.from_pandas(df, npartitions=3).pack_partitions(npartitions=3, p=7)
            scen.append(("packed-again-with-another-p", first.pack_partitions(npartitions=2, p=4), want(df, "g1", 4)))
            scen.append(("packed-again-for-another-geometry-column", first.set_geometry("g2").pack_partitions(npartitions=2, p=7), want(df, "g2", 7)))
            scen.append(("rows-selected-from-a-packed-frame", first[first.flag].pack_partitions(npartitions=2, p=7), want(df[df.flag], "g1", 7)))
            for name, packed, w in scen:
                chk.evaluated(n)
                g = got(packed)
                if g != w:
                    what = "rows-differ" if sorted(a for _, a in g) != sorted(a for _, a in w) else "index-is-not-the-hilbert-distance-of-the-packed-frame"
                    chk.violation(f"pack_partitions/derived-frame/{name}/{what}", dict(api="pack_partitions", scenario=name, points=pts[:8], got=g[:8], expected=w[:8]))
        except Exception as e:  # noqa: BLE001
            chk.violation(f"pack_partitions/derived-frame/raises-{common.err_kind(e)}", dict(api="pack_partitions", done=[s_[0] for s_ in scen], error=repr(e)[:300]))
    chk.count("derived-frames")


def _run_cases(chk, tier):
    import dask
    from .c01 import random_family
    dask.config.set(scheduler="synchronous")
    derived_frames(chk, common.rng(PROP + "-derived"), tier)
    r = common.rng(PROP)
    rounds = 22 if tier == "quick" else 250
    for k in range(rounds):
        kind = geo.KINDS[k % 7]
        n = r.randint(4, 14 if tier == "quick" else 30) if k % 2 == 0 else r.randint(12, 20 if tier == "quick" else 40)
        els = random_family(kind, r, n, 8)
        # anchor points: on a power-of-two extent with corners present, duplicates and a missing one
        pts = [[0, 0], [8, 8]] + [[r.randint(0, 8), r.randint(0, 8)] for _ in range(n - 2)]
        distinct_mode = k % 2 == 1
        if distinct_mode:
            # all anchors distinct, none missing: the partition-count clause applies (no duplicate distances for p >= 4)
            cells = r.sample([(x, y) for x in range(9) for y in range(9) if (x, y) not in ((0, 0), (8, 8))], n - 2)
            pts = [[0, 0], [8, 8]] + [list(c) for c in cells]
        else:
            if r.random() < 0.5:
                pts[r.randrange(2, n)] = None
            if r.random() < 0.3:
                pts[3 % n] = list(pts[2]) if pts[2] else pts[3 % n]
        if r.random() < 0.5:
            els[r.randrange(n)] = None
        if k % 4 in (1, 2):
            # far from the origin: the extent (8) is tiny relative to the coordinates - the grid must still be the true extent's
            ox, oy = 2 ** 20, -(2 ** 21)
            pts = [None if q is None else [q[0] + ox, q[1] + oy] for q in pts]
        active = ("geometry", "anchor")[(k // 2) % 2] if not distinct_mode else ("anchor", "anchor", "geometry")[(k // 2) % 3]
        npart = r.randint(1, 4)
        p = r.choice((1, 2, 5, 10, 15, 20)) if not distinct_mode else r.choice((5, 10, 15, 20))
        res = []
        for in_parts in sorted({1, r.randint(1, min(n, 5)), min(n, 4)}):
            out = run_case(chk, r, kind, els, pts, active, in_parts, npart, p, "frame", coalesce=(k % 3 == 0 and in_parts >= 2))
            if out is not None:
                res.append(out)
        if active == "anchor" and all(q is not None for q in pts) and k % 2 == 1:
            run_case(chk, r, kind, els, pts, active, 2, npart, p, "pruned-read", pruned_read=True)
        if len(res) >= 2 and any(x != res[0] for x in res[1:]):
            chk.violation("pack_partitions/result-depends-on-input-partitioning", dict(api="pack_partitions", kind=kind, elements=els, points=pts,
                                                                                     active=active, npartitions=npart, p=p), size=n)
        if k < 3:
            chk.sample(dict(kind=kind, n=n, active=active, npartitions=npart, p=p, elements=els[:2], points=pts[:4]), cap=5)
    # the documented values of the shuffle argument
    for k, sh in enumerate(("disk", "tasks", "disk")):
        kind = geo.KINDS[(2 * k + 1) % 7]
        n = 14
        els = random_family(kind, r, n, 8)
        cells = r.sample([(x, y) for x in range(9) for y in range(9) if (x, y) not in ((0, 0), (8, 8))], n - 2)
        pts = [[0, 0], [8, 8]] + [list(c) for c in cells]
        run_case(chk, r, kind, els, pts, ("anchor", "geometry")[k % 2], 3, r.randint(1, 3), r.choice((5, 10)), "shuffle-argument", shuffle=sh)
        chk.count("shuffle:" + sh)
    # an input partition without any located geometry in the active column (all missing): the curve still spans the located rows
    for k in range(4 if tier == "quick" else 30):
        kind = geo.KINDS[(3 * k) % 7]
        in_parts = r.choice((2, 3, 4))
        per = r.choice((3, 4))
        n = in_parts * per
        els = random_family(kind, r, n, 8)
        pts = [[0, 0], [8, 8]] + [[r.randint(0, 8), r.randint(0, 8)] for _ in range(n - 2)]
        active = ("anchor", "geometry")[k % 2]
        gone = r.randrange(1, in_parts)                     # not the first partition (it holds the corners of the extent)
        for i in range(gone * per, (gone + 1) * per):
            if active == "anchor":
                pts[i] = None
            else:
                els[i] = None
        run_case(chk, r, kind, els, pts, active, in_parts, r.randint(1, 3), r.choice((2, 5, 10)), "all-missing-input-partition")
        chk.count("all-missing-input-partition")


def main(tier):
    chk = Check(PROP, tier)
    proof = common.proof_side(PROP, leanchecker=(tier == "thorough"))
    if common.import_impl(chk):
        try:
            run_cases(chk, tier)
        except Exception:  # noqa: BLE001
            import traceback
            chk.tie_broken("correspondence C09: implementation could not be driven: " + traceback.format_exc()[-1500:])
    chk.extra["rule"] = ("frames of 4..14 (30 thorough) rows with two geometry columns (shape of every kind + points on a power-of-two extent), missing "
                         "geometries, duplicates x active column x input partitionings (1, random, 4; coalesced by repartition) x npartitions 1..4 x p; "
                         "runs where Dask refuses to split are skipped and counted; distinct by (elements, active, input partitions, npartitions, p)")
    chk.assumptions += ["Dask's shuffle and choice of divisions are the unmodelled runtime (the model takes the cut points Dask chose)"]
    return chk.finish(proof)


def replay(path):
    import sys
    return common.generic_replay(sys.modules[__name__], path)
