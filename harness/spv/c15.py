"""C15 — oriented() normalises ring direction without changing the shape.

PolygonArray / MultiPolygonArray.oriented() against the Lean model `Geom.orientRings` (ring by ring), plus the
clauses the property states directly: structure and missingness kept, idempotent, input untouched, slices safe,
and - for valid, consistently wound polygons - area >= 0 with unchanged magnitude and unchanged intersections."""
import json

import numpy as np

from . import common, geo
from .common import Check, drive, tok, untok

PROP = "C15"


def model_orient(kind, els):
    out = drive(["orient %s %s" % (kind, tok(els)), "area2 %s %s" % (kind, tok(els))])
    if "bad-op" in out:
        raise RuntimeError("driver rejected orient")
    return untok(out[0]) if els else [], untok(out[1]) if els else []


def norm(el):
    """python floats -> ints for comparison (coordinates are integers)"""
    if el is None:
        return None
    if isinstance(el, list):
        return [norm(x) for x in el]
    return int(el)


def ring_area2(ring):
    pts = list(zip(ring[0::2], ring[1::2]))
    return sum(pts[i][0] * pts[i + 1][1] - pts[i + 1][0] * pts[i][1] for i in range(len(pts) - 1))


def check_array(chk, kind, st, arr, els, hist=(), valid=False, r=None, scale=1.0):
    """`els` are the integer elements; with `scale` != 1 the array holds them multiplied by that power of two (exact in float64)"""
    def unscale(x):
        if isinstance(x, list):
            return [unscale(y) for y in x]
        return None if x is None else x / scale
    n = len(els)
    rep = dict(api=f"{kind.title()}Array.oriented", kind=kind, subtype=st, elements=els, derivation=list(hist))
    sz = sum(len(geo.verts_of(kind, e)) for e in els) + n
    chk.evaluated(n)
    before_bytes = [None if b is None else b.to_pybytes() for b in arr.data.buffers()]
    try:
        o = arr.oriented()
        got = norm(unscale(o.data.to_pylist()))
        o2 = norm(unscale(o.oriented().data.to_pylist()))
    except Exception as e:  # noqa: BLE001
        chk.violation(f"oriented/{kind}/raises-{common.err_kind(e)}", dict(rep, error=repr(e)[:300]), size=sz)
        return
    after_bytes = [None if b is None else b.to_pybytes() for b in arr.data.buffers()]
    if before_bytes != after_bytes or norm(unscale(arr.data.to_pylist())) != norm(els):
        chk.violation(f"oriented/{kind}/input-modified", rep, size=sz)
    if type(o) is not type(arr) or len(got) != n:
        chk.violation(f"oriented/{kind}/wrong-type-or-length", dict(rep, got=type(o).__name__), size=sz)
        return
    model, _ = model_orient(kind, els)
    model = norm(model) if n != 1 else norm(model)
    for i in range(n):
        e, g, m = els[i], got[i], model[i]
        polys_e = [] if e is None else ([e] if kind == "polygon" else e)
        zero_hole = any(len(p) > 1 and any(ring_area2(h) == 0 and len(h) >= 2 for h in p[1:]) for p in polys_e)
        cls = "missing" if e is None else ("zero-area-hole" if zero_hole else "regular")
        if (g is None) != (e is None):
            chk.violation(f"oriented/{kind}/missingness-changed", dict(rep, row=i, element=e, impl=g), size=sz); break
        if g != m:
            chk.violation(f"oriented/{kind}/differs-from-model/{cls}", dict(rep, row=i, element=e, impl=g, model=m), size=sz); break
        if o2[i] != g:
            chk.violation(f"oriented/{kind}/not-idempotent/{cls}", dict(rep, row=i, element=e, once=g, twice=o2[i]), size=sz); break
        if e is None:
            chk.count("class:missing"); continue
        polys_g = [g] if kind == "polygon" else g
        if len(polys_e) != len(polys_g) or any(len(a) != len(b) for a, b in zip(polys_e, polys_g)):
            chk.violation(f"oriented/{kind}/structure-changed", dict(rep, row=i, element=e, impl=g), size=sz); break
        bad = False
        for pe, pg in zip(polys_e, polys_g):
            for k, (re_, rg) in enumerate(zip(pe, pg)):
                re_ = norm(re_)
                pts = list(zip(re_[0::2], re_[1::2]))
                rev = [c for p in pts[::-1] for c in p]
                if rg != re_ and rg != rev:
                    chk.violation(f"oriented/{kind}/ring-vertices-changed", dict(rep, row=i, element=e, impl=g), size=sz); bad = True; break
                closed = len(pts) >= 1 and pts[0] == pts[-1]
                a2 = ring_area2(rg)
                if closed and ring_area2(re_) != 0 and ((k == 0 and a2 < 0) or (k > 0 and a2 > 0)):
                    chk.violation(f"oriented/{kind}/wrong-direction/{'shell' if k == 0 else 'hole'}",
                                  dict(rep, row=i, element=e, impl=g, ring=k), size=sz); bad = True; break
            if bad:
                break
        if bad:
            break
        chk.nontriv(hash((kind, st, json.dumps(e), tuple(hist))))
        chk.count("class:" + cls)
    if valid and n:
        # valid, consistently wound polygons: area >= 0 with the same magnitude, intersections unchanged
        A, OA = np.asarray(arr.area), np.asarray(o.area)
        for i in range(n):
            if els[i] is None:
                continue
            if not (OA[i] >= 0 and abs(OA[i]) == abs(A[i])):
                chk.violation(f"oriented/{kind}/area-changed-for-valid-polygon", dict(rep, row=i, element=els[i], before=float(A[i]),
                                                                                     after=float(OA[i])), size=sz); break
        for box in r.sample(geo.boxes(-1, 7), 25):
            if (np.asarray(arr.intersects_bounds(box)) != np.asarray(o.intersects_bounds(box))).any():
                chk.violation(f"oriented/{kind}/intersects_bounds-changed", dict(rep, box=list(box)), size=sz); break
        pts = geo.make_array("point", [[x, y] for x in range(-1, 8, 1) for y in range(-1, 8, 1)], "float64")
        for i in range(n):
            if els[i] is None:
                continue
            if (np.asarray(pts.intersects(arr[i])) != np.asarray(pts.intersects(o[i]))).any():
                chk.violation(f"oriented/{kind}/intersects-changed", dict(rep, row=i, element=els[i]), size=sz); break
        chk.count("valid-family-clauses", n)


def run_cases(chk, tier):
    r = common.rng(PROP)
    # every combination of ring directions for polygons with <= 3 rings
    shell = [(0, 0), (6, 0), (6, 6), (0, 6), (0, 0)]
    holes = [[(1, 1), (1, 3), (3, 3), (3, 1), (1, 1)], [(4, 4), (4, 5), (5, 5), (5, 4), (4, 4)]]
    combos = []
    for nh in (0, 1, 2):
        for dirs in __import__("itertools").product((False, True), repeat=nh + 1):
            rings = [shell] + holes[:nh]
            combos.append([geo.flat(rg[::-1] if d else rg) for rg, d in zip(rings, dirs)])
    degenerate = [[[0, 0, 2, 1, 4, 2, 0, 0]], [[0, 0, 6, 0, 6, 6, 0, 0], [1, 1, 2, 2, 3, 3, 1, 1]], [[0, 0, 1, 1, 0, 0]], [[3, 3]], [[]],
                  [[0, 0, 6, 0, 6, 6, 0, 0], [2, 1, 2, 1, 2, 1]], [], [[0, 0, 6, 0, 6, 6, 0, 0], [2, 1, 3, 1, 2, 1]]]
    for kind in ("polygon", "multipolygon"):
        wrap = (lambda p: p) if kind == "polygon" else (lambda p: [p])
        els = [wrap(c) for c in combos] + [None] + [wrap(d) for d in degenerate]
        if kind == "multipolygon":
            els += [[combos[1], combos[5]], [combos[2], degenerate[1]], []]
        for st in (("float64", "int32") if tier == "quick" else geo.SUBTYPES):
            arr = geo.make_array(kind, els, st)
            check_array(chk, kind, st, arr, els, r=r)
            check_array(chk, kind, st, arr[3:9], els[3:9], hist=["[3:9]"], r=r)
            check_array(chk, kind, st, arr[len(els) - 4:], els[len(els) - 4:], hist=["tail"], r=r)
        chk.sample(dict(kind=kind, family="all ring directions + degenerate rings", elements=els[:4]), cap=6)
        # windows of an array whose missing elements lie before, inside and behind the window (what is missing in the parent
        # before the window must not become missing - or present - in the result)
        cw = [wrap(c) for c in combos]
        mix = [cw[0], None, cw[3], cw[5], None, cw[6], cw[9], None, cw[10], cw[13], cw[2]]
        marr = geo.make_array(kind, mix, "float64")
        for (i, j) in ((1, 11), (2, 9), (3, 8), (5, 11), (4, 5), (7, 10), (0, 11)):
            check_array(chk, kind, "float64", marr[i:j], mix[i:j], hist=[f"[{i}:{j}] of an array with missing elements"], r=r)
        chk.count("windows-with-missing")
        # rings of area one half (the smallest a lattice triangle can have), either direction, as shell and as hole
        t_ccw, t_cw = [0, 0, 1, 0, 0, 1, 0, 0], [0, 0, 0, 1, 1, 0, 0, 0]
        h_ccw, h_cw = [2, 2, 3, 2, 2, 3, 2, 2], [2, 2, 2, 3, 3, 2, 2, 2]
        big = geo.flat(shell)
        half = [wrap(x) for x in ([t_ccw], [t_cw], [big, h_ccw], [big, h_cw], [geo.flat(shell[::-1]), h_ccw, [4, 4, 4, 5, 5, 4, 4, 4]], [t_cw, []])] + [None]
        if kind == "multipolygon":
            half += [[[t_cw], [big, h_ccw]], [[t_ccw], [t_cw]]]
        for st in ("float64", "int64", "int32", "int16"):
            check_array(chk, kind, st, geo.make_array(kind, half, st), half, hist=["half-area rings"], r=r)
            check_array(chk, kind, st, geo.make_array(kind, half, st)[1:5], half[1:5], hist=["half-area rings", "[1:5]"], r=r)
        chk.count("half-area-rings")
        # the same rings very small (scaled by 2^-20 and 2^-30: areas far below any absolute tolerance, still exact): direction and
        # "non-zero area" do not depend on the unit of the coordinates
        for sc in (2.0 ** -20, 2.0 ** -30):
            def scaled(x, sc=sc):
                if isinstance(x, list):
                    return [scaled(y) for y in x]
                return None if x is None else x * sc
            small = [scaled(e) for e in els]
            check_array(chk, kind, "float64", geo.make_array(kind, small, "float64"), els, hist=[f"scaled by {sc}"], r=r, scale=sc)
        chk.count("tiny-rings")
        # the same rings far from the origin (coordinates and every term x*(dy) of the coded sum stay exactly representable):
        # the direction of a ring does not depend on where it lies
        for (ox, oy) in ((2 ** 28, -2 ** 27), (10 ** 8, 10 ** 8 + 1), (-2 ** 36, 2 ** 40), (r.randint(2 ** 26, 2 ** 34), -r.randint(2 ** 26, 2 ** 34))):
            def shift(x, ox=ox, oy=oy):
                if isinstance(x, list) and x and not isinstance(x[0], list):
                    return [c + (ox if i % 2 == 0 else oy) for i, c in enumerate(x)]
                return None if x is None else [shift(y) for y in x]
            far = [shift(e) for e in els]
            for st in ("float64", "int64"):
                check_array(chk, kind, st, geo.make_array(kind, far, st), far, hist=[f"translated by ({ox}, {oy})"], r=r)
            chk.count("far-from-origin")
        # valid consistently wound family (both global windings) for the area / intersection clauses
        vals = [wrap(p) for p in geo.polygons_family(tier)[::7]] + [None]
        if kind == "multipolygon":
            vals += geo.multipolygons_family()[:3]
        arr = geo.make_array(kind, vals, "float64")
        check_array(chk, kind, "float64", arr, vals, valid=True, r=r)
        # random structured arrays (closed rings) and derivations
        for k in range(12 if tier == "quick" else 120):
            st = ("float64", "int64", "float32")[k % 3]
            e2 = geo.structured_elements(kind, r, r.randint(1, 7), mag=12 if k % 2 else 400, closed=True)
            a2 = geo.make_array(kind, e2, st)
            check_array(chk, kind, st, a2, e2, r=r)
            d2, de2, hist = geo.derive(a2, e2, r, steps=r.randint(1, 2))
            check_array(chk, kind, st, d2, de2, hist=hist, r=r)


def main(tier):
    chk = Check(PROP, tier)
    proof = common.proof_side(PROP, leanchecker=(tier == "thorough"))
    if common.import_impl(chk):
        try:
            run_cases(chk, tier)
        except Exception:  # noqa: BLE001
            import traceback
            chk.tie_broken("correspondence C15: implementation could not be driven: " + traceback.format_exc()[-1500:])
    chk.extra["rule"] = ("every combination of ring directions for polygons with <= 3 rings, degenerate rings (zero area, < 3 vertices, empty), "
                         "missing elements, slices with non-zero offsets, multi-part elements, seeded structured arrays with closed rings and "
                         "derivations; non-trivial = any non-missing element; distinct by (kind, subtype, element, derivation)")
    chk.assumptions += ["rings closed (first vertex = last) for the direction clause",
                        "area / intersection clauses only for valid polygons whose holes are wound opposite to their shell"]
    return chk.finish(proof)


def replay(path):
    rep = json.load(open(path))
    arr = geo.make_array(rep["kind"], rep["elements"], rep.get("subtype", "float64"))
    o = arr.oriented()
    print(json.dumps(dict(once=norm(o.data.to_pylist()), twice=norm(o.oriented().data.to_pylist()),
                          model=norm(model_orient(rep["kind"], rep["elements"])[0]))))
    return 0
