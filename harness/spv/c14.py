"""C14 — length, area and boundary are the exact measures of each element.

area is compared exactly with twice-the-area from the Lean model (`Geom.area2`), length with the sum of
square roots of the model's squared segment lengths taken in the model's order (`Geom.lengthSquares`),
boundary element by element; scalar = array form; translation invariance; missing -> NaN."""
import json
import math

import numpy as np

from . import common, geo
from .common import Check, drive, tok, untok

PROP = "C14"
HAS_LEN = ("line", "ring", "multiline", "polygon", "multipolygon")
HAS_AREA = ("polygon", "multipolygon")


def model_measures(kind, els):
    lines = []
    if kind in HAS_LEN:
        lines.append("lensq %s %s" % (kind, tok(els)))
    if kind in HAS_AREA:
        lines.append("area2 %s %s" % (kind, tok(els)))
    out = drive(lines)
    if "bad-op" in out:
        raise RuntimeError("driver rejected measures for " + kind)
    lens = untok(out[0]) if kind in HAS_LEN else [None if e is None else [] for e in els]
    areas = untok(out[-1]) if kind in HAS_AREA else [None if e is None else 0 for e in els]
    if len(els) == 1:  # untok unwraps nothing: outputs are lists of per-element values
        pass
    return lens, areas


def expected_length(sq):
    if sq is None:
        return float("nan")
    tot = 0.0
    for s in sq:
        tot += math.sqrt(float(s))
    return tot


def same(a, b, exact, st="float64"):
    """exact equality where the arithmetic is exact (every coordinate subtype is measured in double precision: D40)"""
    if a != a or b != b:
        return (a != a) and (b != b)
    if exact:
        return a == b
    return abs(a - b) <= 1e-12 * max(1.0, abs(a), abs(b))


def translate(kind, el, dx, dy):
    if el is None:
        return None
    d = geo.DEPTH[kind]

    def tr(x, depth):
        if depth == 0:
            return [c + (dx if i % 2 == 0 else dy) for i, c in enumerate(x)]
        return [tr(y, depth - 1) for y in x]
    return tr(el, d)


def nested_empty(kind, el):
    if el is None or el == []:
        return False
    d = geo.DEPTH[kind]
    if d == 0:
        return False
    if d == 1:
        return any(len(r) == 0 for r in el)
    return any(len(p) == 0 or any(len(r) == 0 for r in p) for p in el)


def check_array(chk, kind, st, arr, els, r, hist=()):
    n = len(els)
    lens, areas = model_measures(kind, els)
    rep = dict(api=f"{kind.title()}Array", kind=kind, subtype=st, elements=els, derivation=list(hist))
    sz = sum(len(geo.verts_of(kind, e)) for e in els) + n
    chk.evaluated(n)
    try:
        L = np.asarray(arr.length, dtype=np.float64)
        A = np.asarray(arr.area, dtype=np.float64)
    except Exception as e:  # noqa: BLE001
        chk.violation(f"measures/{kind}/raises-{common.err_kind(e)}", dict(rep, error=repr(e)[:200]), size=sz)
        return
    for i in range(n):
        cls = "missing" if els[i] is None else ("empty" if not geo.verts_of(kind, els[i]) else "regular")
        expL = expected_length(lens[i]) if els[i] is not None else float("nan")
        exact = lens[i] is None or all(math.isqrt(s) ** 2 == s and s < 2 ** 53 for s in lens[i])
        if not same(float(L[i]), expL, exact, st):
            chk.violation(f"length/{kind}/array/{cls}", dict(rep, row=i, element=els[i], impl=float(L[i]), model=expL,
                                                            squares=lens[i]), size=sz)
        expA = float("nan") if els[i] is None else areas[i] / 2.0
        if not same(float(A[i]), expA, True, st):
            chk.violation(f"area/{kind}/array/{cls}", dict(rep, row=i, element=els[i], impl=float(A[i]), model=expA), size=sz)
        if cls != "regular" or (lens[i] and len(lens[i]) > 0):
            chk.nontriv(hash((kind, st, json.dumps(els[i]), i, tuple(hist))))
        chk.count(f"{kind}:{cls}")
        # scalar form
        if els[i] is not None and not nested_empty(kind, els[i]) and r.random() < 0.5:
            try:
                sc = arr[i]
                sl, sa = float(sc.length), float(sc.area)
                if not same(sl, float(L[i]), True, st) or not same(sa, float(A[i]), True, st):
                    chk.violation(f"measures/{kind}/scalar-differs/{cls}", dict(rep, row=i, element=els[i], scalar_length=sl,
                                                                              array_length=float(L[i]), scalar_area=sa,
                                                                              array_area=float(A[i])), size=sz)
                chk.count("form:scalar")
            except Exception as e:  # noqa: BLE001
                if cls == "empty":
                    chk.drifted(f"{kind}: scalar form of an element without vertices raises {common.err_kind(e)}", els[i])
                else:
                    chk.violation(f"measures/{kind}/scalar-raises-{common.err_kind(e)}", dict(rep, row=i, element=els[i],
                                                                                           error=repr(e)[:200]), size=sz)
    # translation invariance (integer vector: squares and doubled areas are unchanged exactly)
    if all(isinstance(c, int) for e in els for v in geo.verts_of(kind, e) for c in v) and n:
        dx, dy = r.randint(-50, 50), r.randint(-50, 50)
        if st != "int16":
            tarr = geo.make_array(kind, [translate(kind, e, dx, dy) for e in els], st)
            TL, TA = np.asarray(tarr.length, dtype=np.float64), np.asarray(tarr.area, dtype=np.float64)
            for i in range(n):
                if not same(float(TL[i]), float(L[i]), True, st) or not same(float(TA[i]), float(A[i]), True, st):
                    chk.violation(f"measures/{kind}/translation-changes-value", dict(rep, row=i, element=els[i], shift=[dx, dy],
                                                                                    length=[float(L[i]), float(TL[i])],
                                                                                    area=[float(A[i]), float(TA[i])]), size=sz)
                    break
            chk.count("translation")
    # boundary
    if kind in HAS_AREA:
        try:
            bnd = arr.boundary
            bels = bnd.data.to_pylist()
            exp = [None if e is None else (e if kind == "polygon" else [rg for p in e for rg in p]) for e in els]
            if type(bnd).__name__ != "MultiLineArray" or len(bels) != n:
                chk.violation(f"boundary/{kind}/wrong-type-or-length", dict(rep, got=type(bnd).__name__), size=sz)
            else:
                for i in range(n):
                    if (bels[i] is None) != (exp[i] is None):
                        chk.violation(f"boundary/{kind}/missingness-changed", dict(rep, row=i, element=els[i], boundary=bels[i]), size=sz)
                        break
                    if bels[i] is not None and [[float(c) for c in rg] for rg in bels[i]] != [[float(c) for c in rg] for rg in exp[i]]:
                        chk.violation(f"boundary/{kind}/rings-differ", dict(rep, row=i, element=els[i], boundary=bels[i]), size=sz)
                        break
                BL = np.asarray(bnd.length, dtype=np.float64)
                for i in range(n):
                    if not same(float(BL[i]), float(L[i]), True):
                        cls = "missing" if els[i] is None else "regular"
                        chk.violation(f"boundary/{kind}/length-differs/{cls}", dict(rep, row=i, element=els[i],
                                                                                   boundary_length=float(BL[i]), length=float(L[i])), size=sz)
                        break
            chk.count("boundary")
        except Exception as e:  # noqa: BLE001
            chk.violation(f"boundary/{kind}/raises-{common.err_kind(e)}", dict(rep, error=repr(e)[:200]), size=sz)


def run_cases(chk, tier):
    r = common.rng(PROP)
    rounds = 10 if tier == "quick" else 80
    for kind in geo.KINDS:
        for els in ([], [None], [None, None]):
            check_array(chk, kind, "float64", geo.make_array(kind, els, "float64"), els, r)
        # exact families: axis-parallel and Pythagorean segments
        if kind in HAS_LEN:
            pyth = [0, 0, 3, 4, 3, 16, 8, 28, 8, 28, 0, 28]
            fam = {"line": [pyth, [0, 0], [5, 5, 5, 5]], "ring": [pyth + [0, 0]], "multiline": [[pyth, [0, 0, 0, 7]], [[1, 1]]],
                   "polygon": [[[0, 0, 6, 0, 6, 8, 0, 0], [1, 1, 1, 2, 2, 1, 1, 1]]],
                   "multipolygon": [[[[0, 0, 6, 0, 6, 8, 0, 0]], [[10, 10, 13, 14, 10, 14, 10, 10]]]]}[kind]
            check_array(chk, kind, "float64", geo.make_array(kind, fam + [None], "float64"), fam + [None], r)
        # every contiguous slice of an array with missing elements (non-zero buffer offsets: what is missing in the parent before the
        # window must not leak into the slice, in particular not into `boundary`)
        if kind in ("polygon", "multipolygon", "multiline", "line"):
            base = [e for e in geo.structured_elements(kind, r, 12, mag=12) if e is not None and geo.verts_of(kind, e)][:5]
            while len(base) < 5:
                base.append(base[0])
            sl_els = [base[0], None, base[1], base[2], None, base[3], base[4]]
            sl_arr = geo.make_array(kind, sl_els, "float64")
            for i in range(len(sl_els)):
                for j in range(i + 1, len(sl_els) + 1):
                    if (i + j) % 2 == 0 or tier != "quick":
                        check_array(chk, kind, "float64", sl_arr[i:j], sl_els[i:j], r, (f"[{i}:{j}]",))
        for k in range(rounds):
            st = geo.SUBTYPES[k % len(geo.SUBTYPES)] if tier != "quick" else ("float64", "int32", "float32")[k % 3]
            special = 0.12 if st.startswith("float") and kind in ("line", "multiline") and k % 2 == 0 else 0.0
            els = geo.structured_elements(kind, r, r.randint(1, 8), mag=20 if k % 3 else 1000, special=special)
            if kind == "point":
                els = [e for e in els if e is None or e[0] == e[0] or st.startswith("float")]
            if not st.startswith("float"):
                els = [e for e in els if e is None or all(isinstance(c, int) for v in geo.verts_of(kind, e) for c in v)]
            arr = geo.make_array(kind, els, st)
            check_array(chk, kind, st, arr, els, r)
            darr, dels, hist = geo.derive(arr, els, r, steps=r.randint(1, 2))
            check_array(chk, kind, st, darr, dels, r, hist)
            if k == 0:
                chk.sample(dict(kind=kind, subtype=st, elements=els), cap=8)
        # narrow integer storage with coordinates whose products leave the storage type (the sums are still exact in float64)
        if kind in ("polygon", "multipolygon", "ring", "line", "multiline"):
            # float32 / int64 coordinates whose differences, squares and products leave the storage type (D40)
            wide = (("float32", 2 ** 24 - 100),) + ((("int64", 4 * 10 ** 9),) if kind in ("line", "multiline") else ())
            for st, mag in (("int32", 60000), ("int16", 250), ("int16", 30000), ("int64", 3 * 10 ** 6)) + wide:
                for _ in range(2 if tier == "quick" else 10):
                    els = [e for e in geo.structured_elements(kind, r, r.randint(2, 6), mag=mag)
                           if e is None or all(isinstance(c, int) for v in geo.verts_of(kind, e) for c in v)]
                    arr = geo.make_array(kind, els, st)
                    check_array(chk, kind, st, arr, els, r, ("large-coordinates",))
            chk.count("large-coordinates-narrow-storage")
        # small shapes far from the origin (coordinates near 2^27 and 2^30: products of two coordinates leave 2^53, differences do not):
        # the measures are those of the same shape at the origin
        if kind in HAS_AREA or kind in HAS_LEN:
            for shift in ((2 ** 27 + 1, 2 ** 27 + 3), (-(2 ** 30) - 7, 2 ** 28 + 5)):
                els = [e for e in geo.structured_elements(kind, r, r.randint(3, 6), mag=12)
                       if e is None or all(isinstance(c, int) for v in geo.verts_of(kind, e) for c in v)]
                els = [translate(kind, e, *shift) for e in els]
                check_array(chk, kind, "float64", geo.make_array(kind, els, "float64"), els, r, ("far-from-the-origin",))
            chk.count("far-from-the-origin")


def main(tier):
    chk = Check(PROP, tier)
    proof = common.proof_side(PROP, leanchecker=(tier == "thorough"))
    if common.import_impl(chk):
        try:
            run_cases(chk, tier)
        except Exception:  # noqa: BLE001
            import traceback
            chk.tie_broken("correspondence C14: implementation could not be driven: " + traceback.format_exc()[-1500:])
    chk.extra["rule"] = ("structured arrays per kind/subtype (ring counts 0..3, ring sizes 0..6 incl. <3 vertices and collinear, parts 0..3, missing/"
                         "empty anywhere, NaN/inf vertices in lines), also after slice/take/mask/concat; non-trivial = element is missing/empty or "
                         "has at least one segment; distinct by (kind, subtype, element, position, derivation)")
    chk.assumptions += ["integer coordinates <= 1000 (areas exact in float64); lengths with irrational segments compared to 1e-12 relative"]
    return chk.finish(proof)


def replay(path):
    rep = json.load(open(path))
    kind, els = rep["kind"], rep["elements"]
    arr = geo.make_array(kind, els, rep.get("subtype", "float64"))
    lens, areas = model_measures(kind, els)
    print(json.dumps(dict(impl_length=[str(x) for x in np.asarray(arr.length)], impl_area=[str(x) for x in np.asarray(arr.area)],
                          model_squares=lens, model_area2=areas)))
    return 0
