"""C20 — the active geometry column is honoured and survives frame operations.

Frames with several geometry columns of different kinds whose active column is neither the first nor called
'geometry' (and the control named 'geometry'); random sequences of the listed operations on pandas and Dask frames;
after every step (flavour, active column, per-partition active column) is compared with the Lean specification
machine `ActiveGeom.step`, and every spatial operation with the same operation on the explicitly selected column."""
import json
import os
import pickle
import shutil
import tempfile

import numpy as np
import pandas as pd

from . import common, geo
from .common import Check, drive, tok

PROP = "C20"


def model(cols, active, ops):
    line = "ag %s %s %s" % (tok([[n, int(g)] for n, g in cols]), active if active else "N", tok(ops))
    out = drive([line])[0]
    if out == "bad-op":
        raise RuntimeError("driver rejected: " + line)
    return out


def observe(obj):
    """(flavour, active) of a pandas object"""
    from spatialpandas import GeoDataFrame
    if isinstance(obj, GeoDataFrame):
        try:
            return "geo", obj.geometry.name
        except Exception:  # noqa: BLE001
            return "geo", "N"
    return "plain", "N"


def build(r, n, active_name, layout=None):
    from spatialpandas import GeoDataFrame
    from .c01 import random_family
    lines = random_family("line", r, n, 8)
    polys = [[[x, y, x + 3, y, x + 3, y + 3, x, y + 3, x, y]] for x, y in [(r.randint(-4, 6), r.randint(-4, 6)) for _ in range(n)]]
    pts = [[r.randint(-2, 9), r.randint(-2, 9)] for _ in range(n)]
    # layout "control": one column is literally named 'geometry' (active or, with another active column, a bystander)
    names = {"control": ["ln", "geometry", "pg"], "plain": ["ln", "pt", "pg"]}[layout or ("control" if active_name == "geometry" else "plain")]
    data = {"v": list(range(n)), names[0]: geo.make_array("line", lines, "float64"), "w": [f"s{i}" for i in range(n)],
            names[1]: geo.make_array("point", pts, "float64"), names[2]: geo.make_array("polygon", polys, "float64")}
    df = GeoDataFrame(data, index=[f"i{j}" for j in range(n)])
    cols = [("v", False), (names[0], True), ("w", False), (names[1], True), (names[2], True)]
    return df, cols


def spatial_ops_use_active(chk, df, active, rep, r):
    """cx / build_sindex / hilbert distance / sjoin act on the active column"""
    from spatialpandas import GeoDataFrame, sjoin
    try:
        box = (r.randint(-3, 3), r.randint(-3, 3), r.randint(4, 9), r.randint(4, 9))
        got = list(df.cx[box[0]:box[2], box[1]:box[3]].index)
        want = list(df.index[df[active].array.intersects_bounds(box)])
        if got != want:
            chk.violation("active/cx-uses-other-column", dict(rep, box=list(box), got=got, expected=want)); return False
        d2 = df.copy(); d2.build_sindex(page_size=2)
        got2 = list(d2.cx[box[0]:box[2], box[1]:box[3]].index)
        if got2 != want or d2[active].array._sindex is None:
            chk.violation("active/build_sindex-on-other-column", dict(rep, box=list(box), got=got2, expected=want)); return False
        if df[active].dtype.name.startswith("point"):
            right = GeoDataFrame({"rv": [0], "geometry": geo.make_array("polygon", [[[0, 0, 6, 0, 6, 6, 0, 6, 0, 0]]], "float64")})
            j = sjoin(df, right, how="inner")
            wantj = list(df.index[df[active].array.intersects(right.geometry.array[0])])
            if sorted(j.index) != sorted(wantj):
                chk.violation("active/sjoin-uses-other-column", dict(rep, got=list(j.index), expected=wantj)); return False
        chk.count("spatial-ops-on-active")
    except Exception as e:  # noqa: BLE001
        chk.violation(f"active/spatial-op-raises-{common.err_kind(e)}", dict(rep, error=repr(e)[:300])); return False
    return True


def pandas_sequence(chk, r, active_name, length, tmp, layout=None):
    import dask.dataframe as dd
    from spatialpandas.io import read_parquet, read_parquet_dask, to_parquet
    n = r.randint(4, 9)
    df, cols = build(r, n, active_name, layout)
    geomnames = [c for c, g in cols if g]
    df = df.set_geometry(active_name)
    ops, hist = [], []
    cur = df
    rep = dict(api="GeoDataFrame op sequence", columns=[c for c, _ in cols], active=active_name)
    for _ in range(length):
        flav, act = observe(cur)
        have = list(cur.columns)
        choice = r.choice(["iloc", "loc", "mask", "sort", "copy", "subset_keep", "subset_drop_all_geom", "cx", "pickle", "concat", "dask", "parquet",
                           "head", "reindex_rows"])
        try:
            if choice == "iloc":
                new = cur.iloc[sorted(r.sample(range(len(cur)), r.randint(0, len(cur))))]; op = ["rows"]
            elif choice == "loc":
                new = cur.loc[list(cur.index[: r.randint(0, len(cur))])]; op = ["rows"]
            elif choice == "mask":
                new = cur[pd.Series([r.random() < 0.7 for _ in range(len(cur))], index=cur.index)] if len(cur) else cur; op = ["rows"]
            elif choice == "sort":
                new = cur.sort_values("v", ascending=False) if "v" in have else cur.sort_index(); op = ["rows"]
            elif choice == "copy":
                new = cur.copy(); op = ["rows"]
            elif choice == "head":
                new = cur.head(r.randint(1, 5)); op = ["rows"]
            elif choice == "reindex_rows":
                new = cur.iloc[::-1]; op = ["rows"]
            elif choice == "cx":
                if flav != "geo" or act == "N":
                    continue
                new = cur.cx[-100:100, -100:100]; op = ["rows"]
            elif choice == "pickle":
                new = pickle.loads(pickle.dumps(cur)); op = ["rows"]
            elif choice == "concat":
                how = r.choice(("twice", "with-empty", "all-empty", "chunked-cx-no-hit"))
                if how == "twice":
                    new = pd.concat([cur, cur])
                elif how == "with-empty":
                    new = pd.concat([cur.iloc[:0], cur, cur.iloc[:0]])
                elif how == "all-empty":
                    new = pd.concat([cur.iloc[:0], cur.iloc[:0]])                  # frames that agree on the active column, none has a row
                else:
                    if flav != "geo" or act == "N" or len(cur) < 2:
                        continue
                    h = len(cur) // 2
                    new = pd.concat([cur.iloc[:h].cx[9000:9001, 9000:9001], cur.iloc[h:].cx[9000:9001, 9000:9001]])   # per-chunk answers, no hit
                op = ["rows"]
            elif choice == "dask":
                if len(cur) == 0:
                    continue
                k = r.randint(1, min(4, len(cur)))
                dd_ = dd.from_pandas(cur, npartitions=k)
                if flav == "geo" and act != "N":
                    per = list(dd_.map_partitions(lambda d: pd.Series([getattr(d, "_geometry", None)]), meta=pd.Series([], dtype=object)).compute())
                    if any(p != act for p in per) or dd_._meta.geometry.name != act:
                        chk.violation("active/dask-partition-disagrees", dict(rep, history=hist, partitions=per, collection=act)); return
                new = dd_.compute(); op = ["rows"]
            elif choice == "parquet":
                if flav != "geo" or act == "N" or len(cur) == 0:
                    continue
                path = os.path.join(tmp, f"f{r.randrange(10**9)}.parq")
                dd.from_pandas(cur, npartitions=r.randint(1, min(3, len(cur)))).to_parquet(path)
                rd = read_parquet_dask(path, geometry=act)
                per = list(rd.map_partitions(lambda d: pd.Series([getattr(d, "_geometry", None)]), meta=pd.Series([], dtype=object)).compute())
                if any(p != act for p in per) or rd._meta.geometry.name != act:
                    chk.violation("active/read_parquet_dask-geometry-not-honoured", dict(rep, history=hist, partitions=per, requested=act)); return
                new = rd.compute(); op = ["rows"]
                # geometry= together with bounds=: the partitions are pruned by the extents of the requested column, so no row whose
                # *requested* geometry intersects the box may be lost (and the requested column is still the active one)
                from spatialpandas import GeoDataFrame
                for box in ((-3, -3, 3, 3), (0, 0, 40, 40)):
                    rb = read_parquet_dask(path, geometry=act, bounds=box)
                    got_b = rb.compute()
                    full = GeoDataFrame(new).set_geometry(act)
                    hit = set(map(str, full.index[full[act].array.intersects_bounds(box)]))
                    if not hit <= set(map(str, got_b.index)) or rb._meta.geometry.name != act:
                        chk.violation("active/read_parquet_dask-geometry-with-bounds-loses-rows", dict(rep, history=hist, requested=act, box=list(box),
                                                                                                      lost=sorted(hit - set(map(str, got_b.index)))[:6])); return
                shutil.rmtree(path, ignore_errors=True)
            elif choice == "subset_keep":
                if act == "N":
                    continue
                others = [c for c in have if c != act]
                keep = [c for c in have if c == act or c in r.sample(others, r.randint(0, len(others)))]
                new = cur[keep]; op = ["subset"] + keep
            else:
                keep = [c for c in have if c not in geomnames]
                if not keep:
                    continue
                new = cur[keep]; op = ["subset"] + keep
        except Exception as e:  # noqa: BLE001
            chk.violation(f"active/operation-raises-{common.err_kind(e)}/{choice}", dict(rep, history=hist, op=choice, error=repr(e)[:300])); return
        ops.append(op); hist.append(choice)
        cur = new
        want = model(cols, active_name, ops)
        got = " ".join(observe(cur))
        chk.evaluated()
        if got != want:
            chk.violation(f"active/{'lost' if got.endswith(' N') and not want.endswith(' N') else 'wrong'}-after-{choice}",
                          dict(rep, history=hist, impl=got, model=want)); return
        chk.count("op:" + choice)
        if got.startswith("geo") and len(cur) and not got.endswith(" N") and r.random() < 0.4:
            if not spatial_ops_use_active(chk, cur, got.split()[1], dict(rep, history=list(hist)), r):
                return
    chk.nontriv(hash((active_name, tuple(hist), n)))
    chk.sample(dict(active=active_name, history=hist), cap=6)


def init_rules(chk, r):
    """the three-way resolution of GeoDataFrame.__init__ and set_geometry validation"""
    from spatialpandas import GeoDataFrame
    df, cols = build(r, 4, "pt")
    if df.geometry.name != "ln":
        chk.violation("active/default-is-not-first-geometry-column", dict(api="GeoDataFrame()", got=df.geometry.name))
    d2 = GeoDataFrame(df.set_geometry("pg"))
    if d2.geometry.name != "pg":
        chk.violation("active/not-inherited-from-geodataframe-input", dict(api="GeoDataFrame(gdf)", got=d2.geometry.name))
    d3 = GeoDataFrame(df.set_geometry("pg"), geometry="pt")
    if d3.geometry.name != "pt":
        chk.violation("active/explicit-geometry-ignored", dict(api="GeoDataFrame(gdf, geometry=)", got=d3.geometry.name))
    for bad in ("v", "nope"):
        try:
            df.set_geometry(bad); got = "ok"
        except Exception as e:  # noqa: BLE001
            got = common.err_kind(e)
        if got != "ValueError":
            chk.violation("active/set_geometry-accepts-non-geometry-column", dict(api="set_geometry", column=bad, got=got))
    chk.count("init-rules", 5)
    # sjoin: the result carries, as active geometry, the joined column of the side it keeps - also when the merge had to rename it
    from spatialpandas import sjoin
    lpts = [[r.randint(0, 12), r.randint(0, 12)] for _ in range(5)]
    polys = [[[0, 0, 7, 0, 7, 7, 0, 7, 0, 0]], [[5, 5, 13, 5, 13, 13, 5, 13, 5, 5]]]
    lfr = GeoDataFrame({"shape": geo.make_array("line", [[i, 0, i, 1] for i in range(5)], "float64"), "pts": geo.make_array("point", lpts, "float64"),
                        "lv": list(range(5))}).set_geometry("pts")
    rfr = GeoDataFrame({"shape": geo.make_array("polygon", polys, "float64"), "rv": [10, 11]})
    for how, want_name, want_kind in (("inner", "pts", "point"), ("left", "pts", "point"), ("right", "shape_r", "polygon")):
        try:
            res = sjoin(lfr, rfr, how=how, lsuffix="l", rsuffix="r")
            if observe(res) != ("geo", want_name) or str(res.geometry.dtype).split("[")[0] != want_kind:
                chk.violation(f"active/sjoin-{how}-result-has-another-active-column", dict(api="sjoin", how=how, got=observe(res), dtype=str(res.geometry.dtype), expected=want_name))
        except Exception as e:  # noqa: BLE001
            chk.violation(f"active/sjoin-{how}-raises-{common.err_kind(e)}", dict(api="sjoin", how=how, error=repr(e)[:300]))
    chk.count("sjoin-result-active", 3)
    # column labels that are falsy values (level-of-detail columns keyed 2, 1, 0; an empty string): selecting them is selecting them
    import dask.dataframe as dd
    for labels in ((2, 1, 0, 7), ("b", "a", "", "v")):
        l2, l1, l0, lv = labels
        n = 6
        base, _ = build(r, n, "pt")
        fr = GeoDataFrame({l2: base["ln"].array, l1: base["pt"].array, l0: base["pg"].array, lv: list(range(n))})
        rep = dict(api="GeoDataFrame with falsy column labels", labels=[repr(x) for x in labels])
        try:
            if fr.geometry.name != l2:
                chk.violation("active/default-is-not-first-geometry-column", dict(rep, got=repr(fr.geometry.name)))
            same = lambda x: (x == l0) and (isinstance(x, str) == isinstance(l0, str))  # noqa: E731
            # the first geometry column carries the falsy label: it is the default (D43)
            fr0 = GeoDataFrame({lv: list(range(n)), l0: base["pg"].array, l1: base["pt"].array})
            d00 = dd.from_pandas(fr0, npartitions=2)
            got0 = [fr0.geometry.name, fr0.iloc[1:4].geometry.name, d00.geometry.name, d00.compute().geometry.name]
            if not all(same(x) for x in got0):
                chk.violation("active/default-is-not-first-geometry-column/falsy-label", dict(rep, first_geometry_column=repr(l0), got=[repr(x) for x in got0]))
            s0 = fr.set_geometry(l0)
            got = [s0.geometry.name, GeoDataFrame(s0).geometry.name, s0.iloc[1:4].geometry.name, pd.concat([s0, s0]).geometry.name]
            if not all(same(x) for x in got):
                chk.violation("active/falsy-column-label-not-honoured", dict(rep, selected=repr(l0), after=dict(zip(("set_geometry", "GeoDataFrame(frame)", "iloc", "concat"),
                                                                                                                   [str(x) for x in got]))))
            box = (-100, -100, 100, 100)
            if list(s0.cx[box[0]:box[2], box[1]:box[3]].index) != list(fr.index[fr[l0].array.intersects_bounds(box)]):
                chk.violation("active/falsy-column-label-not-honoured/cx", dict(rep, selected=repr(l0)))
            d0 = dd.from_pandas(fr, npartitions=2).set_geometry(l0)
            per = list(d0.map_partitions(lambda d: pd.Series([getattr(d, "_geometry", None)]), meta=pd.Series([], dtype=object)).compute())
            if not same(d0.geometry.name) or not all(same(p_) for p_ in per) or not same(d0.compute().geometry.name):
                chk.violation("active/falsy-column-label-not-honoured/dask", dict(rep, selected=repr(l0), description=str(d0.geometry.name), partitions=[str(x) for x in per],
                                                                                 computed=str(d0.compute().geometry.name)))
        except Exception as e:  # noqa: BLE001
            chk.violation(f"active/falsy-column-label-raises-{common.err_kind(e)}", dict(rep, error=repr(e)[:300]))
        chk.count("falsy-labels")


def dask_level(chk, r, tmp):
    """Dask: set_geometry, partition bounds, packing use the active column"""
    import dask
    import dask.dataframe as dd
    df, cols = build(r, 8, "pt")
    ddf = dd.from_pandas(df, npartitions=3).set_geometry("pt")
    rep = dict(api="DaskGeoDataFrame", active="pt")
    try:
        pb = ddf.partition_sindex  # noqa: F841
        got = ddf._partition_bounds["pt"].values.tolist()
        want = [list(p["pt"].array.total_bounds) for p in dask.compute(*ddf.to_delayed(), scheduler="synchronous")]
        if [[float(x) for x in row] for row in got] != [[float(x) for x in row] for row in want]:
            chk.violation("active/dask-partition-bounds-of-other-column", dict(rep, got=got, expected=want))
        packed = ddf.pack_partitions(npartitions=2, p=8).compute()
        tb = list(df["pt"].array.total_bounds)
        want_h = sorted(int(x) for x in df["pt"].array.hilbert_distance(total_bounds=tb, p=8))
        if sorted(int(x) for x in packed.index) != want_h:
            chk.violation("active/pack_partitions-uses-other-column", dict(rep, got=sorted(int(x) for x in packed.index)[:6], expected=want_h[:6]))
        if observe(packed) != ("geo", "pt"):
            chk.violation("active/lost-after-pack_partitions-compute", dict(rep, got=observe(packed)))
        chk.count("dask-level", 3)
        # packing straight to parquet: the frame handed back is packed along, and has active, the same column
        pq_path = os.path.join(tmp, "packed_active.parq")
        back = ddf.pack_partitions_to_parquet(pq_path, npartitions=2, p=8)
        back_c = back.compute()
        if back.geometry.name != "pt" or observe(back_c) != ("geo", "pt") or sorted(int(x) for x in back_c.index) != want_h:
            chk.violation("active/pack_partitions_to_parquet-returns-another-active-column", dict(rep, description=back.geometry.name, computed=observe(back_c),
                                                                                                  index_ok=sorted(int(x) for x in back_c.index) == want_h))
        shutil.rmtree(pq_path, ignore_errors=True)
        chk.count("dask-pack-to-parquet")
        # build_sindex on the collection (frame and series): the active column stays the active column, in the collection's
        # description and in every partition, and box queries still answer from it
        for what in ("frame", "series"):
            src = dd.from_pandas(df, npartitions=3).set_geometry("pt")
            built = src.build_sindex() if what == "frame" else src["pt"].build_sindex()
            box = (0, 0, 6, 6)
            want = sorted(df.index[df["pt"].array.intersects_bounds(box)])
            if what == "frame":
                meta_active = getattr(built._meta, "_geometry", None) if hasattr(built, "_meta") else None
                per = list(built.map_partitions(lambda d: pd.Series([getattr(d, "_geometry", None)]), meta=pd.Series([], dtype=object)).compute())
                if type(built).__name__ != "DaskGeoDataFrame" or meta_active != "pt" or any(p != "pt" for p in per):
                    chk.violation("active/lost-after-dask-build_sindex/frame", dict(rep, type=type(built).__name__, meta_active=meta_active, partitions=per))
                elif built.geometry.name != "pt" or observe(built.compute()) != ("geo", "pt"):
                    chk.violation("active/lost-after-dask-build_sindex/frame", dict(rep, geometry=built.geometry.name, computed=observe(built.compute())))
            else:
                if type(built).__name__ != "DaskGeoSeries":
                    chk.violation("active/lost-after-dask-build_sindex/series", dict(rep, type=type(built).__name__, name=str(built.name)))
            got = sorted(built.cx[box[0]:box[2], box[1]:box[3]].compute().index)
            if got != want:
                chk.violation(f"active/dask-build_sindex-then-cx-differs/{what}", dict(rep, got=got, expected=want))
            chk.count("dask-build_sindex:" + what)
        # two live Dask frames over the same data that differ only in the active column
        d_pt = dd.from_pandas(df.set_geometry("pt"), npartitions=3)
        d_pg = dd.from_pandas(df.set_geometry("pg"), npartitions=3)
        for which, fr, want_act in (("first", d_pt, "pt"), ("second", d_pg, "pg")):
            per = list(fr.map_partitions(lambda d: pd.Series([getattr(d, "_geometry", None)]), meta=pd.Series([], dtype=object)).compute())
            if fr.geometry.name != want_act or any(p != want_act for p in per) or observe(fr.compute()) != ("geo", want_act):
                chk.violation("active/dask-frames-differing-only-in-the-active-column-confused",
                              dict(rep, frame=which, expected=want_act, description=fr.geometry.name, partitions=per, computed=observe(fr.compute())))
        chk.count("dask-twin-active")
        # Dask operations that move rows between partitions (sorting, re-indexing, shuffling): still geo partitions with the same
        # active column, spatial operations still work and answer from it
        perm = list(range(len(df))); r.shuffle(perm)
        dfp = df.assign(v=perm).set_geometry("pt")
        box = (0, 0, 6, 6)
        want = sorted(dfp.index[dfp["pt"].array.intersects_bounds(box)])
        for opname, op in (("sort_values", lambda d: d.sort_values("v", ascending=False)), ("set_index", lambda d: d.set_index("w")),
                           ("shuffle", lambda d: d.shuffle("v"))):
            try:
                res = op(dd.from_pandas(dfp, npartitions=3))
                per = [(type(p_).__name__, getattr(p_, "_geometry", None)) for p_ in dask.compute(*res.to_delayed(), scheduler="synchronous")]
                comp = res.compute()
                got = sorted(res.cx[box[0]:box[2], box[1]:box[3]].compute().index)
                want_ = sorted(dfp["w"][dfp["pt"].array.intersects_bounds(box)]) if opname == "set_index" else want
                if any(p_ != ("GeoDataFrame", "pt") for p_ in per) or observe(comp) != ("geo", "pt") or res.geometry.name != "pt" or got != want_:
                    chk.violation(f"active/lost-after-dask-{opname}", dict(rep, partitions=[list(p_) for p_ in per], computed=observe(comp), cx=got, expected=want_))
            except Exception as e:  # noqa: BLE001
                chk.violation(f"active/dask-{opname}-then-spatial-op-raises-{common.err_kind(e)}", dict(rep, error=repr(e)[:300]))
            chk.count("dask-moves-rows:" + opname)
        # Dask operations whose description Dask derives by running them on an example frame: concat of collections that agree on the
        # active column, map_partitions without meta= ; description, partitions and box queries agree on the active column
        base_pt = dd.from_pandas(dfp, npartitions=3)
        for opname, res, mult in (("concat", dd.concat([base_pt, base_pt]), 2), ("map_partitions", base_pt.map_partitions(lambda d_: d_.iloc[::-1]), 1)):
            try:
                per = [getattr(p_, "_geometry", None) for p_ in dask.compute(*res.to_delayed(), scheduler="synchronous")]
                for bx in (box, (-2, -2, 2, 2), (7, 7, 9, 9)):
                    want_b = sorted(list(dfp.index[dfp["pt"].array.intersects_bounds(bx)]) * mult)
                    got_b = sorted(res.cx[bx[0]:bx[2], bx[1]:bx[3]].compute().index)
                    tb_ok = [float(x) for x in res.geometry.total_bounds] == [float(x) for x in dfp["pt"].array.total_bounds]
                    if res.geometry.name != "pt" or any(p_ != "pt" for p_ in per) or got_b != want_b or not tb_ok:
                        chk.violation(f"active/dask-{opname}-description-and-partitions-disagree", dict(rep, description=res.geometry.name, partitions=per, box=list(bx),
                                                                                                         cx=got_b, expected=want_b, total_bounds_ok=tb_ok))
                        break
            except Exception as e:  # noqa: BLE001
                chk.violation(f"active/dask-{opname}-raises-{common.err_kind(e)}", dict(rep, error=repr(e)[:300]))
            chk.count("dask-derived-description:" + opname)
        # history: a frame whose partitions are held objects (persist / from_delayed), a derived frame with another active
        # column is computed, then the original is used again
        for how in ("persist", "from_delayed", "same-compute"):
            if how == "from_delayed":
                held = [p for p in dask.compute(*dd.from_pandas(df, npartitions=3).set_geometry("pt").to_delayed(), scheduler="synchronous")]
                base = dd.from_delayed([dask.delayed(p) for p in held], meta=held[0].iloc[:0])
            else:
                base = dd.from_pandas(df, npartitions=3).set_geometry("pt")
                if how == "persist":
                    base = base.persist()
            derived = base.set_geometry("pg")
            if how == "same-compute":
                b_c, d_c = dask.compute(base, derived, scheduler="synchronous")
                if observe(b_c) != ("geo", "pt") or observe(d_c) != ("geo", "pg"):
                    chk.violation("active/derived-frame-changes-original/" + how, dict(rep, original=observe(b_c), derived=observe(d_c)))
                continue
            d_c = derived.compute()
            per = list(base.map_partitions(lambda d: pd.Series([getattr(d, "_geometry", None)]), meta=pd.Series([], dtype=object)).compute())
            box = (0, 0, 6, 6)
            got = sorted(base.cx[box[0]:box[2], box[1]:box[3]].compute().index)
            want = sorted(df.index[df["pt"].array.intersects_bounds(box)])
            if any(p != "pt" for p in per) or got != want or observe(d_c) != ("geo", "pg"):
                chk.violation("active/derived-frame-changes-original/" + how, dict(rep, partitions=per, cx=got, expected=want))
            chk.count("dask-history:" + how)
    except Exception as e:  # noqa: BLE001
        chk.violation(f"active/dask-op-raises-{common.err_kind(e)}", dict(rep, error=repr(e)[:300]))


def parquet_geometry_and_bounds(chk, r, tmp):
    """read_parquet_dask(geometry=g, bounds=box): the requested column g is the active one *for the pruning too* - two geometry columns
    whose partitions lie at opposite ends (one runs left to right, the other right to left), every column requested in turn"""
    import dask.dataframe as dd
    from spatialpandas import GeoDataFrame
    from spatialpandas.io import read_parquet_dask
    n = 12
    a_pts = [[i, r.randint(0, 3)] for i in range(n)]
    b_pts = [[100 - 8 * i, r.randint(0, 3)] for i in range(n)]
    for first in ("a", "b"):
        cols = {"v": list(range(n))}
        for name in ((first, "b" if first == "a" else "a")):
            cols[name] = geo.make_array("point", a_pts if name == "a" else b_pts, "float64")
        df = GeoDataFrame(cols)
        path = os.path.join(tmp, f"gb_{first}.parq")
        dd.from_pandas(df, npartitions=3).to_parquet(path)
        for req in ("a", "b"):
            for box in ((-1, -1, 3, 5), (60, -1, 110, 5), (8, -1, 12, 5), (0, -1, 30, 5)):
                rep = dict(api="read_parquet_dask(geometry=, bounds=)", first_geometry_column=first, requested=req, box=list(box))
                try:
                    rb = read_parquet_dask(path, geometry=req, bounds=box)
                    got = rb.compute()
                except Exception as e:  # noqa: BLE001
                    chk.violation(f"active/read_parquet_dask-geometry-with-bounds-raises-{common.err_kind(e)}", dict(rep, error=repr(e)[:300])); return
                chk.evaluated(n)
                pts = a_pts if req == "a" else b_pts
                hit = {i for i in range(n) if box[0] <= pts[i][0] <= box[2] and box[1] <= pts[i][1] <= box[3]}
                if not hit <= set(int(x) for x in got["v"]) or rb._meta.geometry.name != req or (len(got) and getattr(got, "_geometry", None) != req):
                    chk.violation("active/read_parquet_dask-geometry-with-bounds-prunes-by-another-column",
                                  dict(rep, lost=sorted(hit - set(int(x) for x in got["v"])), kept=sorted(int(x) for x in got["v"]),
                                       active_after=str(rb._meta.geometry.name))); return
                chk.nontriv(hash(("geometry+bounds", first, req, box)))
        shutil.rmtree(path, ignore_errors=True)
    chk.count("parquet:geometry+bounds")


def run_cases(chk, tier):
    import dask
    dask.config.set(scheduler="synchronous")
    r = common.rng(PROP)
    tmp = tempfile.mkdtemp(prefix="spv_c20_")
    try:
        init_rules(chk, r)
        dask_level(chk, r, tmp)
        parquet_geometry_and_bounds(chk, r, tmp)
        for k in range(40 if tier == "quick" else 500):
            active, layout = (("pt", None), ("pg", None), ("geometry", None), ("pt", None), ("pg", "control"), ("ln", "control"))[k % 6]
            pandas_sequence(chk, r, active, 5 if tier == "quick" else 10, tmp, layout)
    finally:
        shutil.rmtree(tmp, ignore_errors=True)


def main(tier):
    chk = Check(PROP, tier)
    proof = common.proof_side(PROP, leanchecker=(tier == "thorough"))
    if common.import_impl(chk):
        try:
            run_cases(chk, tier)
        except Exception:  # noqa: BLE001
            import traceback
            chk.tie_broken("correspondence C20: implementation could not be driven: " + traceback.format_exc()[-1500:])
    chk.extra["rule"] = ("frames with three geometry columns of different kinds, active column not first and not named 'geometry' (and the control "
                         "named 'geometry'); random sequences (5 quick / 10 thorough) of {iloc, loc, mask, sort, copy, head, column subsets with / without "
                         "geometry, cx, pickle, concat, Dask round trip with per-partition check, parquet with geometry=}; flavour and active column after "
                         "every step against the Lean specification machine; spatial operations against the explicitly selected column")
    chk.assumptions += ["pandas' __finalize__ routing per operation is observed, not modelled"]
    return chk.finish(proof)


def replay(path):
    print(open(path).read()[:3000]); return 0
