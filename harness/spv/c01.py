"""C01 — the box-intersection test is geometrically exact for every geometry type.

implementation (array form, `inds` form, scalar form, GeoSeries form; five coordinate subtypes;
sliced views) vs. the Lean model `Geom.*IB` (the functions the C01 theorems are about) vs. an
independent exact-rational oracle, on small-grid families where ties are the common case, plus a
seeded stream of larger random shapes."""
import json

import numpy as np

from . import common, geo
from .common import Check, drive, tok, untok

PROP = "C01"
LINE_LIKE = ("line", "ring", "multiline")
POLY_LIKE = ("polygon", "multipolygon")


def families(tier):
    fam = {}
    pts = [[x, y] for x in range(0, 5) for y in range(0, 5)]
    fam["point"] = (pts + [None], geo.boxes(-1, 5, degenerate=True))
    fam["multipoint"] = (geo.multipoints_family((0, 2, 4), 2) + [None, []], geo.boxes(-1, 5, degenerate=True))
    fam["line"] = (geo.lines_family((0, 2, 4), 3) + [None, []], geo.boxes(-1, 5, degenerate=True))
    rings = [geo.flat(t) for t in geo.shells_family((0, 2, 4))]
    rings += [geo.flat(t[::-1]) for t in geo.shells_family((0, 2, 4))][::3]
    fam["ring"] = (rings + [None, [], [0, 0, 4, 0, 4, 4, 0, 4, 0, 0], [2, 2, 2, 2, 2, 2]], geo.boxes(-1, 5, degenerate=True))
    fam["multiline"] = (geo.multilines_family() + [None, [], [[]], [[], [0, 0, 4, 4]]], geo.boxes(-1, 5, degenerate=True))
    polys = geo.polygons_family(tier)
    concave = [[[0, 0, 8, 0, 8, 8, 4, 4, 0, 0]], [[0, 0, 0, 0, 8, 0, 8, 8, 8, 8, 4, 4, 0, 0]],
               [[0, 0, 6, 0, 6, 6, 3, 3, 0, 6, 0, 0]], [[0, 0, 0, 6, 3, 3, 6, 6, 6, 0, 0, 0]]]
    fam["polygon"] = (polys + concave + [None, [], [[]]], geo.boxes(-1, 7 if tier == "quick" else 9, degenerate=False)
                      + [(2, 2, 2, 5), (1, 3, 6, 3), (3, 3, 3, 3)])
    fam["multipolygon"] = (geo.multipolygons_family() + [None, [], [[]], [[[]]]], geo.boxes(-1, 7, degenerate=True))
    return fam


def el_class(kind, el):
    if el is None:
        return "missing"
    if not geo.verts_of(kind, el):
        return "empty"
    return "regular"


def in_domain(kind, box):
    """line- and polygon-like kinds: guarantee only for boxes of positive width and height"""
    if kind in ("point", "multipoint"):
        return True
    return box[0] != box[2] and box[1] != box[3]


def model_matrix(kind, boxes, els):
    out = drive(["ibm %s %s %s" % (kind, tok([list(b) for b in boxes]), tok(els))])[0]
    if out == "bad-op":
        raise RuntimeError("driver rejected ibm for " + kind)
    m = untok(out)
    return np.array(m, dtype=bool).reshape(len(boxes), len(els))


def check_family(chk, kind, els, boxes, r, tier, tag="grid", oracle_frac=0.25, subtypes=("float64",), sig_override=None):
    arr0 = geo.make_array(kind, els, "float64")
    arrs = {"float64": arr0}
    model = model_matrix(kind, boxes, els)
    n = len(els)
    classes = [el_class(kind, e) for e in els]
    perm = np.array(r.sample(range(n), n), dtype=np.int64)
    dups = np.array([r.randrange(n) for _ in range(min(n, 7))] + [0, 0, n - 1], dtype=np.int64)
    # a sliced view with a non-zero buffer offset holding the same elements
    sliced = geo.make_array(kind, [els[-1]] + list(els), "float64")[1:]
    ser = None
    for bi, box in enumerate(boxes):
        st = subtypes[bi % len(subtypes)]
        if st not in arrs:
            arrs[st] = geo.make_array(kind, els, st)
        arr = arrs[st]
        # corner order: rotate through the four orders
        x0, y0, x1, y1 = box
        given = [(x0, y0, x1, y1), (x1, y0, x0, y1), (x0, y1, x1, y0), (x1, y1, x0, y0)][bi % 4]
        impl = np.asarray(arr.intersects_bounds(given))
        chk.evaluated(n)
        dom = in_domain(kind, box)
        mrow = model[bi]
        if dom:
            bad = np.nonzero(impl != mrow)[0]
            for i in bad[:3]:
                i = int(i)
                chk.violation(
                    sig_override or f"intersects_bounds/{kind}/array/{classes[i]}/impl={bool(impl[i])}",
                    dict(api=f"{kind.title()}Array.intersects_bounds", kind=kind, subtype=st, box=list(given),
                         element=els[i], impl=bool(impl[i]), model=bool(mrow[i]), oracle=geo.oracle_ib(kind, els[i], box)),
                    size=len(geo.verts_of(kind, els[i])))
            nt = np.nonzero(mrow | (impl != mrow))[0]
            for i in nt:
                chk.nontriv(hash((tag, kind, bi, int(i))))
            chk.count(f"{kind}:true", int(mrow.sum()))
            chk.count(f"{kind}:false", int(n - mrow.sum()))
        else:
            if (impl != mrow).any():
                chk.drifted(f"{kind}: degenerate box, implementation differs from model", dict(box=list(given)))
            chk.count(f"{kind}:degenerate-box(out of domain)", n)
        # forms agree for every box (also out of domain)
        if n >= 3 and bi % 2 == 0:
            # a few positions in any order (the listed ones need not be sorted, adjacent or cover the array)
            for _ in range(2):
                inds = np.array(r.sample(range(n), r.choice((2, 3, 3, 4)) if n >= 4 else 2), dtype=np.int64)
                got = np.asarray(arr.intersects_bounds(given, inds))
                if len(got) != len(inds) or (got != impl[inds]).any():
                    chk.violation(sig_override or f"intersects_bounds/{kind}/inds-form-differs/unsorted-subset",
                                  dict(api=f"{kind.title()}Array.intersects_bounds(inds)", kind=kind, box=list(given),
                                       inds=inds.tolist()[:20], whole=impl[inds].tolist()[:20], got=got.tolist()[:20]))
            chk.count("form:inds-subset", 2)
        if bi % 7 == 0:
            for name, inds in (("perm", perm), ("dups", dups), ("empty", np.array([], dtype=np.int64))):
                got = np.asarray(arr.intersects_bounds(given, inds))
                if len(got) != len(inds) or (got != impl[inds]).any():
                    chk.violation(sig_override or f"intersects_bounds/{kind}/inds-form-differs/{name}",
                                  dict(api=f"{kind.title()}Array.intersects_bounds(inds)", kind=kind, box=list(given),
                                       inds=inds.tolist()[:20], whole=impl[inds].tolist()[:20], got=got.tolist()[:20]))
            chk.count("form:inds", 3)
            got = np.asarray(sliced.intersects_bounds(given))
            if (got != impl).any() and st == "float64":
                i = int(np.nonzero(got != impl)[0][0])
                chk.violation(sig_override or f"intersects_bounds/{kind}/sliced-view-differs",
                              dict(api="intersects_bounds on arr[1:]", kind=kind, box=list(given), element=els[i],
                                   whole=bool(impl[i]), sliced=bool(got[i])))
            chk.count("form:sliced", 1)
        if bi % 41 == 0:
            # scalar form on a sample of elements, GeoSeries form
            for i in r.sample(range(n), min(n, 12)):
                if els[i] is None:
                    continue
                try:
                    sc = bool(arr[i].intersects_bounds(given))
                except Exception as e:  # noqa: BLE001
                    if classes[i] == "empty":
                        chk.drifted(f"{kind}: scalar form of an element without vertices raises {common.err_kind(e)}", els[i])
                    else:
                        chk.violation(sig_override or f"intersects_bounds/{kind}/scalar-form-raises/{common.err_kind(e)}",
                                      dict(api=f"{kind.title()}.intersects_bounds", kind=kind, subtype=st, box=list(given),
                                           element=els[i], error=repr(e)[:200]))
                    continue
                if sc != bool(impl[i]):
                    chk.violation(sig_override or f"intersects_bounds/{kind}/scalar-form-differs/{classes[i]}",
                                  dict(api=f"{kind.title()}.intersects_bounds", kind=kind, subtype=st, box=list(given),
                                       element=els[i], scalar=sc, array=bool(impl[i])))
                chk.count("form:scalar")
            if ser is None:
                from spatialpandas import GeoSeries
                ser = GeoSeries(arr0, index=[f"r{i}" for i in range(n)])
            sg = ser.intersects_bounds(given)
            if list(sg.index) != list(ser.index) or (sg.values != np.asarray(arr0.intersects_bounds(given))).any():
                chk.violation(sig_override or f"intersects_bounds/{kind}/series-form-differs", dict(api="GeoSeries.intersects_bounds", box=list(given)))
            chk.count("form:series")
        # independent oracle on a share of the boxes
        if dom and r.random() < oracle_frac:
            for i in range(n):
                o = geo.oracle_ib(kind, els[i], box)
                if o != bool(mrow[i]):
                    chk.tie_broken(f"model {kind}IB disagrees with the exact oracle on element={els[i]} box={list(box)} "
                                   f"(model={bool(mrow[i])}, oracle={o})")
                    return
            chk.count("oracle-checked-pairs", n)
    chk.sample(dict(kind=kind, family=tag, elements=n, boxes=len(boxes), example_element=els[min(3, n - 1)],
                    example_box=list(boxes[len(boxes) // 2])), cap=10)


def random_family(kind, r, count, mag):
    els = []
    while len(els) < count:
        if kind in ("polygon", "multipolygon"):
            cx, cy = r.randint(-mag, mag), r.randint(-mag, mag)
            poly = geo.star_polygon(r, cx, cy, r.randint(3, 12), max(6, mag // 8), holes=r.randint(0, 3))
            if poly is None:
                continue
            if r.random() < 0.5:
                poly = [[c for p in list(zip(rg[0::2], rg[1::2]))[::-1] for c in p] for rg in poly]
            if kind == "polygon":
                els.append(poly)
            else:
                # second part far away (disjoint interiors)
                other = geo.star_polygon(r, cx + 5 * mag, cy, r.randint(3, 8), max(6, mag // 8), holes=0)
                els.append([poly] + ([other] if other else []))
        elif kind in ("line", "ring"):
            k = r.randint(1, 8)
            pts = [(r.randint(-mag, mag), r.randint(-mag, mag)) for _ in range(k)]
            if r.random() < 0.3 and k > 1:
                pts[r.randrange(1, k)] = pts[0]
            if kind == "ring":
                pts = pts + [pts[0]]
            els.append(geo.flat(pts))
        elif kind == "multiline":
            els.append([geo.flat([(r.randint(-mag, mag), r.randint(-mag, mag)) for _ in range(r.randint(1, 5))])
                        for _ in range(r.randint(1, 3))])
        elif kind == "multipoint":
            els.append(geo.flat([(r.randint(-mag, mag), r.randint(-mag, mag)) for _ in range(r.randint(1, 6))]))
        else:
            els.append([r.randint(-mag, mag), r.randint(-mag, mag)])
    return els


def random_boxes(kind, els, r, count, mag):
    """boxes whose corners coincide with vertex coordinates (ties) or lie one unit off them"""
    xs, ys = [], []
    for e in els:
        for (x, y) in geo.verts_of(kind, e):
            xs.append(int(x)); ys.append(int(y))
    out = []
    while len(out) < count:
        if xs and r.random() < 0.8:
            x0, x1 = r.choice(xs) + r.choice((-1, 0, 0, 1)), r.choice(xs) + r.choice((-1, 0, 0, 1))
            y0, y1 = r.choice(ys) + r.choice((-1, 0, 0, 1)), r.choice(ys) + r.choice((-1, 0, 0, 1))
        else:
            x0, x1, y0, y1 = (r.randint(-2 * mag, 2 * mag) for _ in range(4))
        if x0 == x1 or y0 == y1:
            if kind not in ("point", "multipoint"):
                continue
        out.append((min(x0, x1), min(y0, y1), max(x0, x1), max(y0, y1)))
    return out


def run_cases(chk, tier):
    r = common.rng(PROP)
    fam = families(tier)
    for kind in geo.KINDS:
        els, boxes = fam[kind]
        check_family(chk, kind, els, boxes, r, tier, tag="grid",
                     oracle_frac=(0.06 if kind in POLY_LIKE else 0.1) * (1 if tier == "quick" else 3),
                     subtypes=geo.SUBTYPES)
    # single-precision storage, double-precision boxes: the grid shapes moved to even coordinates around 2^24 (exact in float32), box
    # corners at odd coordinates there (not representable in float32) - the box must not be rounded to the storage type
    B = 2 ** 24
    def _mv(x, odd):
        if isinstance(x, list):
            return [_mv(y, odd) for y in x]
        return None if x is None else B + 2 * x + (1 if odd else 0)
    for kind in geo.KINDS:
        els, boxes = fam[kind]
        sel = r.sample(list(boxes), min(len(boxes), 60 if tier == "quick" else 400))
        big_els = [_mv(e, False) for e in els]
        big_boxes = [tuple(B + 2 * c + 1 for c in b) for b in sel] + [tuple(B + 2 * c + (1 if k < 2 else 0) for k, c in enumerate(b)) for b in sel[:20]]
        check_family(chk, kind, big_els, big_boxes, r, tier, tag="float32-precision", oracle_frac=0.05, subtypes=("float32", "float64", "float32"))
    # single-precision storage, long edges (D35, recorded as a known finding): all coordinates are exact in float32, but the kernels
    # form `x1 - x0` in the storage precision, where the difference of a small and a large coordinate is rounded
    for kind in ("line", "multiline", "polygon"):
        els, bxs = [], []
        for _ in range(12 if tier == "quick" else 60):
            ax, ay = r.randint(-9, 9), r.randint(-9, 9)
            bx_, by_ = 2 ** 24 + 2 * r.randint(0, 6), 2 ** 24 + 2 * r.randint(0, 6)
            seg = [ax, ay, bx_, by_]
            els.append(seg if kind == "line" else ([seg, [0, 0, 1, 1]] if kind == "multiline" else [[ax, ay, bx_, by_, ax, by_, ax, ay]]))
            mx, my = (ax + bx_) // 2, (ay + by_) // 2
            for dx, dy in ((r.randint(-3, 3), r.randint(-3, 3)) for _ in range(3)):
                bxs.append((mx + dx, my + dy, mx + dx + 1, my + dy + 1))
        check_family(chk, kind, els, bxs, r, tier, tag="float32-long-edges", oracle_frac=0.1, subtypes=("float32",),
                     sig_override="intersects_bounds/float32-storage/long-edges-computed-in-single-precision")
    # seeded random stream: larger structures, larger coordinates
    rounds = 2 if tier == "quick" else 12
    for k in range(rounds):
        for kind in geo.KINDS:
            mag = r.choice((40, 1000, 30000)) if k % 2 == 0 else r.choice((300, 2 ** 20))
            st = ("float64", "int64") if mag > 30000 else (("float64", "float32", "int64", "int32") if mag > 1000 else geo.SUBTYPES)
            els = random_family(kind, r, 25 if tier == "quick" else 60, mag) + [None]
            bxs = random_boxes(kind, els, r, 40 if tier == "quick" else 120, mag)
            check_family(chk, kind, els, bxs, r, tier, tag=f"random{k}", oracle_frac=0.15, subtypes=st)


def main(tier):
    chk = Check(PROP, tier)
    proof = common.proof_side(PROP, leanchecker=(tier == "thorough"))
    if common.import_impl(chk):
        try:
            run_cases(chk, tier)
        except Exception:  # noqa: BLE001
            import traceback
            chk.tie_broken("correspondence C01: implementation could not be driven: " + traceback.format_exc()[-1500:])
    chk.extra["rule"] = ("grid families (every line <=3 vertices / multipoint <=2 on {0,2,4}^2, all grid triangles both windings, "
                         "squares/L/U shells with <=2 holes both windings, multi-part shapes, missing and empty elements) x every box "
                         "with integer corners around the grid, plus seeded random shapes with tie-producing boxes; a pair "
                         "(element, box) is non-trivial when the answer is True or the sides disagree; distinct by (family, kind, box, element)")
    chk.assumptions += ["coordinates exactly representable (integers <= 2^20; int16/float32 subtypes only where exact)",
                        "polygons valid (holes strictly inside, disjoint, wound opposite to the shell)"]
    return chk.finish(proof)


def replay(path):
    rep = json.load(open(path))
    kind, el, box = rep["kind"], rep["element"], rep["box"]
    arr = geo.make_array(kind, [el], rep.get("subtype", "float64"))
    impl = bool(arr.intersects_bounds(tuple(box))[0])
    model = bool(model_matrix(kind, [box], [el])[0][0])
    print(json.dumps(dict(impl=impl, model=model, oracle=geo.oracle_ib(kind, el, box))))
    return 0 if impl == model else 1
