"""C18 — results do not depend on scheduling, thread count or concurrent use.

The runtime half no theorem exhibits: every listed operation under Dask scheduler {synchronous, threads} x workers x
numba thread counts x a tiny interpreter switch interval, with random delays injected through the wrapping filesystem, and
N client threads sharing one array / index / frame (including the first, index-building access); each result is compared
with the synchronous single-threaded one, repeated runs with each other.  The logic half (disjoint write sets of the
parallel kernels, read off the source on every run; order-(in)dependence of the renumbering moves) is in Lean."""
import json
import os
import shutil
import sys
import tempfile
import threading

import numpy as np
import pandas as pd

from . import common, geo, packfs
from .common import Check

PROP = "C18"


def fingerprint(x):
    import pandas as pd
    if isinstance(x, np.ndarray):
        return ("nd", x.dtype.str, x.shape, x.tobytes())
    if isinstance(x, tuple):
        return tuple(fingerprint(v) for v in x)
    if isinstance(x, (pd.DataFrame, pd.Series)):
        return ("pd", tuple(packfs.rows_of(x) if isinstance(x, pd.DataFrame) and x.index.dtype.kind in "iu" else [repr(x.to_dict())]))
    return repr(x)


def kernels_workload(r):
    """(name, thunk) pairs over shared immutable inputs; thunks build fresh result arrays"""
    from .c01 import random_family
    ops = []
    box = (0, 0, 6, 6)
    # polygons with many rings and multipolygons with many parts, projected-metre-like coordinates with fractions (sums whose low
    # bits depend on the order of addition): a per-element measure is one sequential sum, whatever the thread count
    rr = __import__("random").Random(r.randrange(10 ** 9))

    def ring(cx, cy, s, ccw=True):
        pts_ = [(cx, cy), (cx + s, cy + s / 7), (cx + s * 1.1, cy + s), (cx + s / 9, cy + s * 0.9), (cx, cy)]
        pts_ = pts_ if ccw else pts_[::-1]
        return [c for p_ in pts_ for c in p_]
    many = []
    for _ in range(60):
        bx, by = 2.0e7 + rr.random() * 1e5, 4.0e6 + rr.random() * 1e5
        many.append([ring(bx, by, 5000.37)] + [ring(bx + 300.13 * (k + 1), by + 217.71 * (k + 1), 50.0 + rr.random(), ccw=False)
                                               for k in range(rr.randint(3, 12))])
    parr = geo.make_array("polygon", many, "float64")
    marr = geo.make_array("multipolygon", [[p_] + [[ring(1.0e7 + rr.random() * 1e4, 5.0e6 + rr.random(), 33.3 + rr.random())]
                                                    for _ in range(rr.randint(2, 9))] for p_ in many], "float64")
    for nm, a_ in (("polygon", parr), ("multipolygon", marr)):
        ops.append((f"{nm}.area(many rings, fractional coordinates)", (lambda a=a_: np.asarray(a.area))))
        ops.append((f"{nm}.length(many rings, fractional coordinates)", (lambda a=a_: np.asarray(a.length))))
        ops.append((f"{nm}.scalar area of elements 0, 1", (lambda a=a_: np.asarray([a[0].area, a[1].area]))))
    for kind in geo.KINDS:
        els = random_family(kind, r, 400, 12) + [None]
        arr = geo.make_array(kind, els, "float64")
        ops.append((f"{kind}.intersects_bounds", lambda a=arr: np.asarray(a.intersects_bounds(box))))
        if kind in ("line", "multiline", "polygon", "multipolygon"):
            ops.append((f"{kind}.length", lambda a=arr: np.asarray(a.length)))
        if kind in ("polygon", "multipolygon"):
            ops.append((f"{kind}.area", lambda a=arr: np.asarray(a.area)))
    pts = geo.make_array("point", [[r.randint(-2, 14), r.randint(-2, 14)] for _ in range(3000)] + [None], "float64")
    for kind in ("multipoint", "line", "polygon"):
        sh = geo.make_array(kind, random_family(kind, r, 1, 12), "float64")[0]
        ops.append((f"points.intersects({kind})", lambda s=sh: np.asarray(pts.intersects(s))))
    return ops


def concurrent_clients(chk, r, nthreads):
    """N threads query one shared, not yet indexed, object at once"""
    from spatialpandas import GeoSeries
    from .c01 import random_family
    for kind in ("point", "line", "polygon"):
        # many rows, a quarter of them missing (whatever a missing row holds in its slot must never surface, also not while another
        # thread is in the middle of the first bounds / index computation); the boxes contain the origin
        els = random_family(kind, r, 4000 if kind == "point" else 300, 30)
        els = [None if r.random() < 0.25 else e for e in els]
        boxes = [(r.randint(-30, 0), r.randint(-30, 0), r.randint(1, 30), r.randint(1, 30)) for _ in range(nthreads)]
        ref_s = GeoSeries(geo.make_array(kind, els, "float64"))
        ref_s.build_sindex(page_size=16)
        want = [list(ref_s.cx[b[0]:b[2], b[1]:b[3]].index) for b in boxes]
        want_i = [sorted(int(x) for x in ref_s.sindex.intersects(b)) for b in boxes]
        for rep_no in range(8 if kind == "point" else 3):
            shared = GeoSeries(geo.make_array(kind, els, "float64"))      # fresh: no index yet
            got, got_i, errs = [None] * nthreads, [None] * nthreads, []
            barrier = threading.Barrier(nthreads)

            def worker(i):
                try:
                    barrier.wait()
                    if i % 2:
                        shared.bounds                                 # half of the clients ask for the bounds first
                    idx = shared.sindex                               # first access builds the index
                    got_i[i] = sorted(int(x) for x in idx.intersects(boxes[i]))
                    got[i] = list(shared.cx[boxes[i][0]:boxes[i][2], boxes[i][1]:boxes[i][3]].index)
                except Exception as e:  # noqa: BLE001
                    errs.append(repr(e)[:200])
            ts = [threading.Thread(target=worker, args=(i,)) for i in range(nthreads)]
            [t.start() for t in ts]; [t.join() for t in ts]
            chk.evaluated(nthreads)
            if errs:
                chk.violation(f"concurrent/{kind}/client-raises", dict(api="shared GeoSeries.sindex / cx", kind=kind, threads=nthreads, errors=errs[:3])); return
            if got != want or got_i != want_i:
                bad = [i for i in range(nthreads) if got[i] != want[i] or got_i[i] != want_i[i]]
                chk.violation(f"concurrent/{kind}/client-result-differs-from-single-threaded", dict(api="shared GeoSeries.sindex / cx", kind=kind,
                                                                                                 threads=nthreads, clients=bad[:5])); return
            chk.nontriv(hash(("clients", kind, nthreads, rep_no)))
        chk.count(f"concurrent-clients:{kind}:{nthreads}")


def concurrent_sjoin(chk, r, nthreads):
    """N client threads run sjoin on the same two frames at once (a very short interpreter switch interval makes the threads really
    interleave): every result equals the single-threaded one and the shared frames are left exactly as they were"""
    import sys
    from spatialpandas import GeoDataFrame, sjoin
    n = 60
    pts = [[r.randint(0, 40), r.randint(0, 40)] for _ in range(n)]
    left = GeoDataFrame({"a": list(range(n)), "geometry": geo.make_array("point", pts, "float64")},
                        index=pd.Index([f"L{i}" for i in range(n)], name="lid"))
    right = GeoDataFrame({"rv": [0, 1, 2], "geometry": geo.make_array("polygon", [[[0, 0, 21, 0, 21, 21, 0, 21, 0, 0]], [[15, 15, 41, 15, 41, 41, 15, 41, 15, 15]],
                                                                                  [[50, 50, 60, 50, 60, 60, 50, 60, 50, 50]]], "float64")},
                         index=pd.Index(["r0", "r1", "r2"], name="rid"))
    hows = ("inner", "left", "right")

    def canon(df):
        d = df.reset_index()
        return (str(df.index.name), sorted(map(str, d.columns)), sorted(json.dumps([str(v) for v in row]) for row in d.astype(object).values.tolist()))
    ref = {h: canon(sjoin(left, right, how=h)) for h in hows}
    state0 = (left.index.name, right.index.name, list(left.columns), list(right.columns))
    old = sys.getswitchinterval()
    sys.setswitchinterval(1e-6)
    try:
        for round_no in range(2):
            got, errs = {}, []
            barrier = threading.Barrier(nthreads)

            def worker(i):
                try:
                    barrier.wait()
                    for h in hows:
                        got[(i, h)] = canon(sjoin(left, right, how=h))
                except Exception as e:  # noqa: BLE001
                    errs.append(repr(e)[:200])
            ts = [threading.Thread(target=worker, args=(i,)) for i in range(nthreads)]
            [t.start() for t in ts]; [t.join() for t in ts]
            chk.evaluated(nthreads * len(hows))
            if errs:
                chk.violation("concurrent/sjoin/client-raises", dict(api="sjoin on shared frames", threads=nthreads, errors=errs[:3])); return
            bad = [k for k, v in got.items() if v != ref[k[1]]]
            if bad:
                chk.violation("concurrent/sjoin/client-result-differs-from-single-threaded", dict(api="sjoin on shared frames", threads=nthreads, clients=[list(b) for b in bad[:5]],
                                                                                                  got_index_name=got[bad[0]][0], expected_index_name=ref[bad[0][1]][0])); return
            state = (left.index.name, right.index.name, list(left.columns), list(right.columns))
            if state != state0:
                chk.violation("concurrent/sjoin/shared-frame-modified", dict(api="sjoin on shared frames", threads=nthreads, before=list(map(str, state0)), after=list(map(str, state)))); return
            chk.nontriv(hash(("sjoin-clients", nthreads, round_no)))
    finally:
        sys.setswitchinterval(old)
    chk.count(f"concurrent-sjoin:{nthreads}")


def dask_ops(chk, r, schedulers):
    import dask
    import dask.dataframe as dd
    from spatialpandas import GeoDataFrame, sjoin
    n = 240
    pts = [[r.randint(0, 64), r.randint(0, 64)] for _ in range(n)]
    df = GeoDataFrame({"a": list(range(n)), "geometry": geo.make_array("point", pts, "float64")})
    right = GeoDataFrame({"rv": [0, 1], "geometry": geo.make_array("polygon", [[[0, 0, 30, 0, 30, 30, 0, 30, 0, 0]], [[20, 20, 64, 20, 64, 64, 20, 64, 20, 20]]], "float64")})

    def workload(sched, workers):
        with dask.config.set(scheduler=sched, num_workers=workers):
            ddf = dd.from_pandas(df, npartitions=6)
            out = {}
            out["cx"] = packfs.rows_of(ddf.cx[5:40, 5:50].compute().set_index("a", drop=False))
            out["bounds"] = fingerprint(np.asarray(ddf.geometry.bounds.compute()))
            out["total_bounds"] = repr(ddf.geometry.total_bounds)
            out["sjoin"] = sorted(packfs.rows_of(sjoin(ddf, right, how="inner").compute().reset_index(drop=True).rename_axis(None).set_index("a", drop=False)))
            packed = ddf.pack_partitions(npartitions=4, p=8)
            parts = dask.compute(*packed.to_delayed())
            out["pack"] = [sorted(packfs.rows_of(p)) for p in parts]
            return out
    ref = workload("synchronous", 1)
    for sched, workers in schedulers:
        for rep_no in range(2):
            got = workload(sched, workers)
            chk.evaluated(len(got))
            for key in ref:
                if got[key] != ref[key]:
                    chk.violation(f"schedule/dask-{key}-differs/{sched}", dict(api="DaskGeoDataFrame." + key, scheduler=sched, workers=workers)); return
            chk.nontriv(hash(("dask", sched, workers, rep_no)))
        chk.count(f"dask:{sched}:{workers}")


def pack_to_parquet_schedules(chk, r, schedulers, root):
    """concurrently running tasks of pack_partitions_to_parquet must not corrupt each other's files; empty output partitions
    followed by non-empty ones make the renumbering moves form chains"""
    import dask
    import dask.dataframe as dd
    from spatialpandas import GeoDataFrame
    from .c19 import snapshot
    base = [[3, 3], [40, 5], [10, 50], [60, 60], [33, 20], [5, 30]]
    for variant, (pts, npart) in {"chains": ([list(base[i % 6]) for i in range(180)], 8),
                                  "plain": ([[r.randint(0, 64), r.randint(0, 64)] for _ in range(120)], 5),
                                  # every argument left at its default: the defaults do not depend on the pool either
                                  "defaults": ([[r.randint(0, 64), r.randint(0, 64)] for _ in range(150)], None)}.items():
        df = GeoDataFrame({"a": list(range(len(pts))), "geometry": geo.make_array("point", pts, "float64")})

        def run(sched, workers, delay_seed, tag):
            work = os.path.join(root, f"{variant}_{tag}")
            shutil.rmtree(work, ignore_errors=True); os.makedirs(work)
            rr = __import__("random").Random(delay_seed)
            delays = {}

            def delay(k, name):
                if delay_seed is None:
                    return 0
                if name in ("mv", "move", "open", "rm", "makedirs"):
                    return rr.choice((0, 0, 0.002, 0.01, 0.03))
                return 0
            fs = packfs.WrapFS(delay=delay)
            with dask.config.set(scheduler=sched, num_workers=workers):
                dd.from_pandas(df, npartitions=4).pack_partitions_to_parquet(os.path.join(work, "out.parq"), filesystem=fs,
                                                                              **({} if npart is None else dict(npartitions=npart, p=6)))
            snap = snapshot(work, os.path.join(work, "out.parq"))
            shutil.rmtree(work, ignore_errors=True)
            return snap
        try:
            ref = run("synchronous", 1, None, "ref")
            chk.evaluated()
            for sched, workers in list(schedulers) + ([("threads", 12)] if npart is None else []):
                for ds in ((1, 2, 3, 4, 5) if variant == "chains" and sched != "synchronous" else (1, 2)):
                    got = run(sched, workers, ds, f"{sched}{workers}_{ds}")
                    chk.evaluated()
                    if got != ref:
                        diff = [k for k in ref if got.get(k) != ref[k]]
                        chk.violation(f"schedule/pack_to_parquet-differs/{variant}/{diff[0]}", dict(api="pack_partitions_to_parquet", scheduler=sched,
                                                                                                workers=workers, variant=variant, differs=diff,
                                                                                                got_tree=got["tree"][:12], expected_tree=ref["tree"][:12])); return
                    chk.nontriv(hash(("pack", variant, sched, workers, ds)))
            # repeated synchronous runs are identical as well
            if run("synchronous", 1, None, "again") != ref:
                chk.violation(f"schedule/pack_to_parquet-not-repeatable/{variant}", dict(api="pack_partitions_to_parquet", variant=variant)); return
            chk.count("pack_to_parquet:" + variant)
        except Exception as e:  # noqa: BLE001
            chk.violation(f"schedule/pack_to_parquet-raises-{common.err_kind(e)}/{variant}", dict(api="pack_partitions_to_parquet", error=repr(e)[:300])); return


def concurrent_pack_calls(chk, r, root, ncallers):
    """several callers write the same Dask frame to different datasets at the same time, all with the same `{uuid}` template for the
    temporary area (what the field is for): each dataset must be what the call produces alone"""
    import dask
    import dask.dataframe as dd
    from spatialpandas import GeoDataFrame
    from .c19 import snapshot
    pts = [[r.randint(0, 64), r.randint(0, 64)] for _ in range(90)]
    df = GeoDataFrame({"a": list(range(len(pts))), "geometry": geo.make_array("point", pts, "float64")})
    ddf = dd.from_pandas(df, npartitions=3)
    scratch = os.path.join(root, "shared_scratch")
    tf = os.path.join(scratch, "{uuid}", "part.{partition}")

    def one(tag, delayed, barrier=None, out=None):
        work = os.path.join(root, f"caller_{tag}")
        shutil.rmtree(work, ignore_errors=True); os.makedirs(work)
        rr = __import__("random").Random(hash(tag) % 1000)
        fs = packfs.WrapFS(delay=(lambda k, name: rr.choice((0, 0.001, 0.004)) if name in ("open", "rm", "mv", "makedirs", "ls") else 0) if delayed else None)
        try:
            if barrier is not None:
                barrier.wait()
            ddf.pack_partitions_to_parquet(os.path.join(work, "out.parq"), filesystem=fs, npartitions=5, p=6, tempdir_format=tf,
                                            _retry_args=dict(wait_fixed=20, stop_max_attempt_number=6))
            snap = snapshot(work, os.path.join(work, "out.parq"))
        except Exception as e:  # noqa: BLE001
            import traceback
            frames = traceback.extract_tb(e.__traceback__)
            # where the exception was raised: inside Dask's own machinery (graph construction / expression caches shared by the
            # threads) with no spatialpandas or filesystem frame below the call, or in the code under test
            inner = [f.filename for f in frames[-4:]]
            dask_internal = all("/dask/" in fn for fn in inner) and isinstance(e, (KeyError, RuntimeError, AttributeError))
            snap = {"raised": repr(e)[:300], "dask_internal": dask_internal}
        shutil.rmtree(work, ignore_errors=True)
        if out is not None:
            out[tag] = snap
        return snap
    with dask.config.set(scheduler="synchronous"):
        os.makedirs(scratch, exist_ok=True)
        ref = one("ref", False)
        chk.evaluated()
        if "raised" in ref:
            chk.violation("schedule/concurrent-pack_to_parquet/raises-alone", dict(api="pack_partitions_to_parquet", error=ref["raised"])); return
        out = {}
        barrier = threading.Barrier(ncallers)
        ts = [threading.Thread(target=one, args=(f"t{i}", True, barrier, out)) for i in range(ncallers)]
        [t.start() for t in ts]; [t.join() for t in ts]
    for i in range(ncallers):
        chk.evaluated()
        got = out.get(f"t{i}")
        if got is not None and got.get("dask_internal"):
            # Dask's expression / graph caches are not thread-safe: an exception raised inside them (seen under load as a KeyError
            # for a graph key) says nothing about spatialpandas; the caller is repeated alone and must then produce the dataset
            chk.drifted("concurrent callers: exception raised inside Dask's own graph machinery (not thread-safe), caller repeated alone", got["raised"][:120])
            got = one(f"t{i}_again", False)
        if got != ref:
            what = "raises" if got is None or "raised" in got else "dataset-differs-from-the-call-alone"
            chk.violation(f"schedule/concurrent-pack_to_parquet/{what}", dict(api="pack_partitions_to_parquet", callers=ncallers, tempdir_format="<scratch>/{uuid}/part.{partition}",
                                                                              got=str(got)[:400], alone=str(ref)[:200])); return
    left = os.listdir(scratch)
    if left:
        chk.violation("schedule/concurrent-pack_to_parquet/leftover-in-scratch", dict(api="pack_partitions_to_parquet", callers=ncallers, leftovers=left[:5])); return
    chk.nontriv(hash(("concurrent-pack", ncallers)))
    chk.count("concurrent-pack-callers", ncallers)


def run_cases(chk, tier):
    import numba
    r = common.rng(PROP)
    old_switch = sys.getswitchinterval()
    sys.setswitchinterval(1e-6)
    root = tempfile.mkdtemp(prefix="spv_c18_")
    try:
        # (i) numba-parallel kernels: thread counts
        ops = kernels_workload(r)
        maxt = numba.config.NUMBA_NUM_THREADS
        numba.set_num_threads(1)
        ref = {name: fingerprint(th()) for name, th in ops}
        for nt in [t for t in (2, 4, 16) if t <= maxt]:
            numba.set_num_threads(nt)
            for rep_no in range(2 if tier == "quick" else 6):
                for name, th in ops:
                    chk.evaluated()
                    if fingerprint(th()) != ref[name]:
                        chk.violation(f"threads/kernel-result-differs/{name.split('(')[0]}", dict(api=name, numba_threads=nt)); break
                chk.nontriv(hash(("kernels", nt, rep_no)))
            chk.count(f"numba-threads:{nt}", len(ops))
        # kernels called from several python threads at once
        numba.set_num_threads(min(4, maxt))
        res = {}

        def call(i):
            res[i] = {name: fingerprint(th()) for name, th in ops}
        ts = [threading.Thread(target=call, args=(i,)) for i in range(4)]
        [t.start() for t in ts]; [t.join() for t in ts]
        for i in range(4):
            chk.evaluated()
            if res.get(i) != ref:
                chk.violation("threads/kernel-result-differs/concurrent-callers", dict(api="kernels from 4 python threads")); break
        chk.count("kernels-from-python-threads", 4)
        # (ii) shared objects
        for nthreads in ((2, 8) if tier == "quick" else (2, 8, 16)):
            concurrent_clients(chk, r, nthreads)
        for nthreads in ((6,) if tier == "quick" else (2, 6, 12)):
            concurrent_sjoin(chk, r, nthreads)
        # (iii) Dask schedulers
        scheds = [("threads", 2), ("threads", 8)] if tier == "quick" else [("threads", 1), ("threads", 2), ("threads", 4), ("threads", 16), ("synchronous", 1)]
        dask_ops(chk, r, scheds)
        pack_to_parquet_schedules(chk, r, [("threads", 8)] if tier == "quick" else [("threads", 2), ("threads", 8), ("threads", 16)], root)
        for nc in ((2,) if tier == "quick" else (2, 3, 5)):
            concurrent_pack_calls(chk, r, root, nc)
        chk.sample(dict(kernels=[n for n, _ in ops][:6], numba_threads=[1, 2, 4, 16], dask=scheds, client_threads=[2, 8]), cap=2)
    finally:
        sys.setswitchinterval(old_switch)
        shutil.rmtree(root, ignore_errors=True)


def main(tier):
    chk = Check(PROP, tier)
    proof = common.proof_side(PROP, leanchecker=(tier == "thorough"))
    if common.import_impl(chk):
        try:
            run_cases(chk, tier)
        except Exception:  # noqa: BLE001
            import traceback
            chk.tie_broken("correspondence C18: implementation could not be driven: " + traceback.format_exc()[-1500:])
    chk.extra["rule"] = ("schedule sampling: every parallel kernel with 1/2/4/16 numba threads and from 4 python threads at once; 2/8(/16) client threads "
                         "on one shared un-indexed GeoSeries (first access builds the index); Dask cx / bounds / total_bounds / sjoin / pack_partitions "
                         "under threads x workers; pack_partitions_to_parquet (with renumbering chains) under threads with random filesystem delays; "
                         "switch interval 1e-6; each compared with the synchronous single-threaded result; distinct by (workload, schedule, repetition)")
    chk.assumptions += ["schedule sampling supports, it does not prove: numba's memory model, GIL release points and the Dask scheduler are not modelled"]
    return chk.finish(proof, level="proof")


def replay(path):
    import sys
    return common.generic_replay(sys.modules[__name__], path)
