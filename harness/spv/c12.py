"""C12 — stored partition bounds are the true extents; pruning never loses a row.

Datasets written by DaskGeoDataFrame.to_parquet and pack_partitions_to_parquet (1..16 partitions, several geometry
columns), read back singly, as a list in arbitrary order and through a glob: the recorded bounds per partition (in load
order, every geometry column) against the true total bounds of the rows stored in that partition; bounds=box pruning
against the Lean model `Parquet.keepPartition`; no intersecting row lost; bounds afterwards = those of the kept partitions."""
import json
import math
import os
import shutil
import tempfile

import numpy as np
import pandas as pd

from . import common, geo
from .common import Check, drive, tok, untok

PROP = "C12"


def f(x):
    x = float(x)
    return "nan" if math.isnan(x) else x


def true_bounds(parts, col):
    return [[f(c) for c in p[col].array.total_bounds] for p in parts]


def stored(rd, col):
    pb = rd._partition_bounds.get(col) if isinstance(rd._partition_bounds, dict) else None
    return None if pb is None else [[f(c) for c in row] for row in pb[["x0", "y0", "x1", "y1"]].values.tolist()]


def model_prune(box, rows):
    rr = [[("nan" if c == "nan" else int(c)) for c in row] for row in rows]
    line = "prune %s %s" % (tok([int(b) for b in box]), "[ " + " ".join("[ " + " ".join(str(c) for c in row) + " ]" for row in rr) + " ]" if rr else "[ ]")
    out = drive([line])[0]
    if out == "bad-op":
        raise RuntimeError("driver rejected: " + line[:200])
    return untok(out)


def make_frame(r, n, base=0):
    from spatialpandas import GeoDataFrame
    from .c01 import random_family
    lines = random_family("line", r, n, 6)
    lines = [[c + (base if i % 2 == 0 else 0) for i, c in enumerate(l)] for l in lines]
    pts = [[r.randint(0, 40) + base, r.randint(0, 40)] for _ in range(n)]
    if n > 3:
        lines[r.randrange(n)] = None
        pts[r.randrange(n)] = None
    return GeoDataFrame({"a": [base * 1000 + i for i in range(n)], "ln": geo.make_array("line", lines, "float64"),
                         "pt": geo.make_array("point", pts, "float64")})


def check_dataset(chk, r, paths, read_arg, rep, boxes, geometry=None):
    import dask
    from spatialpandas.io import read_parquet_dask
    try:
        rd = read_parquet_dask(read_arg, geometry=geometry)
        parts = list(dask.compute(*rd.to_delayed(), scheduler="synchronous"))
    except Exception as e:  # noqa: BLE001
        chk.violation(f"bounds/read-raises-{common.err_kind(e)}", dict(rep, error=repr(e)[:300])); return
    active = rd._meta.geometry.name
    chk.evaluated(len(parts))
    for col in ("ln", "pt"):
        st = stored(rd, col)
        tr = true_bounds(parts, col)
        if st is None:
            chk.violation("bounds/not-recorded", dict(rep, column=col)); return
        if st != tr:
            what = "count-differs" if len(st) != len(tr) else ("same-rows-other-order" if sorted(map(str, st)) == sorted(map(str, tr)) else "values-differ")
            chk.violation(f"bounds/stored-differ-from-true-extents/{what}/{rep['writer']}/{rep['layout']}",
                          dict(rep, column=col, stored=st[:14], true=tr[:14])); return
    sb = [[f(c) for c in row] for row in rd.geometry.partition_bounds.values.tolist()]
    if sb != true_bounds(parts, active):
        chk.violation("bounds/series-partition_bounds-differ", dict(rep, active=active)); return
    chk.count(f"stored-eq-true:{rep['writer']}:{rep['layout']}")
    chk.nontriv(hash((json.dumps(rep, default=str), len(parts))))
    full = pd.concat([pd.DataFrame(p) for p in parts])
    from spatialpandas import GeoDataFrame
    full = GeoDataFrame(full).set_geometry(active)
    for box in boxes:
        # corners in any order: as given, both axes reversed, one axis reversed
        given = r.choice((box, box, (box[2], box[3], box[0], box[1]), (box[2], box[1], box[0], box[3]), (box[0], box[3], box[2], box[1])))
        try:
            rb = read_parquet_dask(read_arg, geometry=geometry, bounds=given)
            kparts = list(dask.compute(*rb.to_delayed(), scheduler="synchronous"))
        except Exception as e:  # noqa: BLE001
            chk.violation(f"prune/raises-{common.err_kind(e)}", dict(rep, box=list(given), error=repr(e)[:300])); return
        want = model_prune(given, true_bounds(parts, active))
        ids = [tuple(p["a"]) for p in parts]
        kept = []
        for kp in kparts:
            if len(kp) == 0 and len(kparts) == 1 and not want:
                continue
            t = tuple(kp["a"])
            if t not in ids:
                chk.violation("prune/returned-partition-is-not-a-stored-partition", dict(rep, box=list(given))); return
            kept.append(ids.index(t))
        if kept != want:
            what = "partition-lost" if set(want) - set(kept) else ("extra-partition" if set(kept) - set(want) else "order")
            chk.violation(f"prune/kept-partitions-differ-from-model/{what}", dict(rep, box=list(given), impl=kept, model=want, active=active)); return
        nb = (min(given[0], given[2]), min(given[1], given[3]), max(given[0], given[2]), max(given[1], given[3]))
        hit = set(full["a"][full[active].array.intersects_bounds(nb)])
        got_rows = set(a for kp in kparts for a in kp["a"])
        if not hit <= got_rows:
            chk.violation("prune/intersecting-row-lost", dict(rep, box=list(given), lost=sorted(hit - got_rows)[:8])); return
        if kept:
            for col in ("ln", "pt"):
                st = stored(rb, col)
                if st != [true_bounds(parts, col)[i] for i in kept]:
                    chk.violation(f"prune/bounds-afterwards-not-those-of-kept-partitions/{'active' if col == active else 'other-column'}",
                                  dict(rep, box=list(given), column=col, stored=st, expected=[true_bounds(parts, col)[i] for i in kept])); return
        chk.count("prune:" + ("none-kept" if not kept else "all-kept" if len(kept) == len(parts) else "some-kept"))


def run_cases(chk, tier):
    import dask
    import dask.dataframe as dd
    dask.config.set(scheduler="synchronous")
    r = common.rng(PROP)
    tmp = tempfile.mkdtemp(prefix="spv_c12_")
    counts = (1, 2, 11, 12) if tier == "quick" else tuple(range(1, 17))
    try:
        for k, npart in enumerate(counts):
            for writer in ("to_parquet", "pack"):
                n = max(3 * npart, 6)
                df = make_frame(r, n)
                path = os.path.join(tmp, f"ds_{writer}_{npart}.parq")
                ddf = dd.from_pandas(df, npartitions=npart)
                if writer == "to_parquet":
                    ddf.to_parquet(path)
                else:
                    try:
                        ddf.pack_partitions_to_parquet(path, npartitions=npart, p=8)
                    except Exception as e:  # noqa: BLE001
                        chk.count("pack writer raised (covered by C10): " + common.err_kind(e)); continue
                boxes = [(0, 0, 10, 10), (-5, -5, 100, 100), (200, 200, 300, 300)]
                # a box touching a partition extent exactly
                ext = [row for row in true_bounds([df], "pt")]
                boxes.append((int(ext[0][2]), int(ext[0][3]), int(ext[0][2]) + 5, int(ext[0][3]) + 5))
                rep = dict(api="read_parquet_dask", writer=writer, layout="single", partitions=npart)
                check_dataset(chk, r, [path], path, rep, boxes)
                check_dataset(chk, r, [path], path, dict(rep, geometry="pt"), boxes[:2], geometry="pt")
                if k == 0:
                    chk.sample(dict(writer=writer, partitions=npart, rows=n), cap=4)
        # a dataset written in several steps: to_parquet(append=True) adds partitions to the stored ones, and the recorded
        # bounds are those of all of them, in stored order (D42)
        for nfirst, nmore in (((2, 3),) if tier == "quick" else ((1, 1), (2, 3), (5, 7), (3, 2))):
            df = make_frame(r, 4 * (nfirst + nmore + 2))
            ddf = dd.from_pandas(df, npartitions=nfirst + nmore + 2)
            path = os.path.join(tmp, f"ds_appended_{nfirst}_{nmore}.parq")
            try:
                ddf.partitions[:nfirst].to_parquet(path)
                ddf.partitions[nfirst:nfirst + nmore].to_parquet(path, append=True, ignore_divisions=True)
                ddf.partitions[nfirst + nmore:].to_parquet(path, append=True, ignore_divisions=True)
            except Exception as e:  # noqa: BLE001
                chk.violation(f"bounds/append-raises-{common.err_kind(e)}", dict(api="to_parquet(append=True)", error=repr(e)[:300])); continue
            rep = dict(api="read_parquet_dask", writer="to_parquet", layout="appended", partitions=[nfirst, nmore, 2])
            check_dataset(chk, r, [path], path, rep, [(0, 0, 10, 10), (-5, -5, 100, 100)])
            check_dataset(chk, r, [path], path, dict(rep, geometry="pt"), [(0, 0, 10, 10)], geometry="pt")
        # frames derived from another frame before they are written: a boolean row filter keeps the partitions but not their extents,
        # so nothing the parent knows about its partitions may be recorded for the child (or the other way round)
        for variant in ("filter-of-read-frame", "parent-after-filtered-query", "column-selection-of-read-frame"):
            df = make_frame(r, 18)
            src = os.path.join(tmp, f"src_{variant}.parq")
            dst = os.path.join(tmp, f"dst_{variant}.parq")
            dd.from_pandas(df, npartitions=3).to_parquet(src)
            from spatialpandas.io import read_parquet_dask
            try:
                if variant == "filter-of-read-frame":
                    rd = read_parquet_dask(src)
                    rd.geometry.partition_bounds      # the parent's recorded extents are in use
                    rd[rd["a"] % 2 == 0].to_parquet(dst)
                elif variant == "parent-after-filtered-query":
                    parent = dd.from_pandas(df, npartitions=3)
                    child = parent[parent["a"] % 3 == 0]
                    child.cx[0:20, 0:20].compute()
                    child.geometry.partition_bounds
                    parent.to_parquet(dst)
                else:
                    rd = read_parquet_dask(src)
                    rd[["a", "pt", "ln"]].to_parquet(dst)
            except Exception as e:  # noqa: BLE001
                chk.violation(f"bounds/derived-frame-write-raises-{common.err_kind(e)}/{variant}", dict(api="to_parquet", variant=variant, error=repr(e)[:300])); continue
            rep = dict(api="read_parquet_dask", writer="to_parquet", layout=variant, partitions=3)
            check_dataset(chk, r, [dst], dst, rep, [(0, 0, 10, 10), (15, 15, 60, 60)])
        # packing a frame in which the other geometry column is missing over a whole region of the packed column: an output partition
        # then holds no geometry at all in that column - its recorded extent is NaN, one row per partition all the same
        from spatialpandas import GeoDataFrame
        for npart in (3, 5):
            n = 24
            pts = [[(3 * i) % 40, i] for i in range(n)]
            lines = [None if pts[i][1] < n // 2 else [pts[i][0], pts[i][1], pts[i][0] + 2, pts[i][1] + 1] for i in range(n)]
            fr = GeoDataFrame({"a": list(range(n)), "pt": geo.make_array("point", pts, "float64"), "ln": geo.make_array("line", lines, "float64")})
            dst = os.path.join(tmp, f"region_missing_{npart}.parq")
            try:
                dd.from_pandas(fr, npartitions=3).pack_partitions_to_parquet(dst, npartitions=npart, p=8)
            except Exception as e:  # noqa: BLE001
                chk.violation(f"bounds/pack-raises-{common.err_kind(e)}/other-column-missing-over-a-region", dict(api="pack_partitions_to_parquet", error=repr(e)[:300])); continue
            rep = dict(api="read_parquet_dask", writer="pack", layout="other-column-missing-over-a-region", partitions=npart)
            check_dataset(chk, r, [dst], dst, rep, [(0, 0, 40, 5), (0, 15, 40, 30)])
            check_dataset(chk, r, [dst], dst, dict(rep, layout="other-column-missing-over-a-region/geometry=ln"), [(0, 0, 40, 5), (0, 15, 40, 30)], geometry="ln")
        # the same path written again with other data after it has been read (both writers): what is read is what is there now
        for writer in ("to_parquet", "pack"):
            again = os.path.join(tmp, f"again_{writer}.parq")
            for step, base in enumerate((0, 700, 1500)):
                ddf_ = dd.from_pandas(make_frame(r, 12 + 3 * step, base=base), npartitions=3 + step)
                if writer == "to_parquet":
                    ddf_.to_parquet(again, overwrite=True)
                else:
                    ddf_.pack_partitions_to_parquet(again, npartitions=3 + step, p=8, overwrite=True)
                rep = dict(api="read_parquet_dask", writer=writer, layout=f"same-path-rewritten-{step}", partitions=3 + step)
                check_dataset(chk, r, [again], again, rep, [(base, 0, base + 60, 60), (0, 0, 10, 10)])
        # several datasets: list in non-sorted order, and a glob whose textual order differs from the natural order
        for variant in ("list", "glob"):
            names = ["tiles_east", "tiles_base"] if variant == "list" else ["run_2", "run_10"]
            paths = []
            for j, nm in enumerate(names):
                p = os.path.join(tmp, variant, nm + ".parq")
                os.makedirs(os.path.dirname(p), exist_ok=True)
                dd.from_pandas(make_frame(r, 9, base=(j + 1) * 100), npartitions=3).to_parquet(p)
                paths.append(p)
            arg = paths if variant == "list" else os.path.join(tmp, variant, "run_*.parq")
            rep = dict(api="read_parquet_dask", writer="to_parquet", layout=variant + "-of-datasets", partitions=6)
            check_dataset(chk, r, paths, arg, rep, [(100, 0, 150, 40), (0, 0, 1000, 1000), (190, 0, 260, 50)])
            if variant == "list":
                check_dataset(chk, r, paths, list(reversed(paths)), dict(rep, layout="list-of-datasets-reversed"), [(100, 0, 150, 40), (190, 0, 260, 50)])
    finally:
        shutil.rmtree(tmp, ignore_errors=True)


def main(tier):
    chk = Check(PROP, tier)
    proof = common.proof_side(PROP, leanchecker=(tier == "thorough"))
    if common.import_impl(chk):
        try:
            run_cases(chk, tier)
        except Exception:  # noqa: BLE001
            import traceback
            chk.tie_broken("correspondence C12: implementation could not be driven: " + traceback.format_exc()[-1500:])
    chk.extra["rule"] = ("datasets with two geometry columns written by both writers in {1,2,11,12} (1..16 thorough) partitions, read singly, with "
                         "geometry=, as a list in non-sorted order, reversed, and through a glob whose textual and natural orders differ; boxes "
                         "touching an extent exactly / reversed / disjoint / covering; distinct by (writer, layout, partitions)")
    return chk.finish(proof)


def replay(path):
    import sys
    return common.generic_replay(sys.modules[__name__], path)
