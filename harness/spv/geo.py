"""Geometry values shared by the checks: python-side element representation, array builders,
enumerated families on small integer grids, seeded random shapes, exact oracles.

An *element* is None (missing) or nested python lists of numbers in the arrow layout of its
kind: point [x, y]; multipoint/line/ring [x0, y0, x1, y1, ...]; multiline/polygon [[...], ...];
multipolygon [[[...], ...], ...]."""
import itertools
from fractions import Fraction

import numpy as np

KINDS = ["point", "multipoint", "line", "ring", "multiline", "polygon", "multipolygon"]
DEPTH = {"point": 0, "multipoint": 0, "line": 0, "ring": 0, "multiline": 1, "polygon": 1, "multipolygon": 2}
SUBTYPES = ["float64", "float32", "int64", "int32", "int16"]


def array_class(kind):
    from spatialpandas import geometry as g
    return {"point": g.PointArray, "multipoint": g.MultiPointArray, "line": g.LineArray, "ring": g.RingArray,
            "multiline": g.MultiLineArray, "polygon": g.PolygonArray, "multipolygon": g.MultiPolygonArray}[kind]


def scalar_class(kind):
    from spatialpandas import geometry as g
    return {"point": g.Point, "multipoint": g.MultiPoint, "line": g.Line, "ring": g.Ring,
            "multiline": g.MultiLine, "polygon": g.Polygon, "multipolygon": g.MultiPolygon}[kind]


def _cast(el, depth, dt):
    if el is None:
        return None
    if depth == 0:
        return np.asarray(el, dtype=dt)
    return [_cast(e, depth - 1, dt) for e in el]


def make_array(kind, elements, subtype="float64"):
    """build the spatialpandas array of `kind` with coordinate subtype `subtype`"""
    import pyarrow as pa
    cls = array_class(kind)
    dt = np.dtype(subtype)
    if kind == "point":
        return cls([None if e is None else np.asarray(e, dtype=dt) for e in elements], dtype=subtype) \
            if len(elements) else cls(np.zeros((0, 2), dtype=dt))
    typ = pa.from_numpy_dtype(dt)
    for _ in range(DEPTH[kind] + 1):
        typ = pa.list_(typ)
    def _big(x):
        return any(_big(y) for y in x) if isinstance(x, list) else (isinstance(x, int) and abs(x) >= 2 ** 62)
    if subtype == "float32" or (subtype == "float64" and _big(list(elements))):
        # pyarrow refuses python ints beyond 2^24 for float32 (even when exactly representable) and beyond 2^63 for float64: hand it floats
        def fl(x):
            return None if x is None else ([fl(y) for y in x] if isinstance(x, list) else float(x))
        elements = [fl(e) for e in elements]
    return cls(pa.array(elements, type=typ))


def to_elements(arr):
    """abstract elements of a geometry array through pyarrow's own decoder"""
    kind = kind_of(arr)
    if kind == "point":
        out = []
        isna = arr.isna()
        fv = arr.flat_values
        for i in range(len(arr)):
            out.append(None if isna[i] else [fv[2 * i].item(), fv[2 * i + 1].item()])
        return out
    return arr.data.to_pylist()


def kind_of(arr):
    return type(arr).__name__.replace("Array", "").lower()


def verts_of(kind, el):
    """flat list of (x, y) of an element"""
    if el is None:
        return []
    d = DEPTH[kind]
    flat = el
    for _ in range(d):
        flat = [c for part in flat for c in part]
    return list(zip(flat[0::2], flat[1::2]))


def rings_of(kind, el):
    """list of vertex lists (lines / rings) of an element"""
    if el is None:
        return []
    d = DEPTH[kind]
    if d == 0:
        return [list(zip(el[0::2], el[1::2]))]
    if d == 1:
        return [list(zip(r[0::2], r[1::2])) for r in el]
    return [list(zip(r[0::2], r[1::2])) for p in el for r in p]


def flat(pts):
    return [c for p in pts for c in p]


# ----------------------------------------------------------------------------- families

def grid(vals):
    return [(x, y) for x in vals for y in vals]


def lines_family(vals=(0, 2, 4), maxlen=3):
    """every line with 1..maxlen vertices on the grid (repeated vertices and collinear runs included)"""
    g = grid(vals)
    out = []
    for n in range(1, maxlen + 1):
        for vs in itertools.product(g, repeat=n):
            out.append(flat(vs))
    return out


def multipoints_family(vals=(0, 2, 4), maxlen=2):
    return lines_family(vals, maxlen)


def _area2(r):
    return sum(r[i][0] * r[i + 1][1] - r[i + 1][0] * r[i][1] for i in range(len(r) - 1))


def _closed(vs):
    return list(vs) + [vs[0]]


def simple_quads(g):
    """simple (non self-intersecting, non-degenerate) quadrilaterals from grid points, convex and reflex"""
    out = []
    for vs in itertools.permutations(g, 4):
        if vs[0] != min(vs):
            continue
        if vs[1] > vs[3]:
            continue  # one direction only; reversed added by caller
        r = _closed(vs)
        if _area2(r) == 0:
            continue
        if seg_seg(r[0], r[1], r[2], r[3]) or seg_seg(r[1], r[2], r[3], r[4]):
            continue
        # no three consecutive collinear with overlap
        ok = True
        for i in range(4):
            a, b, c = r[i], r[i + 1], r[(i + 2) % 4]
            if _orient(a, b, c) == 0:
                ok = False
        if ok:
            out.append(r)
    return out


def shells_family(vals=(0, 2, 4, 6)):
    """closed simple rings, counter-clockwise: all triangles and a rotating subset of quads of the grid"""
    g = grid(vals)
    tris = []
    for a, b, c in itertools.combinations(g, 3):
        o = _orient(a, b, c)
        if o == 0:
            continue
        r = _closed([a, b, c]) if o > 0 else _closed([a, c, b])
        tris.append(r)
    return tris


HOLES = [
    [(1, 1), (1, 3), (3, 3), (3, 1), (1, 1)],          # square, clockwise
    [(2, 2), (2, 4), (4, 2), (2, 2)],                  # triangle, clockwise
    [(1, 1), (2, 5), (5, 2), (1, 1)],                  # skinny triangle cw
    [(3, 1), (3, 5), (5, 5), (5, 1), (3, 1)],
]


def ccw(r):
    return r if _area2(r) > 0 else r[::-1]


def cw(r):
    return r if _area2(r) < 0 else r[::-1]


def polygons_family(tier="quick"):
    """valid polygons: (i) triangles on the {0,2,4}^2 grid, both windings; (ii) the 6x6 / 8x8 squares
    and an L- and a U-shaped (reflex) shell with every subset of <= 2 disjoint holes from a fixed set,
    hole wound opposite to the shell, both global windings."""
    out = []
    for t in shells_family((0, 2, 4)):
        out.append([flat(t)])
        out.append([flat(t[::-1])])
    sq = [(0, 0), (6, 0), (6, 6), (0, 6), (0, 0)]
    L = [(0, 0), (6, 0), (6, 2), (2, 2), (2, 6), (0, 6), (0, 0)]
    U = [(0, 0), (6, 0), (6, 6), (4, 6), (4, 2), (2, 2), (2, 6), (0, 6), (0, 0)]
    holes_sq = [[(1, 1), (1, 3), (3, 3), (3, 1), (1, 1)], [(4, 1), (5, 3), (5, 1), (4, 1)],
                [(1, 4), (3, 5), (1, 5), (1, 4)], [(4, 4), (4, 5), (5, 5), (5, 4), (4, 4)]]
    fam = [(sq, holes_sq), (L, []), (U, [])]
    for shell, holes in fam:
        subsets = [()]
        for k in (1, 2):
            subsets += list(itertools.combinations(range(len(holes)), k))
        for sub in subsets:
            for flip in (False, True):
                s = ccw(shell) if not flip else cw(shell)
                hs = [cw(holes[i]) if not flip else ccw(holes[i]) for i in sub]
                out.append([flat(s)] + [flat(h) for h in hs])
    # frames: a large hole (room for a box strictly inside it), every starting vertex of the hole ring and two of the shell -
    # the stored order of the vertices must not matter (a box in the hole near the line from the shell's closing vertex to the
    # hole's first vertex)
    shell8 = [(0, 0), (8, 0), (8, 8), (0, 8)]
    hole8 = [(1, 1), (1, 7), (7, 7), (7, 1)]
    for sr in (0, 2):
        for hr in range(4):
            for flip in (False, True):
                s = _closed(shell8[sr:] + shell8[:sr]); h = _closed(hole8[hr:] + hole8[:hr])
                s = ccw(s) if not flip else cw(s)
                h = cw(h) if not flip else ccw(h)
                out.append([flat(s), flat(h)])
    return out


def multipolygons_family():
    a = [[0, 0, 2, 0, 2, 2, 0, 2, 0, 0]]
    b = [[2, 2, 4, 2, 4, 4, 2, 4, 2, 2]]                    # touches a at a corner
    c = [[4, 0, 6, 0, 6, 2, 4, 2, 4, 0]]                    # far from a
    big = [[0, 0, 6, 0, 6, 6, 0, 6, 0, 0], [1, 1, 1, 5, 5, 5, 5, 1, 1, 1]]
    island = [[2, 2, 4, 2, 4, 4, 2, 4, 2, 2]]               # nested in the hole of big
    tri = [[0, 4, 2, 6, 0, 6, 0, 4]]
    big2 = [[0, 0, 6, 0, 6, 6, 0, 6, 0, 0], [5, 5, 5, 1, 1, 1, 1, 5, 5, 5]]      # the hole starts at its far corner
    out = [[a], [a, b], [a, c], [big, island], [a, tri], [c, tri, b], [big], [island, big], [big2], [tri, big2]]
    rev = lambda poly: [[v for p in list(zip(r[0::2], r[1::2]))[::-1] for v in p] for r in poly]  # noqa: E731
    out += [[rev(p) for p in mp] for mp in out[:5]]
    return out


def multilines_family():
    ls = [[0, 0, 4, 4], [0, 4, 4, 0], [2, 0, 2, 4], [0, 2, 4, 2], [0, 0, 0, 0], [4, 4], [0, 0, 2, 0, 2, 2]]
    out = []
    for k in (1, 2):
        for c in itertools.product(ls, repeat=k):
            out.append(list(c))
    return out


def boxes(lo=-1, hi=5, degenerate=False):
    xs = list(range(lo, hi + 1))
    out = []
    for x0, x1 in itertools.combinations_with_replacement(xs, 2):
        if x0 == x1 and not degenerate:
            continue
        for y0, y1 in itertools.combinations_with_replacement(xs, 2):
            if y0 == y1 and not degenerate:
                continue
            out.append((x0, y0, x1, y1))
    return out


def star_polygon(r, cx, cy, nverts, rad, holes=0):
    """random star-shaped simple polygon with integer vertices around (cx, cy) and up to `holes`
    small disjoint triangular holes placed strictly inside the inner disc"""
    import math
    angs = sorted(r.sample(range(0, 3600), nverts))
    pts = []
    for a in angs:
        rr = r.randint(rad, 2 * rad)
        pts.append((cx + int(round(rr * math.cos(a * math.pi / 1800))), cy + int(round(rr * math.sin(a * math.pi / 1800)))))
    dedup = []
    for p in pts:
        if not dedup or dedup[-1] != p:
            dedup.append(p)
    if len(dedup) > 1 and dedup[0] == dedup[-1]:
        dedup.pop()
    if len(dedup) < 3:
        return None
    ring = _closed(dedup)
    if _area2(ring) <= 0 or not ring_is_simple(ring):
        return None
    # star-shaped w.r.t. centre only if the centre is strictly inside: check by oracle
    if not point_in_ring_strict((cx, cy), ring):
        return None
    rings = [ring]
    inner = max(1, rad // 3)
    cells = [(-1, -1), (1, 1), (-1, 1), (1, -1)]
    r.shuffle(cells)
    for k in range(holes):
        if inner < 4:
            break
        dx, dy = cells[k]
        ox, oy = cx + dx * inner // 2, cy + dy * inner // 2
        s = max(1, inner // 5)
        h = [(ox, oy), (ox, oy + s), (ox + s, oy), (ox, oy)]  # clockwise
        # the hole must lie strictly inside the shell: all its vertices strictly inside and no edge crossing
        if all(point_in_ring_strict(v, ring) for v in h[:-1]) and not any(
                seg_seg(h[i], h[i + 1], ring[j], ring[j + 1]) for i in range(3) for j in range(len(ring) - 1)):
            rings.append(h)
    return [flat(x) for x in rings]


# ----------------------------------------------------------------------------- exact oracles

def _orient(a, b, c):
    v = (b[0] - a[0]) * (c[1] - a[1]) - (b[1] - a[1]) * (c[0] - a[0])
    return (v > 0) - (v < 0)


def on_segment(p, a, b):
    return _orient(a, b, p) == 0 and min(a[0], b[0]) <= p[0] <= max(a[0], b[0]) and min(a[1], b[1]) <= p[1] <= max(a[1], b[1])


def seg_seg(a, b, c, d):
    """closed segments ab and cd share a point (exact, degenerate segments included)"""
    o1, o2, o3, o4 = _orient(a, b, c), _orient(a, b, d), _orient(c, d, a), _orient(c, d, b)
    if o1 != o2 and o3 != o4:
        return True
    return on_segment(c, a, b) or on_segment(d, a, b) or on_segment(a, c, d) or on_segment(b, c, d)


def ring_is_simple(ring):
    n = len(ring) - 1
    for i in range(n):
        for j in range(i + 1, n):
            if j == i + 1 or (i == 0 and j == n - 1):
                # adjacent edges share exactly one endpoint: must not overlap collinearly
                a, b, c = ring[i], ring[i + 1], ring[(j + 1) % n] if j == i + 1 else ring[j]
                if j == i + 1:
                    if _orient(ring[i], ring[i + 1], ring[j + 1]) == 0 and on_segment(ring[j + 1], ring[i], ring[i + 1]):
                        return False
                    if _orient(ring[i], ring[i + 1], ring[j + 1]) == 0 and on_segment(ring[i], ring[j], ring[j + 1]):
                        return False
                continue
            if seg_seg(ring[i], ring[i + 1], ring[j], ring[j + 1]):
                return False
    return True


def seg_box(a, b, box):
    """closed segment ab meets the closed box (Liang–Barsky, exact rationals)"""
    x0, y0, x1, y1 = box
    t0, t1 = Fraction(0), Fraction(1)
    dx, dy = b[0] - a[0], b[1] - a[1]
    for p, q in ((-dx, a[0] - x0), (dx, x1 - a[0]), (-dy, a[1] - y0), (dy, y1 - a[1])):
        if p == 0:
            if q < 0:
                return False
        else:
            t = Fraction(q, p)
            if p < 0:
                if t > t1:
                    return False
                t0 = max(t0, t)
            else:
                if t < t0:
                    return False
                t1 = min(t1, t)
    return t0 <= t1


def norm_box(b):
    x0, y0, x1, y1 = b
    return (min(x0, x1), min(y0, y1), max(x0, x1), max(y0, y1))


def on_ring(p, ring):
    return any(on_segment(p, ring[i], ring[i + 1]) for i in range(len(ring) - 1)) or (len(ring) == 1 and ring[0] == p)


def crossings(p, ring):
    """even-odd crossing number of the ray to the right of p (p not on the ring), exact"""
    c = 0
    for i in range(len(ring) - 1):
        a, b = ring[i], ring[i + 1]
        if (a[1] > p[1]) != (b[1] > p[1]):
            # x coordinate of the edge at height p.y, compared exactly
            # x = a.x + (p.y - a.y) * (b.x - a.x) / (b.y - a.y)
            num = (p[1] - a[1]) * (b[0] - a[0])
            den = b[1] - a[1]
            lhs = Fraction(num, den) + a[0]
            if lhs > p[0]:
                c += 1
    return c


def point_in_ring_strict(p, ring):
    return (not on_ring(p, ring)) and crossings(p, ring) % 2 == 1


def point_region(p, rings):
    """'in' (strictly inside the even-odd region), 'on' (on some ring), 'out'"""
    if any(on_ring(p, r) for r in rings if r):
        return "on"
    c = sum(crossings(p, r) for r in rings if len(r) >= 2)
    return "in" if c % 2 == 1 else "out"


def oracle_ib(kind, el, box):
    """does the closed point set of the element share a point with the closed box? (exact)"""
    if el is None:
        return False
    b = norm_box(box)
    x0, y0, x1, y1 = b
    rings = rings_of(kind, el)
    for r in rings:
        for v in r:
            if x0 <= v[0] <= x1 and y0 <= v[1] <= y1:
                return True
    if kind in ("point", "multipoint"):
        return False
    for r in rings:
        for i in range(len(r) - 1):
            if seg_box(r[i], r[i + 1], b):
                return True
    if kind in ("polygon", "multipolygon"):
        polys = [el] if kind == "polygon" else el
        for poly in polys:
            prs = [list(zip(r[0::2], r[1::2])) for r in poly]
            # no ring meets the box: the box is entirely inside or entirely outside the region
            if point_region((x0, y0), prs) == "in":
                return True
    return False


def oracle_pis(kind, shape, p):
    """'T' / 'F' / 'on-ring' (outside the truth guarantee)"""
    rings = rings_of(kind, shape)
    if kind in ("point", "multipoint"):
        return "T" if any(v == tuple(p) for r in rings for v in r) else "F"
    if kind in ("line", "ring", "multiline"):
        for r in rings:
            if any(v == tuple(p) for v in r):
                return "T"
            if any(on_segment(tuple(p), r[i], r[i + 1]) for i in range(len(r) - 1)):
                return "T"
        return "F"
    polys = [shape] if kind == "polygon" else shape
    res = "F"
    for poly in polys:
        prs = [list(zip(r[0::2], r[1::2])) for r in poly]
        reg = point_region(tuple(p), prs)
        if reg == "on":
            return "on-ring"
        if reg == "in":
            res = "T"
    return res


# ----------------------------------------------------------------------------- structured random elements

def rand_coords(r, k, mag, special=0.0):
    """k vertices as a flat list; with probability `special` a coordinate is nan/inf/-inf"""
    out = []
    for _ in range(2 * k):
        if special and r.random() < special:
            out.append(r.choice((float("nan"), float("inf"), float("-inf"))))
        else:
            out.append(r.randint(-mag, mag))
    return out


def rand_ring(r, k, mag, closed=True):
    """ring with k distinct-ish vertices (k may be 0..): closed by repeating the first vertex"""
    c = rand_coords(r, k, mag)
    if closed and k >= 1:
        c = c + c[:2]
    return c


def structured_elements(kind, r, n, mag=20, special=0.0, closed=True):
    """n elements of `kind`: every nesting level may be empty, rings may have < 3 vertices, collinear
    runs and repeated vertices occur, missing elements are sprinkled in"""
    out = []
    for _ in range(n):
        u = r.random()
        if u < 0.12:
            out.append(None); continue
        if kind == "point":
            out.append(rand_coords(r, 1, mag, special) if u > 0.17 else [float("nan"), float("nan")])
        elif kind in ("multipoint", "line"):
            out.append(rand_coords(r, r.choice((0, 1, 1, 2, 3, 5)), mag, special))
        elif kind == "ring":
            out.append(rand_ring(r, r.choice((0, 1, 2, 3, 4, 6)), mag))
        elif kind == "multiline":
            out.append([rand_coords(r, r.choice((0, 1, 2, 3, 4)), mag, special) for _ in range(r.choice((0, 1, 1, 2, 3)))])
        elif kind == "polygon":
            out.append([_maybe_collinear(r, rand_ring(r, r.choice((0, 1, 2, 3, 4, 5)), mag, closed)) for _ in range(r.choice((0, 1, 1, 2, 3)))])
        else:
            out.append([[_maybe_collinear(r, rand_ring(r, r.choice((0, 2, 3, 4, 5)), mag, closed)) for _ in range(r.choice((0, 1, 2, 3)))]
                        for _ in range(r.choice((0, 1, 1, 2, 3)))])
    return out


def _maybe_collinear(r, ring):
    """sometimes replace a ring by a zero-area (collinear) closed ring"""
    if len(ring) >= 8 and r.random() < 0.15:
        k = len(ring) // 2 - 1
        x0, y0 = ring[0], ring[1]
        pts = [(x0 + i * 2, y0 + i) for i in range(k)]
        pts.append(pts[0])
        return flat(pts)
    return ring


def derive(arr, els, r, steps=2):
    """apply a random sequence of derivation steps to (array, expected elements): slice, take, mask, concat, copy"""
    import numpy as np
    cls = type(arr)
    hist = []
    for _ in range(steps):
        n = len(els)
        op = r.choice(("slice", "take", "mask", "concat", "copy", "step"))
        if op == "slice" and n:
            a = r.randrange(0, n); b = r.randrange(a, n + 1)
            arr, els = arr[a:b], els[a:b]; hist.append(f"[{a}:{b}]")
        elif op == "take" and n:
            idx = [r.randrange(-n, n) for _ in range(r.randrange(0, n + 2))]
            arr, els = arr.take(idx), [els[i] for i in idx]; hist.append(f"take{idx}")
        elif op == "mask" and n:
            m = np.array([r.random() < 0.6 for _ in range(n)])
            arr, els = arr[m], [e for e, k in zip(els, m) if k]; hist.append("mask")
        elif op == "concat":
            arr, els = cls._concat_same_type([arr, arr[::-1] if n else arr]), els + els[::-1]; hist.append("concat(rev)")
        elif op == "step" and n:
            s = r.choice((-1, 2, -2, 3))
            arr, els = arr[::s], els[::s]; hist.append(f"[::{s}]")
        else:
            arr = arr.copy(); hist.append("copy")
    return arr, els, hist
