"""C13 — bounds and total_bounds are the tight extents of the geometry.

Every kind x subtype x arrays with missing / empty elements and non-finite coordinates, also after
slice / take / mask / concat (non-zero buffer offsets); `bounds`, `total_bounds`, `total_bounds_x/y`,
the GeoSeries, Dask and spatial-index versions, against the Lean model `Bounds.totalBounds`."""
import json
import os
import math

import numpy as np

from . import common, geo
from .common import Check, drive, tok, untok

PROP = "C13"


def canon(v):
    """float -> protocol token value (int or 'nan'); non-integers are kept as floats"""
    v = float(v)
    if math.isnan(v):
        return "nan"
    if math.isinf(v):
        return "inf" if v > 0 else "-inf"
    return int(v) if v == int(v) else v


def canon_row(row):
    return [canon(x) for x in row]


def model_bounds(kind, els):
    out = drive(["bounds %s %s" % (kind, tok(els))])[0]
    if out == "bad-op":
        raise RuntimeError("driver rejected bounds")
    rows, total = untok(out)
    fix = lambda r: ["nan" if (isinstance(x, float) and x != x) else x for x in r]  # noqa: E731
    return [fix(r) for r in rows], fix(total)


def el_class(kind, el):
    if el is None:
        return "missing"
    vs = geo.verts_of(kind, el)
    if not vs:
        return "empty"
    if any(isinstance(c, float) and not math.isfinite(c) for v in vs for c in v):
        return "nonfinite"
    return "regular"


def compare(chk, kind, st, arr, els, hist, what="array"):
    rows, total = model_bounds(kind, els)
    n = len(els)
    classes = [el_class(kind, e) for e in els]
    rep = dict(api=f"{kind.title()}Array", kind=kind, subtype=st, elements=els, derivation=hist)
    sz = sum(len(geo.verts_of(kind, e)) for e in els) + n
    chk.evaluated(n + 1)
    if any(c != "regular" for c in classes) or hist:
        chk.nontriv(hash((kind, st, json.dumps(els), tuple(hist))))
    # bounds rows
    try:
        b = np.asarray(arr.bounds)
    except Exception as e:  # noqa: BLE001
        cls = "with-missing" if "missing" in classes else "no-missing"
        chk.violation(f"bounds/{kind}/raises-{common.err_kind(e)}/{cls}", dict(rep, error=repr(e)[:200], expected_rows=rows), size=sz)
        b = None
    if b is not None:
        got = [canon_row(r) for r in b.tolist()]
        if b.shape != (n, 4) and not (n == 0):
            chk.violation(f"bounds/{kind}/shape", dict(rep, shape=list(b.shape)), size=sz)
        else:
            for i in range(n):
                if got[i] != rows[i]:
                    chk.violation(f"bounds/{kind}/row-differs/{classes[i]}", dict(rep, row=i, impl=got[i], model=rows[i]), size=sz)
                    break
        # what a caller does to the array it was handed (padding the boxes, replacing NaN) is the caller's own business: asking again
        # gives the extents of the geometry
        try:
            if b.size and b.flags.writeable:
                b[...] = np.where(np.isnan(b), 0.0, b) + 100.0
            again = [canon_row(r_) for r_ in np.asarray(arr.bounds).tolist()]
            if n and again != rows and b.shape == (n, 4):
                chk.violation(f"bounds/{kind}/changed-by-modifying-an-earlier-result", dict(rep, second_call=again[:4], model=rows[:4]), size=sz)
        except Exception as e:  # noqa: BLE001
            chk.violation(f"bounds/{kind}/second-call-raises-{common.err_kind(e)}", dict(rep, error=repr(e)[:200]), size=sz)
        chk.count(f"{kind}:bounds")
    # total bounds
    try:
        tb = canon_row(arr.total_bounds)
        if tb != total:
            cls = "with-missing" if "missing" in classes else "no-missing"
            chk.violation(f"total_bounds/{kind}/differs/{cls}", dict(rep, impl=tb, model=total), size=sz)
        tx, ty = canon_row(arr.total_bounds_x), canon_row(arr.total_bounds_y)
        if tx != [total[0], total[2]] or ty != [total[1], total[3]]:
            cls = "with-missing" if "missing" in classes else "no-missing"
            chk.violation(f"total_bounds_xy/{kind}/differs/{cls}", dict(rep, impl_x=tx, impl_y=ty, model=total), size=sz)
    except Exception as e:  # noqa: BLE001
        chk.violation(f"total_bounds/{kind}/raises-{common.err_kind(e)}", dict(rep, error=repr(e)[:200]), size=sz)
    chk.count(f"{kind}:total")
    for c in set(classes):
        chk.count("class:" + c)
    return rows, total


def wrappers(chk, kind, st, arr, els, rows, total, r, with_index):
    from spatialpandas import GeoSeries
    n = len(els)
    rep = dict(api="GeoSeries/Dask/sindex wrappers", kind=kind, subtype=st, elements=els)
    idx = [f"k{i}" for i in range(n)]
    s = GeoSeries(arr, index=idx)
    try:
        sb = s.bounds
        got = [canon_row(x) for x in sb.values.tolist()]
        if list(sb.index) != idx or list(sb.columns) != ["x0", "y0", "x1", "y1"] or got != rows:
            chk.violation(f"GeoSeries.bounds/{kind}/differs", dict(rep, impl=got, model=rows))
        if canon_row(s.total_bounds) != total:
            chk.violation(f"GeoSeries.total_bounds/{kind}/differs", dict(rep, impl=canon_row(s.total_bounds), model=total))
    except Exception as e:  # noqa: BLE001
        chk.violation(f"GeoSeries.bounds/{kind}/raises-{common.err_kind(e)}", dict(rep, error=repr(e)[:200]))
    chk.count("wrapper:series")
    nested_empty = any(e is not None and e != [] and not geo.verts_of(kind, e) for e in els) or \
        any(e is not None and geo.DEPTH[kind] > 0 and any(not geo.verts_of({1: "line", 2: "polygon"}[geo.DEPTH[kind]], p) for p in e) for e in els)
    if nested_empty:
        chk.drifted("array holds an element with an empty ring/part: scalar / iteration forms are not exercised (arr[i] cannot represent it)")
    if n >= 1 and not nested_empty:
        import dask.dataframe as dd
        try:
            k = r.randint(1, min(4, n))
            ds = dd.from_pandas(s, npartitions=k)
            db = ds.bounds.compute()
            got = [canon_row(x) for x in db.values.tolist()]
            if got != rows or list(db.index) != idx:
                chk.violation(f"DaskGeoSeries.bounds/{kind}/differs", dict(rep, npartitions=k, impl=got, model=rows))
            dt = canon_row(ds.total_bounds)
            if dt != total and any(t != "nan" for t in total):
                chk.violation(f"DaskGeoSeries.total_bounds/{kind}/differs", dict(rep, npartitions=k, impl=dt, model=total))
        except Exception as e:  # noqa: BLE001
            chk.violation(f"DaskGeoSeries.bounds/{kind}/raises-{common.err_kind(e)}", dict(rep, error=repr(e)[:300]))
        chk.count("wrapper:dask")
        # a Dask frame that has already answered a spatial question (its partition bounds are cached), then filtered by a row mask:
        # the filtered frame's total bounds are those of the rows it kept
        if n >= 2:
            try:
                from spatialpandas import GeoDataFrame
                gdf = GeoDataFrame({"g": arr, "v": list(range(n))})
                ddf = dd.from_pandas(gdf, npartitions=r.randint(1, min(3, n)))
                ddf.cx[-5:5, -5:5].compute()
                ddf.geometry.partition_bounds
                keep = [i for i in range(n) if i % 2 == 1]
                flt = ddf[ddf["v"] % 2 == 1]
                want_rows = [rows[i] for i in keep]
                cols = list(zip(*want_rows)) if want_rows else [[], [], [], []]
                def fold(c, fn):
                    vals = [x for x in c if x != "nan"]
                    return fn(vals) if vals else "nan"
                want = [fold(cols[0], min), fold(cols[1], min), fold(cols[2], max), fold(cols[3], max)]
                got = canon_row(flt.geometry.total_bounds)
                if got != want and any(t != "nan" for t in want):
                    chk.violation(f"DaskGeoSeries.total_bounds/{kind}/differs-after-filter", dict(rep, kept_rows=keep, impl=got, from_kept_rows=want))
                chk.count("wrapper:dask-filtered")
            except Exception as e:  # noqa: BLE001
                chk.violation(f"DaskGeoSeries.total_bounds/{kind}/filtered-raises-{common.err_kind(e)}", dict(rep, error=repr(e)[:300]))
    mixed = any(any(x == "nan" for x in row) and not all(x == "nan" for x in row) for row in rows)
    if with_index and n >= 1:
        try:
            sx = arr.copy().sindex  # fresh object: no cached index
            it = canon_row(sx.total_bounds)
            if it != total:
                cls = "half-defined-row" if mixed else "with-nan-row" if any(all(x == "nan" for x in row) for row in rows) else "no-nan-row"
                chk.violation(f"sindex.total_bounds/{kind}/differs/{cls}", dict(rep, impl=it, model=total))
        except Exception as e:  # noqa: BLE001
            chk.violation(f"sindex.total_bounds/{kind}/raises-{common.err_kind(e)}", dict(rep, error=repr(e)[:300]))
        chk.count("wrapper:sindex")


def half_defined_partitions(chk, r, tier):
    """Dask series in which a whole partition has no finite coordinate in one dimension and the extremes of the other"""
    import dask.dataframe as dd
    from spatialpandas import GeoSeries
    nan, inf = float("nan"), float("inf")
    for k in range(6 if tier == "quick" else 40):
        kind = ("point", "multipoint", "line")[k % 3]
        dim = k % 2
        size = r.choice((1, 2, 3))
        nparts = r.choice((2, 3, 4))
        bad_part = r.randrange(nparts)
        els = []
        for pi in range(nparts):
            for _ in range(size):
                if pi == bad_part:
                    far = r.choice((-1, 1)) * r.randint(20, 90)
                    pt = lambda: [r.choice((nan, inf, -inf)), far + r.randint(0, 3)] if dim == 0 else [far + r.randint(0, 3), r.choice((nan, inf, -inf))]  # noqa: E731
                else:
                    pt = lambda: [r.randint(-9, 9), r.randint(-9, 9)]  # noqa: E731
                els.append(pt() if kind == "point" else pt() + pt())
        arr = geo.make_array(kind, els, "float64")
        rows, total = compare(chk, kind, "float64", arr, els, [])
        rep = dict(api="DaskGeoSeries.total_bounds", kind=kind, subtype="float64", elements=els, npartitions=nparts, partition_without_finite=("x", "y")[dim])
        try:
            ds = dd.from_pandas(GeoSeries(arr), npartitions=nparts)
            dt = canon_row(ds.total_bounds)
            if dt != total:
                chk.violation(f"DaskGeoSeries.total_bounds/{kind}/differs/partition-half-defined", dict(rep, impl=dt, model=total))
            fr = canon_row(dd.from_pandas(GeoSeries(arr).to_frame("g").set_geometry("g"), npartitions=nparts).geometry.total_bounds) \
                if hasattr(GeoSeries(arr).to_frame("g"), "set_geometry") else dt
            if fr != total:
                chk.violation(f"DaskGeoDataFrame.total_bounds/{kind}/differs/partition-half-defined", dict(rep, impl=fr, model=total))
        except Exception as e:  # noqa: BLE001
            chk.violation(f"DaskGeoSeries.total_bounds/{kind}/raises-{common.err_kind(e)}/partition-half-defined", dict(rep, error=repr(e)[:300]))
        chk.count("wrapper:dask-half-defined-partition")


def pruned_read_columns(chk, r, tier):
    """a Dask frame loaded with read_parquet_dask(bounds=box) from a dataset with two geometry columns: the total bounds of every
    geometry column - the one the pruning used and the other one - are the extents of the rows that were loaded"""
    import shutil
    import tempfile
    import dask.dataframe as dd
    from spatialpandas import GeoDataFrame
    from spatialpandas.io import read_parquet_dask
    tmp = tempfile.mkdtemp(prefix="spv_c13_")
    try:
        for k in range(2 if tier == "quick" else 8):
            n, nparts = 20, 4
            pts = [[10 * (i // 5) + r.randint(0, 4), r.randint(0, 9)] for i in range(n)]
            lines = [[100 - 10 * (i // 5) + r.randint(0, 4), 50 + i, 100 - 10 * (i // 5) + 5, 60 + i] for i in range(n)]
            df = GeoDataFrame({"points": geo.make_array("point", pts, "float64"), "lines": geo.make_array("line", lines, "float64"), "v": list(range(n))})
            path = os.path.join(tmp, f"two_{k}.parq")
            dd.from_pandas(df, npartitions=nparts).to_parquet(path)
            for active, box in (("points", (-1, -1, 16, 20)), ("lines", (60, 0, 89, 200)), ("points", (25, -5, 100, 50))):
                rd = read_parquet_dask(path, geometry=active, bounds=box)
                loaded = rd.compute()
                rep = dict(api="read_parquet_dask(geometry=, bounds=)", active=active, box=list(box), partitions_loaded=rd.npartitions, rows_loaded=len(loaded))
                for col in ("points", "lines"):
                    got = canon_row(rd[col].total_bounds)
                    want = canon_row(loaded[col].array.total_bounds) if len(loaded) else ["nan"] * 4
                    chk.evaluated()
                    if got != want and any(t != "nan" for t in want):
                        chk.violation(f"DaskGeoSeries.total_bounds/pruned-read/{'active' if col == active else 'other-geometry-column'}-differs",
                                      dict(rep, column=col, impl=got, from_loaded_rows=want))
        chk.count("wrapper:dask-pruned-read")
    except Exception as e:  # noqa: BLE001
        chk.violation(f"DaskGeoSeries.total_bounds/pruned-read-raises-{common.err_kind(e)}", dict(api="read_parquet_dask", error=repr(e)[:300]))
    finally:
        shutil.rmtree(tmp, ignore_errors=True)


def one_axis(el, axis, bad):
    """the element with every coordinate of one axis replaced by a non-finite value"""
    if el and isinstance(el[0], list):
        return [one_axis(x, axis, bad) for x in el]
    return [bad if i % 2 == axis else c for i, c in enumerate(el)]


def cast_after_index(chk, r, tier):
    """an array that already has a spatial index is cast to another coordinate subtype (the coordinates change: float64 -> float32
    rounds, -> int32 truncates): bounds, total_bounds and the index of the result are those of the new coordinates"""
    def shift(el):
        if el and isinstance(el[0], list):
            return [shift(x) for x in el]
        return [c + 0.3 for c in el]

    def cast_el(el, f):
        if el and isinstance(el[0], list):
            return [cast_el(x, f) for x in el]
        return [f(c) for c in el]
    for kind in ("line", "multipoint", "multiline", "polygon", "ring", "multipolygon"):
        els = [shift(e) for e in geo.structured_elements(kind, r, 10, mag=40) if e is not None and geo.verts_of(kind, e)][:5] + [None]
        for indexed in (False, True):
            src = geo.make_array(kind, els, "float64")
            if indexed:
                src.build_sindex()
                src.cx[0:5, 0:5]
            for target, f in (("float32", lambda c: float(np.float32(c))), ("int32", lambda c: float(int(c)))):
                rep = dict(api="GeometryArray.astype", kind=kind, elements=els, target=target, source_has_index=indexed)
                try:
                    cast = src.astype(target)
                    vs = [v for e in els if e is not None for v in geo.verts_of(kind, cast_el(e, f))]
                    want = canon_row([min(v[0] for v in vs), min(v[1] for v in vs), max(v[0] for v in vs), max(v[1] for v in vs)])
                    got_t, got_s = canon_row(cast.total_bounds), canon_row(cast.sindex.total_bounds)
                    chk.evaluated(len(els))
                    if got_t != want:
                        chk.violation(f"total_bounds/{kind}/after-cast-differs", dict(rep, impl=got_t, expected=want))
                    elif got_s != want:
                        chk.violation(f"sindex.total_bounds/{kind}/after-cast-differs/{'source-indexed' if indexed else 'fresh'}", dict(rep, impl=got_s, expected=want))
                except Exception as e:  # noqa: BLE001
                    chk.drifted(f"astype({target}) of a {kind} array raises {common.err_kind(e)}", dict(rep, error=repr(e)[:200]))
    chk.count("cast-after-index")


def run_cases(chk, tier):
    r = common.rng(PROP)
    cast_after_index(chk, r, tier)
    rounds = 6 if tier == "quick" else 40
    half_defined_partitions(chk, r, tier)
    pruned_read_columns(chk, r, tier)
    for kind in geo.KINDS:
        # fixed structural cases first
        fixed = [[], [None], [None, None]]
        for els in fixed:
            arr = geo.make_array(kind, els, "float64")
            compare(chk, kind, "float64", arr, els, [])
        # an element that is undefined on one axis only (all its x, or all its y, non-finite): its defined axis still counts (D41)
        base = [e for e in geo.structured_elements(kind, r, 12, mag=30) if e is not None and geo.verts_of(kind, e)][:3]
        for axis, bad in ((0, float("nan")), (1, float("inf")), (0, float("-inf"))):
            for pos in range(len(base)):
                els = [one_axis(e, axis, bad) if i == pos else e for i, e in enumerate(base)] + [None]
                arr = geo.make_array(kind, els, "float64")
                rows, total = compare(chk, kind, "float64", arr, els, [])
                wrappers(chk, kind, "float64", arr, els, rows, total, r, with_index=True)
                chk.count("half-defined-elements")
        for k in range(rounds):
            st = geo.SUBTYPES[k % len(geo.SUBTYPES)]
            special = 0.15 if st.startswith("float") and k % 2 == 0 else 0.0
            mag = 20 if st == "int16" or k % 3 else 3000
            els = geo.structured_elements(kind, r, r.randint(1, 9), mag=mag, special=special)
            if not st.startswith("float"):
                els = [e for e in els if e is None or el_class(kind, e) != "nonfinite"]
                if kind == "point":
                    els = [e for e in els if e is None or e[0] == e[0]]
            arr = geo.make_array(kind, els, st)
            rows, total = compare(chk, kind, st, arr, els, [])
            if k < 3 or tier != "quick":
                wrappers(chk, kind, st, arr, els, rows, total, r, with_index=(k == 0))
            for _ in range(2):
                darr, dels, hist = geo.derive(arr, els, r, steps=r.randint(1, 3))
                compare(chk, kind, st, darr, dels, hist)
            if k == 1:
                chk.sample(dict(kind=kind, subtype=st, elements=els, model_rows=rows, model_total=total), cap=8)


def main(tier):
    chk = Check(PROP, tier)
    proof = common.proof_side(PROP, leanchecker=(tier == "thorough"))
    if common.import_impl(chk):
        try:
            run_cases(chk, tier)
        except Exception:  # noqa: BLE001
            import traceback
            chk.tie_broken("correspondence C13: implementation could not be driven: " + traceback.format_exc()[-1500:])
    chk.extra["rule"] = ("seeded structured arrays per kind and subtype (missing / empty elements at any level, non-finite coordinates for float "
                         "subtypes) and 1-3 random derivation steps (slice, take, mask, concat, copy, stepped slice); non-trivial = the array "
                         "contains a missing/empty/non-finite element or is derived; distinct by (kind, subtype, elements, derivation)")
    return chk.finish(proof)


def replay(path):
    rep = json.load(open(path))
    arr = geo.make_array(rep["kind"], rep["elements"], rep.get("subtype", "float64"))
    rows, total = model_bounds(rep["kind"], rep["elements"])
    try:
        got = [canon_row(x) for x in np.asarray(arr.bounds).tolist()]
        tb = canon_row(arr.total_bounds)
    except Exception as e:  # noqa: BLE001
        print(json.dumps(dict(impl="raises " + repr(e)[:200], model=rows))); return 1
    print(json.dumps(dict(impl=got, impl_total=tb, model=rows, model_total=total)))
    return 0 if got == rows and tb == total else 1
