"""C02 — point-versus-shape `intersects` is exact (the predicate behind sjoin).

PointArray.intersects (array / inds), Point.intersects (scalar), GeoSeries.intersects against the Lean
model `Geom.point*` and an independent exact oracle; points on a polygon ring are compared for form
agreement only (outside the truth guarantee)."""
import json

import numpy as np

from . import common, geo
from .c01 import random_family
from .common import Check, drive, tok, untok

PROP = "C02"
SHAPE_KINDS = ["point", "multipoint", "line", "multiline", "polygon", "multipolygon"]


def families(tier):
    fam = {}
    g5 = [[x, y] for x in range(-1, 6) for y in range(-1, 6)]
    g9 = [[x, y] for x in range(-1, 10) for y in range(-1, 10)]
    fam["point"] = ([[0, 0], [2, 4], [4, 4], [3, 3]], g5)
    fam["multipoint"] = (geo.multipoints_family((0, 2, 4), 2), g5)
    fam["line"] = (geo.lines_family((0, 2, 4), 3), g5)
    fam["multiline"] = (geo.multilines_family(), g5)
    concave = [[[0, 0, 8, 0, 8, 8, 4, 4, 0, 0]], [[0, 0, 0, 0, 8, 0, 8, 8, 8, 8, 4, 4, 0, 0]],
               [[0, 0, 6, 0, 6, 6, 3, 3, 0, 6, 0, 0]], [[0, 0, 0, 6, 3, 3, 6, 6, 6, 0, 0, 0]]]
    fam["polygon"] = (geo.polygons_family(tier) + concave, g9)
    fam["multipolygon"] = (geo.multipolygons_family(), g9)
    return fam


def model_matrix(kind, shapes, points):
    out = drive(["pism %s %s %s" % (kind, tok(shapes), tok(points))])[0]
    if out == "bad-op":
        raise RuntimeError("driver rejected pism for " + kind)
    return np.array(untok(out), dtype=bool).reshape(len(shapes), len(points))


def check_family(chk, kind, shapes, points, r, tag, subtypes=("float64",)):
    from spatialpandas import GeoSeries
    # the point array: the finite points, a missing one, and an all-NaN (empty) one, in shuffled order
    pts = list(points) + [None, None]
    order = r.sample(range(len(pts)), len(pts))
    pts = [pts[i] for i in order]
    nan_slots = [i for i, p in enumerate(pts) if p is None][:1]
    impl_pts = list(pts)
    for i in nan_slots:
        impl_pts[i] = [float("nan"), float("nan")]      # an empty point (no finite coordinate)
    model = model_matrix(kind, shapes, pts)                # N rows -> false
    n = len(pts)
    pclass = ["missing" if p is None else "regular" for p in pts]
    for i in nan_slots:
        pclass[i] = "nan-point"
    parrs = {}
    sc_cls = geo.scalar_class(kind)
    perm = np.array(r.sample(range(n), n), dtype=np.int64)
    dups = np.array([r.randrange(n) for _ in range(6)] + [0, n - 1, n - 1], dtype=np.int64)
    ser = None
    for si, shape in enumerate(shapes):
        st = subtypes[si % len(subtypes)]
        if st not in parrs:
            parrs[st] = geo.make_array("point", impl_pts, st if st.startswith("float") else "float64")
        parr = parrs[st]
        sarr = geo.make_array(kind, [shape], st)
        sh = sarr[0]
        try:
            impl = np.asarray(parr.intersects(sh))
        except Exception as e:  # noqa: BLE001
            chk.violation(f"intersects/{kind}/array-form-raises/{common.err_kind(e)}",
                          dict(api="PointArray.intersects", kind=kind, shape=shape, error=repr(e)[:200]))
            continue
        chk.evaluated(n)
        mrow = model[si]
        oracle = None
        for i in np.nonzero(impl != mrow)[0]:
            i = int(i)
            if oracle is None:
                oracle = [None if pts[j] is None else geo.oracle_pis(kind, shape, pts[j]) for j in range(n)]
            if oracle[i] == "on-ring":
                chk.drifted(f"{kind}: point on a polygon ring, implementation differs from the half-open rule of the model",
                            dict(shape=shape, point=pts[i]))
                continue
            chk.violation(f"intersects/{kind}/array/{pclass[i]}-point/impl={bool(impl[i])}",
                          dict(api="PointArray.intersects", kind=kind, subtype=st, shape=shape, point=impl_pts[i],
                               point_class=pclass[i], impl=bool(impl[i]), model=bool(mrow[i]),
                               oracle=oracle[i]), size=len(geo.verts_of(kind, shape)))
        for i in np.nonzero(mrow | (impl != mrow))[0]:
            chk.nontriv(hash((tag, kind, si, int(i))))
        chk.count(f"{kind}:true", int(mrow.sum())); chk.count(f"{kind}:false", int(n - mrow.sum()))
        if si % 5 == 0:
            for name, inds in (("perm", perm), ("dups", dups), ("empty", np.array([], dtype=np.int64))):
                got = np.asarray(parr.intersects(sh, inds))
                if len(got) != len(inds) or (got != impl[inds]).any():
                    chk.violation(f"intersects/{kind}/inds-form-differs/{name}",
                                  dict(api="PointArray.intersects(inds)", kind=kind, shape=shape, inds=inds.tolist()[:20],
                                       whole=impl[inds].tolist()[:20], got=got.tolist()[:20]))
            chk.count("form:inds", 3)
        if si % 9 == 0:
            for i in r.sample(range(n), min(n, 10)):
                if pts[i] is None and i not in nan_slots:
                    continue
                sc = bool(parr[i].intersects(sh))
                if sc != bool(impl[i]):
                    chk.violation(f"intersects/{kind}/scalar-form-differs/{pclass[i]}-point",
                                  dict(api="Point.intersects", kind=kind, shape=shape, point=impl_pts[i], scalar=sc,
                                       array=bool(impl[i])))
                chk.count("form:scalar")
            if ser is None:
                ser = GeoSeries(parrs.get("float64", parr), index=[f"p{i}" for i in range(n)])
            sg = ser.intersects(sh)
            if list(sg.index) != list(ser.index) or (sg.values != np.asarray(ser.array.intersects(sh))).any():
                chk.violation(f"intersects/{kind}/series-form-differs", dict(api="GeoSeries.intersects", shape=shape))
            chk.count("form:series")
        # oracle vs model on a share of the shapes
        if r.random() < 0.2:
            if oracle is None:
                oracle = [None if pts[j] is None else geo.oracle_pis(kind, shape, pts[j]) for j in range(n)]
            for i in range(n):
                if oracle[i] in (None, "on-ring"):
                    if oracle[i] == "on-ring":
                        chk.count("on-ring points (form agreement only)")
                    continue
                if (oracle[i] == "T") != bool(mrow[i]):
                    chk.tie_broken(f"model point-{kind} disagrees with the exact oracle: shape={shape} point={pts[i]} "
                                   f"model={bool(mrow[i])} oracle={oracle[i]}")
                    return
            chk.count("oracle-checked-pairs", n)
    chk.sample(dict(shape_kind=kind, family=tag, shapes=len(shapes), points=n, example_shape=shapes[min(2, len(shapes) - 1)],
                    example_points=impl_pts[:4]), cap=8)


def value_equality(chk, r, tier):
    """a point equals a point of the shape as a *number* pair: signed zeros and the coordinate subtype of either side do not matter
    (scalar, array and restricted array forms)"""
    from spatialpandas.geometry import MultiPointArray, PointArray
    subs = ("float64", "float32", "int64", "int32", "int16")
    cases = [([0.0, 0.0], [-0.0, 0.0]), ([-0.0, -0.0], [0.0, 0.0]), ([3.0, -0.0], [3.0, 0.0])]
    for _ in range(6 if tier == "quick" else 40):
        q = [r.randint(-50, 50), r.randint(-50, 50)]
        cases.append((list(q), list(q)))
        cases.append((list(q), [q[0] + r.choice((0, 1)), q[1] + 1]))
    for a, b in cases:
        want = (a[0] == b[0] and a[1] == b[1])
        # quick: the pairs that differ in kind (float / int) and in width; thorough: all 25 (every new pair compiles the kernels anew)
        pairs = [(sa, sb) for sa in subs for sb in subs] if tier != "quick" else \
            [("float64", "float64"), ("float64", "float32"), ("float32", "float64"), ("float64", "int64"), ("int32", "float32"), ("int16", "int64")]
        for sa, sb in pairs:
            if True:
                if (not sa.startswith("float") or not sb.startswith("float")) and any(str(v).startswith("-0") for v in a + b):
                    continue
                try:
                    pa_ = PointArray(np.array([a, [99, 99]], dtype=sa))
                    shape = PointArray(np.array([b], dtype=sb))[0]
                    mshape = MultiPointArray([[7, 7] + list(b)], dtype=sb)[0]
                    got = dict(scalar=bool(pa_[0].intersects(shape)), array=bool(pa_.intersects(shape)[0]),
                               inds=bool(pa_.intersects(shape, inds=np.array([0]))[0]),
                               scalar_multipoint=bool(pa_[0].intersects(mshape)), array_multipoint=bool(pa_.intersects(mshape)[0]))
                except Exception as e:  # noqa: BLE001
                    chk.violation(f"intersects/point/value-equality-raises-{common.err_kind(e)}", dict(api="Point.intersects", point=a, shape=b, subtypes=[sa, sb], error=repr(e)[:200]))
                    continue
                chk.evaluated()
                bad = [k for k, v in got.items() if v != want]
                if bad:
                    cls = "signed-zero" if any(str(v).startswith("-0") for v in a + b) else ("same-subtype" if sa == sb else "mixed-subtypes")
                    chk.violation(f"intersects/point/{bad[0]}-form/equal-numbers-compared-by-representation/{cls}",
                                  dict(api="Point.intersects(Point)", point=a, shape=b, subtypes=[sa, sb], expected=want, got=got))
                chk.nontriv(hash(("valeq", tuple(a), tuple(b), sa, sb)))
    chk.count("value-equality-cases", len(cases))
    # the positions of the restricted form given as a python list or as a narrow integer array, on an array longer than 127
    from spatialpandas.geometry import LineArray
    long_arr = PointArray(np.array([[i, i] for i in range(200)], dtype="float64"))
    shapes = {"point": PointArray(np.array([[150.0, 150.0]]))[0], "multipoint": MultiPointArray([[150, 150, 3, 3]], dtype="float64")[0],
              "line": LineArray([[149, 149, 151, 151]], dtype="float64")[0]}
    for sk, shape in shapes.items():
        whole = [bool(x) for x in long_arr.intersects(shape)]
        for how, inds in (("list", [150, 3, 199]), ("uint8", np.array([150, 3, 199], dtype=np.uint8)), ("int16", np.array([150, 3, 199], dtype=np.int16)),
                          ("int64", np.array([150, 3, 199]))):
            try:
                got = [bool(x) for x in long_arr.intersects(shape, inds=inds)]
            except Exception as e:  # noqa: BLE001
                chk.violation(f"intersects/{sk}/inds-form-raises-{common.err_kind(e)}/{how}-positions", dict(api="PointArray.intersects(inds=)", kind=sk, inds=[150, 3, 199], inds_type=how, error=repr(e)[:200]))
                continue
            chk.evaluated()
            if got != [whole[150], whole[3], whole[199]]:
                chk.violation(f"intersects/{sk}/inds-form-differs/{how}-positions", dict(api="PointArray.intersects(inds=)", kind=sk, inds=[150, 3, 199], inds_type=how, got=got,
                                                                                       whole_array=[whole[150], whole[3], whole[199]]))
    chk.count("position-types")
    # the restricted form on a window of a larger array (non-zero buffer offset) whose parent holds missing points before, inside and
    # behind the window: positions are positions in the window, a missing point answers False
    parent_pts = [[i, i] for i in range(24)]
    for k in (0, 1, 5, 9, 10, 17, 23):
        parent_pts[k] = None
    parent = PointArray([None if q is None else np.array(q, dtype="float64") for q in parent_pts], dtype="float64")
    for sk, shape in {"polygon": geo.make_array("polygon", [[[-1, -1, 30, -1, 30, 30, -1, 30, -1, -1]]], "float64")[0],
                      "line": LineArray([[0, 0, 30, 30]], dtype="float64")[0], "multipoint": MultiPointArray([[0, 0, 9, 9, 12, 12, 3, 3]], dtype="float64")[0]}.items():
        for lo, hi in ((3, 15), (1, 24), (8, 12), (0, 24)):
            win = parent[lo:hi]
            whole = [bool(x) for x in win.intersects(shape)]
            want = [bool(x) for x in PointArray([None if q is None else np.array(q, dtype="float64") for q in parent_pts[lo:hi]], dtype="float64").intersects(shape)]
            for inds in (list(range(hi - lo)), list(range(hi - lo))[::-1], list(range(0, hi - lo, 2))):
                got = [bool(x) for x in win.intersects(shape, inds=np.array(inds))]
                chk.evaluated()
                if whole != want or got != [want[i] for i in inds]:
                    chk.violation(f"intersects/{sk}/inds-form-differs/window-of-an-array-with-missing-points",
                                  dict(api="PointArray.intersects(inds=)", kind=sk, window=[lo, hi], inds=inds, got=got, expected=[want[i] for i in inds], whole_array=whole))
                    break
    chk.count("windowed-inds")


def tiny_scale(chk, r, tier):
    """the same configurations with every coordinate multiplied by a power of two (exact in float64): the answer does not change,
    however small the cross products become (there is no tolerance in 'lies on a segment')"""
    for kind in ("line", "multiline", "polygon", "multipolygon"):
        for e in (-20, -30, -45) if tier == "quick" else (-10, -20, -30, -45, -200, 40):
            sc = 2.0 ** e
            shapes = random_family(kind, r, 8, 12)
            pts = [[r.randint(-13, 13), r.randint(-13, 13)] for _ in range(40)]
            for s_ in shapes[:6]:
                for ring in geo.rings_of(kind, s_):
                    for a, b in zip(ring, ring[1:]):
                        if (a[0] + b[0]) % 2 == 0 and (a[1] + b[1]) % 2 == 0:
                            pts.append([int(a[0] + b[0]) // 2, int(a[1] + b[1]) // 2])
            model = model_matrix(kind, shapes, pts)

            def scaled(x):
                return [scaled(y) for y in x] if isinstance(x, list) else x * sc
            parr = geo.make_array("point", scaled(pts), "float64")
            for si, shape in enumerate(shapes):
                sarr = geo.make_array(kind, [scaled(shape)], "float64")
                try:
                    impl = np.asarray(parr.intersects(sarr[0]))
                except Exception as ex:  # noqa: BLE001
                    chk.violation(f"intersects/{kind}/array-form-raises/{common.err_kind(ex)}", dict(api="PointArray.intersects", kind=kind, shape=shape, scale=f"2**{e}")); continue
                chk.evaluated(len(pts))
                for j in np.nonzero(impl != model[si])[0]:
                    j = int(j)
                    if geo.oracle_pis(kind, shape, pts[j]) == "on-ring":
                        continue
                    chk.violation(f"intersects/{kind}/scaled-coordinates/impl={bool(impl[j])}",
                                  dict(api="PointArray.intersects", kind=kind, shape=shape, point=pts[j], scale=f"2**{e}", impl=bool(impl[j]),
                                       model=bool(model[si][j])), size=len(geo.verts_of(kind, shape)))
                    break
    chk.count("tiny-scale")


F32_SIG = "intersects/float32-storage/cross-product-computed-in-single-precision"


def float32_both_sides(chk, r, tier):
    """points and shape both stored as float32, coordinates exact in float32 but with cross products beyond 2^24: the kernels
    multiply in the storage type (known finding D44, the point-versus-shape face of D35); every miss of this family is reported under
    one signature, and the same data stored as float64 must be right"""
    for kind in ("line", "multiline"):
        for k in range(6 if tier == "quick" else 40):
            a, b = (8191, 8189) if k == 0 else (r.randint(4000, 8191), r.randint(4000, 8191))
            seg = [0, 0, a, b] if kind == "line" else [[0, 0, a, b]]
            pts = [[r.randint(1, a), r.randint(1, b)] for _ in range(30)]
            # points of the bounding box whose cross product with the segment is 0, +-1, +-2, +-3: on the line or just off it
            near = [[x, (2 * x * b + a) // (2 * a)] for x in range(1, a)]
            pts += [q for q in near if abs(a * q[1] - b * q[0]) <= 3][:40]
            model = model_matrix(kind, [seg], pts)[0]
            for st in ("float32", "float64"):
                parr = geo.make_array("point", pts, st)
                sh = geo.scalar_class(kind)(np.array(seg[0] if kind == "multiline" else seg, dtype=st)) if kind == "line" else geo.make_array(kind, [seg], st)[0]
                impl = np.asarray(parr.intersects(sh))
                chk.evaluated(len(pts))
                for j in np.nonzero(impl != model)[0]:
                    chk.violation(F32_SIG if st == "float32" else f"intersects/{kind}/array/regular-point/impl={bool(impl[j])}",
                                  dict(api="PointArray.intersects", kind=kind, subtype=st, shape=seg, point=pts[int(j)], impl=bool(impl[j]), model=bool(model[j])), size=2)
                    break
    chk.count("float32-both-sides")


def run_cases(chk, tier):
    r = common.rng(PROP)
    float32_both_sides(chk, common.rng(PROP + "-f32"), tier)
    tiny_scale(chk, r, tier)
    value_equality(chk, r, tier)
    fam = families(tier)
    for kind in SHAPE_KINDS:
        shapes, points = fam[kind]
        check_family(chk, kind, shapes, points, r, "grid",
                     subtypes=("float64", "int32") if tier == "quick" else ("float64", "float32", "int64", "int32", "int16"))
    rounds = 2 if tier == "quick" else 12
    for k in range(rounds):
        for kind in SHAPE_KINDS:
            mag = r.choice((40, 1000, 30000, 2 ** 20))
            shapes = random_family(kind, r, 20 if tier == "quick" else 60, mag)
            xs = [int(v[0]) for s in shapes for v in geo.verts_of(kind, s)]
            ys = [int(v[1]) for s in shapes for v in geo.verts_of(kind, s)]
            pts = []
            for _ in range(60 if tier == "quick" else 200):
                if r.random() < 0.7:
                    pts.append([r.choice(xs) + r.choice((-1, 0, 0, 1)), r.choice(ys) + r.choice((-1, 0, 0, 1))])
                else:
                    pts.append([r.randint(-2 * mag, 2 * mag), r.randint(-2 * mag, 2 * mag)])
            # points on segments: midpoints of edges with even coordinate sums
            for s in shapes[:10]:
                for ring in geo.rings_of(kind, s):
                    for a, b in zip(ring, ring[1:]):
                        if (a[0] + b[0]) % 2 == 0 and (a[1] + b[1]) % 2 == 0:
                            pts.append([int(a[0] + b[0]) // 2, int(a[1] + b[1]) // 2])
            check_family(chk, kind, shapes, pts, r, f"random{k}",
                         subtypes=("float64",) if tier == "quick" else
                         (("float64", "int64") if mag > 30000 else ("float64", "float32", "int64", "int32")))


def main(tier):
    chk = Check(PROP, tier)
    proof = common.proof_side(PROP, leanchecker=(tier == "thorough"))
    if common.import_impl(chk):
        try:
            run_cases(chk, tier)
        except Exception:  # noqa: BLE001
            import traceback
            chk.tie_broken("correspondence C02: implementation could not be driven: " + traceback.format_exc()[-1500:])
    chk.extra["rule"] = ("every shape of the grid families (C01 families) x every point of the surrounding integer grid, a missing point and "
                         "an all-NaN point at random positions, plus seeded random shapes with points at/next to vertex coordinates and on "
                         "segment midpoints; non-trivial = answer True or sides disagree; distinct by (family, kind, shape, point)")
    chk.assumptions += ["exactly representable coordinates", "valid polygons; points exactly on a polygon ring only compared for form agreement"]
    return chk.finish(proof)


def replay(path):
    rep = json.load(open(path))
    kind, shape, p = rep["kind"], rep["shape"], rep["point"]
    if rep.get("signature") == F32_SIG:
        # both sides in single precision (the scalar taken from an array would be rebuilt in double)
        parr = geo.make_array("point", [p, None], "float32")
        sh = geo.scalar_class(kind)(np.array(shape, dtype="float32"))
    else:
        parr = geo.make_array("point", [p, None], "float64")
        sh = geo.make_array(kind, [shape], rep.get("subtype", "float64"))[0]
    impl = bool(parr.intersects(sh)[0])
    finite = p is not None and all(c == c for c in p)
    model = bool(model_matrix(kind, [shape], [p if finite else None])[0][0])
    print(json.dumps(dict(impl=impl, model=model)))
    return 0 if impl == model else 1
