"""Shared by C10 / C18 / C19: run pack_partitions_to_parquet on the local filesystem through a wrapping fsspec filesystem
that logs every call (and can inject faults / delays), and inspect the resulting directory tree."""
import os
import threading
import time

from fsspec.implementations.local import LocalFileSystem

WRAPPED = ["open", "ls", "makedirs", "mkdir", "rm", "rm_file", "rmdir", "mv", "move", "exists", "isfile", "isdir", "info", "find", "glob", "cat_file",
           "invalidate_cache"]


class Fault(Exception):
    pass


class WrapFS(LocalFileSystem):
    """LocalFileSystem that counts / logs its calls; `plan` maps a call number to a fault kind:
    'oserror' | 'fnf' (raise before the effect), 'stale' / 'stale-last' / 'stale-first' (ls returns a strict subset: without its last entry as
    listed / without the last / first one in name order), 'partial' (open for writing creates a
    truncated file, then raises).  `delay` is a function(call_no, name) -> seconds."""
    cachable = False

    def __init__(self, plan=None, delay=None, only=None, **kw):
        super().__init__(**kw)
        self.plan = dict(plan or {})
        self.delay = delay
        self.only = only            # restrict fault positions to these method names
        self.calls = []
        self._lock = threading.Lock()
        self.fired = []
        self.per_name = {}
        self.opens = []            # (path, mode) of every open
        self.moves = []            # (source, destination) of every move / mv
        self._path_fired = set()

    def _enter(self, name, args):
        with self._lock:
            self.calls.append((name, str(args[0]) if args else ""))
            if name == "open":
                self.opens.append((str(args[0]), str(args[1]) if len(args) > 1 else "rb"))
            if name in ("move", "mv") and len(args) > 1:
                if not self.moves or self.moves[-1] != (str(args[0]), str(args[1])):     # move() calls mv(): log once
                    self.moves.append((str(args[0]), str(args[1])))
            k = len(self.calls)
            j = self.per_name[name] = self.per_name.get(name, 0) + 1
        if self.delay:
            d = self.delay(k, name)
            if d:
                time.sleep(d)
        # a plan key is a global call number or (method name, j) = the j-th call of that method
        kind = self.plan.get(k) or self.plan.get((name, j))
        if kind is None and args:
            # (method name, "@<basename>"): the first call of that method on a path with that last component (independent of the order
            # in which Dask happens to run the tasks)
            key = (name, "@" + os.path.basename(str(args[0]).rstrip("/")))
            if key in self.plan and key not in self._path_fired:
                self._path_fired.add(key)
                kind = self.plan[key]
        if kind in ("stale", "stale-last", "stale-first") and name != "ls":
            kind = None
        if kind == "partial" and not (name == "open" and len(args) > 1 and "w" in str(args[1])):
            kind = None
        if kind and (self.only is None or name in self.only):
            self.fired.append((k, name, kind, str(args[0]) if args else ""))
            return kind
        return None


def _wrap(name):
    base = getattr(LocalFileSystem, name)

    def method(self, *args, **kwargs):
        kind = self._enter(name, args)
        if kind == "oserror":
            raise OSError(f"injected transient fault at call {len(self.calls)} ({name})")
        if kind == "fnf":
            raise FileNotFoundError(f"injected transient fault at call {len(self.calls)} ({name})")
        if kind in ("stale", "stale-last", "stale-first") and name == "ls":
            res = base(self, *args, **kwargs)
            if kind == "stale" or len(res) == 0:
                return res[:-1] if len(res) else res
            # the entry missing from the listing is the last / first one in name order
            key = (lambda e: e["name"] if isinstance(e, dict) else str(e))
            drop = sorted(res, key=key)[-1 if kind == "stale-last" else 0]
            return [e for e in res if e is not drop]
        if kind == "partial" and name == "open" and len(args) > 1 and "w" in str(args[1]):
            with base(self, *args, **kwargs) as fh:
                fh.write(b"PAR1trunc")
            raise OSError(f"injected partial write at call {len(self.calls)}")
        return base(self, *args, **kwargs)
    method.__name__ = name
    return method


for _n in WRAPPED:
    if hasattr(LocalFileSystem, _n):
        setattr(WrapFS, _n, _wrap(_n))


def tree(root):
    """sorted listing of everything under root: ('d'|'f', relative path)"""
    out = []
    if not os.path.exists(root):
        return out
    for dp, dns, fns in os.walk(root):
        for d in dns:
            out.append(("d", os.path.relpath(os.path.join(dp, d), root)))
        for fn in fns:
            out.append(("f", os.path.relpath(os.path.join(dp, fn), root)))
    return sorted(out)


def tempdir_format(mode, root):
    if mode == "inside":
        return None
    if mode == "outside-uuid":
        return os.path.join(root, "scratch_u", "{uuid}", "part.{partition}")
    if mode == "outside-uuid-suffix":
        # the uuid is only a part of a path component
        return os.path.join(root, "scratch_u", "pack-{uuid}.tmp", "sub", "part-{partition}")
    if mode == "outside-sibling":
        # a sibling of the dataset directory whose path string begins with the dataset path
        return os.path.join(root, "out.parq.scratch_s", "part-{partition}")
    return os.path.join(root, "scratch_p", "part-{partition}")


def rows_of(df):
    import json
    import math
    out = []
    geom = [c for c in df.columns if hasattr(df[c].dtype, "subtype")]
    for lab, (_, row) in zip(df.index, df.iterrows()):
        d = {"__h__": int(lab)}
        for c in df.columns:
            v = row[c]
            if c in geom:
                d[c] = "null" if v is None or (isinstance(v, float) and math.isnan(v)) else json.dumps(
                    [float(x) for x in v.flat_values] if not hasattr(v, "listarray") else v.data.as_py())
            else:
                d[c] = float(v) if not isinstance(v, str) else v
        out.append(json.dumps(d, sort_keys=True))
    return out
