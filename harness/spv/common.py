"""Shared machinery of the /verif checks: Lean build + axiom audit, the driver pipe,
correspondence bookkeeping, evidence, known findings, replay files.

Run with /venv/bin/python (spatialpandas is an editable install of /repo, so the working
tree is what gets imported)."""
import hashlib
import json
import os
import random
import re
import subprocess
import sys
import time
import traceback

VERIF = os.path.dirname(os.path.dirname(os.path.dirname(os.path.abspath(__file__))))
LEAN = os.path.join(VERIF, "lean")
DRIVER = os.path.join(LEAN, ".lake", "build", "bin", "driver")
EVIDENCE = os.path.join(VERIF, "evidence")
REPLAYS = os.path.join(VERIF, "replays")
KNOWN = os.path.join(VERIF, "known_findings.json")
REPO = os.environ.get("SPV_REPO", "/repo")
GUARD = "HOLOVIZ_SPATIALPANDAS_VERIF"

ALLOWED_AXIOMS = {"propext", "Classical.choice", "Quot.sound"}
FORBIDDEN = re.compile(
    r"\bsorry\b|\badmit\b|^axiom\s|\bnative_decide\b|\bbv_decide\b|implemented_by|\bunsafe\s|maxHeartbeats\s+0\b"
)


def seed():
    try:
        return int(os.environ.get("VERIF_SEED", "0"))
    except ValueError:
        return 0


def rng(salt=""):
    return random.Random(f"{seed()}:{salt}")


def strip_lean_comments(src):
    """remove /- … -/ (nested) and -- … comments so the forbidden-word grep ignores them"""
    out, i, depth, n = [], 0, 0, len(src)
    while i < n:
        if src.startswith("/-", i):
            depth += 1; i += 2; continue
        if depth and src.startswith("-/", i):
            depth -= 1; i += 2; continue
        if depth:
            if src[i] == "\n":
                out.append("\n")
            i += 1; continue
        if src.startswith("--", i):
            while i < n and src[i] != "\n":
                i += 1
            continue
        out.append(src[i]); i += 1
    return "".join(out)


def run(cmd, cwd=None, timeout=None, input=None, env=None):
    e = dict(os.environ)
    if env:
        e.update(env)
    p = subprocess.run(cmd, cwd=cwd, timeout=timeout, input=input, env=e,
                       stdout=subprocess.PIPE, stderr=subprocess.STDOUT, text=True)
    return p.returncode, p.stdout


# --------------------------------------------------------------------------- proof side

def lean_files_for(prop):
    """Props file of the property + every project file it (transitively) imports."""
    root = os.path.join(LEAN, "SpVerif", "Props", f"{prop}.lean")
    seen, todo = [], [root]
    while todo:
        f = todo.pop()
        if f in seen or not os.path.exists(f):
            continue
        seen.append(f)
        for m in re.findall(r"^import\s+(SpVerif\.[\w.]+)", open(f).read(), re.M):
            todo.append(os.path.join(LEAN, *m.split(".")) + ".lean")
    return seen


def proof_side(prop, extra_modules=(), leanchecker=False):
    """Rebuild the Lean development, audit the theorems `<prop>_*` of Props/<prop>.lean.

    Returns dict(obligations=[names], discharged=[names], problems=[str], axioms={name: [..]},
                 wall_s=float)."""
    t0 = time.time()
    res = dict(obligations=[], discharged=[], problems=[], axioms={}, checker_cmd="")
    # regenerate the tables that are derived from /repo (translator half of the tie)
    try:
        from . import gen_tables
        gen_tables.regenerate()
    except Exception as e:  # noqa: BLE001
        res["problems"].append(f"gen_tables: {e!r}")
    rc, out = run(["lake", "build", "SpVerif", "driver"], cwd=LEAN, timeout=3000)
    res["checker_cmd"] = "cd lean && lake build SpVerif driver && lake env lean <audit: #print axioms of every theorem>"
    build_ok = rc == 0
    if not build_ok:
        res["problems"].append("lake build failed:\n" + "\n".join(
            l for l in out.splitlines() if "error" in l.lower())[:4000])
    props_file = os.path.join(LEAN, "SpVerif", "Props", f"{prop}.lean")
    src = strip_lean_comments(open(props_file).read())
    names = re.findall(r"^\s*theorem\s+(" + prop + r"_\w+)", src, re.M)
    res["obligations"] = names
    # forbidden constructs anywhere in the files the property depends on
    for f in lean_files_for(prop):
        body = strip_lean_comments(open(f).read())
        for ln, line in enumerate(body.splitlines(), 1):
            if FORBIDDEN.search(line):
                res["problems"].append(f"forbidden construct in {os.path.relpath(f, LEAN)}:{ln}: {line.strip()[:80]}")
    if build_ok and names:
        audit = os.path.join(LEAN, ".lake", f"audit_{prop}_{os.getpid()}.lean")
        with open(audit, "w") as fh:
            fh.write(f"import SpVerif.Props.{prop}\n")
            for m in extra_modules:
                fh.write(f"import {m}\n")
            fh.write("open SpVerif\n")
            for n in names:
                fh.write(f"#print axioms {n}\n")
        rc, out = run(["lake", "env", "lean", audit], cwd=LEAN, timeout=1200)
        os.unlink(audit)
        flat = re.sub(r"\s+", " ", out)
        for n in names:
            m = re.search(r"'(?:[\w.]*\.)?" + re.escape(n) + r"' (does not depend on any axioms|depends on axioms: \[([^\]]*)\])", flat)
            if not m:
                res["problems"].append(f"audit: no axiom report for {n}")
                continue
            axs = [] if m.group(2) is None else [a.strip() for a in m.group(2).split(",") if a.strip()]
            res["axioms"][n] = axs
            bad = [a for a in axs if a not in ALLOWED_AXIOMS]
            if bad:
                res["problems"].append(f"audit: {n} depends on non-standard axioms {bad}")
            else:
                res["discharged"].append(n)
        if rc != 0 and not res["problems"]:
            res["problems"].append("audit run failed: " + out[-2000:])
    if leanchecker and build_ok:
        mods = [f"SpVerif.Props.{prop}"]
        rc, out = run(["lake", "env", "leanchecker"] + mods, cwd=LEAN, timeout=3000)
        res["leanchecker"] = "ok" if rc == 0 else "FAILED: " + out[-1500:]
        res["checker_cmd"] += " && lake env leanchecker SpVerif.Props." + prop
        if rc != 0:
            res["problems"].append("leanchecker rejected the compiled module")
    res["wall_s"] = round(time.time() - t0, 2)
    return res


# --------------------------------------------------------------------------- driver

def tok(v):
    """python value -> protocol tokens. None -> N, float nan/inf, ints, nested lists."""
    if v is None:
        return "N"
    if isinstance(v, bool):
        return "1" if v else "0"
    if isinstance(v, str):
        return v
    if isinstance(v, (list, tuple)):
        return "[ " + " ".join(tok(x) for x in v) + " ]" if len(v) else "[ ]"
    try:
        import numpy as np
        if isinstance(v, np.ndarray):
            return tok(v.tolist())
        if isinstance(v, np.generic):
            v = v.item()
    except ImportError:
        pass
    if isinstance(v, float):
        if v != v:
            return "nan"
        if v == float("inf"):
            return "inf"
        if v == float("-inf"):
            return "-inf"
        if v != int(v):
            raise ValueError(f"non-integer float {v!r} cannot be sent to the model")
        return str(int(v))
    return str(int(v))


def untok(s):
    """protocol output line -> python value"""
    toks = s.split()
    pos = 0

    def parse():
        nonlocal pos
        t = toks[pos]; pos += 1
        if t == "[":
            out = []
            while toks[pos] != "]":
                out.append(parse())
            pos += 1
            return out
        if t == "N":
            return None
        if t == "nan":
            return float("nan")
        if t == "inf":
            return float("inf")
        if t == "-inf":
            return float("-inf")
        try:
            return int(t)
        except ValueError:
            return t
    vals = []
    while pos < len(toks):
        vals.append(parse())
    return vals[0] if len(vals) == 1 else vals


def drive(lines):
    """pipe protocol lines through the compiled Lean driver, return output lines"""
    if not lines:
        return []
    if not os.path.exists(DRIVER):
        raise RuntimeError("driver executable missing (run setup_cmd)")
    p = subprocess.run([DRIVER], input="\n".join(lines) + "\n", stdout=subprocess.PIPE,
                       stderr=subprocess.PIPE, text=True, timeout=3000)
    out = p.stdout.split("\n")
    if out and out[-1] == "":
        out.pop()
    if p.returncode != 0 or len(out) != len(lines):
        raise RuntimeError(f"driver failed rc={p.returncode} lines={len(lines)} out={len(out)} err={p.stderr[-500:]}")
    return out


# --------------------------------------------------------------------------- findings / verdicts

def load_known():
    if not os.path.exists(KNOWN):
        return []
    return json.load(open(KNOWN)).get("findings", [])


class Check:
    """bookkeeping of one check run"""

    def __init__(self, prop, tier):
        self.prop, self.tier = prop, tier
        self.t0 = time.time()
        self.evaluations = 0
        self.nontrivial = set()
        self.hist = {}
        self.samples = []
        self.drift = {}
        self.violations = []      # (signature, replay dict)
        self.known_hits = {}
        self.notes = []
        self.assumptions = []
        self.broken_tie = []      # names of theorems/correspondences that no longer check
        self.extra = {}

    # --- counting
    def count(self, branch, n=1):
        self.hist[branch] = self.hist.get(branch, 0) + n

    def evaluated(self, n=1):
        self.evaluations += n

    def nontriv(self, key):
        if len(self.nontrivial) < 2_000_000:
            self.nontrivial.add(key if isinstance(key, (int, str)) else hash(key))

    def sample(self, obj, cap=6):
        if len(self.samples) < cap:
            self.samples.append(obj)

    def drifted(self, what, example=None):
        d = self.drift.setdefault(what, {"count": 0, "example": None})
        d["count"] += 1
        if d["example"] is None:
            d["example"] = example

    # --- violations
    def violation(self, signature, replay, size=0):
        """an in-domain disagreement: implementation output differs from the proved model /
        specification.  `signature` is the structural class used to match known findings."""
        self.violations.append((signature, size, replay))

    def tie_broken(self, what):
        self.broken_tie.append(what)

    def finish(self, proof=None, level="proof"):
        known = load_known()
        kmap = {(k["property"], k["signature"]): k for k in known if k.get("status") == "known"}
        exit_code = 0
        by_sig = {}
        for sig, size, rep in self.violations:
            cur = by_sig.get(sig)
            if cur is None or size < cur[0]:
                by_sig[sig] = (size, rep, (cur[2] if cur else 0) + 1)
            else:
                by_sig[sig] = (cur[0], cur[1], cur[2] + 1)
        os.makedirs(os.path.join(REPLAYS, self.prop), exist_ok=True)
        n_new = 0
        for sig, (size, rep, cnt) in sorted(by_sig.items()):
            if (self.prop, sig) in kmap:
                k = kmap[(self.prop, sig)]
                print(f"KNOWN-FINDING: property={self.prop} {k.get('what', sig)} [{sig}; {cnt} case(s) this run]")
                self.known_hits[sig] = cnt
                continue
            n_new += 1
            body = dict(property=self.prop, signature=sig, seed=seed(), tier=self.tier, count=cnt, **rep)
            h = hashlib.sha1(json.dumps(body, sort_keys=True, default=str).encode()).hexdigest()[:12]
            path = os.path.join(REPLAYS, self.prop, f"{h}.json")
            with open(path, "w") as fh:
                json.dump(body, fh, indent=1, default=str)
            print(f"VIOLATION property={self.prop} replay={path}")
            exit_code = 1
        problems = list(proof["problems"]) if proof else []
        if (problems or self.broken_tie) and n_new == 0:
            # the tie (a proof obligation or the correspondence) no longer checks and the
            # search found no failing input: still a violation, named as such
            body = dict(property=self.prop, signature="tie-broken", seed=seed(), tier=self.tier,
                        no_longer_checks=problems + self.broken_tie,
                        note="no failing input was found by the search; the property is no longer shown to hold")
            h = hashlib.sha1(json.dumps(body, sort_keys=True).encode()).hexdigest()[:12]
            path = os.path.join(REPLAYS, self.prop, f"tie_{h}.json")
            with open(path, "w") as fh:
                json.dump(body, fh, indent=1)
            print(f"VIOLATION property={self.prop} replay={path} no-failing-input-found")
            exit_code = 1
        self.write_evidence(proof, level, n_new)
        return exit_code

    def write_evidence(self, proof, level, n_viol):
        cov = dict(
            evaluations=int(self.evaluations),
            distinct_nontrivial=len(self.nontrivial),
            rule=self.extra.pop("rule", ""),
            samples=self.samples or ["(none)"],
            branch_histogram=self.hist,
            out_of_domain_drift=self.drift,
            known_findings_hit=self.known_hits,
            exhaustive=bool(self.extra.pop("exhaustive", False)),
        )
        if proof is not None:
            cov.update(
                obligations=len(proof["obligations"]),
                discharged=len(proof["discharged"]),
                checker_cmd=proof["checker_cmd"],
                trusted_base=[
                    "Lean 4.33 kernel",
                    "axioms per theorem (audited this run): " + json.dumps(proof["axioms"], sort_keys=True),
                    "hand-written model tied to /repo only by the correspondence counted in evaluations",
                    "python harness (generators, canonicalisation, exact oracles), compiled driver",
                ] + self.extra.pop("trusted_base", []),
                theorems=proof["obligations"],
                proof_problems=proof["problems"],
                proof_wall_s=proof.get("wall_s"),
            )
            if "leanchecker" in proof:
                cov["leanchecker"] = proof["leanchecker"]
        cov.update(self.extra)
        ev = dict(
            property_id=self.prop, tier=self.tier, seed=seed(), level=level, coverage=cov,
            assumptions=self.assumptions, wall_s=round(time.time() - self.t0, 2),
            violations=int(n_viol), notes=self.notes,
        )
        os.makedirs(EVIDENCE, exist_ok=True)
        with open(os.path.join(EVIDENCE, f"{self.prop}.json"), "w") as fh:
            json.dump(ev, fh, indent=1, default=str)


def generic_replay(mod, path):
    """Replay for checks whose cases are generated from the seed: re-run the correspondence half of the check with the
    recorded seed and tier and look for a violation with the recorded signature.  Prints the record and what the re-run found;
    exit code 1 when the violation shows again, 0 when it does not."""
    rep = json.load(open(path))
    print(json.dumps({k: rep[k] for k in rep if k not in ("got", "expected")}, default=str)[:2500])
    if rep.get("signature") in (None, "tie-broken"):
        return 0
    os.environ["VERIF_SEED"] = str(rep.get("seed", 0))
    chk = Check(rep["property"], rep.get("tier", "quick"))
    if not import_impl(chk):
        return 2
    mod.run_cases(chk, rep.get("tier", "quick"))
    same = [v for v in chk.violations if v[0] == rep["signature"]]
    print(json.dumps(dict(rerun_seed=seed(), rerun_tier=rep.get("tier", "quick"), violations_total=len(chk.violations),
                          same_signature=len(same), example=(same[0][-1] if same else None)), default=str)[:2500])
    return 1 if same else 0


def import_impl(chk):
    """import the implementation; failure = the implementation cannot be driven"""
    try:
        import spatialpandas  # noqa: F401
        return True
    except Exception:  # noqa: BLE001
        chk.tie_broken("correspondence: `import spatialpandas` failed:\n" + traceback.format_exc()[-1500:])
        return False


def err_kind(e):
    for k in (IndexError, ValueError, TypeError, KeyError, NotImplementedError, AttributeError, OSError):
        if isinstance(e, k):
            return k.__name__
    return "other:" + type(e).__name__
