"""C07 — the Hilbert curve mapping is a locality-preserving bijection.

Correspondence: hilbert_curve.py (vectorised and scalar entry points) against the Lean
word-level model (`coordN`, `distN`; for n = 2 also `coord2`, `dist2`, the functions the
theorems are about), plus the property's relations checked directly on the
implementation's output (round trip, adjacency, refinement, end points)."""
import json

import numpy as np

from . import common
from .common import Check, drive, tok, untok

PROP = "C07"


def _impl():
    from spatialpandas.spatialindex import hilbert_curve as hc
    return hc


def _exhaustive_scopes(tier):
    cap = 14 if tier == "quick" else 20
    out = []
    for n in (1, 2, 3):
        p = 1
        while n * p <= cap:
            out.append((n, p)); p += 1
    return out


def _sample_scopes(tier, r):
    k = 300 if tier == "quick" else 10000
    out = []
    for n, pmax in ((1, 62), (2, 31), (3, 20)):
        for p in range(1, pmax + 1):
            top = (1 << (n * p)) - 1
            hs = {0, top, top // 2, top // 3, (top // 3) * 2, min(top, 5), min(top, 6)}
            # alternating bit patterns, quadrant corners
            hs |= {int("10" * 31, 2) & top, int("01" * 31, 2) & top}
            for d in range(1, 4):
                hs.add((d << (n * (p - 1))) & top)
                hs.add(((d << (n * (p - 1))) - 1) & top)
            while len(hs) < k and len(hs) <= top:
                hs.add(r.randrange(top + 1))
            out.append((n, p, sorted(hs)))
    return out


def _compare_block(chk, hc, n, p, hs, exhaustive):
    """one (n, p) block: implementation on the vector `hs`, the model on the same lines"""
    h = np.asarray(hs, dtype=np.int64)
    coords = hc.coordinates_from_distances(p, n, h)
    coords_before = coords.copy()
    back = hc.distances_from_coordinates(p, coords)
    chk.evaluated(len(hs))
    if not np.array_equal(coords, coords_before):
        chk.violation("distances_from_coordinates/mutates-input",
                      dict(api="distances_from_coordinates", p=p, n=n, what="input coordinate array modified"))
    # model
    lines = [f"h2c {p} {n} {int(x)}" for x in hs]
    lines += ["c2h %d %s" % (p, tok([int(v) for v in row])) for row in coords_before]
    if n == 2:
        lines += [f"h2c2 {p} {int(x)}" for x in hs]
    out = drive(lines)
    m = len(hs)
    for k in range(m):
        hv = int(hs[k])
        impl_c = [int(v) for v in coords_before[k]]
        model_c = untok(out[k])
        key = (n, p, hv)
        if hv >= (1 << n):
            chk.nontriv(hash(key))
        if impl_c != model_c:
            chk.violation(f"coordinate_from_distance/n={n}/differs-from-model",
                          dict(api="coordinates_from_distances", p=p, n=n, h=hv, impl=impl_c, model=model_c),
                          size=n * p)
        # range
        if any(c < 0 or c >= (1 << p) for c in impl_c):
            chk.violation(f"coordinate_from_distance/n={n}/out-of-range",
                          dict(api="coordinates_from_distances", p=p, n=n, h=hv, impl=impl_c), size=n * p)
        # round trip h -> c -> h on the implementation
        if int(back[k]) != hv:
            chk.violation(f"roundtrip/n={n}/dist(coord(h))!=h",
                          dict(api="distances_from_coordinates∘coordinates_from_distances", p=p, n=n, h=hv,
                               coord=impl_c, back=int(back[k])), size=n * p)
        model_d = untok(out[m + k])
        if int(back[k]) != model_d:
            chk.violation(f"distance_from_coordinate/n={n}/differs-from-model",
                          dict(api="distances_from_coordinates", p=p, n=n, coord=impl_c, impl=int(back[k]),
                               model=model_d), size=n * p)
        if n == 2 and untok(out[2 * m + k]) != model_c:
            chk.tie_broken(f"driver: coordN {p} 2 {hv} ≠ coord2 (general and pair model disagree)")
    chk.count(f"n={n}", m)
    if exhaustive:
        # bijection: every cell exactly once
        cells = set(map(tuple, coords_before.tolist()))
        if len(cells) != len(hs):
            chk.violation(f"bijection/n={n}/cell-visited-twice", dict(api="coordinates_from_distances", p=p, n=n),
                          size=n * p)
        # adjacency of consecutive distances
        d = np.abs(np.diff(coords_before, axis=0))
        bad = np.nonzero(d.sum(axis=1) != 1)[0]
        if len(bad):
            i = int(bad[0])
            chk.violation(f"adjacency/n={n}",
                          dict(api="coordinates_from_distances", p=p, n=n, h=i, c0=coords_before[i].tolist(),
                               c1=coords_before[i + 1].tolist()), size=n * p)
        chk.count("adjacency-pairs", len(hs) - 1)
        # refinement against order p-1
        if p >= 2:
            parent = hc.coordinates_from_distances(p - 1, n, np.arange(1 << (n * (p - 1)), dtype=np.int64))
            want = parent[h >> n]
            got = coords_before >> 1
            bad = np.nonzero((want != got).any(axis=1))[0]
            if len(bad):
                i = int(bad[0])
                chk.violation(f"refinement/n={n}",
                              dict(api="coordinates_from_distances", p=p, n=n, h=i, parent=want[i].tolist(),
                                   child_halved=got[i].tolist()), size=n * p)
            chk.count("refinement-cells", len(hs))
        if n == 2:
            first, last = coords_before[0].tolist(), coords_before[-1].tolist()
            if first != [0, 0] or last != [(1 << p) - 1, 0]:
                chk.violation("endpoints/n=2", dict(api="coordinates_from_distances", p=p, first=first, last=last),
                              size=p)
    return coords_before


def _sampled_relations(chk, hc, n, p, hs):
    """adjacency / refinement on sampled distances (large p)"""
    top = (1 << (n * p)) - 1
    h = np.asarray([x for x in hs if x < top], dtype=np.int64)
    if len(h) == 0:
        return
    a = hc.coordinates_from_distances(p, n, h)
    b = hc.coordinates_from_distances(p, n, h + 1)
    bad = np.nonzero(np.abs(a - b).sum(axis=1) != 1)[0]
    if len(bad):
        i = int(bad[0])
        chk.violation(f"adjacency/n={n}", dict(api="coordinates_from_distances", p=p, n=n, h=int(h[i]),
                                               c0=a[i].tolist(), c1=b[i].tolist()), size=n * p)
    chk.count("adjacency-pairs", len(h))
    if p >= 2:
        par = hc.coordinates_from_distances(p - 1, n, h >> n)
        bad = np.nonzero((par != (a >> 1)).any(axis=1))[0]
        if len(bad):
            i = int(bad[0])
            chk.violation(f"refinement/n={n}", dict(api="coordinates_from_distances", p=p, n=n, h=int(h[i]),
                                                    parent=par[i].tolist(), child_halved=(a[i] >> 1).tolist()),
                          size=n * p)
        chk.count("refinement-cells", len(h))


def _scalar_forms(chk, hc, r, tier):
    k = 200 if tier == "quick" else 3000
    for _ in range(k):
        n = r.choice((1, 2, 3))
        p = r.randrange(1, {1: 62, 2: 31, 3: 20}[n] + 1)
        hv = r.randrange(1 << (n * p))
        c = [int(v) for v in hc.coordinate_from_distance(p, n, hv)]
        v = hc.coordinates_from_distances(p, n, np.asarray([hv], dtype=np.int64))[0].tolist()
        d = int(hc.distance_from_coordinate(p, np.asarray(c, dtype=np.int64)))
        chk.evaluated()
        if c != v or d != hv:
            chk.violation(f"scalar-vs-vector/n={n}", dict(api="coordinate_from_distance", p=p, n=n, h=hv, scalar=c,
                                                          vector=v, scalar_back=d), size=n * p)
    chk.count("scalar-forms", k)


def run_cases(chk, tier):
    hc = _impl()
    r = common.rng(PROP)
    for n, p in _exhaustive_scopes(tier):
        hs = list(range(1 << (n * p)))
        _compare_block(chk, hc, n, p, hs, exhaustive=True)
        chk.sample(dict(kind="exhaustive", n=n, p=p, cells=len(hs)), cap=3)
    for n, p, hs in _sample_scopes(tier, r):
        _compare_block(chk, hc, n, p, hs, exhaustive=False)
        _sampled_relations(chk, hc, n, p, hs)
        if p in (15, 31):
            chk.sample(dict(kind="sampled", n=n, p=p, distances=hs[:4] + hs[-2:]), cap=8)
    _scalar_forms(chk, hc, r, tier)


def main(tier):
    chk = Check(PROP, tier)
    proof = common.proof_side(PROP, leanchecker=(tier == "thorough"))
    if common.import_impl(chk):
        try:
            run_cases(chk, tier)
        except Exception as e:  # noqa: BLE001 — the implementation cannot be driven
            import traceback
            chk.tie_broken("correspondence C07: implementation could not be driven: " + traceback.format_exc()[-1200:])
    chk.extra["rule"] = ("exhaustive over all distances for every (n,p) with n*p <= %d, plus per (n,p<=pmax) a structured+random "
                         "sample; a case (n,p,h) is non-trivial when h >= 2^n (beyond the first cell group)") % (14 if tier == "quick" else 20)
    chk.extra["exhaustive"] = False
    chk.extra["exhaustive_scopes"] = [f"n={n},p={p}" for n, p in _exhaustive_scopes(tier)]
    chk.assumptions += ["int64 arithmetic of the implementation does not overflow for n*p <= 62 (validated only on the sampled cells)",
                        "Lean model is over unbounded Nat"]
    return chk.finish(proof)


def replay(path):
    rep = json.load(open(path))
    hc = _impl()
    p, n = rep.get("p"), rep.get("n", 2)
    if "h" in rep:
        hv = rep["h"]
        c = hc.coordinates_from_distances(p, n, np.asarray([hv, hv + 1], dtype=np.int64)).tolist()
        model = untok(drive([f"h2c {p} {n} {hv}"])[0])
        print(json.dumps(dict(impl=c[0], impl_next=c[1], model=model,
                              back=int(hc.distances_from_coordinates(p, np.asarray([c[0]], dtype=np.int64))[0]))))
        return 0 if c[0] == model else 1
    print("replay: nothing to re-run for this record"); return 0
